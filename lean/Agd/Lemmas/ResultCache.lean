import Agd.Model.ResultCache
/-! Helper lemmas for C12 (core Lean only). -/
namespace Agd.ResultCache

/-! ## Rule-list cache -/

section RL
variable {S R V : Type} [DecidableEq S]

/-- Every cache entry holds the current engine's value (for every requester) of a key that hashes
to its slot and carries its host. -/
def RL.Inv (hash : Key → S) (s : RL S R V) : Prop :=
  ∀ slot it, s.cache slot = some it → ∃ k, hash k = slot ∧ k.host = it.host ∧ ∀ r, it.val = s.engine k r

theorem RL.lookup_current {hash : Key → S} (hok : HashOK hash) {s : RL S R V} (hi : s.Inv hash)
    {k : Key} {v : V} (h : s.lookup hash k = some v) : ∀ r, v = s.engine k r := by
  unfold RL.lookup at h
  split at h
  · split at h
    · rename_i it hc
      split at h
      · rename_i hh
        obtain ⟨k', hk, hh', hv⟩ := hi _ _ hc
        have : k' = k := by
          cases k' with
          | mk h1 s1 =>
            cases k with
            | mk h2 s2 =>
              simp only at hh hh'
              have e1 : h1 = h2 := by rw [hh', hh]
              subst e1
              have := hok h1 s1 s2 hk
              rw [this]
        subst this
        intro r
        simp only [Option.some.injEq] at h
        rw [← h]
        exact hv r
      · simp at h
    · simp at h
  · simp at h

theorem RL.step_query_hit {hash : Key → S} {s : RL S R V} {k : Key} {v : V} (r : R)
    (h : s.lookup hash k = some v) : s.step hash (.query k r) = (s, some v) := by
  simp [RL.step, h]

theorem RL.step_query_miss {hash : Key → S} {s : RL S R V} {k : Key} (r : R)
    (h : s.lookup hash k = none) :
    s.step hash (.query k r) =
      (if s.enabled then { s with cache := s.cache.put (hash k) ⟨s.engine k r, k.host⟩ } else s,
       some (s.engine k r)) := by
  simp [RL.step, h]

theorem RL.step_query_out {hash : Key → S} (hok : HashOK hash) {s : RL S R V} (hi : s.Inv hash)
    (k : Key) (r : R) : (s.step hash (.query k r)).2 = some (s.engine k r) := by
  cases hl : s.lookup hash k with
  | some v => rw [RL.step_query_hit r hl, RL.lookup_current hok hi hl r]
  | none => rw [RL.step_query_miss r hl]

theorem RL.step_inv {hash : Key → S} {s : RL S R V} (hi : s.Inv hash) (hcf : ClientFree s.engine)
    (op : Op S R V) : (s.step hash op).1.Inv hash := by
  cases op with
  | query k r =>
    cases hl : s.lookup hash k with
    | some v => rw [RL.step_query_hit r hl]; exact hi
    | none =>
      rw [RL.step_query_miss r hl]
      simp only
      split
      · intro slot it hc
        simp only [Tbl.put] at hc
        split at hc
        · rename_i hs
          simp only [Option.some.injEq] at hc
          subst hc
          exact ⟨k, hs.symm, rfl, fun r' => hcf k r r'⟩
        · exact hi slot it hc
      · exact hi
  | refresh e =>
    intro slot it hc
    simp [RL.step, Tbl.empty] at hc
  | evict sl =>
    intro slot it hc
    simp only [RL.step, Tbl.del] at hc
    split at hc
    · simp at hc
    · exact hi slot it hc

theorem RL.step_engine_query {hash : Key → S} (s : RL S R V) (k : Key) (r : R) :
    (s.step hash (.query k r)).1.engine = s.engine ∧ (s.step hash (.query k r)).1.enabled = s.enabled := by
  cases hl : s.lookup hash k with
  | some v => rw [RL.step_query_hit r hl]; exact ⟨rfl, rfl⟩
  | none =>
    rw [RL.step_query_miss r hl]
    simp only
    split <;> exact ⟨rfl, rfl⟩

/-- No refresh in the history. -/
def NoRefresh : List (Op S R V) → Prop
  | [] => True
  | .refresh _ :: _ => False
  | _ :: ops => NoRefresh ops

theorem RL.final_noRefresh {hash : Key → S} (ops : List (Op S R V)) :
    ∀ (s : RL S R V), s.Inv hash → ClientFree s.engine → NoRefresh ops →
      (RL.final hash s ops).Inv hash ∧ (RL.final hash s ops).engine = s.engine := by
  induction ops with
  | nil => intro s hi _ _; exact ⟨hi, rfl⟩
  | cons op ops ih =>
    intro s hi hcf hn
    cases op with
    | refresh e => simp [NoRefresh] at hn
    | query k r =>
      have he := (RL.step_engine_query (hash := hash) s k r).1
      have := ih (s.step hash (.query k r)).1 (RL.step_inv hi hcf _) (by rw [he]; exact hcf) (by simpa [NoRefresh] using hn)
      simp only [RL.final]
      exact ⟨this.1, by rw [this.2, he]⟩
    | evict sl =>
      have he : (s.step hash (.evict sl)).1.engine = s.engine := by simp [RL.step]
      have := ih (s.step hash (.evict sl)).1 (RL.step_inv hi hcf _) (by rw [he]; exact hcf) (by simpa [NoRefresh] using hn)
      simp only [RL.final]
      exact ⟨this.1, by rw [this.2, he]⟩

end RL

/-! ## Small-step rule-list filter (RWMutex discipline) -/

section RLS
variable {S R V : Type} [DecidableEq S]

def WPhase.PendingCF : WPhase R V → Prop
  | .idle => True
  | .locked e => ClientFree e
  | .cleared e => ClientFree e

/-- The engine an operation installs (if any) is client-free. -/
def ROp.CF : ROp S R V → Prop
  | .wlock e => ClientFree e
  | _ => True

structure RLS.Inv (hash : Key → S) (s : RLS S R V) : Prop where
  /-- mutual exclusion: while the write lock is held there is no reader -/
  excl : s.writer.isIdle = false → s.readers = []
  cache_ok : ∀ slot it, s.cache slot = some it →
    ∃ k, hash k = slot ∧ k.host = it.host ∧ ∀ r, it.val = s.engine k r
  thr_ok : ∀ t ∈ s.readers, ∀ v, t.phase = some (some v) → v = s.engine t.key t.req
  cleared : ∀ e, s.writer = .cleared e → ∀ slot, s.cache slot = none
  cf : ClientFree s.engine
  pcf : s.writer.PendingCF

theorem mem_of_findR {ts : List (RThread R V)} {tid : Nat} {t : RThread R V}
    (h : findR ts tid = some t) : t ∈ ts := by
  unfold findR at h
  exact List.mem_of_find?_eq_some h

theorem mem_of_mem_dropR {ts : List (RThread R V)} {tid : Nat} {t : RThread R V}
    (h : t ∈ dropR ts tid) : t ∈ ts := by
  unfold dropR at h
  exact (List.mem_filter.mp h).1

theorem RLS.init_inv (hash : Key → S) (e : Key → R → V) (he : ClientFree e) :
    (RLS.init e : RLS S R V).Inv hash :=
  ⟨by intro h; rfl, by intro slot it h; simp [RLS.init, Tbl.empty] at h,
   by intro t h; simp [RLS.init] at h, by intro e' h; simp [RLS.init] at h, he, trivial⟩

theorem RLS.lookup_current {hash : Key → S} (hok : HashOK hash) {s : RLS S R V} (hi : s.Inv hash)
    {k : Key} {v : V} (h : s.lookup hash k = some v) : ∀ r, v = s.engine k r := by
  unfold RLS.lookup at h
  split at h
  · rename_i it hc
    split at h
    · rename_i hh
      obtain ⟨k', hk, hh', hv⟩ := hi.cache_ok _ _ hc
      have : k' = k := by
        cases k' with
        | mk h1 s1 =>
          cases k with
          | mk h2 s2 =>
            simp only at hh hh'
            have e1 : h1 = h2 := by rw [hh', hh]
            subst e1
            have := hok h1 s1 s2 hk
            rw [this]
      subst this
      intro r
      simp only [Option.some.injEq] at h
      rw [← h]
      exact hv r
    · simp at h
  · simp at h

theorem RLS.step_inv {hash : Key → S} {s : RLS S R V} (hi : s.Inv hash) (op : ROp S R V)
    (hop : op.CF) : (s.step true hash op).1.Inv hash := by
  cases op with
  | rlock tid k r =>
    simp only [RLS.step, Bool.true_and]
    split
    · exact hi
    · rename_i hw
      have hidle : s.writer.isIdle = true := by simpa using hw
      refine ⟨?_, hi.cache_ok, ?_, hi.cleared, hi.cf, hi.pcf⟩
      · intro h; simp [hidle] at h
      · intro t ht v hv
        rcases List.mem_cons.mp ht with h | h
        · subst h; simp at hv
        · exact hi.thr_ok t (mem_of_mem_dropR h) v hv
  | get tid =>
    simp only [RLS.step]
    split
    · rename_i t hf
      have htm := mem_of_findR hf
      split
      · split
        · refine ⟨?_, hi.cache_ok, ?_, hi.cleared, hi.cf, hi.pcf⟩
          · intro h
            have := hi.excl h
            simp [this, dropR]
          · intro t' ht' v hv
            exact hi.thr_ok t' (mem_of_mem_dropR ht') v hv
        · refine ⟨?_, hi.cache_ok, ?_, hi.cleared, hi.cf, hi.pcf⟩
          · intro h
            have := hi.excl h
            rw [this] at htm
            simp at htm
          · intro t' ht' v hv
            rcases List.mem_cons.mp ht' with h | h
            · subst h; simp at hv
            · exact hi.thr_ok t' (mem_of_mem_dropR h) v hv
      · exact hi
    · exact hi
  | mtch tid =>
    simp only [RLS.step]
    split
    · rename_i t hf
      have htm := mem_of_findR hf
      split
      · refine ⟨?_, hi.cache_ok, ?_, hi.cleared, hi.cf, hi.pcf⟩
        · intro h
          have := hi.excl h
          rw [this] at htm
          simp at htm
        · intro t' ht' v hv
          rcases List.mem_cons.mp ht' with h | h
          · subst h
            simp only [Option.some.injEq] at hv
            exact hv.symm
          · exact hi.thr_ok t' (mem_of_mem_dropR h) v hv
      · exact hi
    · exact hi
  | set tid =>
    simp only [RLS.step]
    split
    · rename_i t hf
      have htm := mem_of_findR hf
      split
      · rename_i v hph
        have hv := hi.thr_ok t htm v hph
        have hne : s.writer.isIdle = true := by
          cases hw : s.writer.isIdle with
          | true => rfl
          | false =>
            have := hi.excl hw
            rw [this] at htm
            simp at htm
        refine ⟨?_, ?_, ?_, ?_, hi.cf, hi.pcf⟩
        · intro h; simp [hne] at h
        · intro slot it hc
          simp only [Tbl.put] at hc
          split at hc
          · rename_i hs
            simp only [Option.some.injEq] at hc
            subst hc
            refine ⟨t.key, hs.symm, rfl, ?_⟩
            intro r
            simp only
            rw [hv]
            exact hi.cf t.key t.req r
          · exact hi.cache_ok slot it hc
        · intro t' ht' v' hv'
          exact hi.thr_ok t' (mem_of_mem_dropR ht') v' hv'
        · intro e he
          simp only at he
          rw [he] at hne
          simp [WPhase.isIdle] at hne
      · exact hi
    · exact hi
  | wlock e =>
    simp only [RLS.step, Bool.true_and]
    split
    · split
      · exact hi
      · rename_i hw hr
        have hre : s.readers = [] := by simpa using hr
        refine ⟨fun _ => hre, hi.cache_ok, hi.thr_ok, ?_, hi.cf, hop⟩
        intro e' he'
        simp at he'
    · exact hi
  | wclear =>
    simp only [RLS.step]
    split
    · rename_i e hw
      have hre : s.readers = [] := hi.excl (by rw [hw]; rfl)
      have hp := hi.pcf
      rw [hw] at hp
      refine ⟨fun _ => hre, ?_, hi.thr_ok, ?_, hi.cf, hp⟩
      · intro slot it hc; simp [Tbl.empty] at hc
      · intro e' _ slot; rfl
    · exact hi
  | wswap =>
    simp only [RLS.step]
    split
    · rename_i e hw
      have hre : s.readers = [] := hi.excl (by rw [hw]; rfl)
      have hp := hi.pcf
      rw [hw] at hp
      have hcl := hi.cleared e hw
      refine ⟨?_, ?_, ?_, ?_, hp, trivial⟩
      · intro h; simp [WPhase.isIdle] at h
      · intro slot it hc
        simp only at hc
        rw [hcl slot] at hc
        simp at hc
      · intro t ht
        simp only at ht
        rw [hre] at ht
        simp at ht
      · intro e' he'
        simp at he'
    · exact hi
  | evict sl =>
    refine ⟨hi.excl, ?_, hi.thr_ok, ?_, hi.cf, hi.pcf⟩
    · intro slot it hc
      simp only [RLS.step, Tbl.del] at hc
      split at hc
      · simp at hc
      · exact hi.cache_ok slot it hc
    · intro e he slot
      simp only [RLS.step, Tbl.del]
      split
      · rfl
      · exact hi.cleared e he slot

theorem RLS.final_inv {hash : Key → S} (ops : List (ROp S R V)) :
    ∀ (s : RLS S R V), s.Inv hash → ROpsClientFree ops → (RLS.final true hash s ops).Inv hash := by
  induction ops with
  | nil => intro s hi _; exact hi
  | cons op ops ih =>
    intro s hi hops
    cases op with
    | wlock e => exact ih _ (RLS.step_inv hi (.wlock e) hops.1) hops.2
    | rlock tid k r => exact ih _ (RLS.step_inv hi (.rlock tid k r) trivial) hops
    | get tid => exact ih _ (RLS.step_inv hi (.get tid) trivial) hops
    | mtch tid => exact ih _ (RLS.step_inv hi (.mtch tid) trivial) hops
    | set tid => exact ih _ (RLS.step_inv hi (.set tid) trivial) hops
    | wclear => exact ih _ (RLS.step_inv hi .wclear trivial) hops
    | wswap => exact ih _ (RLS.step_inv hi .wswap trivial) hops
    | evict sl => exact ih _ (RLS.step_inv hi (.evict sl) trivial) hops

/-- Whatever a step returns to a lookup is the current engine's answer for that lookup. -/
theorem RLS.step_out {hash : Key → S} (hok : HashOK hash) {s : RLS S R V} (hi : s.Inv hash)
    (op : ROp S R V) {v : V} (h : (s.step true hash op).2 = some v) :
    ∃ t ∈ s.readers, v = s.engine t.key t.req := by
  cases op with
  | get tid =>
    simp only [RLS.step] at h
    split at h
    · rename_i t hf
      split at h
      · split at h
        · rename_i v' hl
          simp only [Option.some.injEq] at h
          subst h
          exact ⟨t, mem_of_findR hf, RLS.lookup_current hok hi hl t.req⟩
        · simp at h
      · simp at h
    · simp at h
  | set tid =>
    simp only [RLS.step] at h
    split at h
    · rename_i t hf
      split at h
      · rename_i v' hph
        simp only [Option.some.injEq] at h
        subst h
        exact ⟨t, mem_of_findR hf, hi.thr_ok t (mem_of_findR hf) _ hph⟩
      · simp at h
    · simp at h
  | rlock tid k r => simp only [RLS.step] at h; split at h <;> simp at h
  | mtch tid =>
    simp only [RLS.step] at h
    split at h
    · split at h <;> simp at h
    · simp at h
  | wlock e =>
    simp only [RLS.step] at h
    split at h
    · split at h <;> simp at h
    · simp at h
  | wclear => simp only [RLS.step] at h; split at h <;> simp at h
  | wswap => simp only [RLS.step] at h; split at h <;> simp at h
  | evict sl => simp [RLS.step] at h

/-- No refresh starts in the history. -/
def NoWlock : List (ROp S R V) → Prop
  | [] => True
  | .wlock _ :: _ => False
  | _ :: ops => NoWlock ops

theorem NoWlock.cf : ∀ (ops : List (ROp S R V)), NoWlock ops → ROpsClientFree ops
  | [], _ => trivial
  | .wlock _ :: _, h => by simp [NoWlock] at h
  | .rlock _ _ _ :: ops, h => NoWlock.cf ops (by simpa [NoWlock] using h)
  | .get _ :: ops, h => NoWlock.cf ops (by simpa [NoWlock] using h)
  | .mtch _ :: ops, h => NoWlock.cf ops (by simpa [NoWlock] using h)
  | .set _ :: ops, h => NoWlock.cf ops (by simpa [NoWlock] using h)
  | .wclear :: ops, h => NoWlock.cf ops (by simpa [NoWlock] using h)
  | .wswap :: ops, h => NoWlock.cf ops (by simpa [NoWlock] using h)
  | .evict _ :: ops, h => NoWlock.cf ops (by simpa [NoWlock] using h)

/-- Without a new refresh an idle writer stays idle and the engine stays. -/
theorem RLS.final_noWlock {hash : Key → S} (ops : List (ROp S R V)) :
    ∀ (s : RLS S R V), s.writer = .idle → NoWlock ops →
      (RLS.final true hash s ops).engine = s.engine ∧ (RLS.final true hash s ops).writer = .idle := by
  induction ops with
  | nil => intro s hw _; exact ⟨rfl, hw⟩
  | cons op ops ih =>
    intro s hw hn
    have key : (s.step true hash op).1.engine = s.engine ∧ (s.step true hash op).1.writer = .idle := by
      cases op with
      | wlock e => simp [NoWlock] at hn
      | rlock tid k r => simp only [RLS.step]; split <;> exact ⟨rfl, hw⟩
      | get tid =>
        simp only [RLS.step]
        split
        · split
          · split <;> exact ⟨rfl, hw⟩
          · exact ⟨rfl, hw⟩
        · exact ⟨rfl, hw⟩
      | mtch tid =>
        simp only [RLS.step]
        split
        · split <;> exact ⟨rfl, hw⟩
        · exact ⟨rfl, hw⟩
      | set tid =>
        simp only [RLS.step]
        split
        · split <;> exact ⟨rfl, hw⟩
        · exact ⟨rfl, hw⟩
      | wclear => simp [RLS.step, hw]
      | wswap => simp [RLS.step, hw]
      | evict sl => exact ⟨rfl, hw⟩
    have hn' : NoWlock ops := by
      cases op <;> simp_all [NoWlock]
    have := ih _ key.2 hn'
    simp only [RLS.final]
    exact ⟨by rw [this.1, key.1], this.2⟩

end RLS

/-- Quiescent small-step state that corresponds to an atomic state. -/
def RLS.Sim {S R V : Type} (sm : RLS S R V) (s : RL S R V) : Prop :=
  sm.engine = s.engine ∧ sm.cache = s.cache ∧ sm.readers = [] ∧ sm.writer = .idle ∧ s.enabled = true

theorem RLS.atomic_sim {S R V : Type} [DecidableEq S] (hash : Key → S) {sm : RLS S R V} {s : RL S R V}
    (h : sm.Sim s) (op : Op S R V) :
    (sm.atomic hash op).2 = (s.step hash op).2 ∧ (sm.atomic hash op).1.Sim (s.step hash op).1 := by
  obtain ⟨he, hc, hr, hw, hen⟩ := h
  cases op with
  | query k r =>
    cases hl : s.lookup hash k with
    | some v =>
      simp only [RLS.atomic, RLS.step, hw, hr, WPhase.isIdle, dropR, findR, RLS.lookup, RL.step, hl]
      simp only [RL.lookup, hen, if_true] at hl
      simp [hc, hl, RLS.Sim, he, hen]
    | none =>
      simp only [RLS.atomic, RLS.step, hw, hr, WPhase.isIdle, dropR, findR, RLS.lookup, RL.step, hl]
      simp only [RL.lookup, hen, if_true] at hl
      simp [hc, hl, RLS.Sim, he, hen]
  | refresh e => simp [RLS.atomic, RLS.step, hw, hr, RL.step, RLS.Sim, hen]
  | evict sl => simp [RLS.atomic, RLS.step, RL.step, RLS.Sim, he, hc, hr, hw, hen]


/-! ## Hash-prefix filter -/

theorem mem_of_findThread {ts : List Thread} {tid : Nat} {t : Thread} (h : findThread ts tid = some t) :
    t ∈ ts := by
  unfold findThread at h
  exact List.mem_of_find?_eq_some h

theorem mem_of_mem_dropThread {ts : List Thread} {tid : Nat} {t : Thread} (h : t ∈ dropThread ts tid) :
    t ∈ ts := by
  unfold dropThread at h
  exact (List.mem_filter.mp h).1

section HP
variable {S : Type} [DecidableEq S]

structure HP.Inv (subs : String → List String) (s : HP S) : Prop where
  cache_ok : s.pending = 0 → ∀ slot it, s.cache slot = some it → it.matched = matchOf subs s.store it.host
  gen_le : ∀ t ∈ s.threads, t.gen ≤ s.gen
  thr_ok : s.pending = 0 → ∀ t ∈ s.threads, t.gen = s.gen → ∀ m, t.matched = some m →
    m = matchOf subs s.store t.key.host

theorem HP.init_inv (subs : String → List String) : (HP.init : HP S).Inv subs :=
  ⟨by intro _ slot it h; simp [HP.init, Tbl.empty] at h, by intro t h; simp [HP.init] at h,
   by intro _ t h; simp [HP.init] at h⟩

theorem HP.step_inv (subs : String → List String) (rep : Rep) (hash : Key → S) {s : HP S}
    (hi : s.Inv subs) (op : HOp S) : (s.step true subs rep hash op).1.Inv subs := by
  cases op with
  | begin tid k r =>
    simp only [HP.step]
    split
    · exact hi
    · split
      · exact hi
      · refine ⟨hi.cache_ok, ?_, ?_⟩
        · intro t ht
          rcases List.mem_cons.mp ht with h | h
          · subst h; exact Nat.le_refl _
          · exact hi.gen_le t (mem_of_mem_dropThread h)
        · intro hp t ht hg m hm
          rcases List.mem_cons.mp ht with h | h
          · subst h; simp at hm
          · exact hi.thr_ok hp t (mem_of_mem_dropThread h) hg m hm
  | mtch tid =>
    simp only [HP.step]
    split
    · rename_i t hf
      have htm := mem_of_findThread hf
      refine ⟨hi.cache_ok, ?_, ?_⟩
      · intro t' ht
        rcases List.mem_cons.mp ht with h | h
        · subst h; exact hi.gen_le t htm
        · exact hi.gen_le t' (mem_of_mem_dropThread h)
      · intro hp t' ht hg m hm
        rcases List.mem_cons.mp ht with h | h
        · subst h
          simp only [Option.some.injEq] at hm
          exact hm.symm
        · exact hi.thr_ok hp t' (mem_of_mem_dropThread h) hg m hm
    · exact hi
  | finish tid =>
    simp only [HP.step]
    split
    · rename_i t hf
      have htm := mem_of_findThread hf
      split
      · rename_i m hm
        refine ⟨?_, ?_, ?_⟩
        · intro hp slot it hc
          simp only [Bool.not_true, Bool.false_or, decide_eq_true_eq] at hc
          split at hc
          · rename_i hg
            simp only [Tbl.put] at hc
            split at hc
            · simp only [Option.some.injEq] at hc
              subst hc
              exact hi.thr_ok hp t htm hg m hm
            · exact hi.cache_ok hp slot it hc
          · exact hi.cache_ok hp slot it hc
        · intro t' ht
          exact hi.gen_le t' (mem_of_mem_dropThread ht)
        · intro hp t' ht hg m' hm'
          exact hi.thr_ok hp t' (mem_of_mem_dropThread ht) hg m' hm'
      · exact hi
    · exact hi
  | store hosts =>
    refine ⟨?_, hi.gen_le, ?_⟩
    · intro hp; simp [HP.step] at hp
    · intro hp; simp [HP.step] at hp
  | clear =>
    simp only [HP.step]
    split
    · exact hi
    · refine ⟨?_, ?_, ?_⟩
      · intro _ slot it hc; simp [Tbl.empty] at hc
      · intro t ht
        exact Nat.le_succ_of_le (hi.gen_le t ht)
      · intro _ t ht hg
        have := hi.gen_le t ht
        simp only at hg
        omega
  | evict sl =>
    refine ⟨?_, hi.gen_le, hi.thr_ok⟩
    intro hp slot it hc
    simp only [HP.step, Tbl.del] at hc
    split at hc
    · simp at hc
    · exact hi.cache_ok hp slot it hc

theorem HP.final_inv (subs : String → List String) (rep : Rep) (hash : Key → S) (ops : List (HOp S)) :
    ∀ (s : HP S), s.Inv subs → (HP.final true subs rep hash s ops).Inv subs := by
  induction ops with
  | nil => intro s hi; exact hi
  | cons op ops ih => intro s hi; exact ih _ (HP.step_inv subs rep hash hi op)

theorem HP.lookup_fresh (subs : String → List String) (hash : Key → S) {s : HP S} (hi : s.Inv subs)
    (hp : s.pending = 0) {k : Key} {it : HItem} (h : s.lookup hash k = some it) :
    it.matched = matchOf subs s.store k.host := by
  unfold HP.lookup at h
  split at h
  · rename_i it' hc
    split at h
    · rename_i hh
      simp only [Option.some.injEq] at h
      subst h
      rw [← hh]
      exact hi.cache_ok hp _ _ hc
    · simp at h
  · simp at h

theorem findThread_cons_self (t : Thread) (ts : List Thread) : findThread (t :: ts) t.tid = some t := by
  simp [findThread]

theorem HP.query_spec (subs : String → List String) (rep : Rep) (hash : Key → S) {s : HP S}
    (hi : s.Inv subs) (hp : s.pending = 0) (k : Key) (r : Req) :
    (s.query true subs rep hash k r).2 = s.fresh subs rep k r ∧
      (s.query true subs rep hash k r).1.Inv subs ∧ (s.query true subs rep hash k r).1.pending = 0 ∧
      (s.query true subs rep hash k r).1.store = s.store := by
  unfold HP.query HP.fresh
  by_cases hf : filterable r.qt = true
  · cases hl : s.lookup hash k with
    | some it =>
      have := HP.lookup_fresh subs hash hi hp hl
      simp [HP.step, hf, hl, this, hi, hp]
    | none =>
      have e1 : (s.step true subs rep hash (.begin 0 k r)) =
          ({ s with threads := { tid := 0, key := k, req := r, gen := s.gen, matched := none } :: dropThread s.threads 0 }, none) := by
        simp [HP.step, hf, hl]
      have i1 := HP.step_inv subs rep hash hi (.begin 0 k r)
      rw [e1] at i1
      simp only [e1]
      have f1 := findThread_cons_self { tid := 0, key := k, req := r, gen := s.gen, matched := none } (dropThread s.threads 0)
      simp only at f1
      have i2 := HP.step_inv subs rep hash i1 (.mtch 0)
      have e2 : (HP.step true subs rep hash
            { s with threads := { tid := 0, key := k, req := r, gen := s.gen, matched := none } :: dropThread s.threads 0 }
            (.mtch 0)) =
          ({ s with threads := { tid := 0, key := k, req := r, gen := s.gen, matched := some (matchOf subs s.store k.host) } ::
              dropThread ({ tid := 0, key := k, req := r, gen := s.gen, matched := none } :: dropThread s.threads 0) 0 }, none) := by
        simp [HP.step, f1]
      rw [e2] at i2
      simp only [e2]
      have f2 := findThread_cons_self { tid := 0, key := k, req := r, gen := s.gen, matched := some (matchOf subs s.store k.host) }
        (dropThread ({ tid := 0, key := k, req := r, gen := s.gen, matched := none } :: dropThread s.threads 0) 0)
      simp only at f2
      have i3 := HP.step_inv subs rep hash i2 (.finish 0)
      refine ⟨?_, ?_, ?_, ?_⟩
      · simp [HP.step, f2, hf]
      · simpa [HP.step, f2] using i3
      · simp [HP.step, f2, hp]
      · simp [HP.step, f2]
  · have hf' : filterable r.qt = false := by simpa using hf
    simp [HP.step, hf', hi, hp]


theorem HP.refresh_spec (subs : String → List String) (rep : Rep) (hash : Key → S) {s : HP S}
    (hi : s.Inv subs) (hp : s.pending = 0) (hosts : List String) :
    let s' := ((s.step true subs rep hash (.store hosts)).1.step true subs rep hash .clear).1
    s'.Inv subs ∧ s'.pending = 0 ∧ s'.store = hosts := by
  intro s'
  have i1 := HP.step_inv subs rep hash hi (.store hosts)
  have i2 := HP.step_inv subs rep hash i1 .clear
  refine ⟨i2, ?_, ?_⟩
  · simp [s', HP.step, hp]
  · simp [s', HP.step, hp]

end HP

/-! ## Custom-filter cache -/

/-- Every cached engine was built from a configuration seen earlier for that profile. -/
def CU.Inv (seen : List Conf) (s : CU) : Prop :=
  ∀ id it, s id = some it → ∃ c ∈ seen, c.id = id ∧ c.upd = it.upd ∧ c.rules = it.rules

structure CUS.Inv (seen : List Conf) (s : CUS) : Prop where
  cache_ok : ∀ id it, s.cache id = some it → ∃ c ∈ seen, c.id = id ∧ c.upd = it.upd ∧ c.rules = it.rules
  thr_ok : ∀ t ∈ s.threads, t.conf ∈ seen

theorem CUS.Inv.mono {seen : List Conf} {s : CUS} (c : Conf) (hi : s.Inv seen) : s.Inv (c :: seen) :=
  ⟨fun id it h => by
      obtain ⟨c', hm, h1, h2, h3⟩ := hi.cache_ok id it h
      exact ⟨c', List.mem_cons_of_mem _ hm, h1, h2, h3⟩,
   fun t ht => List.mem_cons_of_mem _ (hi.thr_ok t ht)⟩

/-- The configurations a step adds to the history. -/
def CSOp.seenAfter (seen : List Conf) : CSOp → List Conf
  | .get _ c => c :: seen
  | _ => seen

theorem CUS.step_inv {seen : List Conf} {s : CUS} (hi : s.Inv seen) (op : CSOp) :
    (s.step op).1.Inv (op.seenAfter seen) := by
  cases op with
  | get tid c =>
    have hm := hi.mono c
    have hadd : CUS.Inv (c :: seen)
        { s with threads := ⟨tid, c⟩ :: s.threads.filter (fun t => t.tid ≠ tid) } := by
      refine ⟨hm.cache_ok, ?_⟩
      intro t ht
      rcases List.mem_cons.mp ht with h | h
      · subst h; exact List.mem_cons_self
      · exact hm.thr_ok t (List.mem_filter.mp h).1
    simp only [CUS.step, CSOp.seenAfter]
    split
    · exact hm
    · split
      · split
        · exact hadd
        · exact hm
      · exact hadd
  | set tid =>
    simp only [CUS.step, CSOp.seenAfter]
    split
    · rename_i t hf
      have htm : t ∈ s.threads := List.mem_of_find?_eq_some hf
      refine ⟨?_, ?_⟩
      · intro id it hc
        simp only [Tbl.put] at hc
        split at hc
        · rename_i hid
          simp only [Option.some.injEq] at hc
          subst hc
          exact ⟨t.conf, hi.thr_ok t htm, hid.symm, rfl, rfl⟩
        · exact hi.cache_ok id it hc
      · intro t' ht'
        exact hi.thr_ok t' (List.mem_filter.mp ht').1
    · exact hi
  | evict id =>
    refine ⟨?_, hi.thr_ok⟩
    intro id' it hc
    simp only [CUS.step, Tbl.del] at hc
    split at hc
    · simp at hc
    · exact hi.cache_ok id' it hc

/-! ## Synchronisation pipeline → custom-filter stamps -/

/-- `x` is older than every stamp a later `Profiles` call can put on a profile. -/
def Sync.Older (stamp : Stamp) (s : Sync) (x : Int) : Prop :=
  ∀ now' req', s.now < now' → x < stamp now' req'

structure Sync.Inv (stamp : Stamp) (s : Sync) : Prop where
  db_ok : ∀ id c, s.db id = some c → c.id = id ∧ s.Older stamp c.upd
  file_ok : ∀ id c, s.file id = some c → c.id = id ∧ s.Older stamp c.upd
  cache_ok : ∀ id it, s.cache id = some it →
    s.Older stamp it.upd ∧ ∀ c, s.db id = some c → it.upd = c.upd → it.rules = c.rules

theorem Sync.init_inv (stamp : Stamp) : Sync.init.Inv stamp :=
  ⟨by intro id c h; simp [Sync.init, Tbl.empty] at h, by intro id c h; simp [Sync.init, Tbl.empty] at h,
   by intro id it h; simp [Sync.init, Tbl.empty] at h⟩

theorem delivered_id {backend : List BProf} {full : Bool} {req : Int} {id : String} {p : BProf}
    (h : delivered backend full req id = some p) : p.id = id := by
  have := List.find?_some h
  simp only [Bool.and_eq_true, beq_iff_eq] at this
  exact this.1

/-- A request looks at the cache entry of its own profile only and leaves a usable entry behind. -/
theorem Sync.query_out {stamp : Stamp} {s : Sync} (hi : s.Inv stamp) (id : String) :
    (s.step stamp (.query id)).2 = s.fresh id := by
  simp only [Sync.step, Sync.fresh]
  split
  · rename_i c hc
    simp only [CU.step, cuFresh]
    split
    · rfl
    · split
      · rename_i it hit
        split
        · rfl
        · rename_i hlt
          have hid := (hi.db_ok id c hc).1
          rw [hid] at hit
          rw [(hi.cache_ok id it hit).2 c hc (Decidable.not_not.mp hlt)]
      · rfl
  · rfl

theorem Sync.step_inv {stamp : Stamp} (hs : StrictStamp stamp) {s : Sync} (hi : s.Inv stamp) (op : YOp)
    (hb : ∀ back, op = .restart back → back = 0) :
    (s.step stamp op).1.Inv stamp := by
  cases op with
  | change id rules dt => exact ⟨hi.db_ok, hi.file_ok, hi.cache_ok⟩
  | restart back =>
    have h0 : back = 0 := hb back rfl
    subst h0
    have hnow : s.now - ((0 : Nat) : Int) = s.now := by omega
    refine ⟨?_, ?_, ?_⟩
    · intro id c h
      have := hi.file_ok id c h
      refine ⟨this.1, ?_⟩
      intro now' req' hn
      simp only [Sync.step, hnow] at hn
      exact this.2 now' req' hn
    · intro id c h
      have := hi.file_ok id c h
      refine ⟨this.1, ?_⟩
      intro now' req' hn
      simp only [Sync.step, hnow] at hn
      exact this.2 now' req' hn
    · intro id it h
      simp [Sync.step, Tbl.empty] at h
  | evict id =>
    refine ⟨hi.db_ok, hi.file_ok, ?_⟩
    intro id' it h
    simp only [Sync.step, Tbl.del] at h
    split at h
    · simp at h
    · exact hi.cache_ok id' it h
  | query id =>
    simp only [Sync.step]
    split
    · rename_i c hc
      have hcid := (hi.db_ok id c hc).1
      have hcold := (hi.db_ok id c hc).2
      have hput : Sync.Inv stamp { s with cache := Tbl.put s.cache c.id ⟨c.upd, c.rules⟩ } := by
        refine ⟨hi.db_ok, hi.file_ok, ?_⟩
        intro id' it h
        simp only [Tbl.put] at h
        split at h
        · rename_i heq
          simp only [Option.some.injEq] at h
          subst h
          refine ⟨hcold, ?_⟩
          intro c' hc' _
          have : id' = id := by rw [heq, hcid]
          rw [this, hc] at hc'
          simp only [Option.some.injEq] at hc'
          rw [hc']
        · exact hi.cache_ok id' it h
      simp only [CU.step]
      split
      · exact hi
      · split
        · split
          · exact hput
          · exact hi
        · exact hput
    · exact hi
  | sync full dt =>
    have hlt : s.now < s.now + dt + 1 := by omega
    have older_mono : ∀ x, s.Older stamp x →
        ∀ now' req', s.now + dt + 1 < now' → x < stamp now' req' := by
      intro x hx now' req' h
      exact hx now' req' (by omega)
    have hdb : ∀ id c,
        (match delivered s.backend full (if full then 0 else s.syncTime) id with
          | some p => some (confOf p (stamp (s.now + dt + 1) (if full then 0 else s.syncTime)))
          | none => if full then none else s.db id) = some c →
        c.id = id ∧ ∀ now' req', s.now + dt + 1 < now' → c.upd < stamp now' req' := by
      intro id c h
      split at h
      · rename_i p hp
        simp only [Option.some.injEq] at h
        subst h
        exact ⟨delivered_id hp, fun now' req' hn => hs _ _ _ _ hn⟩
      · split at h
        · simp at h
        · exact ⟨(hi.db_ok id c h).1, older_mono _ (hi.db_ok id c h).2⟩
    refine ⟨?_, ?_, ?_⟩
    · intro id c h
      exact hdb id c h
    · intro id c h
      simp only [Sync.step] at h
      split at h
      · rename_i hf
        subst hf
        exact hdb id c h
      · exact ⟨(hi.file_ok id c h).1, older_mono _ (hi.file_ok id c h).2⟩
    · intro id it h
      have hc := hi.cache_ok id it h
      refine ⟨older_mono _ hc.1, ?_⟩
      intro c hdbc hn
      simp only [Sync.step] at hdbc
      split at hdbc
      · rename_i p hp
        simp only [Option.some.injEq] at hdbc
        subst hdbc
        have := hc.1 _ (if full then 0 else s.syncTime) hlt
        simp only [confOf] at hn
        omega
      · split at hdbc
        · simp at hdbc
        · exact hc.2 c hdbc hn

theorem NoSetBack.head {op : YOp} {ops : List YOp} (h : NoSetBack (op :: ops)) :
    (∀ back, op = .restart back → back = 0) ∧ NoSetBack ops := by
  cases op with
  | restart back => exact ⟨fun b hb => (by cases hb; exact h.1), h.2⟩
  | change id rules dt => exact ⟨fun b hb => (by cases hb), h⟩
  | sync full dt => exact ⟨fun b hb => (by cases hb), h⟩
  | query id => exact ⟨fun b hb => (by cases hb), h⟩
  | evict id => exact ⟨fun b hb => (by cases hb), h⟩

theorem NoSetBack.append : ∀ {ops ops' : List YOp}, NoSetBack ops → NoSetBack ops' → NoSetBack (ops ++ ops')
  | [], _, _, h' => h'
  | op :: ops, ops', h, h' => by
    have ih := NoSetBack.append (NoSetBack.head h).2 h'
    cases op <;> simp only [List.cons_append, NoSetBack] at h ⊢
    all_goals first | exact ih | exact ⟨h.1, ih⟩

theorem Sync.final_inv {stamp : Stamp} (hs : StrictStamp stamp) (ops : List YOp) (hb : NoSetBack ops) {s : Sync}
    (hi : s.Inv stamp) : (Sync.final stamp s ops).Inv stamp := by
  induction ops generalizing s with
  | nil => exact hi
  | cons op ops ih => exact ih (NoSetBack.head hb).2 (Sync.step_inv hs hi op (NoSetBack.head hb).1)

/-! ### The same pipeline when the clock may be set back across a restart -/

/-- What the fixed custom-filter storage needs: an item whose stamp equals the one `profiledb` holds
for the profile was compiled from the rules `profiledb` holds. -/
structure Sync.InvEq (s : Sync) : Prop where
  db_ok : ∀ id c, s.db id = some c → c.id = id
  file_ok : ∀ id c, s.file id = some c → c.id = id
  cache_ok : ∀ id it, s.cache id = some it → ∀ c, s.db id = some c → it.upd = c.upd → it.rules = c.rules

theorem Sync.init_invEq : Sync.init.InvEq :=
  ⟨by intro id c h; simp [Sync.init, Tbl.empty] at h, by intro id c h; simp [Sync.init, Tbl.empty] at h,
   by intro id it h; simp [Sync.init, Tbl.empty] at h⟩

theorem Sync.query_out_eq {stamp : Stamp} {s : Sync} (hi : s.InvEq) (id : String) :
    (s.step stamp (.query id)).2 = s.fresh id := by
  simp only [Sync.step, Sync.fresh]
  split
  · rename_i c hc
    simp only [CU.step, cuFresh]
    split
    · rfl
    · split
      · rename_i it hit
        split
        · rfl
        · rename_i hlt
          have hid := hi.db_ok id c hc
          rw [hid] at hit
          rw [hi.cache_ok id it hit c hc (Decidable.not_not.mp hlt)]
      · rfl
  · rfl

/-- One step keeps `InvEq`, provided the stamp of a synchronisation is fresh. -/
theorem Sync.step_invEq {stamp : Stamp} {s : Sync} (hi : s.InvEq) (op : YOp)
    (hf : ∀ full dt, op = .sync full dt → ∀ id it, s.cache id = some it →
      it.upd ≠ stamp (s.now + dt + 1) (if full then 0 else s.syncTime)) :
    (s.step stamp op).1.InvEq := by
  cases op with
  | change id rules dt => exact ⟨hi.db_ok, hi.file_ok, hi.cache_ok⟩
  | restart back =>
    refine ⟨hi.file_ok, hi.file_ok, ?_⟩
    intro id it h
    simp [Sync.step, Tbl.empty] at h
  | evict id =>
    refine ⟨hi.db_ok, hi.file_ok, ?_⟩
    intro id' it h
    simp only [Sync.step, Tbl.del] at h
    split at h
    · simp at h
    · exact hi.cache_ok id' it h
  | query id =>
    simp only [Sync.step]
    split
    · rename_i c hc
      have hcid := hi.db_ok id c hc
      have hput : Sync.InvEq { s with cache := Tbl.put s.cache c.id ⟨c.upd, c.rules⟩ } := by
        refine ⟨hi.db_ok, hi.file_ok, ?_⟩
        intro id' it h
        simp only [Tbl.put] at h
        split at h
        · rename_i heq
          simp only [Option.some.injEq] at h
          subst h
          intro c' hc' _
          have : id' = id := by rw [heq, hcid]
          rw [this, hc] at hc'
          simp only [Option.some.injEq] at hc'
          rw [hc']
        · exact hi.cache_ok id' it h
      simp only [CU.step]
      split
      · exact hi
      · split
        · split
          · exact hput
          · exact hi
        · exact hput
    · exact hi
  | sync full dt =>
    have hdb : ∀ id c,
        (match delivered s.backend full (if full then 0 else s.syncTime) id with
          | some p => some (confOf p (stamp (s.now + dt + 1) (if full then 0 else s.syncTime)))
          | none => if full then none else s.db id) = some c → c.id = id := by
      intro id c h
      split at h
      · rename_i p hp
        simp only [Option.some.injEq] at h
        subst h
        exact delivered_id hp
      · split at h
        · simp at h
        · exact hi.db_ok id c h
    refine ⟨?_, ?_, ?_⟩
    · intro id c h
      exact hdb id c h
    · intro id c h
      simp only [Sync.step] at h
      split at h
      · rename_i hfull
        subst hfull
        exact hdb id c h
      · exact hi.file_ok id c h
    · intro id it h c hdbc hn
      simp only [Sync.step] at hdbc
      split at hdbc
      · rename_i p hp
        simp only [Option.some.injEq] at hdbc
        subst hdbc
        simp only [confOf] at hn
        exact absurd hn (hf full dt rfl id it h)
      · split at hdbc
        · simp at hdbc
        · exact hi.cache_ok id it h c hdbc hn

end Agd.ResultCache
