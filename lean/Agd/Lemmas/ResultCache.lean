import Agd.Model.ResultCache
/-! Helper lemmas for C12 (core Lean only). -/
namespace Agd.ResultCache

/-! ## Rule-list cache -/

section RL
variable {S R V : Type} [DecidableEq S]

/-- Every cache entry holds the current engine's value (for every requester) of a key that hashes
to its slot and carries its host. -/
def RL.Inv (hash : Key → S) (s : RL S R V) : Prop :=
  ∀ slot it, s.cache slot = some it → ∃ k, hash k = slot ∧ k.host = it.host ∧ ∀ r, it.val = s.engine k r

theorem RL.lookup_current {hash : Key → S} (hok : HashOK hash) {s : RL S R V} (hi : s.Inv hash)
    {k : Key} {v : V} (h : s.lookup hash k = some v) : ∀ r, v = s.engine k r := by
  unfold RL.lookup at h
  split at h
  · split at h
    · rename_i it hc
      split at h
      · rename_i hh
        obtain ⟨k', hk, hh', hv⟩ := hi _ _ hc
        have : k' = k := by
          cases k' with
          | mk h1 s1 =>
            cases k with
            | mk h2 s2 =>
              simp only at hh hh'
              have e1 : h1 = h2 := by rw [hh', hh]
              subst e1
              have := hok h1 s1 s2 hk
              rw [this]
        subst this
        intro r
        simp only [Option.some.injEq] at h
        rw [← h]
        exact hv r
      · simp at h
    · simp at h
  · simp at h

theorem RL.step_query_hit {hash : Key → S} {s : RL S R V} {k : Key} {v : V} (r : R)
    (h : s.lookup hash k = some v) : s.step hash (.query k r) = (s, some v) := by
  simp [RL.step, h]

theorem RL.step_query_miss {hash : Key → S} {s : RL S R V} {k : Key} (r : R)
    (h : s.lookup hash k = none) :
    s.step hash (.query k r) =
      (if s.enabled then { s with cache := s.cache.put (hash k) ⟨s.engine k r, k.host⟩ } else s,
       some (s.engine k r)) := by
  simp [RL.step, h]

theorem RL.step_query_out {hash : Key → S} (hok : HashOK hash) {s : RL S R V} (hi : s.Inv hash)
    (k : Key) (r : R) : (s.step hash (.query k r)).2 = some (s.engine k r) := by
  cases hl : s.lookup hash k with
  | some v => rw [RL.step_query_hit r hl, RL.lookup_current hok hi hl r]
  | none => rw [RL.step_query_miss r hl]

theorem RL.step_inv {hash : Key → S} {s : RL S R V} (hi : s.Inv hash) (hcf : ClientFree s.engine)
    (op : Op S R V) : (s.step hash op).1.Inv hash := by
  cases op with
  | query k r =>
    cases hl : s.lookup hash k with
    | some v => rw [RL.step_query_hit r hl]; exact hi
    | none =>
      rw [RL.step_query_miss r hl]
      simp only
      split
      · intro slot it hc
        simp only [Tbl.put] at hc
        split at hc
        · rename_i hs
          simp only [Option.some.injEq] at hc
          subst hc
          exact ⟨k, hs.symm, rfl, fun r' => hcf k r r'⟩
        · exact hi slot it hc
      · exact hi
  | refresh e =>
    intro slot it hc
    simp [RL.step, Tbl.empty] at hc
  | evict sl =>
    intro slot it hc
    simp only [RL.step, Tbl.del] at hc
    split at hc
    · simp at hc
    · exact hi slot it hc

theorem RL.step_engine_query {hash : Key → S} (s : RL S R V) (k : Key) (r : R) :
    (s.step hash (.query k r)).1.engine = s.engine ∧ (s.step hash (.query k r)).1.enabled = s.enabled := by
  cases hl : s.lookup hash k with
  | some v => rw [RL.step_query_hit r hl]; exact ⟨rfl, rfl⟩
  | none =>
    rw [RL.step_query_miss r hl]
    simp only
    split <;> exact ⟨rfl, rfl⟩

/-- No refresh in the history. -/
def NoRefresh : List (Op S R V) → Prop
  | [] => True
  | .refresh _ :: _ => False
  | _ :: ops => NoRefresh ops

theorem RL.final_noRefresh {hash : Key → S} (ops : List (Op S R V)) :
    ∀ (s : RL S R V), s.Inv hash → ClientFree s.engine → NoRefresh ops →
      (RL.final hash s ops).Inv hash ∧ (RL.final hash s ops).engine = s.engine := by
  induction ops with
  | nil => intro s hi _ _; exact ⟨hi, rfl⟩
  | cons op ops ih =>
    intro s hi hcf hn
    cases op with
    | refresh e => simp [NoRefresh] at hn
    | query k r =>
      have he := (RL.step_engine_query (hash := hash) s k r).1
      have := ih (s.step hash (.query k r)).1 (RL.step_inv hi hcf _) (by rw [he]; exact hcf) (by simpa [NoRefresh] using hn)
      simp only [RL.final]
      exact ⟨this.1, by rw [this.2, he]⟩
    | evict sl =>
      have he : (s.step hash (.evict sl)).1.engine = s.engine := by simp [RL.step]
      have := ih (s.step hash (.evict sl)).1 (RL.step_inv hi hcf _) (by rw [he]; exact hcf) (by simpa [NoRefresh] using hn)
      simp only [RL.final]
      exact ⟨this.1, by rw [this.2, he]⟩

end RL

/-! ## Hash-prefix filter -/

theorem mem_of_findThread {ts : List Thread} {tid : Nat} {t : Thread} (h : findThread ts tid = some t) :
    t ∈ ts := by
  unfold findThread at h
  exact List.mem_of_find?_eq_some h

theorem mem_of_mem_dropThread {ts : List Thread} {tid : Nat} {t : Thread} (h : t ∈ dropThread ts tid) :
    t ∈ ts := by
  unfold dropThread at h
  exact (List.mem_filter.mp h).1

section HP
variable {S : Type} [DecidableEq S]

structure HP.Inv (subs : String → List String) (s : HP S) : Prop where
  cache_ok : s.pending = 0 → ∀ slot it, s.cache slot = some it → it.matched = matchOf subs s.store it.host
  gen_le : ∀ t ∈ s.threads, t.gen ≤ s.gen
  thr_ok : s.pending = 0 → ∀ t ∈ s.threads, t.gen = s.gen → ∀ m, t.matched = some m →
    m = matchOf subs s.store t.key.host

theorem HP.init_inv (subs : String → List String) : (HP.init : HP S).Inv subs :=
  ⟨by intro _ slot it h; simp [HP.init, Tbl.empty] at h, by intro t h; simp [HP.init] at h,
   by intro _ t h; simp [HP.init] at h⟩

theorem HP.step_inv (subs : String → List String) (rep : Rep) (hash : Key → S) {s : HP S}
    (hi : s.Inv subs) (op : HOp S) : (s.step true subs rep hash op).1.Inv subs := by
  cases op with
  | begin tid k r =>
    simp only [HP.step]
    split
    · exact hi
    · split
      · exact hi
      · refine ⟨hi.cache_ok, ?_, ?_⟩
        · intro t ht
          rcases List.mem_cons.mp ht with h | h
          · subst h; exact Nat.le_refl _
          · exact hi.gen_le t (mem_of_mem_dropThread h)
        · intro hp t ht hg m hm
          rcases List.mem_cons.mp ht with h | h
          · subst h; simp at hm
          · exact hi.thr_ok hp t (mem_of_mem_dropThread h) hg m hm
  | mtch tid =>
    simp only [HP.step]
    split
    · rename_i t hf
      have htm := mem_of_findThread hf
      refine ⟨hi.cache_ok, ?_, ?_⟩
      · intro t' ht
        rcases List.mem_cons.mp ht with h | h
        · subst h; exact hi.gen_le t htm
        · exact hi.gen_le t' (mem_of_mem_dropThread h)
      · intro hp t' ht hg m hm
        rcases List.mem_cons.mp ht with h | h
        · subst h
          simp only [Option.some.injEq] at hm
          exact hm.symm
        · exact hi.thr_ok hp t' (mem_of_mem_dropThread h) hg m hm
    · exact hi
  | finish tid =>
    simp only [HP.step]
    split
    · rename_i t hf
      have htm := mem_of_findThread hf
      split
      · rename_i m hm
        refine ⟨?_, ?_, ?_⟩
        · intro hp slot it hc
          simp only [Bool.not_true, Bool.false_or, decide_eq_true_eq] at hc
          split at hc
          · rename_i hg
            simp only [Tbl.put] at hc
            split at hc
            · simp only [Option.some.injEq] at hc
              subst hc
              exact hi.thr_ok hp t htm hg m hm
            · exact hi.cache_ok hp slot it hc
          · exact hi.cache_ok hp slot it hc
        · intro t' ht
          exact hi.gen_le t' (mem_of_mem_dropThread ht)
        · intro hp t' ht hg m' hm'
          exact hi.thr_ok hp t' (mem_of_mem_dropThread ht) hg m' hm'
      · exact hi
    · exact hi
  | store hosts =>
    refine ⟨?_, hi.gen_le, ?_⟩
    · intro hp; simp [HP.step] at hp
    · intro hp; simp [HP.step] at hp
  | clear =>
    simp only [HP.step]
    split
    · exact hi
    · refine ⟨?_, ?_, ?_⟩
      · intro _ slot it hc; simp [Tbl.empty] at hc
      · intro t ht
        exact Nat.le_succ_of_le (hi.gen_le t ht)
      · intro _ t ht hg
        have := hi.gen_le t ht
        simp only at hg
        omega
  | evict sl =>
    refine ⟨?_, hi.gen_le, hi.thr_ok⟩
    intro hp slot it hc
    simp only [HP.step, Tbl.del] at hc
    split at hc
    · simp at hc
    · exact hi.cache_ok hp slot it hc

theorem HP.final_inv (subs : String → List String) (rep : Rep) (hash : Key → S) (ops : List (HOp S)) :
    ∀ (s : HP S), s.Inv subs → (HP.final true subs rep hash s ops).Inv subs := by
  induction ops with
  | nil => intro s hi; exact hi
  | cons op ops ih => intro s hi; exact ih _ (HP.step_inv subs rep hash hi op)

theorem HP.lookup_fresh (subs : String → List String) (hash : Key → S) {s : HP S} (hi : s.Inv subs)
    (hp : s.pending = 0) {k : Key} {it : HItem} (h : s.lookup hash k = some it) :
    it.matched = matchOf subs s.store k.host := by
  unfold HP.lookup at h
  split at h
  · rename_i it' hc
    split at h
    · rename_i hh
      simp only [Option.some.injEq] at h
      subst h
      rw [← hh]
      exact hi.cache_ok hp _ _ hc
    · simp at h
  · simp at h

theorem findThread_cons_self (t : Thread) (ts : List Thread) : findThread (t :: ts) t.tid = some t := by
  simp [findThread]

theorem HP.query_spec (subs : String → List String) (rep : Rep) (hash : Key → S) {s : HP S}
    (hi : s.Inv subs) (hp : s.pending = 0) (k : Key) (r : Req) :
    (s.query true subs rep hash k r).2 = s.fresh subs rep k r ∧
      (s.query true subs rep hash k r).1.Inv subs ∧ (s.query true subs rep hash k r).1.pending = 0 ∧
      (s.query true subs rep hash k r).1.store = s.store := by
  unfold HP.query HP.fresh
  by_cases hf : filterable r.qt = true
  · cases hl : s.lookup hash k with
    | some it =>
      have := HP.lookup_fresh subs hash hi hp hl
      simp [HP.step, hf, hl, this, hi, hp]
    | none =>
      have e1 : (s.step true subs rep hash (.begin 0 k r)) =
          ({ s with threads := { tid := 0, key := k, req := r, gen := s.gen, matched := none } :: dropThread s.threads 0 }, none) := by
        simp [HP.step, hf, hl]
      have i1 := HP.step_inv subs rep hash hi (.begin 0 k r)
      rw [e1] at i1
      simp only [e1]
      have f1 := findThread_cons_self { tid := 0, key := k, req := r, gen := s.gen, matched := none } (dropThread s.threads 0)
      simp only at f1
      have i2 := HP.step_inv subs rep hash i1 (.mtch 0)
      have e2 : (HP.step true subs rep hash
            { s with threads := { tid := 0, key := k, req := r, gen := s.gen, matched := none } :: dropThread s.threads 0 }
            (.mtch 0)) =
          ({ s with threads := { tid := 0, key := k, req := r, gen := s.gen, matched := some (matchOf subs s.store k.host) } ::
              dropThread ({ tid := 0, key := k, req := r, gen := s.gen, matched := none } :: dropThread s.threads 0) 0 }, none) := by
        simp [HP.step, f1]
      rw [e2] at i2
      simp only [e2]
      have f2 := findThread_cons_self { tid := 0, key := k, req := r, gen := s.gen, matched := some (matchOf subs s.store k.host) }
        (dropThread ({ tid := 0, key := k, req := r, gen := s.gen, matched := none } :: dropThread s.threads 0) 0)
      simp only at f2
      have i3 := HP.step_inv subs rep hash i2 (.finish 0)
      refine ⟨?_, ?_, ?_, ?_⟩
      · simp [HP.step, f2, hf]
      · simpa [HP.step, f2] using i3
      · simp [HP.step, f2, hp]
      · simp [HP.step, f2]
  · have hf' : filterable r.qt = false := by simpa using hf
    simp [HP.step, hf', hi, hp]


theorem HP.refresh_spec (subs : String → List String) (rep : Rep) (hash : Key → S) {s : HP S}
    (hi : s.Inv subs) (hp : s.pending = 0) (hosts : List String) :
    let s' := ((s.step true subs rep hash (.store hosts)).1.step true subs rep hash .clear).1
    s'.Inv subs ∧ s'.pending = 0 ∧ s'.store = hosts := by
  intro s'
  have i1 := HP.step_inv subs rep hash hi (.store hosts)
  have i2 := HP.step_inv subs rep hash i1 .clear
  refine ⟨i2, ?_, ?_⟩
  · simp [s', HP.step, hp]
  · simp [s', HP.step, hp]

end HP

/-! ## Custom-filter cache -/

/-- Every cached engine was built from a configuration seen earlier for that profile. -/
def CU.Inv (seen : List Conf) (s : CU) : Prop :=
  ∀ id it, s id = some it → ∃ c ∈ seen, c.id = id ∧ c.upd = it.upd ∧ c.rules = it.rules

end Agd.ResultCache
