import Agd.Model.Ratelimit
/-! Helper lemmas for C09. -/
namespace Agd.Ratelimit

/-- Non-increasing list (most recent first). -/
def Desc : List Int → Prop
  | [] => True
  | [_] => True
  | a :: b :: r => b ≤ a ∧ Desc (b :: r)

theorem desc_tail {a : Int} {l : List Int} (h : Desc (a :: l)) : Desc l := by
  cases l with
  | nil => trivial
  | cons b r => exact h.2

theorem desc_head_le {a : Int} {l : List Int} (h : Desc (a :: l)) : ∀ x ∈ l, x ≤ a := by
  induction l generalizing a with
  | nil => intro x hx; cases hx
  | cons b r ih =>
    intro x hx
    cases hx with
    | head => exact h.1
    | tail _ hx' => exact Int.le_trans (ih h.2 x hx') h.1

/-- In a descending list the in-window elements form a prefix. -/
theorem filter_len_desc (ivl ts : Int) :
    ∀ (hist : List Int) (n : Nat), Desc hist → (∀ x ∈ hist, x ≤ ts) →
      (n + 1 ≤ (hist.filter (fun t => decide (ts - t ≤ ivl))).length ↔
        ∃ t, hist[n]? = some t ∧ ts - t ≤ ivl) := by
  intro hist
  induction hist with
  | nil => intro n _ _; simp
  | cons a r ih =>
    intro n hd hle
    have hdr := desc_tail hd
    have hler : ∀ x ∈ r, x ≤ ts := fun x hx => hle x (List.mem_cons_of_mem _ hx)
    by_cases ha : ts - a ≤ ivl
    · cases n with
      | zero => simp [List.filter, ha]
      | succ m =>
        simp only [List.filter, ha, decide_true, List.length_cons, List.getElem?_cons_succ]
        have := ih m hdr hler
        rw [← this]; omega
    · have hall : ∀ x ∈ r, ¬ (ts - x ≤ ivl) := by
        intro x hx hc
        have := desc_head_le hd x hx
        omega
      have hf : r.filter (fun t => decide (ts - t ≤ ivl)) = [] := by
        apply List.filter_eq_nil_iff.mpr
        intro x hx; simpa using hall x hx
      simp only [List.filter, ha, decide_false, hf, List.length_nil]
      constructor
      · intro h; omega
      · rintro ⟨t, ht, hw⟩
        cases n with
        | zero => simp at ht; subst ht; exact absurd hw ha
        | succ m =>
          simp at ht
          have hm : t ∈ r := List.mem_of_getElem? ht
          exact absurd hw (hall t hm)

theorem above_eq_spec (num : Nat) (ivl : Int) (hist : List Int) (ts : Int)
    (hivl : 0 ≤ ivl) (hd : Desc (ts :: hist)) (hpos : ∀ x ∈ hist, 0 < x) (hts : 0 < ts) :
    above num ivl hist ts = aboveSpec num ivl hist ts := by
  unfold above aboveSpec
  cases num with
  | zero => simp [hts, hivl]
  | succ n =>
    have hle := desc_head_le hd
    have key := filter_len_desc ivl ts hist n (desc_tail hd) hle
    simp only [List.getElem?_cons_succ]
    cases hg : hist[n]? with
    | none =>
      have : ¬ (n + 1 ≤ (hist.filter (fun t => decide (ts - t ≤ ivl))).length) := by
        rw [key]; rintro ⟨t, ht, _⟩; rw [hg] at ht; cases ht
      simp [this]
    | some t =>
      have htpos : 0 < t := hpos t (List.mem_of_getElem? hg)
      have : (n + 1 ≤ (hist.filter (fun t => decide (ts - t ≤ ivl))).length) ↔ ts - t ≤ ivl := by
        rw [key]; constructor
        · rintro ⟨t', ht', hw⟩; rw [hg] at ht'; cases ht'; exact hw
        · intro hw; exact ⟨t, hg, hw⟩
      by_cases hw : ts - t ≤ ivl <;> simp [hw, htpos, this]

/-! ## Bucket locality -/

/-- Two limiter states agree on bucket `k`. -/
def Agree (k : Key) (s₁ s₂ : St) : Prop := s₁.req k = s₂.req k ∧ s₁.hit k = s₂.hit k

/-- Frame: an event leaves every other bucket untouched. -/
theorem frame (c : Cfg) (s : St) (now : Int) (a : Addr) (q : Nat) (k : Key)
    (hk : subnetKey a c.v4len c.v6len ≠ k) :
    Agree k (isRateLimited c s now a q).1 s := by
  have hk' : ¬ (k = subnetKey a c.v4len c.v6len) := fun h => hk h.symm
  unfold isRateLimited
  split
  · exact ⟨rfl, rfl⟩
  split
  · exact ⟨rfl, rfl⟩
  split
  · exact ⟨rfl, rfl⟩
  simp only [hasHitRateLimit, incBackoff, Agree]
  split
  · split <;> simp [hk']
  · simp [hk']

/-- Determinacy: the verdict for an address and the new contents of its bucket depend only on the
old contents of that bucket. -/
theorem local_step (c : Cfg) (s₁ s₂ : St) (now : Int) (a : Addr) (q : Nat)
    (h : Agree (subnetKey a c.v4len c.v6len) s₁ s₂) :
    (isRateLimited c s₁ now a q).2 = (isRateLimited c s₂ now a q).2 ∧
    Agree (subnetKey a c.v4len c.v6len) (isRateLimited c s₁ now a q).1 (isRateLimited c s₂ now a q).1 := by
  obtain ⟨hr, hh⟩ := h
  have hb : isBackoff c s₁ (subnetKey a c.v4len c.v6len) now =
      isBackoff c s₂ (subnetKey a c.v4len c.v6len) now := by
    simp [isBackoff, Tbl.get, hh]
  have hc : ∀ n i, curCounter s₁ (subnetKey a c.v4len c.v6len) n i now =
      curCounter s₂ (subnetKey a c.v4len c.v6len) n i now := by
    intro n i; simp [curCounter, hr]
  have he : curExpiry c s₁ (subnetKey a c.v4len c.v6len) now =
      curExpiry c s₂ (subnetKey a c.v4len c.v6len) now := by
    simp [curExpiry, hr]
  unfold isRateLimited
  split
  · exact ⟨rfl, hr, hh⟩
  split
  · exact ⟨rfl, hr, hh⟩
  rw [hb]
  split
  · exact ⟨rfl, hr, hh⟩
  simp only [hasHitRateLimit, hc, he]
  refine ⟨rfl, ?_⟩
  split
  · simp only [incBackoff, Tbl.get, hh, Agree]
    split <;> simp
  · simp [Agree, hh]

/-! ## Ring buffer refinement -/

/-- The last `n` pushes in chronological order (oldest first), padded in front with the zero value. -/
def chron (n : Nat) (h : List Int) : List Int := ((h ++ List.replicate (n + 1) 0).take n).reverse

theorem chron_length (n : Nat) (h : List Int) : (chron n h).length = n := by
  simp [chron]; omega

theorem chron_cons (n : Nat) (e : Int) (h : List Int) :
    chron (n + 1) (e :: h) = (chron (n + 1) h).tail ++ [e] := by
  unfold chron
  rw [List.tail_reverse, List.dropLast_take (by simp; omega)]
  simp

theorem chron_head (n : Nat) (h : List Int) :
    (chron (n + 1) h).head? = some ((h[n]?).getD 0) := by
  unfold chron
  rw [List.head?_reverse, List.getLast?_eq_getElem?]
  have : ((h ++ List.replicate (n + 1 + 1) 0).take (n + 1)).length - 1 = n := by
    simp; omega
  rw [this, List.getElem?_take]
  simp only [Nat.lt_add_one, if_true]
  by_cases hn : n < h.length
  · simp [List.getElem?_append_left hn, hn]
  · have hn' : h.length ≤ n := by omega
    rw [List.getElem?_append_right hn']
    have h1 : h[n]? = none := by simp [hn']
    have h2 : n - h.length < n + 1 + 1 := by omega
    simp [h1, h2]

/-- Ring invariant: the buffer splits at `cur` into `A ++ B`, and `B ++ A` is the last `n` pushes
in chronological order. -/
def RingInv (n : Nat) (r : Ring) (h : List Int) : Prop :=
  ∃ A B : List Int, r.buf = A ++ B ∧ A.length = r.cur ∧ B ≠ [] ∧ B ++ A = chron n h ∧
    r.buf.length = n

theorem ringInv_new (n : Nat) : RingInv (n + 1) (Ring.new (n + 1)) [] := by
  refine ⟨[], List.replicate (n + 1) 0, by simp [Ring.new], by simp [Ring.new], by simp, ?_, by simp [Ring.new]⟩
  simp [chron]

theorem ringInv_push (n : Nat) (r : Ring) (h : List Int) (e : Int) (hi : RingInv (n + 1) r h) :
    RingInv (n + 1) (r.push e) (e :: h) := by
  obtain ⟨A, B, hbuf, hA, hB, hBA, hlen⟩ := hi
  cases B with
  | nil => exact absurd rfl hB
  | cons x B' =>
    have hne : r.buf.length ≠ 0 := by omega
    have hset : r.buf.set r.cur e = A ++ e :: B' := by
      rw [hbuf, ← hA]; simp
    have hrev : chron (n + 1) (e :: h) = B' ++ A ++ [e] := by
      rw [chron_cons, ← hBA]; simp
    have hAl : A.length + (B'.length + 1) = n + 1 := by
      have := hlen; rw [hbuf] at this; simpa using this
    unfold Ring.push
    simp only [hne, if_false]
    cases B' with
    | nil =>
      have hcur : (r.cur + 1) % r.buf.length = 0 := by
        rw [hlen, ← hA]; simp at hAl; rw [hAl]; simp
      refine ⟨[], A ++ [e], ?_, ?_, by simp, ?_, ?_⟩
      · simp [hset]
      · simp [hcur]
      · simpa using hrev.symm
      · simp [hlen]
    | cons y B'' =>
      have hcur : (r.cur + 1) % r.buf.length = r.cur + 1 := by
        apply Nat.mod_eq_of_lt
        rw [hlen, ← hA]; simp at hAl; omega
      refine ⟨A ++ [e], y :: B'', ?_, ?_, by simp, ?_, ?_⟩
      · simp [hset]
      · simp [hcur, hA]
      · rw [hrev]; simp
      · simp [hlen]

theorem ringInv_current (n : Nat) (r : Ring) (h : List Int) (hi : RingInv (n + 1) r h) :
    r.current = (h[n]?).getD 0 := by
  obtain ⟨A, B, hbuf, hA, hB, hBA, _⟩ := hi
  have hh := chron_head n h
  rw [← hBA] at hh
  cases B with
  | nil => exact absurd rfl hB
  | cons x B' =>
    simp at hh
    simp [Ring.current, hbuf, ← hA, hh]

/-- **ring_refines_history.** `RequestCounter.Add` on the real ring buffer of size `num + 1` computes
exactly `above` on the full history, for every sequence of pushes. -/
theorem ringAdd_eq_above (num : Nat) (ivl : Int) (r : Ring) (h : List Int) (ts : Int)
    (hi : RingInv (num + 1) r h) :
    (ringAdd r ivl ts).2 = above num ivl h ts ∧ RingInv (num + 1) (ringAdd r ivl ts).1 (ts :: h) := by
  have hp := ringInv_push num r h ts hi
  refine ⟨?_, hp⟩
  have hc := ringInv_current num (r.push ts) (ts :: h) hp
  simp only [ringAdd, hc, above]
  cases hg : (ts :: h)[num]? with
  | none => simp
  | some t => simp

/-! ## Refinement of the window-log specification (no cache expiry) -/

/-- Simulation relation between the concrete caches and the specification, for one bucket. -/
def SimK (c : Cfg) (s : St) (sp : Spec) (k : Key) : Prop :=
  (match s.req k with
    | none => (sp k).1 = []
    | some en => en.expires = none ∧ en.val.hist = (sp k).1 ∧ en.val.num = famCountK c k ∧
        en.val.ivl = famIvlK c k) ∧
  (match s.hit k with
    | none => (sp k).2 = 0
    | some en => en.expires = none ∧ en.val = (sp k).2 ∧ 0 < en.val)

def TimeInv (sp : Spec) (T : Int) : Prop :=
  ∀ k, Desc (sp k).1 ∧ ∀ x ∈ (sp k).1, 0 < x ∧ x ≤ T

theorem famCount_key (c : Cfg) (a : Addr) : famCount c a = famCountK c (subnetKey a c.v4len c.v6len) := by
  unfold famCount famCountK subnetKey; rfl

theorem famIvl_key (c : Cfg) (a : Addr) : famIvl c a = famIvlK c (subnetKey a c.v4len c.v6len) := by
  unfold famIvl famIvlK subnetKey; rfl

theorem desc_cons {a : Int} {l : List Int} (hd : Desc l) (h : ∀ x ∈ l, x ≤ a) : Desc (a :: l) := by
  cases l with
  | nil => trivial
  | cons b r => exact ⟨h b (by simp), hd⟩

theorem backoff_agrees (c : Cfg) (s : St) (sp : Spec) (k : Key) (now : Int) (hk : SimK c s sp k) :
    isBackoff c s k now = decide (0 < (sp k).2 ∧ c.count ≤ (sp k).2) := by
  obtain ⟨_, hhit⟩ := hk
  unfold isBackoff Tbl.get
  cases hh : s.hit k with
  | none => simp [hh] at hhit; simp [hhit]
  | some en =>
    simp [hh] at hhit
    obtain ⟨hex, hv, hpos'⟩ := hhit
    simp [Entry.expired, hex, ← hv]
    omega

/-- The bucket's counter, found or fresh, is the specification's history. -/
theorem curCounter_sim (c : Cfg) (s : St) (sp : Spec) (k : Key) (now : Int) (hk : SimK c s sp k) :
    curCounter s k (famCountK c k) (famIvlK c k) now =
      { num := famCountK c k, ivl := famIvlK c k, hist := (sp k).1 } := by
  obtain ⟨hreq, _⟩ := hk
  unfold curCounter
  cases hr : s.req k with
  | none => simp [hr] at hreq; simp [Counter.new, hreq]
  | some en =>
    simp [hr] at hreq
    obtain ⟨hex, hh, hn, hi⟩ := hreq
    simp [Entry.expired, hex]
    cases hv : en.val
    simp_all

theorem curExpiry_sim (c : Cfg) (s : St) (sp : Spec) (k : Key) (now : Int) (hp : c.period ≤ 0)
    (hk : SimK c s sp k) : curExpiry c s k now = none := by
  obtain ⟨hreq, _⟩ := hk
  have he : expiry now c.period = none := by simp [expiry]; omega
  unfold curExpiry
  cases hr : s.req k with
  | none => simp [he]
  | some en =>
    simp [hr] at hreq
    simp [Entry.expired, hreq.1]

theorem sim_step (c : Cfg) (s : St) (sp : Spec) (e : Ev) (T : Int)
    (hp : c.period ≤ 0) (hdur : c.duration ≤ 0) (h4 : 0 ≤ c.v4ivl) (h6 : 0 ≤ c.v6ivl)
    (hs : ∀ k, SimK c s sp k) (ht : TimeInv sp T) (hpos : 0 < e.now) (hT : T ≤ e.now) :
    (isRateLimited c s e.now e.addr e.qtype).2 = (specStep c sp e).2 ∧
    (∀ k, SimK c (isRateLimited c s e.now e.addr e.qtype).1 (specStep c sp e).1 k) ∧
    TimeInv (specStep c sp e).1 e.now := by
  have hmono : TimeInv sp e.now := fun k =>
    ⟨(ht k).1, fun x hx => ⟨((ht k).2 x hx).1, Int.le_trans ((ht k).2 x hx).2 hT⟩⟩
  have hk := hs (evKey c e)
  have hb := backoff_agrees c s sp (evKey c e) e.now hk
  have hcc := curCounter_sim c s sp (evKey c e) e.now hk
  have hce := curExpiry_sim c s sp (evKey c e) e.now hp hk
  have hivl : 0 ≤ famIvlK c (evKey c e) := by unfold famIvlK; split <;> assumption
  have hab : above (famCountK c (evKey c e)) (famIvlK c (evKey c e)) (sp (evKey c e)).1 e.now =
      aboveSpec (famCountK c (evKey c e)) (famIvlK c (evKey c e)) (sp (evKey c e)).1 e.now := by
    apply above_eq_spec _ _ _ _ hivl
    · exact desc_cons (hmono _).1 (fun x hx => ((hmono _).2 x hx).2)
    · exact fun x hx => ((hmono _).2 x hx).1
    · exact hpos
  have hed : expiry e.now c.duration = none := by simp [expiry]; omega
  have hframe : ∀ k, subnetKey e.addr c.v4len c.v6len ≠ k →
      (hasHitRateLimit c s (subnetKey e.addr c.v4len c.v6len)
        (famCountK c (subnetKey e.addr c.v4len c.v6len)) (famIvlK c (subnetKey e.addr c.v4len c.v6len)) e.now).1.req k = s.req k ∧
      (hasHitRateLimit c s (subnetKey e.addr c.v4len c.v6len)
        (famCountK c (subnetKey e.addr c.v4len c.v6len)) (famIvlK c (subnetKey e.addr c.v4len c.v6len)) e.now).1.hit k = s.hit k := by
    intro k hne
    have hk' : ¬ (k = subnetKey e.addr c.v4len c.v6len) := fun h => hne h.symm
    simp only [hasHitRateLimit, incBackoff]
    split
    · split <;> simp [hk']
    · simp [hk']
  unfold isRateLimited specStep
  split
  · exact ⟨rfl, hs, hmono⟩
  split
  · exact ⟨rfl, hs, hmono⟩
  rw [famCount_key, famIvl_key]
  simp only [evKey] at hk hb hcc hce hivl hab ⊢
  rw [hb]
  by_cases hcond : (0 < (sp (subnetKey e.addr c.v4len c.v6len)).2 ∧
      c.count ≤ (sp (subnetKey e.addr c.v4len c.v6len)).2)
  · simp only [hcond, and_self, decide_true, if_true]
    exact ⟨trivial, hs, hmono⟩
  simp only [hcond, decide_false, Bool.false_eq_true, if_false]
  simp only [hasHitRateLimit, hcc, hce, Counter.add, hab]
  refine ⟨?_, ?_, ?_⟩
  · rfl
  · intro k
    by_cases hkk : k = subnetKey e.addr c.v4len c.v6len
    · subst hkk
      obtain ⟨hreq, hhit⟩ := hk
      split
      · -- above: hit counter incremented
        rename_i hab1
        unfold incBackoff SimK Tbl.get
        cases hh : s.hit (subnetKey e.addr c.v4len c.v6len) with
        | none => simp [hh] at hhit; simp [hab1, hed, hhit]
        | some en =>
          simp [hh] at hhit
          simp [hab1, Entry.expired, hhit.1, hhit.2.1]
      · rename_i hab0
        simp [SimK, hab0]
        exact hhit
    · -- another bucket: untouched on both sides
      have hk' := hs k
      unfold SimK at hk' ⊢
      by_cases hab1 : aboveSpec (famCountK c (subnetKey e.addr c.v4len c.v6len))
          (famIvlK c (subnetKey e.addr c.v4len c.v6len)) (sp (subnetKey e.addr c.v4len c.v6len)).1 e.now = true
      · simp only [hab1, if_true, incBackoff]
        cases hg : Tbl.get s.hit (subnetKey e.addr c.v4len c.v6len) e.now <;>
          simpa [hg, hkk] using hk'
      · simpa [hab1, hkk] using hk'
  · intro k
    by_cases hkk : k = subnetKey e.addr c.v4len c.v6len
    · subst hkk
      simp only [if_true]
      refine ⟨desc_cons (hmono _).1 (fun x hx => ((hmono _).2 x hx).2), ?_⟩
      intro x hx
      cases hx with
      | head => exact ⟨hpos, Int.le_refl _⟩
      | tail _ hx' => exact (hmono _).2 x hx'
    · simp only [hkk, if_false]; exact hmono k

end Agd.Ratelimit
