import Agd.Model.Ratelimit
/-! Helper lemmas for C09. -/
namespace Agd.Ratelimit

/-- Non-increasing list (most recent first). -/
def Desc : List Int → Prop
  | [] => True
  | [_] => True
  | a :: b :: r => b ≤ a ∧ Desc (b :: r)

theorem desc_tail {a : Int} {l : List Int} (h : Desc (a :: l)) : Desc l := by
  cases l with
  | nil => trivial
  | cons b r => exact h.2

theorem desc_head_le {a : Int} {l : List Int} (h : Desc (a :: l)) : ∀ x ∈ l, x ≤ a := by
  induction l generalizing a with
  | nil => intro x hx; cases hx
  | cons b r ih =>
    intro x hx
    cases hx with
    | head => exact h.1
    | tail _ hx' => exact Int.le_trans (ih h.2 x hx') h.1

/-- In a descending list the in-window elements form a prefix. -/
theorem filter_len_desc (ivl ts : Int) :
    ∀ (hist : List Int) (n : Nat), Desc hist → (∀ x ∈ hist, x ≤ ts) →
      (n + 1 ≤ (hist.filter (fun t => decide (ts - t ≤ ivl))).length ↔
        ∃ t, hist[n]? = some t ∧ ts - t ≤ ivl) := by
  intro hist
  induction hist with
  | nil => intro n _ _; simp
  | cons a r ih =>
    intro n hd hle
    have hdr := desc_tail hd
    have hler : ∀ x ∈ r, x ≤ ts := fun x hx => hle x (List.mem_cons_of_mem _ hx)
    by_cases ha : ts - a ≤ ivl
    · cases n with
      | zero => simp [List.filter, ha]
      | succ m =>
        simp only [List.filter, ha, decide_true, List.length_cons, List.getElem?_cons_succ]
        have := ih m hdr hler
        rw [← this]; omega
    · have hall : ∀ x ∈ r, ¬ (ts - x ≤ ivl) := by
        intro x hx hc
        have := desc_head_le hd x hx
        omega
      have hf : r.filter (fun t => decide (ts - t ≤ ivl)) = [] := by
        apply List.filter_eq_nil_iff.mpr
        intro x hx; simpa using hall x hx
      simp only [List.filter, ha, decide_false, hf, List.length_nil]
      constructor
      · intro h; omega
      · rintro ⟨t, ht, hw⟩
        cases n with
        | zero => simp at ht; subst ht; exact absurd hw ha
        | succ m =>
          simp at ht
          have hm : t ∈ r := List.mem_of_getElem? ht
          exact absurd hw (hall t hm)

theorem above_eq_spec (num : Nat) (ivl : Int) (hist : List Int) (ts : Int)
    (hivl : 0 ≤ ivl) (hd : Desc (ts :: hist)) (hpos : ∀ x ∈ hist, 0 < x) (hts : 0 < ts) :
    above num ivl hist ts = aboveSpec num ivl hist ts := by
  unfold above aboveSpec
  cases num with
  | zero => simp [hts, hivl]
  | succ n =>
    have hle := desc_head_le hd
    have key := filter_len_desc ivl ts hist n (desc_tail hd) hle
    simp only [List.getElem?_cons_succ]
    cases hg : hist[n]? with
    | none =>
      have : ¬ (n + 1 ≤ (hist.filter (fun t => decide (ts - t ≤ ivl))).length) := by
        rw [key]; rintro ⟨t, ht, _⟩; rw [hg] at ht; cases ht
      simp [this]
    | some t =>
      have htpos : 0 < t := hpos t (List.mem_of_getElem? hg)
      have : (n + 1 ≤ (hist.filter (fun t => decide (ts - t ≤ ivl))).length) ↔ ts - t ≤ ivl := by
        rw [key]; constructor
        · rintro ⟨t', ht', hw⟩; rw [hg] at ht'; cases ht'; exact hw
        · intro hw; exact ⟨t, hg, hw⟩
      by_cases hw : ts - t ≤ ivl <;> simp [hw, htpos, this]

/-! ## Bucket locality -/

/-- Two limiter states agree on bucket `k`. -/
def Agree (k : Key) (s₁ s₂ : St) : Prop := s₁.req k = s₂.req k ∧ s₁.hit k = s₂.hit k

/-- Frame: an event leaves every other bucket untouched. -/
theorem frame (c : Cfg) (s : St) (now : Int) (a : Addr) (q : Nat) (k : Key)
    (hk : subnetKey a c.v4len c.v6len ≠ k) :
    Agree k (isRateLimited c s now a q).1 s := by
  have hk' : ¬ (k = subnetKey a c.v4len c.v6len) := fun h => hk h.symm
  unfold isRateLimited
  split
  · exact ⟨rfl, rfl⟩
  split
  · exact ⟨rfl, rfl⟩
  split
  · exact ⟨rfl, rfl⟩
  simp only [hasHitRateLimit, incBackoff, Agree]
  split
  · split <;> simp [hk']
  · simp [hk']

/-- Determinacy: the verdict for an address and the new contents of its bucket depend only on the
old contents of that bucket. -/
theorem local_step (c : Cfg) (s₁ s₂ : St) (now : Int) (a : Addr) (q : Nat)
    (h : Agree (subnetKey a c.v4len c.v6len) s₁ s₂) :
    (isRateLimited c s₁ now a q).2 = (isRateLimited c s₂ now a q).2 ∧
    Agree (subnetKey a c.v4len c.v6len) (isRateLimited c s₁ now a q).1 (isRateLimited c s₂ now a q).1 := by
  obtain ⟨hr, hh⟩ := h
  have hb : isBackoff c s₁ (subnetKey a c.v4len c.v6len) now =
      isBackoff c s₂ (subnetKey a c.v4len c.v6len) now := by
    simp [isBackoff, Tbl.get, hh]
  have hc : ∀ n i, curCounter s₁ (subnetKey a c.v4len c.v6len) n i now =
      curCounter s₂ (subnetKey a c.v4len c.v6len) n i now := by
    intro n i; simp [curCounter, hr]
  have he : curExpiry c s₁ (subnetKey a c.v4len c.v6len) now =
      curExpiry c s₂ (subnetKey a c.v4len c.v6len) now := by
    simp [curExpiry, hr]
  unfold isRateLimited
  split
  · exact ⟨rfl, hr, hh⟩
  split
  · exact ⟨rfl, hr, hh⟩
  rw [hb]
  split
  · exact ⟨rfl, hr, hh⟩
  simp only [hasHitRateLimit, hc, he]
  refine ⟨rfl, ?_⟩
  split
  · simp only [incBackoff, Tbl.get, hh, Agree]
    split <;> simp
  · simp [Agree, hh]

/-! ## Ring buffer refinement -/

/-- The last `n` pushes in chronological order (oldest first), padded in front with the zero value. -/
def chron (n : Nat) (h : List Int) : List Int := ((h ++ List.replicate (n + 1) 0).take n).reverse

theorem chron_length (n : Nat) (h : List Int) : (chron n h).length = n := by
  simp [chron]; omega

theorem chron_cons (n : Nat) (e : Int) (h : List Int) :
    chron (n + 1) (e :: h) = (chron (n + 1) h).tail ++ [e] := by
  unfold chron
  rw [List.tail_reverse, List.dropLast_take (by simp; omega)]
  simp

theorem chron_head (n : Nat) (h : List Int) :
    (chron (n + 1) h).head? = some ((h[n]?).getD 0) := by
  unfold chron
  rw [List.head?_reverse, List.getLast?_eq_getElem?]
  have : ((h ++ List.replicate (n + 1 + 1) 0).take (n + 1)).length - 1 = n := by
    simp; omega
  rw [this, List.getElem?_take]
  simp only [Nat.lt_add_one, if_true]
  by_cases hn : n < h.length
  · simp [List.getElem?_append_left hn, hn]
  · have hn' : h.length ≤ n := by omega
    rw [List.getElem?_append_right hn']
    have h1 : h[n]? = none := by simp [hn']
    have h2 : n - h.length < n + 1 + 1 := by omega
    simp [h1, h2]

/-- Ring invariant: the buffer splits at `cur` into `A ++ B`, and `B ++ A` is the last `n` pushes
in chronological order. -/
def RingInv (n : Nat) (r : Ring) (h : List Int) : Prop :=
  ∃ A B : List Int, r.buf = A ++ B ∧ A.length = r.cur ∧ B ≠ [] ∧ B ++ A = chron n h ∧
    r.buf.length = n

theorem ringInv_new (n : Nat) : RingInv (n + 1) (Ring.new (n + 1)) [] := by
  refine ⟨[], List.replicate (n + 1) 0, by simp [Ring.new], by simp [Ring.new], by simp, ?_, by simp [Ring.new]⟩
  simp [chron]

theorem ringInv_push (n : Nat) (r : Ring) (h : List Int) (e : Int) (hi : RingInv (n + 1) r h) :
    RingInv (n + 1) (r.push e) (e :: h) := by
  obtain ⟨A, B, hbuf, hA, hB, hBA, hlen⟩ := hi
  cases B with
  | nil => exact absurd rfl hB
  | cons x B' =>
    have hne : r.buf.length ≠ 0 := by omega
    have hset : r.buf.set r.cur e = A ++ e :: B' := by
      rw [hbuf, ← hA]; simp
    have hrev : chron (n + 1) (e :: h) = B' ++ A ++ [e] := by
      rw [chron_cons, ← hBA]; simp
    have hAl : A.length + (B'.length + 1) = n + 1 := by
      have := hlen; rw [hbuf] at this; simpa using this
    unfold Ring.push
    simp only [hne, if_false]
    cases B' with
    | nil =>
      have hcur : (r.cur + 1) % r.buf.length = 0 := by
        rw [hlen, ← hA]; simp at hAl; rw [hAl]; simp
      refine ⟨[], A ++ [e], ?_, ?_, by simp, ?_, ?_⟩
      · simp [hset]
      · simp [hcur]
      · simpa using hrev.symm
      · simp [hlen]
    | cons y B'' =>
      have hcur : (r.cur + 1) % r.buf.length = r.cur + 1 := by
        apply Nat.mod_eq_of_lt
        rw [hlen, ← hA]; simp at hAl; omega
      refine ⟨A ++ [e], y :: B'', ?_, ?_, by simp, ?_, ?_⟩
      · simp [hset]
      · simp [hcur, hA]
      · rw [hrev]; simp
      · simp [hlen]

theorem ringInv_current (n : Nat) (r : Ring) (h : List Int) (hi : RingInv (n + 1) r h) :
    r.current = (h[n]?).getD 0 := by
  obtain ⟨A, B, hbuf, hA, hB, hBA, _⟩ := hi
  have hh := chron_head n h
  rw [← hBA] at hh
  cases B with
  | nil => exact absurd rfl hB
  | cons x B' =>
    simp at hh
    simp [Ring.current, hbuf, ← hA, hh]

/-- **ring_refines_history.** `RequestCounter.Add` on the real ring buffer of size `num + 1` computes
exactly `above` on the full history, for every sequence of pushes. -/
theorem ringAdd_eq_above (num : Nat) (ivl : Int) (r : Ring) (h : List Int) (ts : Int)
    (hi : RingInv (num + 1) r h) :
    (ringAdd r ivl ts).2 = above num ivl h ts ∧ RingInv (num + 1) (ringAdd r ivl ts).1 (ts :: h) := by
  have hp := ringInv_push num r h ts hi
  refine ⟨?_, hp⟩
  have hc := ringInv_current num (r.push ts) (ts :: h) hp
  simp only [ringAdd, hc, above]
  cases hg : (ts :: h)[num]? with
  | none => simp
  | some t => simp

/-! ## Refinement of the window-log specification (no cache expiry) -/

/-- Simulation relation between the concrete caches and the specification, for one bucket. -/
def SimK (c : Cfg) (s : St) (sp : Spec) (k : Key) : Prop :=
  (match s.req k with
    | none => (sp k).1 = []
    | some en => en.expires = none ∧ en.val.hist = (sp k).1 ∧ en.val.num = famCountK c k ∧
        en.val.ivl = famIvlK c k) ∧
  (match s.hit k with
    | none => (sp k).2 = 0
    | some en => en.expires = none ∧ en.val = (sp k).2 ∧ 0 < en.val)

def TimeInv (sp : Spec) (T : Int) : Prop :=
  ∀ k, Desc (sp k).1 ∧ ∀ x ∈ (sp k).1, 0 < x ∧ x ≤ T

theorem famCount_key (c : Cfg) (a : Addr) : famCount c a = famCountK c (subnetKey a c.v4len c.v6len) := by
  unfold famCount famCountK subnetKey; rfl

theorem famIvl_key (c : Cfg) (a : Addr) : famIvl c a = famIvlK c (subnetKey a c.v4len c.v6len) := by
  unfold famIvl famIvlK subnetKey; rfl

theorem desc_cons {a : Int} {l : List Int} (hd : Desc l) (h : ∀ x ∈ l, x ≤ a) : Desc (a :: l) := by
  cases l with
  | nil => trivial
  | cons b r => exact ⟨h b (by simp), hd⟩

theorem backoff_agrees (c : Cfg) (s : St) (sp : Spec) (k : Key) (now : Int) (hk : SimK c s sp k) :
    isBackoff c s k now = decide (0 < (sp k).2 ∧ c.count ≤ (sp k).2) := by
  obtain ⟨_, hhit⟩ := hk
  unfold isBackoff Tbl.get
  cases hh : s.hit k with
  | none => simp [hh] at hhit; simp [hhit]
  | some en =>
    simp [hh] at hhit
    obtain ⟨hex, hv, hpos'⟩ := hhit
    simp [Entry.expired, hex, ← hv]
    omega

/-- The bucket's counter, found or fresh, is the specification's history. -/
theorem curCounter_sim (c : Cfg) (s : St) (sp : Spec) (k : Key) (now : Int) (hk : SimK c s sp k) :
    curCounter s k (famCountK c k) (famIvlK c k) now =
      { num := famCountK c k, ivl := famIvlK c k, hist := (sp k).1 } := by
  obtain ⟨hreq, _⟩ := hk
  unfold curCounter
  cases hr : s.req k with
  | none => simp [hr] at hreq; simp [Counter.new, hreq]
  | some en =>
    simp [hr] at hreq
    obtain ⟨hex, hh, hn, hi⟩ := hreq
    simp [Entry.expired, hex]
    cases hv : en.val
    simp_all

theorem curExpiry_sim (c : Cfg) (s : St) (sp : Spec) (k : Key) (now : Int) (hp : c.period ≤ 0)
    (hk : SimK c s sp k) : curExpiry c s k now = none := by
  obtain ⟨hreq, _⟩ := hk
  have he : expiry now c.period = none := by simp [expiry]; omega
  unfold curExpiry
  cases hr : s.req k with
  | none => simp [he]
  | some en =>
    simp [hr] at hreq
    simp [Entry.expired, hreq.1]

theorem sim_step (c : Cfg) (s : St) (sp : Spec) (e : Ev) (T : Int)
    (hp : c.period ≤ 0) (hdur : c.duration ≤ 0) (h4 : 0 ≤ c.v4ivl) (h6 : 0 ≤ c.v6ivl)
    (hs : ∀ k, SimK c s sp k) (ht : TimeInv sp T) (hpos : 0 < e.now) (hT : T ≤ e.now) :
    (isRateLimited c s e.now e.addr e.qtype).2 = (specStep c sp e).2 ∧
    (∀ k, SimK c (isRateLimited c s e.now e.addr e.qtype).1 (specStep c sp e).1 k) ∧
    TimeInv (specStep c sp e).1 e.now := by
  have hmono : TimeInv sp e.now := fun k =>
    ⟨(ht k).1, fun x hx => ⟨((ht k).2 x hx).1, Int.le_trans ((ht k).2 x hx).2 hT⟩⟩
  have hk := hs (evKey c e)
  have hb := backoff_agrees c s sp (evKey c e) e.now hk
  have hcc := curCounter_sim c s sp (evKey c e) e.now hk
  have hce := curExpiry_sim c s sp (evKey c e) e.now hp hk
  have hivl : 0 ≤ famIvlK c (evKey c e) := by unfold famIvlK; split <;> assumption
  have hab : above (famCountK c (evKey c e)) (famIvlK c (evKey c e)) (sp (evKey c e)).1 e.now =
      aboveSpec (famCountK c (evKey c e)) (famIvlK c (evKey c e)) (sp (evKey c e)).1 e.now := by
    apply above_eq_spec _ _ _ _ hivl
    · exact desc_cons (hmono _).1 (fun x hx => ((hmono _).2 x hx).2)
    · exact fun x hx => ((hmono _).2 x hx).1
    · exact hpos
  have hed : expiry e.now c.duration = none := by simp [expiry]; omega
  have hframe : ∀ k, subnetKey e.addr c.v4len c.v6len ≠ k →
      (hasHitRateLimit c s (subnetKey e.addr c.v4len c.v6len)
        (famCountK c (subnetKey e.addr c.v4len c.v6len)) (famIvlK c (subnetKey e.addr c.v4len c.v6len)) e.now).1.req k = s.req k ∧
      (hasHitRateLimit c s (subnetKey e.addr c.v4len c.v6len)
        (famCountK c (subnetKey e.addr c.v4len c.v6len)) (famIvlK c (subnetKey e.addr c.v4len c.v6len)) e.now).1.hit k = s.hit k := by
    intro k hne
    have hk' : ¬ (k = subnetKey e.addr c.v4len c.v6len) := fun h => hne h.symm
    simp only [hasHitRateLimit, incBackoff]
    split
    · split <;> simp [hk']
    · simp [hk']
  unfold isRateLimited specStep
  split
  · exact ⟨rfl, hs, hmono⟩
  split
  · exact ⟨rfl, hs, hmono⟩
  rw [famCount_key, famIvl_key]
  simp only [evKey] at hk hb hcc hce hivl hab ⊢
  rw [hb]
  by_cases hcond : (0 < (sp (subnetKey e.addr c.v4len c.v6len)).2 ∧
      c.count ≤ (sp (subnetKey e.addr c.v4len c.v6len)).2)
  · simp only [hcond, and_self, decide_true, if_true]
    exact ⟨trivial, hs, hmono⟩
  simp only [hcond, decide_false, Bool.false_eq_true, if_false]
  simp only [hasHitRateLimit, hcc, hce, Counter.add, hab]
  refine ⟨?_, ?_, ?_⟩
  · rfl
  · intro k
    by_cases hkk : k = subnetKey e.addr c.v4len c.v6len
    · subst hkk
      obtain ⟨hreq, hhit⟩ := hk
      split
      · -- above: hit counter incremented
        rename_i hab1
        unfold incBackoff SimK Tbl.get
        cases hh : s.hit (subnetKey e.addr c.v4len c.v6len) with
        | none => simp [hh] at hhit; simp [hab1, hed, hhit]
        | some en =>
          simp [hh] at hhit
          simp [hab1, Entry.expired, hhit.1, hhit.2.1]
      · rename_i hab0
        simp [SimK, hab0]
        exact hhit
    · -- another bucket: untouched on both sides
      have hk' := hs k
      unfold SimK at hk' ⊢
      by_cases hab1 : aboveSpec (famCountK c (subnetKey e.addr c.v4len c.v6len))
          (famIvlK c (subnetKey e.addr c.v4len c.v6len)) (sp (subnetKey e.addr c.v4len c.v6len)).1 e.now = true
      · simp only [hab1, if_true, incBackoff]
        cases hg : Tbl.get s.hit (subnetKey e.addr c.v4len c.v6len) e.now <;>
          simpa [hg, hkk] using hk'
      · simpa [hab1, hkk] using hk'
  · intro k
    by_cases hkk : k = subnetKey e.addr c.v4len c.v6len
    · subst hkk
      simp only [if_true]
      refine ⟨desc_cons (hmono _).1 (fun x hx => ((hmono _).2 x hx).2), ?_⟩
      intro x hx
      cases hx with
      | head => exact ⟨hpos, Int.le_refl _⟩
      | tail _ hx' => exact (hmono _).2 x hx'
    · simp only [hkk, if_false]; exact hmono k

end Agd.Ratelimit

namespace Agd.Ratelimit

/-! ## Refinement of the epoch window-log specification (all `Period`/`Duration` values) -/

/-- Simulation relation between the concrete caches and the epoch specification, for one bucket:
a cache entry exists iff the abstract bucket has an epoch, and it carries that epoch's expiry. -/
def ESimK (c : Cfg) (s : St) (sp : ESpec) (k : Key) : Prop :=
  (match s.req k, (sp k).born with
    | none, none => True
    | some en, some b => en.expires = expiry b c.period ∧ en.val.hist = (sp k).log ∧
        en.val.num = famCountK c k ∧ en.val.ivl = famIvlK c k
    | _, _ => False) ∧
  (match s.hit k, (sp k).hitBorn with
    | none, none => True
    | some en, some b => en.expires = expiry b c.duration ∧ en.val = (sp k).hits
    | _, _ => False)

def ETimeInv (sp : ESpec) (T : Int) : Prop :=
  ∀ k, Desc (sp k).log ∧ ∀ x ∈ (sp k).log, 0 < x ∧ x ≤ T

/-- An entry created at `b` with default lifetime `d` is expired exactly when its epoch is dead. -/
theorem expired_expiry {α} (en : Entry α) (b d now : Int) (h : en.expires = expiry b d) :
    en.expired now = !aliveAt (some b) d now := by
  unfold Entry.expired aliveAt expiry at *
  rw [h]
  by_cases hd : d > 0
  · have : ¬ d ≤ 0 := by omega
    simp only [hd, this, if_true, decide_false, Bool.false_or]
    by_cases hn : now ≤ b + d
    · have : ¬ now > b + d := by omega
      simp [hn, this]
    · have : now > b + d := by omega
      simp [hn, this]
  · have : d ≤ 0 := by omega
    simp [hd, this]

theorem ebackoff_agrees (c : Cfg) (s : St) (sp : ESpec) (k : Key) (now : Int) (hk : ESimK c s sp k) :
    isBackoff c s k now = (sp k).inBackoff c.count c.duration now := by
  obtain ⟨_, hhit⟩ := hk
  unfold isBackoff Tbl.get Bk.inBackoff
  cases hh : s.hit k with
  | none =>
    cases hb : (sp k).hitBorn with
    | none => simp [aliveAt]
    | some b => simp [hh, hb] at hhit
  | some en =>
    cases hb : (sp k).hitBorn with
    | none => simp [hh, hb] at hhit
    | some b =>
      simp [hh, hb] at hhit
      obtain ⟨hex, hv⟩ := hhit
      simp only [expired_expiry en b c.duration now hex]
      cases aliveAt (some b) c.duration now <;> simp [hv]

theorem ecurCounter_sim (c : Cfg) (s : St) (sp : ESpec) (k : Key) (now : Int) (hk : ESimK c s sp k) :
    curCounter s k (famCountK c k) (famIvlK c k) now =
      { num := famCountK c k, ivl := famIvlK c k, hist := (sp k).curLog c.period now } := by
  obtain ⟨hreq, _⟩ := hk
  unfold curCounter Bk.curLog
  cases hr : s.req k with
  | none =>
    cases hb : (sp k).born with
    | none => simp [aliveAt, Counter.new]
    | some b => simp [hr, hb] at hreq
  | some en =>
    cases hb : (sp k).born with
    | none => simp [hr, hb] at hreq
    | some b =>
      simp [hr, hb] at hreq
      obtain ⟨hex, hh, hn, hi⟩ := hreq
      simp only [expired_expiry en b c.period now hex]
      cases aliveAt (some b) c.period now
      · simp [Counter.new]
      · cases hv : en.val
        simp_all

theorem ecurExpiry_sim (c : Cfg) (s : St) (sp : ESpec) (k : Key) (now : Int) (hk : ESimK c s sp k) :
    ∃ b, (sp k).curBorn c.period now = some b ∧ curExpiry c s k now = expiry b c.period := by
  obtain ⟨hreq, _⟩ := hk
  unfold curExpiry Bk.curBorn
  cases hr : s.req k with
  | none =>
    cases hb : (sp k).born with
    | none => exact ⟨now, by simp [aliveAt], by simp⟩
    | some b => simp [hr, hb] at hreq
  | some en =>
    cases hb : (sp k).born with
    | none => simp [hr, hb] at hreq
    | some b =>
      simp [hr, hb] at hreq
      obtain ⟨hex, _⟩ := hreq
      simp only [expired_expiry en b c.period now hex]
      cases aliveAt (some b) c.period now
      · exact ⟨now, by simp, by simp⟩
      · exact ⟨b, by simp, by simp [hex]⟩

theorem ecurLog_inv (sp : ESpec) (T : Int) (k : Key) (period now : Int) (ht : ETimeInv sp T) :
    Desc ((sp k).curLog period now) ∧ ∀ x ∈ (sp k).curLog period now, 0 < x ∧ x ≤ T := by
  unfold Bk.curLog
  split
  · exact ht k
  · exact ⟨trivial, fun x hx => by cases hx⟩

/-- Counting one event in bucket `k`: verdict, new bucket contents and the other buckets. -/
theorem ehasHit_sim (c : Cfg) (s : St) (sp : ESpec) (k : Key) (now : Int)
    (hk : ESimK c s sp k)
    (hab : above (famCountK c k) (famIvlK c k) ((sp k).curLog c.period now) now =
      aboveSpec (famCountK c k) (famIvlK c k) ((sp k).curLog c.period now) now) :
    (hasHitRateLimit c s k (famCountK c k) (famIvlK c k) now).2 =
      ((sp k).count (famCountK c k) (famIvlK c k) c.period c.duration now).2 ∧
    ESimK c (hasHitRateLimit c s k (famCountK c k) (famIvlK c k) now).1
      (fun k' => if k' = k then ((sp k).count (famCountK c k) (famIvlK c k) c.period c.duration now).1
        else sp k') k := by
  have hcc := ecurCounter_sim c s sp k now hk
  obtain ⟨b', hcb, hce⟩ := ecurExpiry_sim c s sp k now hk
  obtain ⟨hreq, hhit⟩ := hk
  refine ⟨by simp only [hasHitRateLimit, hcc, Counter.add, hab, Bk.count], ?_⟩
  simp only [hasHitRateLimit, hcc, hce, Counter.add, hab, Bk.count, ESimK, if_true]
  cases aboveSpec (famCountK c k) (famIvlK c k) ((sp k).curLog c.period now) now
  · -- not above: hit table untouched
    simp only [Bool.false_eq_true, if_false, Tbl.put_same, hcb]
    exact ⟨⟨trivial, trivial, trivial, trivial⟩, hhit⟩
  · simp only [if_true, incBackoff, Tbl.get]
    cases hh : s.hit k with
    | none =>
      cases hb : (sp k).hitBorn with
      | none => simp [aliveAt, hcb]
      | some b => simp [hh, hb] at hhit
    | some en =>
      cases hb : (sp k).hitBorn with
      | none => simp [hh, hb] at hhit
      | some b =>
        simp [hh, hb] at hhit
        obtain ⟨hex, hv⟩ := hhit
        simp only [expired_expiry en b c.duration now hex]
        cases aliveAt (some b) c.duration now
        · simp [hcb]
        · simp [hcb, hex, hv]

theorem ehasHit_frame (c : Cfg) (s : St) (k k' : Key) (n : Nat) (i now : Int) (h : ¬ k' = k) :
    (hasHitRateLimit c s k n i now).1.req k' = s.req k' ∧
    (hasHitRateLimit c s k n i now).1.hit k' = s.hit k' := by
  simp only [hasHitRateLimit, incBackoff]
  split
  · split <;> simp [h]
  · simp [h]

theorem esim_step (c : Cfg) (s : St) (sp : ESpec) (e : Ev) (T : Int)
    (h4 : 0 ≤ c.v4ivl) (h6 : 0 ≤ c.v6ivl)
    (hs : ∀ k, ESimK c s sp k) (ht : ETimeInv sp T) (hpos : 0 < e.now) (hT : T ≤ e.now) :
    (isRateLimited c s e.now e.addr e.qtype).2 = (especStep c sp e).2 ∧
    (∀ k, ESimK c (isRateLimited c s e.now e.addr e.qtype).1 (especStep c sp e).1 k) ∧
    ETimeInv (especStep c sp e).1 e.now := by
  have hmono : ETimeInv sp e.now := fun k =>
    ⟨(ht k).1, fun x hx => ⟨((ht k).2 x hx).1, Int.le_trans ((ht k).2 x hx).2 hT⟩⟩
  have hek : subnetKey e.addr c.v4len c.v6len = evKey c e := rfl
  have hk := hs (evKey c e)
  have hb := ebackoff_agrees c s sp (evKey c e) e.now hk
  have hcl := ecurLog_inv sp e.now (evKey c e) c.period e.now hmono
  have hivl : 0 ≤ famIvlK c (evKey c e) := by unfold famIvlK; split <;> assumption
  have hab : above (famCountK c (evKey c e)) (famIvlK c (evKey c e))
        ((sp (evKey c e)).curLog c.period e.now) e.now =
      aboveSpec (famCountK c (evKey c e)) (famIvlK c (evKey c e))
        ((sp (evKey c e)).curLog c.period e.now) e.now := by
    apply above_eq_spec _ _ _ _ hivl
    · exact desc_cons hcl.1 (fun x hx => (hcl.2 x hx).2)
    · exact fun x hx => (hcl.2 x hx).1
    · exact hpos
  have hhs := ehasHit_sim c s sp (evKey c e) e.now hk hab
  unfold isRateLimited especStep
  split
  · exact ⟨rfl, hs, hmono⟩
  split
  · exact ⟨rfl, hs, hmono⟩
  rw [famCount_key, famIvl_key, hek, hb]
  by_cases hcond : (sp (evKey c e)).inBackoff c.count c.duration e.now = true
  · simp only [hcond, if_true]
    exact ⟨trivial, hs, hmono⟩
  simp only [hcond, if_false, Bool.false_eq_true]
  refine ⟨?_, ?_, ?_⟩
  · rw [hhs.1]
  · intro k
    by_cases hkk : k = evKey c e
    · subst hkk
      exact hhs.2
    · have hk' := hs k
      have hf := ehasHit_frame c s (evKey c e) k (famCountK c (evKey c e)) (famIvlK c (evKey c e)) e.now hkk
      unfold ESimK at hk' ⊢
      simp only [hkk, if_false]
      rw [hf.1, hf.2]
      exact hk'
  · intro k
    by_cases hkk : k = evKey c e
    · subst hkk
      simp only [if_true]
      have hlog : ((sp (evKey c e)).count (famCountK c (evKey c e)) (famIvlK c (evKey c e))
          c.period c.duration e.now).1.log = e.now :: (sp (evKey c e)).curLog c.period e.now := by
        unfold Bk.count; split <;> rfl
      rw [hlog]
      refine ⟨desc_cons hcl.1 (fun x hx => (hcl.2 x hx).2), ?_⟩
      intro x hx
      cases hx with
      | head => exact ⟨hpos, Int.le_refl _⟩
      | tail _ hx' => exact hcl.2 x hx'
    · simp only [hkk, if_false]; exact hmono k

/-! ## Without expiry the epoch specification is the plain window log -/

/-- Relation between the epoch specification and the plain one when epochs never die. -/
def PureK (esp : ESpec) (sp : Spec) (k : Key) : Prop :=
  (match (esp k).born with
    | none => (sp k).1 = []
    | some _ => (esp k).log = (sp k).1) ∧
  (match (esp k).hitBorn with
    | none => (sp k).2 = 0
    | some _ => (esp k).hits = (sp k).2 ∧ 0 < (sp k).2)

theorem aliveAt_forever (b : Option Int) (d now : Int) (hd : d ≤ 0) : aliveAt b d now = b.isSome := by
  cases b <;> simp [aliveAt, hd]

theorem pure_step (c : Cfg) (esp : ESpec) (sp : Spec) (e : Ev)
    (hp : c.period ≤ 0) (hdur : c.duration ≤ 0) (hs : ∀ k, PureK esp sp k) :
    (especStep c esp e).2 = (specStep c sp e).2 ∧
    ∀ k, PureK (especStep c esp e).1 (specStep c sp e).1 k := by
  obtain ⟨hlog, hhit⟩ := hs (evKey c e)
  have hcl : (esp (evKey c e)).curLog c.period e.now = (sp (evKey c e)).1 := by
    unfold Bk.curLog
    rw [aliveAt_forever _ _ _ hp]
    cases hb : (esp (evKey c e)).born with
    | none => simp [hb] at hlog; simp [hlog]
    | some b => simp [hb] at hlog; simp [hlog]
  have hcb : ∃ b, (esp (evKey c e)).curBorn c.period e.now = some b := by
    unfold Bk.curBorn
    rw [aliveAt_forever _ _ _ hp]
    cases hb : (esp (evKey c e)).born with
    | none => exact ⟨e.now, by simp⟩
    | some b => exact ⟨b, by simp⟩
  have hbo : (esp (evKey c e)).inBackoff c.count c.duration e.now =
      decide (0 < (sp (evKey c e)).2 ∧ c.count ≤ (sp (evKey c e)).2) := by
    unfold Bk.inBackoff
    rw [aliveAt_forever _ _ _ hdur]
    cases hb : (esp (evKey c e)).hitBorn with
    | none => simp [hb] at hhit; simp [hhit]
    | some b => simp [hb] at hhit; simp [hhit.1, hhit.2]
  obtain ⟨b', hcb⟩ := hcb
  unfold especStep specStep
  split
  · exact ⟨rfl, hs⟩
  split
  · exact ⟨rfl, hs⟩
  rw [hbo]
  split
  · exact ⟨rfl, hs⟩
  simp only [Bk.count, hcl]
  refine ⟨trivial, ?_⟩
  intro k
  by_cases hkk : k = evKey c e
  · subst hkk
    unfold PureK
    simp only [if_true]
    rw [aliveAt_forever _ _ _ hdur]
    cases aboveSpec (famCountK c (evKey c e)) (famIvlK c (evKey c e)) (sp (evKey c e)).1 e.now
    · simp only [Bool.false_eq_true, if_false, hcb, Nat.add_zero]
      exact ⟨trivial, hhit⟩
    · simp only [if_true, hcb]
      refine ⟨trivial, ?_⟩
      cases hb : (esp (evKey c e)).hitBorn with
      | none => simp [hb] at hhit; simp [hhit]
      | some b => simp [hb] at hhit; simp [hhit.1]
  · have := hs k
    unfold PureK at this ⊢
    simp only [hkk, if_false]
    exact this

end Agd.Ratelimit

namespace Agd.Ratelimit

/-! ## Quiet resets are unobservable: epoch specification vs. the reset-free one -/

/-- Bucket relation between the epoch specification (`b`) and the reset-free one (`b0`): same hit
epoch; the reset-free log is the epoch's log followed by older stamps, each more than `ivl` older
than the epoch's creation, which is not in the future (`≤ T`). -/
def QRel (ivl T : Int) (b b0 : Bk) : Prop :=
  b.hits = b0.hits ∧ b.hitBorn = b0.hitBorn ∧
  (match b.born with
    | none => b0.born = none
    | some t => b0.born.isSome = true ∧ t ≤ T ∧
        ∃ old, b0.log = b.log ++ old ∧ ∀ x ∈ old, ivl < t - x)

theorem qrel_mono {ivl T T' : Int} {b b0 : Bk} (h : QRel ivl T b b0) (hT : T ≤ T') :
    QRel ivl T' b b0 := by
  obtain ⟨h1, h2, h3⟩ := h
  refine ⟨h1, h2, ?_⟩
  cases hb : b.born with
  | none => simpa [hb] using h3
  | some t =>
    simp only [hb] at h3 ⊢
    exact ⟨h3.1, Int.le_trans h3.2.1 hT, h3.2.2⟩

theorem aliveAt_zero (t : Option Int) (now : Int) : aliveAt t 0 now = t.isSome := by
  cases t <;> simp [aliveAt]

theorem aboveSpec_append_old (num : Nat) (ivl now : Int) (l old : List Int)
    (h : ∀ x ∈ old, ivl < now - x) :
    aboveSpec num ivl (l ++ old) now = aboveSpec num ivl l now := by
  have hf : old.filter (fun t => decide (now - t ≤ ivl)) = [] := by
    apply List.filter_eq_nil_iff.mpr
    intro x hx
    have := h x hx
    simp; omega
  unfold aboveSpec
  rw [List.filter_append, hf, List.append_nil]

/-- What the event at `now` sees in the two buckets. -/
theorem qrel_cur (ivl period now T : Int) (b b0 : Bk) (h : QRel ivl T b b0) (hT : T ≤ now)
    (hq : b.resetsAt period now = true → ∀ x ∈ b.log, ivl < now - x) :
    ∃ t old, b.curBorn period now = some t ∧ t ≤ now ∧ (b0.curBorn 0 now).isSome = true ∧
      b0.curLog 0 now = b.curLog period now ++ old ∧ ∀ x ∈ old, ivl < t - x := by
  obtain ⟨_, _, h3⟩ := h
  unfold Bk.curBorn Bk.curLog
  rw [aliveAt_zero]
  cases hb : b.born with
  | none =>
    simp only [hb] at h3
    exact ⟨now, [], by simp [aliveAt], Int.le_refl _, by simp [h3], by simp [h3, aliveAt],
      fun x hx => by cases hx⟩
  | some t =>
    simp only [hb] at h3
    obtain ⟨hs, htT, old, hlog, hold⟩ := h3
    cases hal : aliveAt (some t) period now
    · -- reset
      have hr : b.resetsAt period now = true := by simp [Bk.resetsAt, hb, hal]
      have hq' := hq hr
      refine ⟨now, b.log ++ old, by simp, Int.le_refl _, by simp [hs], by simp [hs, hlog], ?_⟩
      intro x hx
      rcases List.mem_append.mp hx with hx | hx
      · exact hq' x hx
      · have := hold x hx; omega
    · exact ⟨t, old, by simp, Int.le_trans htT hT, by simp [hs], by simp [hs, hlog], hold⟩

theorem qrel_count (num : Nat) (ivl period duration now T : Int) (b b0 : Bk) (h : QRel ivl T b b0)
    (hT : T ≤ now) (hq : b.resetsAt period now = true → ∀ x ∈ b.log, ivl < now - x) :
    (b.count num ivl period duration now).2 = (b0.count num ivl 0 duration now).2 ∧
    QRel ivl now (b.count num ivl period duration now).1 (b0.count num ivl 0 duration now).1 := by
  obtain ⟨t, old, hcb, htn, hcb0, hcl0, hold⟩ := qrel_cur ivl period now T b b0 h hT hq
  obtain ⟨hh, hhb, _⟩ := h
  have hab : aboveSpec num ivl (b0.curLog 0 now) now = aboveSpec num ivl (b.curLog period now) now := by
    rw [hcl0]
    apply aboveSpec_append_old
    intro x hx
    have := hold x hx; omega
  unfold Bk.count
  rw [hab, ← hhb, ← hh]
  refine ⟨rfl, ?_⟩
  simp only []
  cases aboveSpec num ivl (b.curLog period now) now
  · simp only [Bool.false_eq_true, if_false, QRel, hcb]
    exact ⟨trivial, trivial, hcb0, htn, old, by simp [hcl0], hold⟩
  · simp only [if_true, QRel, hcb]
    exact ⟨trivial, trivial, hcb0, htn, old, by simp [hcl0], hold⟩

def QSimK (c : Cfg) (sp sp0 : ESpec) (T : Int) (k : Key) : Prop :=
  QRel (famIvlK c k) T (sp k) (sp0 k)

/-- The reset-free specification step, written over `c`. -/
theorem especStep_zero (c : Cfg) (sp0 : ESpec) (e : Ev) :
    especStep { c with period := 0 } sp0 e =
      if c.refuseAny && e.qtype == qtypeANY then (sp0, .drop)
      else if allowed c e.addr then (sp0, .allowlisted)
      else if (sp0 (evKey c e)).inBackoff c.count c.duration e.now then (sp0, .drop)
      else
        (fun k => if k = evKey c e then
            ((sp0 (evKey c e)).count (famCountK c (evKey c e)) (famIvlK c (evKey c e)) 0 c.duration e.now).1
          else sp0 k,
         if ((sp0 (evKey c e)).count (famCountK c (evKey c e)) (famIvlK c (evKey c e)) 0 c.duration e.now).2
         then .drop else .pass) := rfl

theorem qsim_step (c : Cfg) (sp sp0 : ESpec) (e : Ev) (T : Int)
    (hs : ∀ k, QSimK c sp sp0 T k) (hT : T ≤ e.now) (hq : quietStep c sp e = true) :
    (especStep c sp e).2 = (especStep { c with period := 0 } sp0 e).2 ∧
    ∀ k, QSimK c (especStep c sp e).1 (especStep { c with period := 0 } sp0 e).1 e.now k := by
  have hmono : ∀ k, QSimK c sp sp0 e.now k := fun k => qrel_mono (hs k) hT
  have hk := hs (evKey c e)
  have hbo : (sp0 (evKey c e)).inBackoff c.count c.duration e.now =
      (sp (evKey c e)).inBackoff c.count c.duration e.now := by
    unfold Bk.inBackoff; rw [hk.1, hk.2.1]
  rw [especStep_zero]
  unfold especStep
  rw [hbo]
  unfold quietStep at hq
  by_cases h1 : (c.refuseAny && e.qtype == qtypeANY) = true
  · simp only [h1, if_true]; exact ⟨trivial, hmono⟩
  by_cases h2 : allowed c e.addr = true
  · simp only [h1, h2, if_true, if_false, Bool.false_eq_true]; exact ⟨trivial, hmono⟩
  by_cases h3 : (sp (evKey c e)).inBackoff c.count c.duration e.now = true
  · simp only [h1, h2, h3, if_true, if_false, Bool.false_eq_true]; exact ⟨trivial, hmono⟩
  simp only [h1, h2, h3, if_false, Bool.false_eq_true] at hq ⊢
  have hq' : (sp (evKey c e)).resetsAt c.period e.now = true →
      ∀ x ∈ (sp (evKey c e)).log, famIvlK c (evKey c e) < e.now - x := by
    intro hr
    simp only [hr, if_true, List.all_eq_true, decide_eq_true_eq] at hq
    exact hq
  have hc := qrel_count (famCountK c (evKey c e)) (famIvlK c (evKey c e)) c.period c.duration e.now T
    (sp (evKey c e)) (sp0 (evKey c e)) hk hT hq'
  refine ⟨?_, ?_⟩
  · show (if _ then Verdict.drop else Verdict.pass) = (if _ then Verdict.drop else Verdict.pass)
    rw [hc.1]
  · intro k
    by_cases hkk : k = evKey c e
    · subst hkk
      unfold QSimK
      simp only [if_true]
      exact hc.2
    · have := hmono k
      unfold QSimK at this ⊢
      simp only [hkk, if_false]
      exact this

theorem quietStep_of_no_period (c : Cfg) (hp : c.period ≤ 0) (sp : ESpec) (e : Ev) :
    quietStep c sp e = true := by
  have hr : (sp (evKey c e)).resetsAt c.period e.now = false := by
    unfold Bk.resetsAt
    cases (sp (evKey c e)).born <;> simp [aliveAt, hp]
  unfold quietStep
  rw [hr]
  simp

/-! ## The allowlist enters only through `allowed` -/

theorem esimK_allow (c : Cfg) (al : List Prefix) (s : St) (sp : ESpec) (k : Key) :
    ESimK { c with allow := al } s sp k ↔ ESimK c s sp k := Iff.rfl

/-- An allowlisted verdict leaves the limiter state untouched. -/
theorem allowlisted_verdict_state (c : Cfg) (g : St) (now : Int) (a : Addr) (q : Nat)
    (h : (isRateLimited c g now a q).2 = .allowlisted) : (isRateLimited c g now a q).1 = g := by
  unfold isRateLimited at h ⊢
  split
  · rfl
  split
  · rfl
  split
  · rfl
  · rename_i h1 h2 h3
    simp only [h1, h2, h3, if_false, Bool.false_eq_true] at h
    split at h <;> cases h

end Agd.Ratelimit

namespace Agd.Ratelimit

/-! ## Profile limiter refinement -/

theorem profCheck_sim (p : ProfLim) (t : Int) (a : Addr) (T : Int)
    (hivl : 0 ≤ p.ctr.ivl) (hd : Desc p.ctr.hist) (hb : ∀ x ∈ p.ctr.hist, 0 < x ∧ x ≤ T)
    (hpos : 0 < t) (hT : T ≤ t) :
    p.check t a =
      if !p.subnets.isEmpty && !(p.subnets.any (fun s => s.contains a)) then (p, .useGlobal)
      else ({ p with ctr := { p.ctr with hist := t :: p.ctr.hist } },
        if aboveSpec p.ctr.num p.ctr.ivl p.ctr.hist t then .drop else .pass) := by
  have hab : above p.ctr.num p.ctr.ivl p.ctr.hist t = aboveSpec p.ctr.num p.ctr.ivl p.ctr.hist t := by
    apply above_eq_spec _ _ _ _ hivl
    · exact desc_cons hd (fun x hx => Int.le_trans (hb x hx).2 hT)
    · exact fun x hx => (hb x hx).1
    · exact hpos
  unfold ProfLim.check
  split
  · rfl
  · simp only [Counter.add, hab]

theorem profRun_sim (rps : Nat) (evs : List (Int × Addr)) :
    ∀ (p : ProfLim) (T : Int), p.ctr.num = rps → p.ctr.ivl = 1000000000 → Desc p.ctr.hist →
      (∀ x ∈ p.ctr.hist, 0 < x ∧ x ≤ T) → TChain T evs →
      profRun p evs = profSpecRun rps p.subnets p.ctr.hist evs := by
  induction evs with
  | nil => intro _ _ _ _ _ _ _; rfl
  | cons ta r ih =>
    intro p T hn hi hd hb hc
    obtain ⟨t, a⟩ := ta
    obtain ⟨hpos, hT, hrest⟩ := hc
    have hc := profCheck_sim p t a T (by rw [hi]; decide) hd hb hpos hT
    simp only [profRun, profSpecRun]
    rw [hc]
    by_cases hout : (!p.subnets.isEmpty && !(p.subnets.any (fun s => s.contains a))) = true
    · simp only [hout, if_true]
      rw [ih p t hn hi hd (fun x hx => ⟨(hb x hx).1, Int.le_trans (hb x hx).2 hT⟩) hrest]
    · simp only [hout, if_false, Bool.false_eq_true]
      rw [ih { p with ctr := { p.ctr with hist := t :: p.ctr.hist } } t hn hi (desc_cons hd (fun x hx => Int.le_trans (hb x hx).2 hT)) _ hrest, hn, hi]
      intro x hx
      cases hx with
      | head => exact ⟨hpos, Int.le_refl _⟩
      | tail _ hx' => exact ⟨(hb x hx').1, Int.le_trans (hb x hx').2 hT⟩

/-! ## The bucket key is the leading bits -/

theorem shiftRight_eq_iff_leading_bits (w bits x y : Nat) (hb : bits ≤ w) (hx : x < 2 ^ w)
    (hy : y < 2 ^ w) :
    x >>> (w - bits) = y >>> (w - bits) ↔
      ∀ i, i < bits → x.testBit (w - 1 - i) = y.testBit (w - 1 - i) := by
  constructor
  · intro h i hi
    have := congrArg (fun n => n.testBit (bits - 1 - i)) h
    simp only [Nat.testBit_shiftRight] at this
    have he : w - bits + (bits - 1 - i) = w - 1 - i := by omega
    rwa [he] at this
  · intro h
    apply Nat.eq_of_testBit_eq
    intro j
    simp only [Nat.testBit_shiftRight]
    by_cases hj : j < bits
    · have := h (bits - 1 - j) (by omega)
      have he : w - 1 - (bits - 1 - j) = w - bits + j := by omega
      rwa [he] at this
    · have hp : 2 ^ w ≤ 2 ^ (w - bits + j) := Nat.pow_le_pow_right (by decide) (by omega)
      rw [Nat.testBit_lt_two_pow (Nat.lt_of_lt_of_le hx hp),
        Nat.testBit_lt_two_pow (Nat.lt_of_lt_of_le hy hp)]

/-! ## Round 5: bursts (all events at one instant) -/

theorem above_replicate (num : Nat) (ivl t : Int) (k : Nat) (ht : 0 < t) (hivl : 0 ≤ ivl) :
    above num ivl (List.replicate k t) t = decide (num ≤ k) := by
  unfold above
  have h1 : (t :: List.replicate k t) = List.replicate (k + 1) t := by simp [List.replicate_succ]
  rw [h1, List.getElem?_replicate]
  by_cases h : num < k + 1
  · have : num ≤ k := by omega
    simp [h, ht, hivl, this]
  · have : ¬ num ≤ k := by omega
    simp [h, this]

theorem ctrRun_burst (num : Nat) (ivl t : Int) (ht : 0 < t) (hivl : 0 ≤ ivl) :
    ∀ (n k : Nat), ctrRun { num := num, ivl := ivl, hist := List.replicate k t } (List.replicate n t) =
      (List.range' k n).map (fun i => decide (num ≤ i))
  | 0, k => by simp [ctrRun]
  | n + 1, k => by
    have ih := ctrRun_burst num ivl t ht hivl n (k + 1)
    simp only [List.replicate_succ, ctrRun, Counter.add, List.range'_succ, List.map_cons]
    rw [above_replicate num ivl t k ht hivl]
    congr 1

theorem count_below (num : Nat) : ∀ n : Nat,
    ((List.range n).filter (fun i => !decide (num ≤ i))).length = min n num
  | 0 => by simp
  | n + 1 => by
    have ih := count_below num n
    rw [List.range_succ, List.filter_append, List.length_append, ih]
    by_cases h : num ≤ n
    · simp [h]; omega
    · simp [h]; omega

end Agd.Ratelimit
