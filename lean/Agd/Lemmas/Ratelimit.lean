import Agd.Model.Ratelimit
/-! Helper lemmas for C09. -/
namespace Agd.Ratelimit

/-- Non-increasing list (most recent first). -/
def Desc : List Int → Prop
  | [] => True
  | [_] => True
  | a :: b :: r => b ≤ a ∧ Desc (b :: r)

theorem desc_tail {a : Int} {l : List Int} (h : Desc (a :: l)) : Desc l := by
  cases l with
  | nil => trivial
  | cons b r => exact h.2

theorem desc_head_le {a : Int} {l : List Int} (h : Desc (a :: l)) : ∀ x ∈ l, x ≤ a := by
  induction l generalizing a with
  | nil => intro x hx; cases hx
  | cons b r ih =>
    intro x hx
    cases hx with
    | head => exact h.1
    | tail _ hx' => exact Int.le_trans (ih h.2 x hx') h.1

/-- In a descending list the in-window elements form a prefix. -/
theorem filter_len_desc (ivl ts : Int) :
    ∀ (hist : List Int) (n : Nat), Desc hist → (∀ x ∈ hist, x ≤ ts) →
      (n + 1 ≤ (hist.filter (fun t => decide (ts - t ≤ ivl))).length ↔
        ∃ t, hist[n]? = some t ∧ ts - t ≤ ivl) := by
  intro hist
  induction hist with
  | nil => intro n _ _; simp
  | cons a r ih =>
    intro n hd hle
    have hdr := desc_tail hd
    have hler : ∀ x ∈ r, x ≤ ts := fun x hx => hle x (List.mem_cons_of_mem _ hx)
    by_cases ha : ts - a ≤ ivl
    · cases n with
      | zero => simp [List.filter, ha]
      | succ m =>
        simp only [List.filter, ha, decide_true, List.length_cons, List.getElem?_cons_succ]
        have := ih m hdr hler
        rw [← this]; omega
    · have hall : ∀ x ∈ r, ¬ (ts - x ≤ ivl) := by
        intro x hx hc
        have := desc_head_le hd x hx
        omega
      have hf : r.filter (fun t => decide (ts - t ≤ ivl)) = [] := by
        apply List.filter_eq_nil_iff.mpr
        intro x hx; simpa using hall x hx
      simp only [List.filter, ha, decide_false, hf, List.length_nil]
      constructor
      · intro h; omega
      · rintro ⟨t, ht, hw⟩
        cases n with
        | zero => simp at ht; subst ht; exact absurd hw ha
        | succ m =>
          simp at ht
          have hm : t ∈ r := List.mem_of_getElem? ht
          exact absurd hw (hall t hm)

theorem above_eq_spec (num : Nat) (ivl : Int) (hist : List Int) (ts : Int)
    (hivl : 0 ≤ ivl) (hd : Desc (ts :: hist)) (hpos : ∀ x ∈ hist, 0 < x) (hts : 0 < ts) :
    above num ivl hist ts = aboveSpec num ivl hist ts := by
  unfold above aboveSpec
  cases num with
  | zero => simp [hts, hivl]
  | succ n =>
    have hle := desc_head_le hd
    have key := filter_len_desc ivl ts hist n (desc_tail hd) hle
    simp only [List.getElem?_cons_succ]
    cases hg : hist[n]? with
    | none =>
      have : ¬ (n + 1 ≤ (hist.filter (fun t => decide (ts - t ≤ ivl))).length) := by
        rw [key]; rintro ⟨t, ht, _⟩; rw [hg] at ht; cases ht
      simp [this]
    | some t =>
      have htpos : 0 < t := hpos t (List.mem_of_getElem? hg)
      have : (n + 1 ≤ (hist.filter (fun t => decide (ts - t ≤ ivl))).length) ↔ ts - t ≤ ivl := by
        rw [key]; constructor
        · rintro ⟨t', ht', hw⟩; rw [hg] at ht'; cases ht'; exact hw
        · intro hw; exact ⟨t, hg, hw⟩
      by_cases hw : ts - t ≤ ivl <;> simp [hw, htpos, this]

end Agd.Ratelimit
