import Agd.Model.BillStat
/-! Helper lemmas for C16 (billing statistics recorder). -/
namespace Agd.BillStat

@[simp] theorem cnt_empty (d : Dev) : cnt Recs.empty d = 0 := rfl

theorem cnt_record_same (t : Recs) (d : Dev) (m : Meta) : cnt (record t d m) d = cnt t d + 1 := by
  unfold record cnt
  cases h : t d <;> simp [put]

theorem cnt_record_other (t : Recs) (d k : Dev) (m : Meta) (h : k ≠ d) :
    cnt (record t d m) k = cnt t k := by
  unfold record cnt
  cases t d <;> simp [put, h]

theorem cnt_remerge (cur prev : Recs) (d : Dev) :
    cnt (remerge cur prev) d = cnt cur d + cnt prev d := by
  unfold remerge cnt
  cases hp : prev d <;> cases hc : cur d <;> simp [hp, hc]

@[simp] theorem sumIn_nil (d : Dev) : sumIn [] d = 0 := rfl

theorem sumIn_append (l₁ l₂ : List Batch) (d : Dev) :
    sumIn (l₁ ++ l₂) d = sumIn l₁ d + sumIn l₂ d := by
  induction l₁ with
  | nil => simp [sumIn]
  | cons b bs ih => simp [sumIn, ih]; omega

theorem sumIn_eraseIdx (l : List Batch) (i : Nat) (b : Batch) (d : Dev) (h : l[i]? = some b) :
    sumIn (l.eraseIdx i) d + cnt b.recs d = sumIn l d := by
  induction l generalizing i with
  | nil => simp at h
  | cons x xs ih =>
    cases i with
    | zero =>
      simp at h
      subst h
      simp [sumIn]; omega
    | succ j =>
      simp at h
      have := ih j h
      simp [sumIn]; omega

theorem cnt_le_sumIn (l : List Batch) (b : Batch) (d : Dev) (h : b ∈ l) :
    cnt b.recs d ≤ sumIn l d := by
  induction l with
  | nil => cases h
  | cons x xs ih =>
    rcases List.mem_cons.mp h with rfl | h'
    · simp [sumIn]
    · have := ih h'
      simp [sumIn]; omega

/-- The conservation equation for one device. -/
def Conserved (s : St) (d : Dev) : Prop :=
  s.delivered d + cnt s.pending d + sumIn s.inflight d = s.recorded d

theorem conserved_init (d : Dev) : Conserved St.init d := by
  simp [Conserved, St.init]

theorem conserved_step (s : St) (o : Op) (d : Dev) (h : Conserved s d) : Conserved (step s o) d := by
  unfold Conserved at *
  cases o with
  | record k m =>
    by_cases hk : d = k
    · subst hk
      simp [step, cnt_record_same]; omega
    · simp [step, cnt_record_other _ _ _ _ hk, hk]; omega
  | «begin» =>
    simp [step, sumIn_append, sumIn]; omega
  | endOk i =>
    simp only [step]
    cases hb : s.inflight[i]? with
    | none => simpa using h
    | some b =>
      have := sumIn_eraseIdx s.inflight i b d hb
      simp; omega
  | endFail i =>
    simp only [step]
    cases hb : s.inflight[i]? with
    | none => simpa using h
    | some b =>
      have := sumIn_eraseIdx s.inflight i b d hb
      simp [cnt_remerge]; omega

theorem conserved_stepSer (s : St) (o : Op) (d : Dev) (h : Conserved s d) :
    Conserved (stepSer s o) d := by
  unfold stepSer
  split
  · exact h
  · exact conserved_step s o d h

theorem conserved_run (s : St) (ops : List Op) (d : Dev) (h : Conserved s d) :
    Conserved (run s ops) d := by
  induction ops generalizing s with
  | nil => exact h
  | cons o os ih => exact ih _ (conserved_step s o d h)

theorem conserved_runSer (s : St) (ops : List Op) (d : Dev) (h : Conserved s d) :
    Conserved (runSer s ops) d := by
  induction ops generalizing s with
  | nil => exact h
  | cons o os ih => exact ih _ (conserved_stepSer s o d h)

/-! ### Ghost counters are what they claim to be -/

theorem recorded_step (s : St) (o : Op) (d : Dev) :
    (step s o).recorded d = s.recorded d + countRec d [o] := by
  cases o with
  | record k m =>
    by_cases hk : d = k
    · subst hk; simp [step, countRec]
    · have hk' : ¬ k = d := fun e => hk e.symm
      simp [step, countRec, hk, hk']
  | «begin» => simp [step, countRec]
  | endOk i => simp only [step]; cases s.inflight[i]? <;> simp [countRec]
  | endFail i => simp only [step]; cases s.inflight[i]? <;> simp [countRec]

theorem countRec_cons (d : Dev) (o : Op) (os : List Op) :
    countRec d (o :: os) = countRec d [o] + countRec d os := by
  cases o <;> simp [countRec]

theorem recorded_run (s : St) (ops : List Op) (d : Dev) :
    (run s ops).recorded d = s.recorded d + countRec d ops := by
  induction ops generalizing s with
  | nil => simp [run, countRec]
  | cons o os ih =>
    simp only [run]
    rw [ih, recorded_step, countRec_cons d o os]; omega

theorem recorded_stepSer (s : St) (o : Op) (d : Dev) :
    (stepSer s o).recorded d = s.recorded d + countRec d [o] := by
  unfold stepSer
  split
  · rename_i hb
    cases o <;> simp [blocked] at hb
    simp [countRec]
  · exact recorded_step s o d

theorem recorded_runSer (s : St) (ops : List Op) (d : Dev) :
    (runSer s ops).recorded d = s.recorded d + countRec d ops := by
  induction ops generalizing s with
  | nil => simp [runSer, countRec]
  | cons o os ih =>
    simp only [runSer]
    rw [ih, recorded_stepSer, countRec_cons d o os]; omega

theorem last_stepSer (s : St) (o : Op) (d : Dev) :
    (stepSer s o).last d = (lastRec d [o]).or (s.last d) := by
  unfold stepSer
  split
  · rename_i hb
    cases o <;> simp [blocked] at hb
    simp [lastRec]
  · cases o with
    | record k m =>
      by_cases hk : d = k
      · subst hk; simp [step, lastRec]
      · have hk' : ¬ k = d := fun e => hk e.symm
        simp [step, lastRec, hk, hk']
    | «begin» => simp [step, lastRec]
    | endOk i => simp only [step]; cases s.inflight[i]? <;> simp [lastRec]
    | endFail i => simp only [step]; cases s.inflight[i]? <;> simp [lastRec]

theorem lastRec_cons (d : Dev) (o : Op) (os : List Op) :
    lastRec d (o :: os) = (lastRec d os).or (lastRec d [o]) := by
  cases o with
  | record k m =>
    simp only [lastRec]
    cases lastRec d os <;> simp
  | «begin» => simp [lastRec]
  | endOk i => simp [lastRec]
  | endFail i => simp [lastRec]

theorem last_runSer (s : St) (ops : List Op) (d : Dev) :
    (runSer s ops).last d = (lastRec d ops).or (s.last d) := by
  induction ops generalizing s with
  | nil => simp [runSer, lastRec]
  | cons o os ih =>
    simp only [runSer]
    rw [ih, last_stepSer, lastRec_cons d o os]
    cases lastRec d os <;> simp

/-! ### Latest-meta invariant of the serialised recorder -/

/-- Invariant of the serialised recorder:
* at most one upload is in flight;
* a pending record carries the meta of the device's most recent query;
* a batch carries, per device, the meta of the most recent query when it was cut;
* while a batch is in flight, a device with nothing pending has not been seen since the cut. -/
structure MetaInv (s : St) : Prop where
  single : s.inflight.length ≤ 1
  pend : ∀ d r, s.pending d = some r → s.last d = some r.m
  batch : ∀ b ∈ s.inflight, ∀ d r, b.recs d = some r → b.snap d = some r.m
  quiet : ∀ b ∈ s.inflight, ∀ d, s.pending d = none → s.last d = b.snap d

theorem metaInv_init : MetaInv St.init := by
  constructor <;> simp [St.init, Recs.empty]

theorem inflight_singleton (s : St) (h : s.inflight.length ≤ 1) (i : Nat) (b : Batch)
    (hb : s.inflight[i]? = some b) : s.inflight = [b] ∧ i = 0 := by
  match hl : s.inflight, h with
  | [], _ => simp [hl] at hb
  | [x], _ =>
    cases i with
    | zero => simp [hl] at hb; simp [hb]
    | succ j => simp [hl] at hb

theorem metaInv_stepSer (s : St) (o : Op) (h : MetaInv s) : MetaInv (stepSer s o) := by
  unfold stepSer
  split
  · exact h
  rename_i hnb
  cases o with
  | record k m =>
    constructor
    · simpa [step] using h.single
    · intro d r hr
      by_cases hk : d = k
      · subst hk
        simp only [step, record] at hr ⊢
        cases hp : s.pending d <;> simp [hp, put] at hr <;> simp [← hr]
      · simp only [step, record] at hr ⊢
        have : s.pending d = some r := by
          cases hp : s.pending k <;> simp [hp, put, hk] at hr <;> exact hr
        simpa [hk] using h.pend d r this
    · intro b hb d r hr
      exact h.batch b (by simpa [step] using hb) d r hr
    · intro b hb d hd
      have hb' : b ∈ s.inflight := by simpa [step] using hb
      by_cases hk : d = k
      · subst hk
        simp only [step, record] at hd
        cases hp : s.pending d <;> simp [hp, put] at hd
      · simp only [step, record] at hd ⊢
        have : s.pending d = none := by
          cases hp : s.pending k <;> simp [hp, put, hk] at hd <;> exact hd
        simpa [hk] using h.quiet b hb' d this
  | «begin» =>
    have hemp : s.inflight = [] := by
      simp [blocked] at hnb
      exact hnb
    constructor
    · simp [step, hemp]
    · intro d r hr
      simp [step, Recs.empty] at hr
    · intro b hb d r hr
      simp [step, hemp] at hb
      subst hb
      exact h.pend d r hr
    · intro b hb d _
      simp [step, hemp] at hb
      subst hb
      simp [step]
  | endOk i =>
    simp only [step]
    cases hb : s.inflight[i]? with
    | none => exact h
    | some b =>
      obtain ⟨hl, hi⟩ := inflight_singleton s h.single i b hb
      subst hi
      constructor
      · simp [hl]
      · intro d r hr; exact h.pend d r hr
      · intro b' hb'; simp [hl] at hb'
      · intro b' hb'; simp [hl] at hb'
  | endFail i =>
    simp only [step]
    cases hb : s.inflight[i]? with
    | none => exact h
    | some b =>
      obtain ⟨hl, hi⟩ := inflight_singleton s h.single i b hb
      subst hi
      have hmem : b ∈ s.inflight := by simp [hl]
      constructor
      · simp [hl]
      · intro d r hr
        simp only [remerge] at hr
        cases hp : b.recs d with
        | none => simp [hp] at hr; exact h.pend d r hr
        | some p =>
          cases hc : s.pending d with
          | none =>
            simp [hp, hc] at hr
            subst hr
            rw [h.quiet b hmem d hc]
            exact h.batch b hmem d p hp
          | some c =>
            simp [hp, hc] at hr
            subst hr
            exact h.pend d c hc
      · intro b' hb'; simp [hl] at hb'
      · intro b' hb'; simp [hl] at hb'

theorem metaInv_runSer (s : St) (ops : List Op) (h : MetaInv s) : MetaInv (runSer s ops) := by
  induction ops generalizing s with
  | nil => exact h
  | cons o os ih => exact ih _ (metaInv_stepSer s o h)

end Agd.BillStat
