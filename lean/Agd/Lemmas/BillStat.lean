import Agd.Model.BillStat
/-! Helper lemmas for C16 (billing statistics recorder). -/
namespace Agd.BillStat

@[simp] theorem cnt_empty (d : Dev) : cnt Recs.empty d = 0 := rfl

theorem cnt_record_same (t : Recs) (d : Dev) (m : Meta) : cnt (record t d m) d = cnt t d + 1 := by
  unfold record cnt
  cases h : t d <;> simp [put]

theorem cnt_record_other (t : Recs) (d k : Dev) (m : Meta) (h : k ≠ d) :
    cnt (record t d m) k = cnt t k := by
  unfold record cnt
  cases t d <;> simp [put, h]

theorem cnt_remerge (cur prev : Recs) (d : Dev) :
    cnt (remerge cur prev) d = cnt cur d + cnt prev d := by
  unfold remerge cnt
  cases hp : prev d <;> cases hc : cur d <;> simp [hp, hc]

@[simp] theorem sumIn_nil (d : Dev) : sumIn [] d = 0 := rfl

theorem sumIn_append (l₁ l₂ : List Batch) (d : Dev) :
    sumIn (l₁ ++ l₂) d = sumIn l₁ d + sumIn l₂ d := by
  induction l₁ with
  | nil => simp [sumIn]
  | cons b bs ih => simp [sumIn, ih]; omega

theorem sumIn_eraseIdx (l : List Batch) (i : Nat) (b : Batch) (d : Dev) (h : l[i]? = some b) :
    sumIn (l.eraseIdx i) d + cnt b.recs d = sumIn l d := by
  induction l generalizing i with
  | nil => simp at h
  | cons x xs ih =>
    cases i with
    | zero =>
      simp at h
      subst h
      simp [sumIn]; omega
    | succ j =>
      simp at h
      have := ih j h
      simp [sumIn]; omega

theorem cnt_le_sumIn (l : List Batch) (b : Batch) (d : Dev) (h : b ∈ l) :
    cnt b.recs d ≤ sumIn l d := by
  induction l with
  | nil => cases h
  | cons x xs ih =>
    rcases List.mem_cons.mp h with rfl | h'
    · simp [sumIn]
    · have := ih h'
      simp [sumIn]; omega

/-- The conservation equation for one device. -/
def Conserved (s : St) (d : Dev) : Prop :=
  s.delivered d + cnt s.pending d + sumIn s.inflight d = s.recorded d

theorem conserved_init (d : Dev) : Conserved St.init d := by
  simp [Conserved, St.init]

theorem conserved_step (s : St) (o : Op) (d : Dev) (h : Conserved s d) : Conserved (step s o) d := by
  unfold Conserved at *
  cases o with
  | record k m =>
    by_cases hk : d = k
    · subst hk
      simp [step, cnt_record_same]; omega
    · simp [step, cnt_record_other _ _ _ _ hk, hk]; omega
  | «begin» =>
    simp [step, sumIn_append, sumIn]; omega
  | endOk i =>
    simp only [step]
    cases hb : s.inflight[i]? with
    | none => simpa using h
    | some b =>
      have := sumIn_eraseIdx s.inflight i b d hb
      simp; omega
  | endFail i =>
    simp only [step]
    cases hb : s.inflight[i]? with
    | none => simpa using h
    | some b =>
      have := sumIn_eraseIdx s.inflight i b d hb
      simp [cnt_remerge]; omega

theorem conserved_stepSer (s : St) (o : Op) (d : Dev) (h : Conserved s d) :
    Conserved (stepSer s o) d := by
  unfold stepSer
  split
  · exact h
  · exact conserved_step s o d h

theorem conserved_run (s : St) (ops : List Op) (d : Dev) (h : Conserved s d) :
    Conserved (run s ops) d := by
  induction ops generalizing s with
  | nil => exact h
  | cons o os ih => exact ih _ (conserved_step s o d h)

theorem conserved_runSer (s : St) (ops : List Op) (d : Dev) (h : Conserved s d) :
    Conserved (runSer s ops) d := by
  induction ops generalizing s with
  | nil => exact h
  | cons o os ih => exact ih _ (conserved_stepSer s o d h)

/-! ### Ghost counters are what they claim to be -/

theorem recorded_step (s : St) (o : Op) (d : Dev) :
    (step s o).recorded d = s.recorded d + countRec d [o] := by
  cases o with
  | record k m =>
    by_cases hk : d = k
    · subst hk; simp [step, countRec]
    · have hk' : ¬ k = d := fun e => hk e.symm
      simp [step, countRec, hk, hk']
  | «begin» => simp [step, countRec]
  | endOk i => simp only [step]; cases s.inflight[i]? <;> simp [countRec]
  | endFail i => simp only [step]; cases s.inflight[i]? <;> simp [countRec]

theorem countRec_cons (d : Dev) (o : Op) (os : List Op) :
    countRec d (o :: os) = countRec d [o] + countRec d os := by
  cases o <;> simp [countRec]

theorem recorded_run (s : St) (ops : List Op) (d : Dev) :
    (run s ops).recorded d = s.recorded d + countRec d ops := by
  induction ops generalizing s with
  | nil => simp [run, countRec]
  | cons o os ih =>
    simp only [run]
    rw [ih, recorded_step, countRec_cons d o os]; omega

theorem recorded_stepSer (s : St) (o : Op) (d : Dev) :
    (stepSer s o).recorded d = s.recorded d + countRec d [o] := by
  unfold stepSer
  split
  · rename_i hb
    cases o <;> simp [blocked] at hb
    simp [countRec]
  · exact recorded_step s o d

theorem recorded_runSer (s : St) (ops : List Op) (d : Dev) :
    (runSer s ops).recorded d = s.recorded d + countRec d ops := by
  induction ops generalizing s with
  | nil => simp [runSer, countRec]
  | cons o os ih =>
    simp only [runSer]
    rw [ih, recorded_stepSer, countRec_cons d o os]; omega

theorem last_stepSer (s : St) (o : Op) (d : Dev) :
    (stepSer s o).last d = (lastRec d [o]).or (s.last d) := by
  unfold stepSer
  split
  · rename_i hb
    cases o <;> simp [blocked] at hb
    simp [lastRec]
  · cases o with
    | record k m =>
      by_cases hk : d = k
      · subst hk; simp [step, lastRec]
      · have hk' : ¬ k = d := fun e => hk e.symm
        simp [step, lastRec, hk, hk']
    | «begin» => simp [step, lastRec]
    | endOk i => simp only [step]; cases s.inflight[i]? <;> simp [lastRec]
    | endFail i => simp only [step]; cases s.inflight[i]? <;> simp [lastRec]

theorem lastRec_cons (d : Dev) (o : Op) (os : List Op) :
    lastRec d (o :: os) = (lastRec d os).or (lastRec d [o]) := by
  cases o with
  | record k m =>
    simp only [lastRec]
    cases lastRec d os <;> simp
  | «begin» => simp [lastRec]
  | endOk i => simp [lastRec]
  | endFail i => simp [lastRec]

theorem last_runSer (s : St) (ops : List Op) (d : Dev) :
    (runSer s ops).last d = (lastRec d ops).or (s.last d) := by
  induction ops generalizing s with
  | nil => simp [runSer, lastRec]
  | cons o os ih =>
    simp only [runSer]
    rw [ih, last_stepSer, lastRec_cons d o os]
    cases lastRec d os <;> simp

/-! ### Latest-meta invariant of the serialised recorder -/

/-- Invariant of the serialised recorder:
* at most one upload is in flight;
* a pending record carries the meta of the device's most recent query;
* a batch carries, per device, the meta of the most recent query when it was cut;
* while a batch is in flight, a device with nothing pending has not been seen since the cut. -/
structure MetaInv (s : St) : Prop where
  single : s.inflight.length ≤ 1
  pend : ∀ d r, s.pending d = some r → s.last d = some r.m
  batch : ∀ b ∈ s.inflight, ∀ d r, b.recs d = some r → b.snap d = some r.m
  quiet : ∀ b ∈ s.inflight, ∀ d, s.pending d = none → s.last d = b.snap d

theorem metaInv_init : MetaInv St.init := by
  constructor <;> simp [St.init, Recs.empty]

theorem inflight_singleton (s : St) (h : s.inflight.length ≤ 1) (i : Nat) (b : Batch)
    (hb : s.inflight[i]? = some b) : s.inflight = [b] ∧ i = 0 := by
  match hl : s.inflight, h with
  | [], _ => simp [hl] at hb
  | [x], _ =>
    cases i with
    | zero => simp [hl] at hb; simp [hb]
    | succ j => simp [hl] at hb

theorem metaInv_stepSer (s : St) (o : Op) (h : MetaInv s) : MetaInv (stepSer s o) := by
  unfold stepSer
  split
  · exact h
  rename_i hnb
  cases o with
  | record k m =>
    constructor
    · simpa [step] using h.single
    · intro d r hr
      by_cases hk : d = k
      · subst hk
        simp only [step, record] at hr ⊢
        cases hp : s.pending d <;> simp [hp, put] at hr <;> simp [← hr]
      · simp only [step, record] at hr ⊢
        have : s.pending d = some r := by
          cases hp : s.pending k <;> simp [hp, put, hk] at hr <;> exact hr
        simpa [hk] using h.pend d r this
    · intro b hb d r hr
      exact h.batch b (by simpa [step] using hb) d r hr
    · intro b hb d hd
      have hb' : b ∈ s.inflight := by simpa [step] using hb
      by_cases hk : d = k
      · subst hk
        simp only [step, record] at hd
        cases hp : s.pending d <;> simp [hp, put] at hd
      · simp only [step, record] at hd ⊢
        have : s.pending d = none := by
          cases hp : s.pending k <;> simp [hp, put, hk] at hd <;> exact hd
        simpa [hk] using h.quiet b hb' d this
  | «begin» =>
    have hemp : s.inflight = [] := by
      simp [blocked] at hnb
      exact hnb
    constructor
    · simp [step, hemp]
    · intro d r hr
      simp [step, Recs.empty] at hr
    · intro b hb d r hr
      simp [step, hemp] at hb
      subst hb
      exact h.pend d r hr
    · intro b hb d _
      simp [step, hemp] at hb
      subst hb
      simp [step]
  | endOk i =>
    simp only [step]
    cases hb : s.inflight[i]? with
    | none => exact h
    | some b =>
      obtain ⟨hl, hi⟩ := inflight_singleton s h.single i b hb
      subst hi
      constructor
      · simp [hl]
      · intro d r hr; exact h.pend d r hr
      · intro b' hb'; simp [hl] at hb'
      · intro b' hb'; simp [hl] at hb'
  | endFail i =>
    simp only [step]
    cases hb : s.inflight[i]? with
    | none => exact h
    | some b =>
      obtain ⟨hl, hi⟩ := inflight_singleton s h.single i b hb
      subst hi
      have hmem : b ∈ s.inflight := by simp [hl]
      constructor
      · simp [hl]
      · intro d r hr
        simp only [remerge] at hr
        cases hp : b.recs d with
        | none => simp [hp] at hr; exact h.pend d r hr
        | some p =>
          cases hc : s.pending d with
          | none =>
            simp [hp, hc] at hr
            subst hr
            rw [h.quiet b hmem d hc]
            exact h.batch b hmem d p hp
          | some c =>
            simp [hp, hc] at hr
            subst hr
            exact h.pend d c hc
      · intro b' hb'; simp [hl] at hb'
      · intro b' hb'; simp [hl] at hb'

theorem metaInv_runSer (s : St) (ops : List Op) (h : MetaInv s) : MetaInv (runSer s ops) := by
  induction ops generalizing s with
  | nil => exact h
  | cons o os ih => exact ih _ (metaInv_stepSer s o h)


/-! ### The recorder refines the ledger -/

@[simp] theorem view_zero (m : Option Meta) : view 0 m = none := by
  cases m <;> simp [view]

theorem view_some_iff (n : Nat) (m : Option Meta) (r : Rec) :
    view n m = some r ↔ (m = some r.m ∧ r.n = n ∧ 0 < n) := by
  cases m with
  | none => simp [view]
  | some x =>
    by_cases hn : n = 0
    · subst hn; simp [view]
    · simp only [view, hn, if_false]
      constructor
      · intro h
        have : r = ⟨x, n⟩ := (Option.some.inj h).symm
        subst this
        exact ⟨rfl, rfl, by omega⟩
      · rintro ⟨h1, h2, _⟩
        cases r
        simp_all

theorem view_none_zero (n : Nat) (m : Option Meta) (hm : 0 < n → m.isSome) (h : view n m = none) :
    n = 0 := by
  cases m with
  | none =>
    by_cases hn : n = 0
    · exact hn
    · have := hm (by omega); simp at this
  | some x =>
    by_cases hn : n = 0
    · exact hn
    · simp [view, hn] at h

/-- Invariant of the ledger: owed queries have a most recent query; so have the counters in
flight; while an upload is in flight, a device with nothing owed has not been seen since the
cut. -/
structure LedgerInv (l : Ledger) : Prop where
  owedMeta : ∀ d, 0 < l.owed d → (l.lastM d).isSome
  flyMetaSome : ∀ f, l.flying = some f → ∀ d, 0 < f d → (l.flyMeta d).isSome
  quiet : ∀ f, l.flying = some f → ∀ d, l.owed d = 0 → l.lastM d = l.flyMeta d

/-- The recorder's state shows exactly what the ledger holds. -/
structure Refines (s : St) (l : Ledger) : Prop where
  pend : ∀ d, s.pending d = view (l.owed d) (l.lastM d)
  paid : ∀ d, s.delivered d = l.paid d
  flyNone : l.flying = none → s.inflight = []
  flySome : ∀ f, l.flying = some f →
    ∃ b, s.inflight = [b] ∧ ∀ d, b.recs d = view (f d) (l.flyMeta d)
  reports : ∀ d, s.log.map (fun r => r d) = l.reports.map (fun r => r d)

theorem ledgerInv_init : LedgerInv Ledger.init := by
  constructor <;> simp [Ledger.init]

theorem refines_init : Refines St.init Ledger.init := by
  constructor <;> simp [St.init, Ledger.init, Recs.empty]

theorem cnt_of_view (t : Recs) (d : Dev) (n : Nat) (m : Option Meta) (hm : 0 < n → m.isSome)
    (h : t d = view n m) : cnt t d = n := by
  unfold cnt
  cases hv : view n m with
  | none => rw [h, hv]; exact (view_none_zero n m hm hv).symm
  | some r => rw [h, hv]; exact ((view_some_iff n m r).mp hv).2.1

theorem stepSer_not_begin (s : St) (o : Op) (h : o ≠ .begin) : stepSer s o = step s o := by
  cases o <;> simp_all [stepSer, blocked]

theorem refines_stepSer (s : St) (l : Ledger) (o : Op) (hr : Refines s l) (hi : LedgerInv l) :
    Refines (stepSer s o) (l.step o) ∧ LedgerInv (l.step o) := by
  cases o with
  | record k m =>
    rw [stepSer_not_begin s _ (by simp)]
    refine ⟨⟨?_, ?_, ?_, ?_, ?_⟩, ⟨?_, ?_, ?_⟩⟩
    · intro d
      by_cases hk : d = k
      · subst hk
        have hp := hr.pend d
        simp only [step, record, Ledger.step, if_true]
        cases hv : view (l.owed d) (l.lastM d) with
        | none =>
          have h0 := view_none_zero _ _ (hi.owedMeta d) hv
          rw [hp, hv]
          simp [put, view, h0]
        | some r =>
          obtain ⟨_, hn, _⟩ := (view_some_iff _ _ r).mp hv
          rw [hp, hv]
          simp [put, view, hn]
      · have hp := hr.pend d
        simp only [step, record, Ledger.step, hk, if_false]
        cases s.pending k <;> simpa [put, hk] using hp
    · intro d; simpa [step, Ledger.step] using hr.paid d
    · intro h; simpa [step, Ledger.step] using hr.flyNone (by simpa [Ledger.step] using h)
    · intro f h
      simpa [step, Ledger.step] using hr.flySome f (by simpa [Ledger.step] using h)
    · intro d; simpa [step, Ledger.step] using hr.reports d
    · intro d hd
      by_cases hk : d = k
      · simp [Ledger.step, hk]
      · simp only [Ledger.step, hk, if_false] at hd ⊢
        exact hi.owedMeta d hd
    · intro f h d hd
      exact hi.flyMetaSome f (by simpa [Ledger.step] using h) d hd
    · intro f h d hd
      by_cases hk : d = k
      · simp [Ledger.step, hk] at hd
      · simp only [Ledger.step, hk, if_false] at hd ⊢
        exact hi.quiet f (by simpa [Ledger.step] using h) d hd
  | «begin» =>
    cases hf : l.flying with
    | some f =>
      obtain ⟨b, hb, _⟩ := hr.flySome f hf
      have : stepSer s .begin = s := by simp [stepSer, blocked, hb]
      have hl : l.step .begin = l := by simp [Ledger.step, hf]
      rw [this, hl]
      exact ⟨hr, hi⟩
    | none =>
      have he := hr.flyNone hf
      have : stepSer s .begin = step s .begin := by simp [stepSer, blocked, he]
      rw [this]
      refine ⟨⟨?_, ?_, ?_, ?_, ?_⟩, ⟨?_, ?_, ?_⟩⟩
      · intro d; simp [step, Ledger.step, hf, Recs.empty]
      · intro d; simpa [step, Ledger.step, hf] using hr.paid d
      · intro h; simp [Ledger.step, hf] at h
      · intro f h
        simp [Ledger.step, hf] at h
        subst h
        refine ⟨⟨s.pending, s.last⟩, by simp [step, he], ?_⟩
        intro d
        simpa [Ledger.step, hf] using hr.pend d
      · intro d; simpa [step, Ledger.step, hf] using hr.reports d
      · intro d hd; simp [Ledger.step, hf] at hd
      · intro f h d hd
        simp [Ledger.step, hf] at h
        subst h
        simpa [Ledger.step, hf] using hi.owedMeta d hd
      · intro f h d _
        simp [Ledger.step, hf]
  | endOk i =>
    rw [stepSer_not_begin s _ (by simp)]
    cases hf : l.flying with
    | none =>
      have he := hr.flyNone hf
      have hs : step s (.endOk i) = s := by simp [step, he]
      have hl : l.step (.endOk i) = l := by cases i <;> simp [Ledger.step, hf]
      rw [hs, hl]; exact ⟨hr, hi⟩
    | some f =>
      obtain ⟨b, hb, hrec⟩ := hr.flySome f hf
      cases i with
      | succ j =>
        have hs : step s (.endOk (j + 1)) = s := by simp [step, hb]
        have hl : l.step (.endOk (j + 1)) = l := by simp [Ledger.step]
        rw [hs, hl]; exact ⟨hr, hi⟩
      | zero =>
        have hcnt : ∀ d, cnt b.recs d = f d := fun d =>
          cnt_of_view b.recs d (f d) (l.flyMeta d) (hi.flyMetaSome f hf d) (hrec d)
        refine ⟨⟨?_, ?_, ?_, ?_, ?_⟩, ⟨?_, ?_, ?_⟩⟩
        · intro d; simpa [step, hb, Ledger.step, hf] using hr.pend d
        · intro d; simp [step, hb, Ledger.step, hf, hcnt d, hr.paid d]
        · intro _; simp [step, hb]
        · intro f' h; simp [Ledger.step, hf] at h
        · intro d; simp [step, hb, Ledger.step, hf, hr.reports d, hrec d]
        · intro d hd
          simp only [Ledger.step, hf] at hd ⊢
          exact hi.owedMeta d hd
        · intro f' h; simp [Ledger.step, hf] at h
        · intro f' h; simp [Ledger.step, hf] at h
  | endFail i =>
    rw [stepSer_not_begin s _ (by simp)]
    cases hf : l.flying with
    | none =>
      have he := hr.flyNone hf
      have hs : step s (.endFail i) = s := by simp [step, he]
      have hl : l.step (.endFail i) = l := by cases i <;> simp [Ledger.step, hf]
      rw [hs, hl]; exact ⟨hr, hi⟩
    | some f =>
      obtain ⟨b, hb, hrec⟩ := hr.flySome f hf
      cases i with
      | succ j =>
        have hs : step s (.endFail (j + 1)) = s := by simp [step, hb]
        have hl : l.step (.endFail (j + 1)) = l := by simp [Ledger.step]
        rw [hs, hl]; exact ⟨hr, hi⟩
      | zero =>
        refine ⟨⟨?_, ?_, ?_, ?_, ?_⟩, ⟨?_, ?_, ?_⟩⟩
        · intro d
          have hp := hr.pend d
          have hbd := hrec d
          simp only [step, hb, List.getElem?_cons_zero, remerge, Ledger.step, hf]
          cases hv : view (f d) (l.flyMeta d) with
          | none =>
            have h0 := view_none_zero _ _ (hi.flyMetaSome f hf d) hv
            rw [hbd, hv]
            simpa [h0] using hp
          | some p =>
            obtain ⟨hpm, hpn, hpos⟩ := (view_some_iff _ _ p).mp hv
            rw [hbd, hv]
            cases hc : view (l.owed d) (l.lastM d) with
            | none =>
              have h0 := view_none_zero _ _ (hi.owedMeta d) hc
              have hq := hi.quiet f hf d h0
              rw [hp, hc]
              simp only [h0, Nat.zero_add]
              rw [hq]
              exact hv.symm
            | some c =>
              obtain ⟨hcm, hcn, hcpos⟩ := (view_some_iff _ _ c).mp hc
              rw [hp, hc]
              simp only
              symm
              rw [view_some_iff]
              exact ⟨hcm, by simp; omega, by omega⟩
        · intro d; simpa [step, hb, Ledger.step, hf] using hr.paid d
        · intro _; simp [step, hb]
        · intro f' h; simp [Ledger.step, hf] at h
        · intro d; simpa [step, hb, Ledger.step, hf] using hr.reports d
        · intro d hd
          simp only [Ledger.step, hf] at hd ⊢
          by_cases h0 : l.owed d = 0
          · have hq := hi.quiet f hf d h0
            rw [hq]
            exact hi.flyMetaSome f hf d (by omega)
          · exact hi.owedMeta d (by omega)
        · intro f' h; simp [Ledger.step, hf] at h
        · intro f' h; simp [Ledger.step, hf] at h

theorem refines_runSer (s : St) (l : Ledger) (ops : List Op) (hr : Refines s l) (hi : LedgerInv l) :
    Refines (runSer s ops) (l.run ops) ∧ LedgerInv (l.run ops) := by
  induction ops generalizing s l with
  | nil => exact ⟨hr, hi⟩
  | cons o os ih =>
    obtain ⟨hr', hi'⟩ := refines_stepSer s l o hr hi
    exact ih _ _ hr' hi'


theorem runSer_append (s : St) (a b : List Op) : runSer s (a ++ b) = runSer (runSer s a) b := by
  induction a generalizing s with
  | nil => rfl
  | cons o os ih => simp [runSer, ih]

/-- An op list that consists of `record` calls only. -/
def RecordsOnly (ops : List Op) : Prop := ∀ o ∈ ops, ∃ d m, o = Op.record d m

/-- Records change neither the uploads in flight nor what has been delivered. -/
theorem records_frame (s : St) (ops : List Op) (h : RecordsOnly ops) :
    (runSer s ops).inflight = s.inflight ∧ (runSer s ops).delivered = s.delivered ∧
      (runSer s ops).log = s.log := by
  induction ops generalizing s with
  | nil => simp [runSer]
  | cons o os ih =>
    obtain ⟨d, m, rfl⟩ := h o (by simp)
    have := ih (stepSer s (.record d m)) (fun o ho => h o (by simp [ho]))
    simp only [runSer]
    rw [this.1, this.2.1, this.2.2]
    simp [stepSer, blocked, step]

theorem pending_pos (ops : List Op) (d : Dev) (r : Rec)
    (h : (runSer St.init ops).pending d = some r) : 0 < r.n := by
  obtain ⟨hr, _⟩ := refines_runSer St.init Ledger.init ops refines_init ledgerInv_init
  have := hr.pend d
  rw [h] at this
  have := (view_some_iff _ _ r).mp this.symm
  omega


theorem begin_quiescent (s : St) (hq : s.inflight = []) :
    (stepSer s .begin).inflight = [⟨s.pending, s.last⟩] ∧ (stepSer s .begin).delivered = s.delivered ∧
      (stepSer s .begin).log = s.log := by
  simp [stepSer, blocked, hq, step]

theorem endOk_single (s : St) (b : Batch) (h : s.inflight = [b]) :
    (stepSer s (.endOk 0)).log = s.log ++ [b.recs] ∧
      (∀ d, (stepSer s (.endOk 0)).delivered d = s.delivered d + cnt b.recs d) ∧
      (stepSer s (.endOk 0)).inflight = [] := by
  simp [stepSer, blocked, step, h]

theorem endFail_single (s : St) (b : Batch) (h : s.inflight = [b]) :
    (stepSer s (.endFail 0)).log = s.log ∧ (stepSer s (.endFail 0)).delivered = s.delivered ∧
      (stepSer s (.endFail 0)).inflight = [] := by
  simp [stepSer, blocked, step, h]

/-- Shape of a run that cuts a batch after `pre`, lets `mid` happen and ends the upload. -/
theorem run_upload_shape (pre mid : List Op) (e : Op) :
    runSer St.init (pre ++ .begin :: (mid ++ [e])) =
      stepSer (runSer (stepSer (runSer St.init pre) .begin) mid) e := by
  rw [runSer_append]; simp only [runSer]; rw [runSer_append]; simp [runSer]

theorem countRec_append (d : Dev) (a b : List Op) : countRec d (a ++ b) = countRec d a + countRec d b := by
  induction a with
  | nil => simp [countRec]
  | cons o os ih => rw [List.cons_append, countRec_cons d o, countRec_cons d o os, ih]; omega

theorem lastRec_append (d : Dev) (a b : List Op) :
    lastRec d (a ++ b) = (lastRec d b).or (lastRec d a) := by
  induction a with
  | nil => simp [lastRec]
  | cons o os ih =>
    rw [List.cons_append, lastRec_cons d o, lastRec_cons d o os, ih]
    cases lastRec d b <;> simp


/-! ### The uploader -/

theorem sendAll_ok (b : Backend) (i : Nat) (ws : List Wire) (h : (sendAll b i ws).1 = true) :
    (sendAll b i ws).2 = ws := by
  induction ws generalizing i with
  | nil => simp [sendAll]
  | cons w ws ih =>
    simp only [sendAll] at h ⊢
    split at h
    · simp at h
    · rename_i hne
      simp only [hne, if_false]
      simp at h
      rw [ih (i + 1) h]

theorem sendAll_ok_iff (b : Backend) (i : Nat) (ws : List Wire) :
    (sendAll b i ws).1 = true ↔ ∀ j, j < ws.length → b.sendFailsAt ≠ some (i + j) := by
  induction ws generalizing i with
  | nil => simp [sendAll]
  | cons w ws ih =>
    simp only [sendAll]
    split
    · rename_i he
      simp only [Bool.false_eq_true, false_iff]
      intro h
      exact h 0 (by simp) (by simpa using he)
    · rename_i hne
      simp only
      rw [ih (i + 1)]
      constructor
      · intro h j hj
        cases j with
        | zero => simpa using hne
        | succ k =>
          have := h k (by simp at hj; omega)
          rwa [show i + 1 + k = i + (k + 1) by omega] at this
      · intro h j hj
        have := h (j + 1) (by simp; omega)
        rwa [show i + (j + 1) = i + 1 + j by omega] at this

/-! ### End to end: server → recorder → uploader → backend -/

theorem upload_ok_sent (b : Backend) (batch : List Wire) (h : (upload b batch).1 = true) :
    (upload b batch).2 = batch := by
  unfold upload at h ⊢
  by_cases he : batch.isEmpty
  · cases batch with
    | nil => simp
    | cons w ws => simp at he
  · simp only [he, Bool.false_eq_true, if_false] at h ⊢
    by_cases ho : b.openFails
    · simp [ho] at h
    · simp only [ho, Bool.false_eq_true, if_false] at h ⊢
      by_cases hs : (sendAll b 0 batch).1
      · simp only [hs, Bool.not_true, Bool.false_eq_true, if_false] at h ⊢
        cases hc : b.close <;> simp [hc] at h ⊢ <;> exact sendAll_ok b 0 batch hs
      · simp [hs] at h

theorem runSer_one (s : St) (o : Op) : runSer s [o] = stepSer s o := rfl

theorem wireSum_filterMap_notin (g : Dev → Option Wire) (hg : ∀ k w, g k = some w → w.dev = k)
    (order : List Dev) (d : Dev) (h : d ∉ order) : wireSum d (order.filterMap g) = 0 := by
  induction order with
  | nil => rfl
  | cons k ks ih =>
    have hk : k ≠ d := fun e => h (by simp [e])
    have hks : d ∉ ks := fun e => h (by simp [e])
    cases hgk : g k with
    | none => simpa [List.filterMap_cons, hgk] using ih hks
    | some w =>
      have := hg k w hgk
      simp [hgk, wireSum, this, hk, ih hks]

theorem wireSum_filterMap (g : Dev → Option Wire) (hg : ∀ k w, g k = some w → w.dev = k)
    (order : List Dev) (d : Dev) (hn : order.Nodup) (hd : d ∈ order) :
    wireSum d (order.filterMap g) = match g d with | some w => w.queries | none => 0 := by
  induction order with
  | nil => simp at hd
  | cons k ks ih =>
    rw [List.nodup_cons] at hn
    by_cases hk : k = d
    · subst hk
      have h0 := wireSum_filterMap_notin g hg ks k hn.1
      cases hgk : g k with
      | none => simpa [List.filterMap_cons, hgk] using h0
      | some w =>
        have := hg k w hgk
        simp [hgk, wireSum, this, h0]
    · have hd' : d ∈ ks := by
        rcases List.mem_cons.mp hd with e | e
        · exact absurd e.symm hk
        · exact e
      have := ih hn.2 hd'
      cases hgk : g k with
      | none => simpa [List.filterMap_cons, hgk] using this
      | some w =>
        have hw := hg k w hgk
        simpa [List.filterMap_cons, hgk, wireSum, hw, hk] using this

theorem toWire_dev (k : Dev) (r : Rec) : (toWire k r).dev = k := by
  simp only [toWire]

theorem toWire_queries_lt (k : Dev) (r : Rec) (h : r.n < 4294967296) : (toWire k r).queries = r.n := by
  simp only [toWire, toU32, wrap32]
  omega

theorem wireG_dev (t : Recs) (k : Dev) (w : Wire) (h : (t k).map (toWire k) = some w) : w.dev = k := by
  cases hk : t k with
  | none => simp [hk] at h
  | some r =>
    simp only [hk, Option.map_some, Option.some.injEq] at h
    rw [← h]; exact toWire_dev k r

theorem wireSum_covers (order : List Dev) (t : Recs) (d : Dev) (hc : Covers order t)
    (hb : cnt t d < 4294967296) : wireSum d (wireBatch order t) = cnt t d := by
  unfold wireBatch
  by_cases hd : d ∈ order
  · rw [wireSum_filterMap _ (wireG_dev t) order d hc.1 hd]
    unfold cnt at *
    cases h : t d with
    | none => simp
    | some r =>
      simp only [h] at hb
      simp only [Option.map_some]
      exact toWire_queries_lt d r hb
  · rw [wireSum_filterMap_notin _ (wireG_dev t) order d hd]
    unfold cnt
    cases h : t d with
    | none => rfl
    | some r => exact absurd (hc.2 d (by simp [h])) hd

theorem mem_wireBatch (order : List Dev) (t : Recs) (w : Wire) :
    w ∈ wireBatch order t ↔ ∃ d, d ∈ order ∧ ∃ r, t d = some r ∧ w = toWire d r := by
  unfold wireBatch
  simp only [List.mem_filterMap, Option.map_eq_some_iff]
  constructor
  · rintro ⟨d, hd, r, hr, rfl⟩; exact ⟨d, hd, r, hr, rfl⟩
  · rintro ⟨d, hd, r, hr, rfl⟩; exact ⟨d, hd, r, hr, rfl⟩

theorem e2e_step_st (e : E2E) (ev : Ev) : (e.step ev).st = runSer e.st (lowerEv e.st ev) := by
  cases ev with
  | query q => rfl
  | «begin» => rfl
  | finish b order =>
    simp only [E2E.step]
    cases h : e.st.inflight[0]? with
    | none => simp [lowerEv, h, runSer]
    | some batch =>
      simp only []
      split <;> rfl

theorem e2e_run_st (e : E2E) (evs : List Ev) : (e.run evs).st = runSer e.st (lower e.st evs) := by
  induction evs generalizing e with
  | nil => rfl
  | cons ev evs ih =>
    simp only [E2E.run, lower]
    rw [ih, e2e_step_st, runSer_append]

theorem billed_cons (d : Dev) (ev : Ev) (evs : List Ev) :
    billed d (ev :: evs) = billed d [ev] + billed d evs := by
  cases ev <;> simp [billed]

theorem countRec_lowerEv (s : St) (ev : Ev) (d : Dev) : countRec d (lowerEv s ev) = billed d [ev] := by
  cases ev with
  | query q =>
    simp only [lowerEv, billed]
    cases billOf q with
    | none => simp [countRec]
    | some dm => simp [countRec]
  | «begin» => simp [lowerEv, billed, countRec]
  | finish b order =>
    simp only [lowerEv, billed]
    cases s.inflight[0]? with
    | none => simp [countRec]
    | some batch =>
      simp only []
      split <;> simp [countRec]

theorem countRec_lower (s : St) (evs : List Ev) (d : Dev) : countRec d (lower s evs) = billed d evs := by
  induction evs generalizing s with
  | nil => rfl
  | cons ev evs ih =>
    simp only [lower]
    rw [countRec_append, ih, countRec_lowerEv, billed_cons d ev evs]

theorem lastBilled_cons (d : Dev) (ev : Ev) (evs : List Ev) :
    lastBilled d (ev :: evs) = (lastBilled d evs).or (lastBilled d [ev]) := by
  cases ev with
  | query q =>
    simp only [lastBilled]
    cases lastBilled d evs <;> simp
  | «begin» => simp [lastBilled]
  | finish b order => simp [lastBilled]

theorem lastRec_lowerEv (s : St) (ev : Ev) (d : Dev) : lastRec d (lowerEv s ev) = lastBilled d [ev] := by
  cases ev with
  | query q =>
    simp only [lowerEv, lastBilled]
    cases billOf q with
    | none => simp [lastRec]
    | some dm => simp [lastRec]
  | «begin» => simp [lowerEv, lastBilled, lastRec]
  | finish b order =>
    simp only [lowerEv, lastBilled]
    cases s.inflight[0]? with
    | none => simp [lastRec]
    | some batch =>
      simp only []
      split <;> simp [lastRec]

theorem lastRec_lower (s : St) (evs : List Ev) (d : Dev) : lastRec d (lower s evs) = lastBilled d evs := by
  induction evs generalizing s with
  | nil => rfl
  | cons ev evs ih =>
    simp only [lower]
    rw [lastRec_append, ih, lastRec_lowerEv, lastBilled_cons d ev evs]

/-- What one event must satisfy for `GoodRun`. -/
def GoodEv (e : E2E) : Ev → Prop
  | .finish _ order => ∀ batch, e.st.inflight[0]? = some batch →
      Covers order batch.recs ∧ ∀ d, cnt batch.recs d < 4294967296
  | _ => True

theorem goodRun_cons (e : E2E) (ev : Ev) (evs : List Ev) :
    GoodRun e (ev :: evs) ↔ GoodEv e ev ∧ GoodRun (e.step ev) evs := by
  cases ev <;> simp [GoodRun, GoodEv]

theorem stepSer_record_delivered (s : St) (d : Dev) (m : Meta) :
    (stepSer s (.record d m)).delivered = s.delivered := by
  simp [stepSer, blocked, step]

theorem stepSer_begin_delivered (s : St) : (stepSer s .begin).delivered = s.delivered := by
  unfold stepSer
  split <;> simp [step]

theorem e2e_acked_step (e : E2E) (ev : Ev) (d : Dev) (ha : e.acked d = e.st.delivered d)
    (hg : GoodEv e ev) : (e.step ev).acked d = (e.step ev).st.delivered d := by
  cases ev with
  | query q =>
    simp only [E2E.step, lowerEv]
    cases billOf q with
    | none => simpa [runSer] using ha
    | some dm => simpa [runSer, stepSer_record_delivered] using ha
  | «begin» =>
    simp only [E2E.step, lowerEv, runSer]
    rw [stepSer_begin_delivered]; exact ha
  | finish b order =>
    simp only [E2E.step, lowerEv]
    cases h : e.st.inflight[0]? with
    | none => simpa using ha
    | some batch =>
      obtain ⟨hc, hb⟩ := hg batch h
      simp only []
      by_cases hu : (upload b (wireBatch order batch.recs)).1 = true
      · simp only [hu, if_true, runSer_one]
        rw [upload_ok_sent b _ hu, wireSum_covers order batch.recs d hc (hb d)]
        simp [stepSer, blocked, step, h, ha]
      · rw [if_neg hu, if_neg hu, runSer_one]
        simp [stepSer, blocked, step, h, ha]

theorem e2e_acked_run (e : E2E) (evs : List Ev) (d : Dev) (ha : e.acked d = e.st.delivered d)
    (hg : GoodRun e evs) : (e.run evs).acked d = (e.run evs).st.delivered d := by
  induction evs generalizing e with
  | nil => exact ha
  | cons ev evs ih =>
    rw [goodRun_cons] at hg
    simp only [E2E.run]
    exact ih _ (e2e_acked_step e ev d ha hg.1) hg.2

end Agd.BillStat
