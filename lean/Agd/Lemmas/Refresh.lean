import Agd.Model.Refresh
/-! Helper lemmas for C13 (filter refreshes). Core Lean only. -/
namespace Agd.Refresh

/-- A response that `refreshFromURL` turns into an error: the fault kinds of the statement. -/
def Faulty (E : Env) (max : Nat) : Resp → Prop
  | .getErr => True
  | .resp status c cut eofLast =>
    status ≠ 200 ∨ cut = true ∨ limitHit max (E.len c) eofLast = true ∨ E.len c = 0

/-- The server offered the complete, non-empty document `c` of at most `max` bytes with status
200 and intact framing. -/
def Offers (E : Env) (max : Nat) (r : Resp) (c : Nat) : Prop :=
  ∃ eofLast, r = .resp 200 c false eofLast ∧ 0 < E.len c ∧ E.len c ≤ max

theorem fromURL_none_iff (E : Env) (max : Nat) (r : Resp) :
    fromURL E max r = none ↔ Faulty E max r := by
  cases r with
  | getErr => simp [fromURL, Faulty]
  | resp st c cut eof =>
    simp only [fromURL, Faulty]
    by_cases h1 : st = 200 <;> by_cases h2 : cut = true <;>
      by_cases h3 : limitHit max (E.len c) eof = true <;> by_cases h4 : E.len c = 0 <;> simp [h1, h2, h3, h4]

theorem fromURL_some (E : Env) (max : Nat) (r : Resp) (c : Nat) (h : fromURL E max r = some c) :
    Offers E max r c := by
  cases r with
  | getErr => simp [fromURL] at h
  | resp st c' cut eof =>
    simp only [fromURL] at h
    by_cases h1 : st = 200 <;> by_cases h2 : cut = true <;>
      by_cases h3 : limitHit max (E.len c') eof = true <;> by_cases h4 : E.len c' = 0 <;>
      simp [h1, h2, h3, h4] at h
    subst h
    refine ⟨eof, ?_, by omega, ?_⟩
    · cases cut <;> simp_all
    · simp [limitHit] at h3
      omega

theorem fromFile_some (E : Env) (a f : Bool) (d : Option Nat) (c : Nat)
    (h : fromFile E a f d = some c) : d = some c ∧ E.len c ≠ 0 := by
  cases d with
  | none => simp [fromFile] at h
  | some c' =>
    simp only [fromFile] at h
    split at h
    · rename_i hc
      simp at h
      subst h
      simp at hc
      exact ⟨rfl, hc.2⟩
    · simp at h

/-- The three ways `Refreshable.Refresh` can end. -/
theorem refresh_cases (E : Env) (max : Nat) (a : Bool) (d : Option Nat) (f : Bool) (r : Resp) :
    (∃ c, d = some c ∧ E.len c ≠ 0 ∧ refresh E max a d f r = (some c, d)) ∨
    (fromFile E a f d = none ∧ ∃ c, fromURL E max r = some c ∧ refresh E max a d f r = (some c, some c)) ∨
    (fromFile E a f d = none ∧ fromURL E max r = none ∧ refresh E max a d f r = (none, d)) := by
  unfold refresh
  cases hf : fromFile E a f d with
  | some c =>
    have := fromFile_some E a f d c hf
    exact Or.inl ⟨c, this.1, this.2, rfl⟩
  | none =>
    cases hu : fromURL E max r with
    | some c => exact Or.inr (Or.inl ⟨rfl, c, rfl, rfl⟩)
    | none => exact Or.inr (Or.inr ⟨rfl, rfl, rfl⟩)

theorem foldl_inv {α β : Type} (P : α → Prop) (step : α → β → α) (l : List β) (a : α)
    (h0 : P a) (hs : ∀ a e, e ∈ l → P a → P (step a e)) : P (l.foldl step a) := by
  induction l generalizing a with
  | nil => exact h0
  | cons x xs ih =>
    simp only [List.foldl]
    exact ih _ (hs a x (by simp) h0) (fun a e he => hs a e (by simp [he]))

theorem mem_toInternal {es : List Entry} {e : Entry} (h : e ∈ toInternal es) :
    e ∈ es ∧ e.keyOk = true ∧ e.urlOk = true := by
  simp [toInternal] at h
  exact ⟨h.1, h.2.1, h.2.2⟩

/-- `addRuleList` does not touch other keys. -/
theorem addRuleList_frame (E : Env) (cfg : Cfg) (R : Round) (old : Nat → Option Nat) (a : Acc)
    (e : Entry) (k : Nat) (h : k ≠ e.key) :
    (addRuleList E cfg R old a e).new k = a.new k ∧ (addRuleList E cfg R old a e).disk k = a.disk k := by
  unfold addRuleList
  split
  · exact ⟨rfl, rfl⟩
  · simp [put_other _ _ _ _ h]

/-- What may be in memory for key `k` after a round. -/
def MemOk (E : Env) (cfg : Cfg) (R : Round) (s : St) (es : List Entry) (k : Nat)
    (v : Option Nat) : Prop :=
  v = none ∨ v = s.rl k ∨ ∃ c, v = some c ∧
    (s.rlDisk k = some c ∨ ∃ e ∈ es, e.key = k ∧ fromURL E cfg.rlMax (R.resp e.url) = some c)

/-- What may be in the cache file of key `k` after a round. -/
def DiskOk (E : Env) (cfg : Cfg) (R : Round) (s : St) (es : List Entry) (k : Nat)
    (v : Option Nat) : Prop :=
  v = s.rlDisk k ∨ ∃ c, v = some c ∧ ∃ e ∈ es, e.key = k ∧ fromURL E cfg.rlMax (R.resp e.url) = some c

theorem addLoop_ok (E : Env) (cfg : Cfg) (R : Round) (s : St) (es : List Entry) :
    let a := (toInternal es).foldl (addRuleList E cfg R s.rl) ⟨fun _ => none, s.rlDisk⟩
    ∀ k, MemOk E cfg R s es k (a.new k) ∧ DiskOk E cfg R s es k (a.disk k) := by
  intro a
  refine foldl_inv (fun (a : Acc) => ∀ k, MemOk E cfg R s es k (a.new k) ∧ DiskOk E cfg R s es k (a.disk k))
    _ _ _ ?_ ?_
  · intro k
    exact ⟨Or.inl rfl, Or.inl rfl⟩
  · intro a e he ih k
    have hes := (mem_toInternal he).1
    by_cases hk : k = e.key
    · subst hk
      unfold addRuleList
      split
      · exact ih _
      · rcases refresh_cases E cfg.rlMax R.acceptStale (a.disk e.key) (R.fresh e.key) (R.resp e.url)
          with ⟨c, hd, _, hr⟩ | ⟨_, c, hu, hr⟩ | ⟨_, _, hr⟩
        · simp only [hr, put_same]
          refine ⟨Or.inr (Or.inr ⟨c, rfl, ?_⟩), (ih _).2⟩
          rcases (ih e.key).2 with h | ⟨c', h, h'⟩
          · exact Or.inl (by rw [← h, hd])
          · rw [hd] at h
            cases h
            exact Or.inr h'
        · simp only [hr, put_same]
          exact ⟨Or.inr (Or.inr ⟨c, rfl, Or.inr ⟨e, hes, rfl, hu⟩⟩), Or.inr ⟨c, rfl, e, hes, rfl, hu⟩⟩
        · simp only [hr, put_same]
          exact ⟨Or.inr (Or.inl rfl), (ih _).2⟩
    · have := addRuleList_frame E cfg R s.rl a e k hk
      rw [this.1, this.2]
      exact ih k

theorem keepLoop_ok (E : Env) (cfg : Cfg) (R : Round) (s : St) (es es' : List Entry)
    (new : Nat → Option Nat) (h : ∀ k, MemOk E cfg R s es k (new k)) :
    ∀ k, MemOk E cfg R s es k (es'.foldl (keepPrev s.rl) new k) := by
  refine foldl_inv (fun (n : Nat → Option Nat) => ∀ k, MemOk E cfg R s es k (n k)) _ _ _ h ?_
  intro n e _ ih k
  unfold keepPrev
  split
  · by_cases hk : k = e.key
    · subst hk
      simp only [put_same]
      exact Or.inr (Or.inl rfl)
    · rw [put_other _ _ _ _ hk]
      exact ih k
  · exact ih k

theorem newLists_ok (E : Env) (cfg : Cfg) (R : Round) (s : St) (es : List Entry) (k : Nat) :
    MemOk E cfg R s es k ((newLists E cfg R s es).new k) ∧
    DiskOk E cfg R s es k ((newLists E cfg R s es).disk k) := by
  have h := addLoop_ok E cfg R s es
  unfold newLists
  split
  · exact ⟨keepLoop_ok E cfg R s es es _ (fun k => (h k).1) k, (h k).2⟩
  · exact h k

/-- `keepPrev` never removes an entry of the new map. -/
theorem keepLoop_mono (old : Nat → Option Nat) (es : List Entry) (new : Nat → Option Nat) (k : Nat)
    (h : (new k).isSome) : (es.foldl (keepPrev old) new k).isSome := by
  refine foldl_inv (fun (n : Nat → Option Nat) => (n k).isSome = true) _ _ _ h ?_
  intro n e _ ih
  unfold keepPrev
  split
  · rename_i hc
    by_cases hk : k = e.key
    · subst hk
      simp at hc
      simp [hc.2] at ih
    · rw [put_other _ _ _ _ hk]
      exact ih
  · exact ih

/-- With the fix: a served list named by an entry with a valid key is never dropped. -/
theorem keepLoop_named (old : Nat → Option Nat) (es : List Entry) (new : Nat → Option Nat)
    (e : Entry) (he : e ∈ es) (hk : e.keyOk = true) (hold : (old e.key).isSome) :
    (es.foldl (keepPrev old) new e.key).isSome := by
  induction es generalizing new with
  | nil => simp at he
  | cons x xs ih =>
    simp only [List.foldl]
    rcases List.mem_cons.mp he with rfl | hx
    · apply keepLoop_mono
      unfold keepPrev
      split
      · simp [hold]
      · rename_i hc
        cases hn : new e.key with
        | none => simp [hk, hn] at hc
        | some v => simp
    · exact ih _ hx

/-- A key all of whose downloads fail keeps its cache file, and its slot in the new map holds
nothing, the previous list, or the cached document. -/
theorem addLoop_failed (E : Env) (cfg : Cfg) (R : Round) (s : St) (es : List Entry) (k : Nat)
    (hf : ∀ e ∈ es, e.key = k → Faulty E cfg.rlMax (R.resp e.url)) :
    let a := (toInternal es).foldl (addRuleList E cfg R s.rl) ⟨fun _ => none, s.rlDisk⟩
    a.disk k = s.rlDisk k ∧
      (a.new k = none ∨ a.new k = s.rl k ∨ ∃ c, a.new k = some c ∧ s.rlDisk k = some c) := by
  intro a
  refine foldl_inv (fun (a : Acc) => a.disk k = s.rlDisk k ∧
      (a.new k = none ∨ a.new k = s.rl k ∨ ∃ c, a.new k = some c ∧ s.rlDisk k = some c)) _ _ _ ?_ ?_
  · exact ⟨rfl, Or.inl rfl⟩
  · intro a e he ih
    have hes := (mem_toInternal he).1
    by_cases hk : k = e.key
    · subst hk
      unfold addRuleList
      split
      · exact ih
      · rcases refresh_cases E cfg.rlMax R.acceptStale (a.disk e.key) (R.fresh e.key) (R.resp e.url)
          with ⟨c, hd, _, hr⟩ | ⟨_, c, hu, _⟩ | ⟨_, _, hr⟩
        · simp only [hr, put_same]
          exact ⟨ih.1, Or.inr (Or.inr ⟨c, rfl, by rw [← ih.1, hd]⟩)⟩
        · have := (fromURL_none_iff E cfg.rlMax (R.resp e.url)).mpr (hf e hes rfl)
          rw [this] at hu
          cases hu
        · simp only [hr, put_same]
          exact ⟨ih.1, Or.inr (Or.inl trivial)⟩
    · have := addRuleList_frame E cfg R s.rl a e k hk
      rw [this.1, this.2]
      exact ih

theorem keepLoop_failed (s : St) (es : List Entry) (new : Nat → Option Nat) (k : Nat)
    (h : new k = none ∨ new k = s.rl k ∨ ∃ c, new k = some c ∧ s.rlDisk k = some c) :
    let n := es.foldl (keepPrev s.rl) new
    n k = none ∨ n k = s.rl k ∨ ∃ c, n k = some c ∧ s.rlDisk k = some c := by
  intro n
  refine foldl_inv (fun (n : Nat → Option Nat) => n k = none ∨ n k = s.rl k ∨ ∃ c, n k = some c ∧ s.rlDisk k = some c)
    _ _ _ h ?_
  intro n e _ ih
  unfold keepPrev
  split
  · by_cases hk : k = e.key
    · subst hk
      simp only [put_same]
      exact Or.inr (Or.inl trivial)
    · rw [put_other _ _ _ _ hk]
      exact ih
  · exact ih

/-! ### Valid entries are applied -/


/-- The slot of key `k` after its entry with URL `u` has been processed. -/
def target (E : Env) (cfg : Cfg) (R : Round) (s : St) (k u : Nat) : Option Nat × Option Nat :=
  let T := refresh E cfg.rlMax R.acceptStale (s.rlDisk k) (R.fresh k) (R.resp u)
  (match T.1 with | some c => some c | none => s.rl k, T.2)

theorem target_none (E : Env) (cfg : Cfg) (R : Round) (s : St) (k u : Nat)
    (h : (target E cfg R s k u).1 = none) : (target E cfg R s k u).2 = s.rlDisk k := by
  unfold target at h ⊢
  rcases refresh_cases E cfg.rlMax R.acceptStale (s.rlDisk k) (R.fresh k) (R.resp u)
    with ⟨c, _, _, hr⟩ | ⟨_, c, _, hr⟩ | ⟨_, _, hr⟩
  · simp [hr] at h
  · simp [hr] at h
  · simp [hr]

theorem addStep_key (E : Env) (cfg : Cfg) (R : Round) (s : St) (k u : Nat) (a : Acc) (e : Entry)
    (hk : e.key = k) (hu : e.url = u)
    (h : (a.new k = none ∧ a.disk k = s.rlDisk k) ∨
      (a.new k = (target E cfg R s k u).1 ∧ a.disk k = (target E cfg R s k u).2)) :
    (addRuleList E cfg R s.rl a e).new k = (target E cfg R s k u).1 ∧
    (addRuleList E cfg R s.rl a e).disk k = (target E cfg R s k u).2 := by
  subst hk hu
  have hU : a.new e.key = none → a.disk e.key = s.rlDisk e.key →
      (addRuleList E cfg R s.rl a e).new e.key = (target E cfg R s e.key e.url).1 ∧
      (addRuleList E cfg R s.rl a e).disk e.key = (target E cfg R s e.key e.url).2 := by
    intro hn hd
    unfold addRuleList target
    simp [hn, hd]
    cases (refresh E cfg.rlMax R.acceptStale (s.rlDisk e.key) (R.fresh e.key) (R.resp e.url)).fst <;> rfl
  rcases h with ⟨hn, hd⟩ | ⟨hn, hd⟩
  · exact hU hn hd
  · cases hv : a.new e.key with
    | some v =>
      unfold addRuleList
      simp [hv]
      exact ⟨by rw [← hn, hv], hd⟩
    | none =>
      have ht : (target E cfg R s e.key e.url).1 = none := by rw [← hn, hv]
      exact hU hv (by rw [hd, target_none E cfg R s e.key e.url ht])

theorem addLoop_stable (E : Env) (cfg : Cfg) (R : Round) (s : St) (k u : Nat) (l : List Entry)
    (hu : ∀ e ∈ l, e.key = k → e.url = u) (a : Acc)
    (h : a.new k = (target E cfg R s k u).1 ∧ a.disk k = (target E cfg R s k u).2) :
    (l.foldl (addRuleList E cfg R s.rl) a).new k = (target E cfg R s k u).1 ∧
    (l.foldl (addRuleList E cfg R s.rl) a).disk k = (target E cfg R s k u).2 := by
  induction l generalizing a with
  | nil => exact h
  | cons e l ih =>
    simp only [List.foldl]
    apply ih (fun e' he' => hu e' (by simp [he']))
    by_cases hk : e.key = k
    · exact addStep_key E cfg R s k u a e hk (hu e (by simp) hk) (Or.inr h)
    · have := addRuleList_frame E cfg R s.rl a e k (fun h' => hk h'.symm)
      rw [this.1, this.2]; exact h

theorem addLoop_applied (E : Env) (cfg : Cfg) (R : Round) (s : St) (k u : Nat) (l : List Entry)
    (hu : ∀ e ∈ l, e.key = k → e.url = u) (hex : ∃ e ∈ l, e.key = k) (a : Acc)
    (h : a.new k = none ∧ a.disk k = s.rlDisk k) :
    (l.foldl (addRuleList E cfg R s.rl) a).new k = (target E cfg R s k u).1 ∧
    (l.foldl (addRuleList E cfg R s.rl) a).disk k = (target E cfg R s k u).2 := by
  induction l generalizing a with
  | nil => obtain ⟨e, he, _⟩ := hex; simp at he
  | cons e l ih =>
    simp only [List.foldl]
    by_cases hk : e.key = k
    · exact addLoop_stable E cfg R s k u l (fun e' he' => hu e' (by simp [he'])) _
        (addStep_key E cfg R s k u a e hk (hu e (by simp) hk) (Or.inl h))
    · apply ih (fun e' he' => hu e' (by simp [he']))
      · obtain ⟨e', he', hk'⟩ := hex
        rcases List.mem_cons.mp he' with rfl | hx
        · exact absurd hk' hk
        · exact ⟨e', hx, hk'⟩
      · have := addRuleList_frame E cfg R s.rl a e k (fun h' => hk h'.symm)
        rw [this.1, this.2]; exact h

/-! ### Order of the index entries -/

/-- Two entries that may be exchanged without the loops noticing: they name different lists, or
one of them has no valid key (and is skipped by both loops). -/
def Indep (a b : Entry) : Prop := a.key ≠ b.key ∨ a.keyOk = false ∨ b.keyOk = false

/-- Reorderings generated by exchanging adjacent independent entries: the relative order of the
entries of one valid key (duplicates) is kept. -/
inductive Reorder : List Entry → List Entry → Prop
  | refl (l : List Entry) : Reorder l l
  | swap (l₁ : List Entry) (a b : Entry) (l₂ : List Entry) (h : Indep a b) :
      Reorder (l₁ ++ a :: b :: l₂) (l₁ ++ b :: a :: l₂)
  | trans {l m n : List Entry} : Reorder l m → Reorder m n → Reorder l n

theorem Reorder.cons (y : Entry) {l m : List Entry} (h : Reorder l m) : Reorder (y :: l) (y :: m) := by
  induction h with
  | refl l => exact .refl _
  | swap l₁ a b l₂ h => exact .swap (y :: l₁) a b l₂ h
  | trans _ _ ih1 ih2 => exact .trans ih1 ih2

theorem reorder_insertBy (r : Entry → Nat) (hr : ∀ a b, r a ≠ r b → Indep a b) (x : Entry)
    (ys : List Entry) : Reorder (x :: ys) (insertBy r x ys) := by
  induction ys with
  | nil => exact .refl _
  | cons y ys ih =>
    unfold insertBy
    split
    · exact .refl _
    · next hlt =>
      have hi : Indep x y := hr x y (by omega)
      exact .trans (.swap [] x y ys hi) (Reorder.cons y ih)

theorem reorder_isort (r : Entry → Nat) (hr : ∀ a b, r a ≠ r b → Indep a b) (es : List Entry) :
    Reorder es (isort r es) := by
  induction es with
  | nil => exact .refl _
  | cons x xs ih => exact .trans (Reorder.cons x ih) (reorder_insertBy r hr x (isort r xs))

theorem foldl_swap {α β : Type} (f : α → β → α) (a b : β) (l₁ l₂ : List β)
    (h : ∀ s, f (f s a) b = f (f s b) a) (s : α) :
    (l₁ ++ a :: b :: l₂).foldl f s = (l₁ ++ b :: a :: l₂).foldl f s := by
  simp [List.foldl_append, h]

theorem put_comm {α : Type} (f : Nat → α) (k₁ k₂ : Nat) (v₁ v₂ : α) (h : k₁ ≠ k₂) :
    put (put f k₁ v₁) k₂ v₂ = put (put f k₂ v₂) k₁ v₁ := by
  funext x
  by_cases h1 : x = k₁ <;> by_cases h2 : x = k₂ <;> simp_all [put]

theorem addRuleList_comm (E : Env) (cfg : Cfg) (R : Round) (old : Nat → Option Nat) (acc : Acc)
    (a b : Entry) (h : a.key ≠ b.key) :
    addRuleList E cfg R old (addRuleList E cfg R old acc a) b =
      addRuleList E cfg R old (addRuleList E cfg R old acc b) a := by
  have h' : b.key ≠ a.key := fun e => h e.symm
  by_cases ha : (acc.new a.key).isSome <;> by_cases hb : (acc.new b.key).isSome <;>
    simp [addRuleList, ha, hb, h, h', put_other]
  exact ⟨put_comm _ _ _ _ _ h, put_comm _ _ _ _ _ h⟩

theorem keepPrev_comm (old new : Nat → Option Nat) (a b : Entry) (h : Indep a b) :
    keepPrev old (keepPrev old new a) b = keepPrev old (keepPrev old new b) a := by
  rcases h with h | h | h
  · have h' : b.key ≠ a.key := fun e => h e.symm
    by_cases ha : a.keyOk && (new a.key).isNone <;> by_cases hb : b.keyOk && (new b.key).isNone <;>
      simp [keepPrev, ha, hb, h, h', put_other]
    exact put_comm _ _ _ _ _ h
  · simp [keepPrev, h]
  · simp [keepPrev, h]

theorem newLists_reorder (E : Env) (cfg : Cfg) (R : Round) (s : St) {es es' : List Entry}
    (h : Reorder es es') : newLists E cfg R s es' = newLists E cfg R s es := by
  induction h with
  | refl l => rfl
  | trans _ _ ih1 ih2 => rw [ih2, ih1]
  | swap l₁ a b l₂ h =>
    have hk : ∀ new : Nat → Option Nat, (l₁ ++ b :: a :: l₂).foldl (keepPrev s.rl) new =
        (l₁ ++ a :: b :: l₂).foldl (keepPrev s.rl) new := fun new =>
      (foldl_swap (keepPrev s.rl) a b l₁ l₂ (fun n => keepPrev_comm s.rl n a b h) new).symm
    have ha : (toInternal (l₁ ++ b :: a :: l₂)).foldl (addRuleList E cfg R s.rl) ⟨fun _ => none, s.rlDisk⟩ =
        (toInternal (l₁ ++ a :: b :: l₂)).foldl (addRuleList E cfg R s.rl) ⟨fun _ => none, s.rlDisk⟩ := by
      by_cases hva : (a.keyOk && a.urlOk) = true <;> by_cases hvb : (b.keyOk && b.urlOk) = true
      · have hne : a.key ≠ b.key := by
          rcases h with h | h | h
          · exact h
          · simp [h] at hva
          · simp [h] at hvb
        simp only [toInternal, List.filter_append, List.filter_cons, hva, hvb, if_true]
        exact (foldl_swap _ a b _ _ (fun acc => addRuleList_comm E cfg R s.rl acc a b hne) _).symm
      · simp [toInternal, List.filter_append, hva, hvb]
      · simp [toInternal, List.filter_append, hva, hvb]
      · simp [toInternal, List.filter_append, hva, hvb]
    simp only [newLists, ha, hk]

/-- `keepPrev` leaves the slot of `k` alone once it holds the target. -/
theorem keepLoop_target (s : St) (es : List Entry) (new : Nat → Option Nat) (k : Nat) (t : Option Nat)
    (h : new k = t) (ht : t = none → s.rl k = none) : es.foldl (keepPrev s.rl) new k = t := by
  refine foldl_inv (fun (n : Nat → Option Nat) => n k = t) _ _ _ h ?_
  intro n e _ ih
  unfold keepPrev
  split
  · rename_i hc
    by_cases hk : k = e.key
    · subst hk
      simp only [put_same]
      simp at hc
      have : t = none := by rw [← ih]; exact hc.2
      rw [ht this, this]
    · rw [put_other _ _ _ _ hk]; exact ih
  · exact ih


theorem target_none' (E : Env) (cfg : Cfg) (R : Round) (s : St) (k u : Nat)
    (h : (target E cfg R s k u).1 = none) : s.rl k = none := by
  unfold target at h
  cases hT : (refresh E cfg.rlMax R.acceptStale (s.rlDisk k) (R.fresh k) (R.resp u)).1 with
  | none => simpa [hT] using h
  | some c => simp [hT] at h

theorem newLists_applied (E : Env) (cfg : Cfg) (R : Round) (s : St) (es : List Entry) (k u : Nat)
    (hfix : cfg.keepInvalid = true)
    (hu : ∀ e ∈ es, e.key = k → e.keyOk = true → e.urlOk = true → e.url = u)
    (hex : ∃ e ∈ es, e.key = k ∧ e.keyOk = true ∧ e.urlOk = true) :
    (newLists E cfg R s es).new k = (target E cfg R s k u).1 ∧
    (newLists E cfg R s es).disk k = (target E cfg R s k u).2 := by
  have ha := addLoop_applied E cfg R s k u (toInternal es)
    (fun e he hk => hu e (mem_toInternal he).1 hk (mem_toInternal he).2.1 (mem_toInternal he).2.2)
    (by
      obtain ⟨e, he, hk, h1, h2⟩ := hex
      exact ⟨e, by simp [toInternal, he, h1, h2], hk⟩)
    ⟨fun _ => none, s.rlDisk⟩ ⟨rfl, rfl⟩
  simp only [newLists, hfix, if_true]
  exact ⟨keepLoop_target s es _ k _ ha.1 (target_none' E cfg R s k u), ha.2⟩

/-! ### `Default.refresh` as a whole -/


theorem storage_noindex (E : Env) (cfg : Cfg) (s : St) (R : Round)
    (h : ∀ d, (refresh E cfg.idxMax R.acceptStale s.idxDisk R.idxFresh R.idxResp).1 = some d → E.idx d = none) :
    (refreshStorage E cfg s R).1.rl = s.rl ∧ (refreshStorage E cfg s R).1.rlDisk = s.rlDisk ∧
      (refreshStorage E cfg s R).1.svc = s.svc ∧ (refreshStorage E cfg s R).1.svcDisk = s.svcDisk ∧
      (refreshStorage E cfg s R).2 = false := by
  unfold refreshStorage
  cases h1 : (refresh E cfg.idxMax R.acceptStale s.idxDisk R.idxFresh R.idxResp).1 with
  | none => simp [h1]
  | some d => simp [h1, h d h1]

theorem storage_lists (E : Env) (cfg : Cfg) (s : St) (R : Round) (d : Nat) (es : List Entry)
    (hidx : (refresh E cfg.idxMax R.acceptStale s.idxDisk R.idxFresh R.idxResp).1 = some d)
    (hdoc : E.idx d = some es) :
    (refreshStorage E cfg s R).1.rlDisk = (newLists E cfg R s es).disk ∧
    (((refreshStorage E cfg s R).1.rl = (newLists E cfg R s es).new ∧ (refreshStorage E cfg s R).2 = true) ∨
      ((refreshStorage E cfg s R).1.rl = s.rl ∧ (refreshStorage E cfg s R).2 = false)) := by
  unfold refreshStorage
  simp only [hidx, hdoc]
  split
  · simp
  · split
    · simp
    · split <;> simp


/-! ### File replacement -/

theorem fsExec_writes {α : Type} (fs : Fs α) (t : List α) (chunks : List (List α))
    (ht : fs.tmp = some t) :
    (fsExec fs (chunks.map FsStep.write)).path = fs.path ∧
    (fsExec fs (chunks.map FsStep.write)).tmp = some (t ++ chunks.flatten) := by
  induction chunks generalizing fs t with
  | nil => simp [fsExec, ht]
  | cons c cs ih =>
    have := ih (fsStep fs (.write c)) (t ++ c) (by simp [fsStep, ht])
    simp only [fsExec, List.map, List.foldl] at this ⊢
    rw [this.1, this.2]
    simp [fsStep, List.append_assoc]


/-! ### The decoded index: comparison, sort, validation -/

theorem bytesLe_refl (a : List Nat) : bytesLe a a = true := by
  induction a with
  | nil => rfl
  | cons x xs ih => simp [bytesLe, ih]

theorem bytesLe_total (a b : List Nat) (h : bytesLe a b = false) : bytesLe b a = true := by
  induction a generalizing b with
  | nil => simp [bytesLe] at h
  | cons x xs ih =>
    cases b with
    | nil => rfl
    | cons y ys =>
      unfold bytesLe at h ⊢
      by_cases h1 : x < y
      · simp [h1] at h
      · by_cases h2 : y < x
        · simp [h2]
        · simp [h1, h2] at h ⊢
          exact ih ys h

theorem bytesLe_trans (a b c : List Nat) (h1 : bytesLe a b = true) (h2 : bytesLe b c = true) :
    bytesLe a c = true := by
  induction a generalizing b c with
  | nil => rfl
  | cons x xs ih =>
    cases b with
    | nil => simp [bytesLe] at h1
    | cons y ys =>
      cases c with
      | nil => simp [bytesLe] at h2
      | cons z zs =>
        unfold bytesLe at h1 h2 ⊢
        by_cases hxy : x < y
        · by_cases hyz : y < z
          · have : x < z := by omega
            simp [this]
          · by_cases hzy : z < y
            · simp [hyz, hzy] at h2
            · have : x < z := by omega
              simp [this]
        · by_cases hyx : y < x
          · simp [hxy, hyx] at h1
          · have hxe : x = y := by omega
            subst hxe
            simp [hxy] at h1
            by_cases hyz : x < z
            · simp [hyz]
            · by_cases hzy : z < x
              · simp [hyz, hzy] at h2
              · simp [hyz, hzy] at h2 ⊢
                exact ih ys zs h1 h2

theorem bytesLe_antisymm (a b : List Nat) (h1 : bytesLe a b = true) (h2 : bytesLe b a = true) :
    a = b := by
  induction a generalizing b with
  | nil => cases b with
    | nil => rfl
    | cons y ys => simp [bytesLe] at h2
  | cons x xs ih =>
    cases b with
    | nil => simp [bytesLe] at h1
    | cons y ys =>
      unfold bytesLe at h1 h2
      by_cases hxy : x < y
      · have : ¬ y < x := by omega
        simp [hxy, this] at h2
      · by_cases hyx : y < x
        · simp [hxy, hyx] at h1
        · have hxe : x = y := by omega
          subst hxe
          simp [hxy] at h1 h2
          rw [ih ys h1 h2]

theorem rawLe_total (a b : RawEntry) (h : rawLe a b = false) : rawLe b a = true := by
  unfold rawLe at h ⊢
  by_cases ha : a.null = true <;> by_cases hb : b.null = true <;> simp_all
  exact bytesLe_total _ _ h

theorem rawLe_trans (a b c : RawEntry) (h1 : rawLe a b = true) (h2 : rawLe b c = true) :
    rawLe a c = true := by
  unfold rawLe at h1 h2 ⊢
  by_cases ha : a.null = true <;> by_cases hb : b.null = true <;> by_cases hc : c.null = true <;>
    simp_all
  exact bytesLe_trans _ _ _ h1 h2

theorem mem_insertRaw (a x : RawEntry) (ys : List RawEntry) :
    a ∈ insertRaw x ys ↔ a = x ∨ a ∈ ys := by
  induction ys with
  | nil => simp [insertRaw]
  | cons y ys ih =>
    unfold insertRaw
    split
    · simp
    · simp [ih]
      constructor
      · rintro (h | h | h)
        · exact Or.inr (Or.inl h)
        · exact Or.inl h
        · exact Or.inr (Or.inr h)
      · rintro (h | h | h)
        · exact Or.inr (Or.inl h)
        · exact Or.inl h
        · exact Or.inr (Or.inr h)

theorem mem_sortRaw (a : RawEntry) (es : List RawEntry) : a ∈ sortRaw es ↔ a ∈ es := by
  induction es with
  | nil => simp [sortRaw]
  | cons x xs ih => simp [sortRaw, mem_insertRaw, ih]

/-- Sorted by `compare`. -/
def RawSorted : List RawEntry → Prop
  | [] => True
  | x :: xs => (∀ y ∈ xs, rawLe x y = true) ∧ RawSorted xs

theorem insertRaw_sorted (x : RawEntry) (ys : List RawEntry) (h : RawSorted ys) :
    RawSorted (insertRaw x ys) := by
  induction ys with
  | nil => simp [insertRaw, RawSorted]
  | cons y ys ih =>
    unfold insertRaw
    split
    · next hle =>
      refine ⟨?_, h⟩
      intro z hz
      rcases List.mem_cons.mp hz with rfl | hz
      · exact hle
      · exact rawLe_trans _ _ _ hle (h.1 z hz)
    · next hgt =>
      refine ⟨?_, ih h.2⟩
      intro z hz
      rcases (mem_insertRaw z x ys).mp hz with rfl | hz
      · exact rawLe_total _ _ (by simpa using hgt)
      · exact h.1 z hz

theorem sortRaw_sorted (es : List RawEntry) : RawSorted (sortRaw es) := by
  induction es with
  | nil => trivial
  | cons x xs ih => exact insertRaw_sorted x _ ih

theorem insertRaw_perm (x : RawEntry) (ys : List RawEntry) : (insertRaw x ys).Perm (x :: ys) := by
  induction ys with
  | nil => exact List.Perm.refl _
  | cons y ys ih =>
    unfold insertRaw
    split
    · exact List.Perm.refl _
    · exact (List.Perm.cons y ih).trans (List.Perm.swap x y ys)

theorem sortRaw_perm (es : List RawEntry) : (sortRaw es).Perm es := by
  induction es with
  | nil => exact List.Perm.refl _
  | cons x xs ih => exact (insertRaw_perm x _).trans (List.Perm.cons x ih)

/-- Key numbers name key strings faithfully within a document. -/
def KeysInj (num : List Nat → Nat) (l : List RawEntry) : Prop :=
  ∀ a ∈ l, ∀ b ∈ l, num a.key = num b.key → a.key = b.key

/-- An entry that the sort moves in front of another one is independent of it: one of them is
`null`, or their key strings differ. -/
theorem indep_of_not_rawLe (fx : Bool) (num : List Nat → Nat) (x y : RawEntry)
    (hinj : num x.key = num y.key → x.key = y.key) (h : rawLe x y = false) :
    Indep (classify fx num x) (classify fx num y) := by
  unfold rawLe at h
  by_cases hx : x.null = true
  · exact Or.inr (Or.inl (by simp [classify, hx]))
  · by_cases hy : y.null = true
    · exact Or.inr (Or.inr (by simp [classify, hy]))
    · simp [hx, hy] at h
      refine Or.inl ?_
      intro hk
      have : x.key = y.key := hinj hk
      rw [this, bytesLe_refl] at h
      cases h

theorem reorder_insertRaw (fx : Bool) (num : List Nat → Nat) (x : RawEntry) (ys : List RawEntry)
    (hinj : KeysInj num (x :: ys)) :
    Reorder ((x :: ys).map (classify fx num)) ((insertRaw x ys).map (classify fx num)) := by
  induction ys with
  | nil => exact .refl _
  | cons y ys ih =>
    unfold insertRaw
    split
    · exact .refl _
    · next hgt =>
      have hi : Indep (classify fx num x) (classify fx num y) :=
        indep_of_not_rawLe fx num x y
          (hinj x (by simp) y (by simp)) (by simpa using hgt)
      have hinj' : KeysInj num (x :: ys) := by
        intro a ha b hb
        apply hinj
        · rcases List.mem_cons.mp ha with h | h
          · simp [h]
          · simp [h]
        · rcases List.mem_cons.mp hb with h | h
          · simp [h]
          · simp [h]
      exact .trans (.swap [] _ _ (ys.map (classify fx num)) hi)
        (Reorder.cons (classify fx num y) (ih hinj'))

theorem reorder_sortRaw (fx : Bool) (num : List Nat → Nat) (es : List RawEntry)
    (hinj : KeysInj num es) :
    Reorder (es.map (classify fx num)) ((sortRaw es).map (classify fx num)) := by
  induction es with
  | nil => exact .refl _
  | cons x xs ih =>
    have hxs : KeysInj num xs := fun a ha b hb => hinj a (by simp [ha]) b (by simp [hb])
    have hins : KeysInj num (x :: sortRaw xs) := by
      intro a ha b hb
      apply hinj
      · rcases List.mem_cons.mp ha with h | h
        · simp [h]
        · simp [(mem_sortRaw a xs).mp h]
      · rcases List.mem_cons.mp hb with h | h
        · simp [h]
        · simp [(mem_sortRaw b xs).mp h]
    exact .trans (Reorder.cons (classify fx num x) (ih hxs))
      (reorder_insertRaw fx num x (sortRaw xs) hins)

/-! ### Failing file-system calls, several writers (fifth deepening) -/
/-- Every `rename` in `steps`, run from the temporary-file state `t`, moves a `good` content. -/
def RenSafe {α : Type} (good : List α → Prop) : Option (List α) → List (FsStep α) → Prop
  | _, [] => True
  | t, s :: rest =>
    (s = FsStep.rename → ∀ x, t = some x → good x) ∧
      RenSafe good (fsStep ⟨none, t⟩ s).tmp rest

theorem fsStep_tmp_indep {α : Type} (p q : Option (List α)) (t : Option (List α)) (s : FsStep α) :
    (fsStep ⟨p, t⟩ s).tmp = (fsStep ⟨q, t⟩ s).tmp := by
  cases s <;> simp [fsStep] <;> cases t <;> simp

theorem fsStep_path {α : Type} (p : Option (List α)) (t : Option (List α)) (s : FsStep α) :
    (fsStep ⟨p, t⟩ s).path = p ∨ (s = FsStep.rename ∧ ∃ x, t = some x ∧ (fsStep ⟨p, t⟩ s).path = some x) := by
  cases s <;> simp [fsStep]
  cases t <;> simp

theorem RenSafe_prefix {α : Type} (good : List α → Prop) (t : Option (List α)) (p q : List (FsStep α))
    (h : RenSafe good t (p ++ q)) : RenSafe good t p := by
  induction p generalizing t with
  | nil => simp [RenSafe]
  | cons s rest ih =>
    simp only [List.cons_append, RenSafe] at h ⊢
    exact ⟨h.1, ih _ h.2⟩

theorem RenSafe_writes {α : Type} (good : List α → Prop) (t : List α) (chunks : List (List α))
    (tail : List (FsStep α)) (h : RenSafe good (some (t ++ chunks.flatten)) tail) :
    RenSafe good (some t) (chunks.map FsStep.write ++ tail) := by
  induction chunks generalizing t with
  | nil => simpa using h
  | cons c cs ih =>
    simp only [List.map, List.cons_append, RenSafe]
    refine ⟨(by intro h; cases h), ?_⟩
    simp only [fsStep, Option.map]
    apply ih
    simpa [List.append_assoc] using h

theorem fsTraceF_safe {α : Type} (chunks : List (List α)) (ok : Bool) (f : FsFault) (t : Option (List α)) :
    RenSafe (fun x => ok = true ∧ x = chunks.flatten) t (fsTraceF chunks ok f) := by
  cases f with
  | none =>
    simp only [fsTraceF, fsTrace, RenSafe, fsStep]
    refine ⟨(by intro h; cases h), ?_⟩
    apply RenSafe_writes
    cases ok <;> simp [RenSafe, fsStep]
  | chtimesFails =>
    simp only [fsTraceF, fsTrace, RenSafe, fsStep]
    refine ⟨(by intro h; cases h), ?_⟩
    apply RenSafe_writes
    cases ok <;> simp [RenSafe, fsStep]
  | createFails => simp [fsTraceF, RenSafe]
  | writeFails i j =>
    simp only [fsTraceF, RenSafe, fsStep]
    refine ⟨(by intro h; cases h), ?_⟩
    apply RenSafe_writes
    simp [RenSafe, fsStep]
  | replaceFails =>
    simp only [fsTraceF, RenSafe, fsStep]
    refine ⟨(by intro h; cases h), ?_⟩
    apply RenSafe_writes
    cases ok <;> simp [RenSafe]

theorem proj_cons_same {α : Type} (w : Nat) (st : FsStep α) (tr : List (Nat × FsStep α)) :
    proj w ((w, st) :: tr) = st :: proj w tr := by simp [proj]

theorem proj_cons_other {α : Type} (w v : Nat) (st : FsStep α) (tr : List (Nat × FsStep α)) (h : v ≠ w) :
    proj w ((v, st) :: tr) = proj w tr := by simp [proj, h]

theorem mfs_safe {α : Type} (good : List α → Prop) (tr : List (Nat × FsStep α)) (fs : MFs α)
    (h : ∀ w, RenSafe good (fs.tmp w) (proj w tr)) :
    (mfsExec fs tr).path = fs.path ∨ ∃ x, good x ∧ (mfsExec fs tr).path = some x := by
  induction tr generalizing fs with
  | nil => left; rfl
  | cons s tr ih =>
    obtain ⟨v, st⟩ := s
    have hv := h v
    rw [proj_cons_same] at hv
    simp only [RenSafe] at hv
    have hnext : ∀ w, RenSafe good ((mfsStep fs (v, st)).tmp w) (proj w tr) := by
      intro w
      by_cases hw : w = v
      · subst hw
        simp only [mfsStep, if_true]
        rw [fsStep_tmp_indep fs.path none]
        exact hv.2
      · have := h w
        rw [proj_cons_other w v st tr (fun e => hw e.symm)] at this
        simpa [mfsStep, hw] using this
    have hstep : mfsExec fs ((v, st) :: tr) = mfsExec (mfsStep fs (v, st)) tr := rfl
    rw [hstep]
    rcases ih (mfsStep fs (v, st)) hnext with h1 | ⟨x, hx, h1⟩
    · rcases fsStep_path fs.path (fs.tmp v) st with h2 | ⟨hr, x, hx, h2⟩
      · left; rw [h1]; exact h2
      · right
        exact ⟨x, hv.1 hr x hx, by rw [h1]; exact h2⟩
    · exact Or.inr ⟨x, hx, h1⟩

theorem RenSafe_mono {α : Type} (good good' : List α → Prop) (hg : ∀ x, good x → good' x)
    (t : Option (List α)) (steps : List (FsStep α)) (h : RenSafe good t steps) :
    RenSafe good' t steps := by
  induction steps generalizing t with
  | nil => simp [RenSafe]
  | cons s rest ih =>
    simp only [RenSafe] at h ⊢
    exact ⟨fun hs x hx => hg x (h.1 hs x hx), ih _ h.2⟩

/-- One writer: if every `rename` in `steps` moves a `good` content, the cache path holds what it
held or a `good` content. -/
theorem fs_safe {α : Type} (good : List α → Prop) (steps : List (FsStep α)) (fs : Fs α)
    (h : RenSafe good fs.tmp steps) :
    (fsExec fs steps).path = fs.path ∨ ∃ x, good x ∧ (fsExec fs steps).path = some x := by
  induction steps generalizing fs with
  | nil => left; rfl
  | cons s rest ih =>
    simp only [RenSafe] at h
    have hstep : fsExec fs (s :: rest) = fsExec (fsStep fs s) rest := rfl
    rw [hstep]
    have hn : RenSafe good (fsStep fs s).tmp rest := by
      have := fsStep_tmp_indep fs.path none fs.tmp s
      rw [this]; exact h.2
    rcases ih (fsStep fs s) hn with h1 | ⟨x, hx, h1⟩
    · rcases fsStep_path fs.path fs.tmp s with h2 | ⟨hr, x, hx, h2⟩
      · left; rw [h1]; exact h2
      · right; exact ⟨x, h.1 hr x hx, by rw [h1]; exact h2⟩
    · exact Or.inr ⟨x, hx, h1⟩

/-- A trace without a `rename` leaves the cache path alone. -/
theorem RenSafe_of_no_rename {α : Type} (steps : List (FsStep α)) (t : Option (List α))
    (h : FsStep.rename ∉ steps) : RenSafe (fun _ => False) t steps := by
  induction steps generalizing t with
  | nil => simp [RenSafe]
  | cons s rest ih =>
    simp only [RenSafe]
    refine ⟨fun hs => ?_, ih _ (fun hm => h (List.mem_cons_of_mem _ hm))⟩
    exact absurd (hs ▸ List.mem_cons_self) h

end Agd.Refresh
