import Agd.Model.Record
/-! Helper lemmas for C15: every byte the line encoder emits is ≥ 32 (no control characters). -/
namespace Agd.Record

theorem hexDigit_ge (n : Nat) : 32 ≤ hexDigit n := by unfold hexDigit; split <;> omega

theorem escAscii_ge (b : Nat) : ∀ c ∈ escAscii b, 32 ≤ c := by
  intro c hc
  unfold escAscii at hc
  have := hexDigit_ge (b / 16)
  have := hexDigit_ge (b % 16)
  split at hc
  · simp at hc; omega
  · repeat' split at hc
    all_goals simp at hc
    all_goals omega

theorem esc_ge (s : Str) : ∀ c ∈ esc s, 32 ≤ c := by
  fun_induction esc s <;> intro c hc
  all_goals simp_all [badSeq, lineSep, ok2, ok3, ok4, cont]
  all_goals (first | omega | grind [escAscii_ge])

theorem natDigitsAux_ge (f n : Nat) (acc : Str) (h : ∀ c ∈ acc, 32 ≤ c) :
    ∀ c ∈ natDigitsAux f n acc, 32 ≤ c := by
  induction f generalizing n acc with
  | zero => simpa [natDigitsAux] using h
  | succ f ih =>
    unfold natDigitsAux
    have h' : ∀ c ∈ (48 + n % 10) :: acc, 32 ≤ c := by
      intro c hc
      rcases List.mem_cons.mp hc with rfl | hc
      · omega
      · exact h c hc
    split
    · exact h'
    · exact ih _ _ h'

theorem natDigits_ge (n : Nat) : ∀ c ∈ natDigits n, 32 ≤ c :=
  natDigitsAux_ge _ _ _ (by simp)

theorem intDigits_ge (i : Int) : ∀ c ∈ intDigits i, 32 ≤ c := by
  intro c hc
  unfold intDigits at hc
  split at hc
  · rcases List.mem_cons.mp hc with rfl | hc
    · omega
    · exact natDigits_ge _ c hc
  · exact natDigits_ge _ c hc

theorem renderVal_ge (v : Val) : ∀ c ∈ renderVal v, 32 ≤ c := by
  intro c hc
  cases v with
  | str s =>
    simp [renderVal] at hc
    rcases hc with rfl | hc | rfl
    · omega
    · exact esc_ge s c hc
    · omega
  | num i => exact intDigits_ge i c hc

def KeyOK (f : Field) : Prop := ∀ c ∈ f.key, 32 ≤ c

theorem renderField_ge (f : Field) (hk : KeyOK f) : ∀ c ∈ renderField f, 32 ≤ c := by
  intro c hc
  simp [renderField] at hc
  rcases hc with rfl | hc | rfl | rfl | hc
  · omega
  · exact hk c hc
  · omega
  · omega
  · exact renderVal_ge _ c hc

theorem renderFields_ge (fs : List Field) (hk : ∀ f ∈ fs, KeyOK f) : ∀ c ∈ renderFields fs, 32 ≤ c := by
  induction fs with
  | nil => simp [renderFields]
  | cons f r ih =>
    cases r with
    | nil =>
      simpa [renderFields] using renderField_ge f (hk f (by simp))
    | cons g r =>
      intro c hc
      simp only [renderFields, List.mem_append, List.mem_cons] at hc
      rcases hc with hc | rfl | hc
      · exact renderField_ge f (hk f (by simp)) c hc
      · omega
      · exact ih (fun x hx => hk x (List.mem_cons_of_mem _ hx)) c hc

theorem renderObj_ge (fs : List Field) (hk : ∀ f ∈ fs, KeyOK f) : ∀ c ∈ renderObj fs, 32 ≤ c := by
  intro c hc
  simp [renderObj] at hc
  rcases hc with rfl | hc | rfl
  · omega
  · exact renderFields_ge fs hk c hc
  · omega

theorem fieldsOf_keys (e : Entry) (rn : Nat) : ∀ f ∈ fieldsOf e rn, KeyOK f := by
  intro f hf
  unfold fieldsOf optStr optNum at hf
  simp only [List.mem_append, List.mem_cons] at hf
  unfold KeyOK
  repeat' (first | (rcases hf with hf | hf) | (split at hf))
  all_goals (first | (subst hf; simp) | simp at hf | skip)
  all_goals (first | (intro c hc; simp at hc; omega) | (rename_i h; cases h) | (rename_i h _; cases h))

/-! ## The request path -/

theorem serve_log_inv (q : Req) (e : Entry) (h : (serve q).log = some e) :
    ∃ p d, q.dev = .ok p d ∧ p.qlog = true ∧ (e.ip ≠ none → p.iplog = true) ∧ e.prof = p.id ∧ e.dev = d
      ∧ q.port0 = false ∧ q.globBlockIP = false ∧ q.globBlockHost = false ∧ q.profBlock = false
      ∧ q.rlDrop = false ∧ q.special = false ∧ q.debug = false ∧ q.ctxErr = false ∧ q.upErr = false
      ∧ e.name = q.name ∧ e.qtype = q.qtype ∧ e.proto = q.proto ∧ e.reqRes = q.reqRes
      ∧ e.respRes = respResOf q ∧ e.rcode = (filteredResp q).rcode ∧ e.reqId = q.reqId
      ∧ e.timeMs = q.startMs ∧ (∀ a, e.ip = some a → a = q.remoteIP) := by
  unfold serve at h
  split at h
  · simp at h
  · split at h
    · simp at h
    · simp at h
    · split at h
      · simp at h
      · split at h
        · simp at h
        · split at h
          · simp at h
          · simp only [initialmw, mainmw] at h
            split at h
            · simp at h
            · split at h
              · simp at h
              · simp only [Bool.false_eq_true, if_false, record] at h
                cases hd : q.dev with
                | ok p d =>
                  simp only [hd, DevRes.data] at h
                  split at h
                  · simp at h
                  · simp only [Option.some.injEq] at h
                    subst h
                    refine ⟨p, d, rfl, ?_⟩
                    simp_all [DevRes.data]
                | _ => simp [hd, DevRes.data] at h

theorem serve_bill_inv (q : Req) (b : Bill) (h : (serve q).bill = some b) :
    ∃ p d, q.dev = .ok p d ∧ b.dev = d ∧ b.proto = q.proto
      ∧ q.port0 = false ∧ q.globBlockIP = false ∧ q.globBlockHost = false ∧ q.profBlock = false
      ∧ q.rlDrop = false := by
  unfold serve at h
  split at h
  · simp at h
  · split at h
    · simp at h
    · simp at h
    · split at h
      · simp at h
      · split at h
        · simp at h
        · split at h
          · simp at h
          · simp only [initialmw, mainmw] at h
            split at h
            · simp at h
            · split at h
              · simp at h
              · simp only [Bool.false_eq_true, if_false, record] at h
                cases hd : q.dev with
                | ok p d =>
                  simp only [hd, DevRes.data] at h
                  refine ⟨p, d, rfl, ?_⟩
                  split at h
                  · simp only [Option.some.injEq] at h
                    subst h
                    simp_all [DevRes.data]
                  · simp only [Option.some.injEq] at h
                    subst h
                    simp_all [DevRes.data]
                | _ => simp [hd, DevRes.data] at h

/-! ## The log file under concurrent writers: the ownership invariant -/

structure Inv (J : Jobs) (s : FS) : Prop where
  file : s.file = (s.order.map (lineOf J)).flatten
  holdLt : ∀ i, 1 ≤ s.pc i → s.pc i ≤ 4 → s.hold i < s.nbufs
  holdNF : ∀ i, 1 ≤ s.pc i → s.pc i ≤ 4 → s.hold i ∉ s.free
  inj : ∀ i j, i ≠ j → 1 ≤ s.pc i → s.pc i ≤ 4 → 1 ≤ s.pc j → s.pc j ≤ 4 → s.hold i ≠ s.hold j
  b1 : ∀ i, s.pc i = 1 → (s.bufs (s.hold i)).bytes = []
  b2 : ∀ i, s.pc i = 2 → (s.bufs (s.hold i)).bytes = [] ∧ (s.bufs (s.hold i)).ent = J i
  b3 : ∀ i, s.pc i = 3 → (s.bufs (s.hold i)).bytes = lineOf J i
  freeLt : ∀ k ∈ s.free, k < s.nbufs
  freeND : s.free.Nodup
  ord : ∀ i, i ∈ s.order ↔ 4 ≤ s.pc i
  ordND : s.order.Nodup
  started : ∀ i, s.pc i ≠ 0 → (J i).isSome

theorem inv_init (J : Jobs) : Inv J {} := by
  constructor <;> simp

theorem inv_reuse (J : Jobs) (s : FS) (i k : Nat) (h : Inv J s) (hpc : s.pc i = 0) (hk : k ∈ s.free)
    (hJ : (J i).isSome) :
    Inv J (s.reuse i k) := by
  obtain ⟨hfile, hlt, hnf, hinj, hb1, hb2, hb3, hflt, hfnd, hord, hordnd, hst⟩ := h
  have e1 : ∀ x, x ∈ s.free.erase k ↔ x ≠ k ∧ x ∈ s.free := fun x => hfnd.mem_erase_iff
  have e2 : (s.free.erase k).Nodup := hfnd.erase k
  constructor
  all_goals simp only [FS.reuse, put]
  all_goals grind


theorem inv_alloc (J : Jobs) (s : FS) (i : Nat) (h : Inv J s) (hpc : s.pc i = 0)
    (hJ : (J i).isSome) : Inv J (s.alloc i) := by
  obtain ⟨hfile, hlt, hnf, hinj, hb1, hb2, hb3, hflt, hfnd, hord, hordnd, hst⟩ := h
  have e0 : s.nbufs ∉ s.free := fun hm => Nat.lt_irrefl _ (hflt _ hm)
  constructor
  all_goals simp only [FS.alloc, put, Buf.empty]
  all_goals grind

theorem lineOf_some (J : Jobs) (i : Nat) (job : Entry × Nat) (h : J i = some job) :
    lineOf J i = encodeLine job.1 job.2 := by simp [lineOf, h]

theorem inv_step (J : Jobs) (s : FS) (i : Nat) (c : Option Nat) (h : Inv J s) : Inv J (s.step J i c) := by
  unfold FS.step
  split
  · exact h
  · rename_i job hj
    have hl := lineOf_some J i job hj
    split
    · rename_i hpc
      split
      · split
        · exact inv_reuse J s i _ h hpc (by assumption) (by simp [hj])
        · exact inv_alloc J s i h hpc (by simp [hj])
      · exact inv_alloc J s i h hpc (by simp [hj])
    · rename_i hpc
      obtain ⟨hfile, hlt, hnf, hinj, hb1, hb2, hb3, hflt, hfnd, hord, hordnd, hst⟩ := h
      constructor
      all_goals simp only [put]
      all_goals grind
    · rename_i hpc
      obtain ⟨hfile, hlt, hnf, hinj, hb1, hb2, hb3, hflt, hfnd, hord, hordnd, hst⟩ := h
      have := hb2 i hpc
      constructor
      all_goals simp only [put]
      all_goals grind
    · rename_i hpc
      obtain ⟨hfile, hlt, hnf, hinj, hb1, hb2, hb3, hflt, hfnd, hord, hordnd, hst⟩ := h
      have := hb3 i hpc
      have hni : i ∉ s.order := by rw [hord]; omega
      constructor
      all_goals simp only [put]
      · simp [hfile, this]
      all_goals grind
    · rename_i hpc
      obtain ⟨hfile, hlt, hnf, hinj, hb1, hb2, hb3, hflt, hfnd, hord, hordnd, hst⟩ := h
      have := hnf i (by omega) (by omega)
      have := hlt i (by omega) (by omega)
      constructor
      all_goals simp only [put]
      all_goals grind
    · exact h

theorem inv_run (J : Jobs) (ops : List (Nat × Option Nat)) (s : FS) (h : Inv J s) : Inv J (FS.run J s ops) := by
  induction ops generalizing s with
  | nil => exact h
  | cons op r ih => exact ih _ (inv_step J s op.1 op.2 h)


theorem splitLines_line (body rest : Str) (h : ∀ c ∈ body, c ≠ 10) :
    splitLines (body ++ 10 :: rest) = body :: splitLines rest := by
  induction body with
  | nil => simp [splitLines]
  | cons c r ih =>
    have hc : c ≠ 10 := h c (by simp)
    have := ih (fun x hx => h x (List.mem_cons_of_mem _ hx))
    simp [splitLines, hc, this]

end Agd.Record
