import Agd.Model.Record
/-! Helper lemmas for C15: every byte the line encoder emits is ≥ 32 (no control characters). -/
namespace Agd.Record

theorem hexDigit_ge (n : Nat) : 32 ≤ hexDigit n := by unfold hexDigit; split <;> omega

theorem escAscii_ge (b : Nat) : ∀ c ∈ escAscii b, 32 ≤ c := by
  intro c hc
  unfold escAscii at hc
  have := hexDigit_ge (b / 16)
  have := hexDigit_ge (b % 16)
  split at hc
  · simp at hc; omega
  · repeat' split at hc
    all_goals simp at hc
    all_goals omega

theorem esc_ge (s : Str) : ∀ c ∈ esc s, 32 ≤ c := by
  fun_induction esc s <;> intro c hc
  all_goals simp_all [badSeq, lineSep, ok2, ok3, ok4, cont]
  all_goals (first | omega | grind [escAscii_ge])

theorem natDigitsAux_ge (f n : Nat) (acc : Str) (h : ∀ c ∈ acc, 32 ≤ c) :
    ∀ c ∈ natDigitsAux f n acc, 32 ≤ c := by
  induction f generalizing n acc with
  | zero => simpa [natDigitsAux] using h
  | succ f ih =>
    unfold natDigitsAux
    have h' : ∀ c ∈ (48 + n % 10) :: acc, 32 ≤ c := by
      intro c hc
      rcases List.mem_cons.mp hc with rfl | hc
      · omega
      · exact h c hc
    split
    · exact h'
    · exact ih _ _ h'

theorem natDigits_ge (n : Nat) : ∀ c ∈ natDigits n, 32 ≤ c :=
  natDigitsAux_ge _ _ _ (by simp)

theorem intDigits_ge (i : Int) : ∀ c ∈ intDigits i, 32 ≤ c := by
  intro c hc
  unfold intDigits at hc
  split at hc
  · rcases List.mem_cons.mp hc with rfl | hc
    · omega
    · exact natDigits_ge _ c hc
  · exact natDigits_ge _ c hc

theorem renderVal_ge (v : Val) : ∀ c ∈ renderVal v, 32 ≤ c := by
  intro c hc
  cases v with
  | str s =>
    simp [renderVal] at hc
    rcases hc with rfl | hc | rfl
    · omega
    · exact esc_ge s c hc
    · omega
  | num i => exact intDigits_ge i c hc

def KeyOK (f : Field) : Prop := ∀ c ∈ f.key, 32 ≤ c

theorem renderField_ge (f : Field) (hk : KeyOK f) : ∀ c ∈ renderField f, 32 ≤ c := by
  intro c hc
  simp [renderField] at hc
  rcases hc with rfl | hc | rfl | rfl | hc
  · omega
  · exact hk c hc
  · omega
  · omega
  · exact renderVal_ge _ c hc

theorem renderFields_ge (fs : List Field) (hk : ∀ f ∈ fs, KeyOK f) : ∀ c ∈ renderFields fs, 32 ≤ c := by
  induction fs with
  | nil => simp [renderFields]
  | cons f r ih =>
    cases r with
    | nil =>
      simpa [renderFields] using renderField_ge f (hk f (by simp))
    | cons g r =>
      intro c hc
      simp only [renderFields, List.mem_append, List.mem_cons] at hc
      rcases hc with hc | rfl | hc
      · exact renderField_ge f (hk f (by simp)) c hc
      · omega
      · exact ih (fun x hx => hk x (List.mem_cons_of_mem _ hx)) c hc

theorem renderObj_ge (fs : List Field) (hk : ∀ f ∈ fs, KeyOK f) : ∀ c ∈ renderObj fs, 32 ≤ c := by
  intro c hc
  simp [renderObj] at hc
  rcases hc with rfl | hc | rfl
  · omega
  · exact renderFields_ge fs hk c hc
  · omega

theorem fieldsOf_keys (e : Entry) (rn : Nat) : ∀ f ∈ fieldsOf e rn, KeyOK f := by
  intro f hf
  unfold fieldsOf optStr optNum at hf
  simp only [List.mem_append, List.mem_cons] at hf
  unfold KeyOK
  repeat' (first | (rcases hf with hf | hf) | (split at hf))
  all_goals (first | (subst hf; simp) | simp at hf | skip)
  all_goals (first | (intro c hc; simp at hc; omega) | (rename_i h; cases h) | (rename_i h _; cases h))

/-! ## The request path -/

theorem serve_log_inv (q : Req) (e : Entry) (h : (serve q).log = some e) :
    ∃ p d, q.dev = .ok p d ∧ p.qlog = true ∧ (e.ip ≠ none → p.iplog = true) ∧ e.prof = p.id ∧ e.dev = d
      ∧ q.port0 = false ∧ q.globBlockIP = false ∧ q.globBlockHost = false ∧ q.profBlock = false
      ∧ q.badECS = false ∧ rlDropEff q = false ∧ q.special = false ∧ q.debug = false ∧ q.ctxErr = false ∧ q.upErr = false
      ∧ e.name = q.name ∧ e.qtype = q.qtype ∧ e.proto = q.proto ∧ e.reqRes = q.reqRes
      ∧ e.respRes = respResOf q ∧ e.rcode = rcode16 (filteredResp q).rcode ∧ e.reqId = q.reqId
      ∧ e.timeMs = q.startMs ∧ (∀ a, e.ip = some a → a = q.remoteIP) := by
  unfold serve at h
  split at h
  · simp at h
  · split at h
    · simp at h
    · simp at h
    · split at h
      · simp at h
      · split at h
        · simp at h
        · split at h
          · simp at h
          · split at h
            · simp at h
            · simp only [initialmw, mainmw] at h
              split at h
              · simp at h
              · split at h
                · simp at h
                · simp only [Bool.false_eq_true, if_false, record] at h
                  cases hd : q.dev with
                  | ok p d =>
                    simp only [hd, DevRes.data] at h
                    split at h
                    · simp at h
                    · simp only [Option.some.injEq] at h
                      subst h
                      refine ⟨p, d, rfl, ?_⟩
                      simp_all [DevRes.data]
                  | _ => simp [hd, DevRes.data] at h

theorem serve_bill_inv (q : Req) (b : Bill) (h : (serve q).bill = some b) :
    ∃ p d, q.dev = .ok p d ∧ b.dev = d ∧ b.proto = q.proto
      ∧ q.port0 = false ∧ q.globBlockIP = false ∧ q.globBlockHost = false ∧ q.profBlock = false
      ∧ q.badECS = false ∧ rlDropEff q = false := by
  unfold serve at h
  split at h
  · simp at h
  · split at h
    · simp at h
    · simp at h
    · split at h
      · simp at h
      · split at h
        · simp at h
        · split at h
          · simp at h
          · split at h
            · simp at h
            · simp only [initialmw, mainmw] at h
              split at h
              · simp at h
              · split at h
                · simp at h
                · simp only [Bool.false_eq_true, if_false, record] at h
                  cases hd : q.dev with
                  | ok p d =>
                    simp only [hd, DevRes.data] at h
                    refine ⟨p, d, rfl, ?_⟩
                    split at h
                    · simp only [Option.some.injEq] at h
                      subst h
                      simp_all [DevRes.data]
                    · simp only [Option.some.injEq] at h
                      subst h
                      simp_all [DevRes.data]
                  | _ => simp [hd, DevRes.data] at h

/-! ## The log file under concurrent writers: the ownership invariant -/

/-- Writer states in which a pooled buffer is held. -/
def Holding (p : Nat) : Prop := (1 ≤ p ∧ p ≤ 4) ∨ p = 6 ∨ p = 8

structure Inv (J : Jobs) (s : FS) : Prop where
  file : s.file = (s.order.map (lineOf J)).flatten
  holdLt : ∀ i, ((1 ≤ s.pc i ∧ s.pc i ≤ 4) ∨ s.pc i = 6 ∨ s.pc i = 8) → s.hold i < s.nbufs
  holdNF : ∀ i, ((1 ≤ s.pc i ∧ s.pc i ≤ 4) ∨ s.pc i = 6 ∨ s.pc i = 8) → s.hold i ∉ s.free
  inj : ∀ i j, i ≠ j → ((1 ≤ s.pc i ∧ s.pc i ≤ 4) ∨ s.pc i = 6 ∨ s.pc i = 8) → ((1 ≤ s.pc j ∧ s.pc j ≤ 4) ∨ s.pc j = 6 ∨ s.pc j = 8) →
    s.hold i ≠ s.hold j
  b1 : ∀ i, s.pc i = 1 → (s.bufs (s.hold i)).bytes = []
  b2 : ∀ i, s.pc i = 2 → (s.bufs (s.hold i)).bytes = [] ∧ (s.bufs (s.hold i)).ent = J i
  b3 : ∀ i, s.pc i = 3 → (s.bufs (s.hold i)).bytes = lineOf J i
  freeLt : ∀ k ∈ s.free, k < s.nbufs
  freeND : s.free.Nodup
  ord : ∀ i, i ∈ s.order ↔ (s.pc i = 4 ∨ s.pc i = 5)
  ordND : s.order.Nodup
  started : ∀ i, s.pc i ≠ 0 → (J i).isSome

theorem inv_init (J : Jobs) : Inv J {} := by
  constructor <;> simp

theorem inv_reuse (J : Jobs) (s : FS) (i k : Nat) (h : Inv J s) (hpc : s.pc i = 0) (hk : k ∈ s.free)
    (hJ : (J i).isSome) :
    Inv J (s.reuse i k) := by
  obtain ⟨hfile, hlt, hnf, hinj, hb1, hb2, hb3, hflt, hfnd, hord, hordnd, hst⟩ := h
  have e1 : ∀ x, x ∈ s.free.erase k ↔ x ≠ k ∧ x ∈ s.free := fun x => hfnd.mem_erase_iff
  have e2 : (s.free.erase k).Nodup := hfnd.erase k
  constructor
  all_goals simp only [FS.reuse, put]
  all_goals grind


theorem inv_alloc (J : Jobs) (s : FS) (i : Nat) (h : Inv J s) (hpc : s.pc i = 0)
    (hJ : (J i).isSome) : Inv J (s.alloc i) := by
  obtain ⟨hfile, hlt, hnf, hinj, hb1, hb2, hb3, hflt, hfnd, hord, hordnd, hst⟩ := h
  have e0 : s.nbufs ∉ s.free := fun hm => Nat.lt_irrefl _ (hflt _ hm)
  constructor
  all_goals simp only [FS.alloc, put, Buf.empty]
  all_goals grind

theorem lineOf_some (J : Jobs) (i : Nat) (job : Entry × Nat) (h : J i = some job) :
    lineOf J i = encodeLine job.1 job.2 := by simp [lineOf, h]

theorem inv_step (J : Jobs) (s : FS) (i : Nat) (c : Option Nat) (h : Inv J s) : Inv J (s.step J i c) := by
  unfold FS.step
  split
  · exact h
  · rename_i job hj
    have hl := lineOf_some J i job hj
    split
    · rename_i hpc
      split
      · split
        · exact inv_reuse J s i _ h hpc (by assumption) (by simp [hj])
        · exact inv_alloc J s i h hpc (by simp [hj])
      · exact inv_alloc J s i h hpc (by simp [hj])
    · rename_i hpc
      obtain ⟨hfile, hlt, hnf, hinj, hb1, hb2, hb3, hflt, hfnd, hord, hordnd, hst⟩ := h
      constructor
      all_goals simp only [put]
      all_goals grind
    · rename_i hpc
      obtain ⟨hfile, hlt, hnf, hinj, hb1, hb2, hb3, hflt, hfnd, hord, hordnd, hst⟩ := h
      have := hb2 i hpc
      split
      · constructor
        all_goals simp only [put]
        all_goals grind
      · constructor
        all_goals simp only [put]
        all_goals grind
    · rename_i hpc
      obtain ⟨hfile, hlt, hnf, hinj, hb1, hb2, hb3, hflt, hfnd, hord, hordnd, hst⟩ := h
      have := hb3 i hpc
      have hni : i ∉ s.order := by rw [hord]; omega
      split
      · constructor
        all_goals simp only [put]
        all_goals grind
      · constructor
        all_goals simp only [put]
        · simp [hfile, this]
        all_goals grind
    · rename_i hpc
      obtain ⟨hfile, hlt, hnf, hinj, hb1, hb2, hb3, hflt, hfnd, hord, hordnd, hst⟩ := h
      have := hnf i (by omega)
      have := hlt i (by omega)
      constructor
      all_goals simp only [put]
      all_goals grind
    · rename_i hpc
      obtain ⟨hfile, hlt, hnf, hinj, hb1, hb2, hb3, hflt, hfnd, hord, hordnd, hst⟩ := h
      have := hnf i (by omega)
      have := hlt i (by omega)
      constructor
      all_goals simp only [put]
      all_goals grind
    · rename_i hpc
      obtain ⟨hfile, hlt, hnf, hinj, hb1, hb2, hb3, hflt, hfnd, hord, hordnd, hst⟩ := h
      have := hnf i (by omega)
      have := hlt i (by omega)
      constructor
      all_goals simp only [put]
      all_goals grind
    · exact h

theorem inv_run (J : Jobs) (ops : List (Nat × Option Nat)) (s : FS) (h : Inv J s) : Inv J (FS.run J s ops) := by
  induction ops generalizing s with
  | nil => exact h
  | cons op r ih => exact ih _ (inv_step J s op.1 op.2 h)


theorem splitLines_line (body rest : Str) (h : ∀ c ∈ body, c ≠ 10) :
    splitLines (body ++ 10 :: rest) = body :: splitLines rest := by
  induction body with
  | nil => simp [splitLines]
  | cons c r ih =>
    have hc : c ≠ 10 := h c (by simp)
    have := ih (fun x hx => h x (List.mem_cons_of_mem _ hx))
    simp [splitLines, hc, this]

/-! ## The independent reader (`lexLine`) on encoded lines -/

def pre (u : Str) (p : Str × Str) : Str × Str := (u ++ p.1, p.2)

/-- `u` is a whole number of string-body units: scanning it from the plain state consumes exactly
`u` and ends in the plain state. -/
def Unit (u : Str) : Prop := ∀ r, scanStr 0 (u ++ r) = (scanStr 0 r).map (pre u)

theorem unit_nil : Unit [] := by
  intro r
  have : pre [] = id := by funext p; rfl
  simp [this]

theorem unit_append {u v : Str} (hu : Unit u) (hv : Unit v) : Unit (u ++ v) := by
  intro r
  rw [List.append_assoc, hu, hv, Option.map_map]
  congr 1
  funext p
  simp [pre]

theorem unit_plain (b : Nat) (h1 : 32 ≤ b) (h2 : b ≠ 34) (h3 : b ≠ 92) : Unit [b] := by
  intro r
  have : ¬ b < 32 := by omega
  simp [scanStr, h2, h3, this]
  rfl

theorem unit_simple (x : Nat) (hx : isSimpleEscape x = true) : Unit [92, x] := by
  intro r
  have hu : x ≠ 117 := by
    intro h; subst h; simp [isSimpleEscape] at hx
  simp [scanStr, hu, hx, Option.map_map]
  rfl

theorem unit_u (a b c d : Nat) (ha : isHex a = true) (hb : isHex b = true) (hc : isHex c = true)
    (hd : isHex d = true) : Unit [92, 117, a, b, c, d] := by
  intro r
  simp [scanStr, ha, hb, hc, hd, Option.map_map]
  rfl

theorem isHex_hexDigit (n : Nat) (h : n < 16) : isHex (hexDigit n) = true := by
  unfold hexDigit isHex
  split <;> simp <;> omega

theorem unit_escAscii (b : Nat) (h : b < 128) : Unit (escAscii b) := by
  unfold escAscii
  split
  · rename_i hb
    rcases hb with rfl | rfl
    · exact unit_simple 34 (by decide)
    · exact unit_simple 92 (by decide)
  · split
    · exact unit_simple 98 (by decide)
    · split
      · exact unit_simple 102 (by decide)
      · split
        · exact unit_simple 110 (by decide)
        · split
          · exact unit_simple 114 (by decide)
          · split
            · exact unit_simple 116 (by decide)
            · split
              · exact unit_u 48 48 _ _ (by decide) (by decide) (isHex_hexDigit _ (by omega)) (isHex_hexDigit _ (by omega))
              · rename_i h1 h2 h3 h4 h5 h6 h7
                exact unit_plain b (by omega) (by omega) (by omega)

theorem unit_badSeq : Unit badSeq := unit_u 102 102 102 100 (by decide) (by decide) (by decide) (by decide)

theorem unit_lineSep (l : Nat) (h : l = 56 ∨ l = 57) : Unit (lineSep l) := by
  rcases h with rfl | rfl
  · exact unit_u 50 48 50 56 (by decide) (by decide) (by decide) (by decide)
  · exact unit_u 50 48 50 57 (by decide) (by decide) (by decide) (by decide)

theorem unit_hi (b : Nat) (h : 128 ≤ b) : Unit [b] := unit_plain b (by omega) (by omega) (by omega)

theorem unit_cons {b : Nat} {u : Str} (hb : Unit [b]) (hu : Unit u) : Unit (b :: u) := by
  have := unit_append hb hu
  simpa using this

theorem unit_esc (s : Str) : Unit (esc s) := by
  fun_induction esc s
  case case1 => exact unit_nil
  case case2 b0 r h ih => exact unit_append (unit_escAscii b0 h) ih
  case case3 b0 h => exact unit_badSeq
  case case4 b0 h b1 r1 hok ih =>
    simp [ok2, cont] at hok
    exact unit_cons (unit_hi b0 (by omega)) (unit_cons (unit_hi b1 (by omega)) ih)
  case case5 b0 h b1 hok ih => exact unit_append unit_badSeq ih
  case case6 b0 h b1 hok2 b2 r2 hok3 hls ih =>
    refine unit_append (unit_lineSep _ ?_) ih
    split <;> simp
  case case7 b0 h b1 hok2 b2 r2 hok3 hls ih =>
    simp [ok3, cont] at hok3
    refine unit_cons (unit_hi b0 (by omega)) (unit_cons (unit_hi b1 ?_) (unit_cons (unit_hi b2 (by omega)) ih))
    have := hok3.1.1.2
    split at this <;> omega
  case case8 b0 h b1 hok2 b2 hok3 ih => exact unit_append unit_badSeq ih
  case case9 b0 h b1 hok2 b2 hok3 b3 r3 hok4 ih =>
    simp [ok4, cont] at hok4
    refine unit_cons (unit_hi b0 (by omega)) (unit_cons (unit_hi b1 ?_) (unit_cons (unit_hi b2 (by omega)) (unit_cons (unit_hi b3 (by omega)) ih)))
    have := hok4.1.1.1.2
    split at this <;> omega
  case case10 b0 h b1 hok2 b2 hok3 b3 r3 hok4 ih => exact unit_append unit_badSeq ih

/-! ## The reader on rendered objects -/

def tokOf (f : Field) : Str × Tok :=
  (f.key, match f.val with | .str s => .str (esc s) | .num i => .num (intDigits i))

/-- Keys are plain printable text without quotes and backslashes (the struct tags of `jsonlEntry`). -/
def KeyClean (f : Field) : Prop := ∀ c ∈ f.key, 32 ≤ c ∧ c ≠ 34 ∧ c ≠ 92

theorem unit_clean (k : Str) (h : ∀ c ∈ k, 32 ≤ c ∧ c ≠ 34 ∧ c ≠ 92) : Unit k := by
  induction k with
  | nil => exact unit_nil
  | cons c r ih =>
    have hc := h c (by simp)
    exact unit_cons (unit_plain c hc.1 hc.2.1 hc.2.2) (ih (fun x hx => h x (List.mem_cons_of_mem _ hx)))

theorem scanStr_closed (u rest : Str) (h : Unit u) : scanStr 0 (u ++ 34 :: rest) = some (u, rest) := by
  rw [h]
  simp [scanStr, pre]

def NumChar (c : Nat) : Prop := c = 45 ∨ (48 ≤ c ∧ c ≤ 57)

theorem scanNum_stop (u : Str) (c : Nat) (rest : Str) (hu : ∀ x ∈ u, NumChar x) (hc : ¬ NumChar c) :
    scanNum (u ++ c :: rest) = (u, c :: rest) := by
  induction u with
  | nil =>
    unfold NumChar at hc
    simp [scanNum, hc]
  | cons x r ih =>
    have hx := hu x (by simp)
    unfold NumChar at hx
    have := ih (fun y hy => hu y (List.mem_cons_of_mem _ hy))
    simp [scanNum, hx, this, consFst]

theorem natDigitsAux_num (f n : Nat) (acc : Str) (h : ∀ c ∈ acc, NumChar c) :
    ∀ c ∈ natDigitsAux f n acc, NumChar c := by
  induction f generalizing n acc with
  | zero => simpa [natDigitsAux] using h
  | succ f ih =>
    unfold natDigitsAux
    have h' : ∀ c ∈ (48 + n % 10) :: acc, NumChar c := by
      intro c hc
      rcases List.mem_cons.mp hc with rfl | hc
      · right; omega
      · exact h c hc
    split
    · exact h'
    · exact ih _ _ h'

theorem natDigitsAux_ne (f n : Nat) (acc : Str) (h : acc ≠ [] ∨ f ≠ 0) : natDigitsAux f n acc ≠ [] := by
  induction f generalizing n acc with
  | zero => simpa [natDigitsAux] using h
  | succ f ih =>
    unfold natDigitsAux
    split
    · simp
    · exact ih _ _ (Or.inl (by simp))

theorem intDigits_num (i : Int) : ∀ c ∈ intDigits i, NumChar c := by
  intro c hc
  unfold intDigits natDigits at hc
  split at hc
  · rcases List.mem_cons.mp hc with rfl | hc
    · left; rfl
    · exact natDigitsAux_num _ _ _ (by simp) c hc
  · exact natDigitsAux_num _ _ _ (by simp) c hc

theorem intDigits_ne (i : Int) : intDigits i ≠ [] := by
  unfold intDigits natDigits
  split
  · simp
  · exact natDigitsAux_ne _ _ _ (Or.inr (by omega))

theorem intDigits_head (i : Int) : ∃ c r, intDigits i = c :: r ∧ c ≠ 34 := by
  have hne := intDigits_ne i
  have hnum := intDigits_num i
  cases h : intDigits i with
  | nil => exact absurd h hne
  | cons c r =>
    refine ⟨c, r, rfl, ?_⟩
    have := hnum c (by simp [h])
    unfold NumChar at this
    omega

theorem lexField_render (f : Field) (c : Nat) (rest : Str) (hk : KeyClean f) (hc : c = 44 ∨ c = 125) :
    lexField (renderField f ++ c :: rest) = some (tokOf f, c :: rest) := by
  have hnc : ¬ NumChar c := by unfold NumChar; omega
  have hshape : renderField f ++ c :: rest = 34 :: (f.key ++ 34 :: 58 :: (renderVal f.val ++ c :: rest)) := by
    simp [renderField]
  rw [hshape]
  unfold lexField
  simp only [ne_eq, not_true_eq_false, if_false]
  rw [scanStr_closed _ _ (unit_clean f.key hk)]
  cases hv : f.val with
  | str s =>
    have hval : renderVal (.str s) ++ c :: rest = 34 :: (esc s ++ 34 :: c :: rest) := by simp [renderVal]
    rw [hval]
    simp only [not_true_eq_false, if_false, if_true]
    rw [scanStr_closed _ _ (unit_esc s)]
    simp [tokOf, hv]
  | num i =>
    obtain ⟨d, r, hd, hd34⟩ := intDigits_head i
    have hs := scanNum_stop (intDigits i) c rest (intDigits_num i) hnc
    have hval : renderVal (.num i) ++ c :: rest = d :: (r ++ c :: rest) := by simp [renderVal, hd]
    rw [hd] at hs
    rw [hval]
    simp only [not_true_eq_false, if_false, hd34]
    simp only [List.cons_append] at hs
    rw [hs]
    simp [tokOf, hv, hd]

theorem lexFields_render (fs : List Field) (rest : Str) (hne : fs ≠ []) (hk : ∀ f ∈ fs, KeyClean f) (fuel : Nat)
    (hf : fs.length ≤ fuel) :
    lexFields fuel (renderFields fs ++ 125 :: rest) = some (fs.map tokOf, rest) := by
  induction fs generalizing fuel with
  | nil => exact absurd rfl hne
  | cons f r ih =>
    cases fuel with
    | zero => simp at hf
    | succ fuel =>
      cases r with
      | nil =>
        simp only [renderFields, lexFields]
        rw [lexField_render f 125 rest (hk f (by simp)) (Or.inr rfl)]
        simp
      | cons g r =>
        simp only [renderFields, lexFields]
        rw [List.append_assoc]
        have : ([44] : Str) ++ (renderFields (g :: r) ++ 125 :: rest) = 44 :: (renderFields (g :: r) ++ 125 :: rest) := rfl
        simp only [List.cons_append] at *
        rw [lexField_render f 44 _ (hk f (by simp)) (Or.inl rfl)]
        have ih' := ih (by simp) (fun x hx => hk x (List.mem_cons_of_mem _ hx)) fuel (by simpa using hf)
        simp [ih']

theorem renderField_len (f : Field) : 1 ≤ (renderField f).length := by simp [renderField]

theorem renderFields_len (fs : List Field) : fs.length ≤ (renderFields fs).length := by
  induction fs with
  | nil => simp
  | cons f r ih =>
    cases r with
    | nil => simpa [renderFields] using renderField_len f
    | cons g r =>
      simp only [renderFields, List.length_append, List.length_cons] at *
      have := renderField_len f
      omega

/-- The reader gives back exactly the members that were rendered. -/
theorem lexLine_render (fs : List Field) (hne : fs ≠ []) (hk : ∀ f ∈ fs, KeyClean f) :
    lexLine (renderObj fs ++ [10]) = some (fs.map tokOf) := by
  have hshape : renderObj fs ++ [10] = 123 :: (renderFields fs ++ 125 :: [10]) := by simp [renderObj]
  rw [hshape]
  unfold lexLine
  simp only [ne_eq, not_true_eq_false, if_false]
  rw [lexFields_render fs [10] hne hk _ (by
    have := renderFields_len fs
    simp only [List.length_append, List.length_cons]
    omega)]
  rfl

theorem fieldsOf_clean (e : Entry) (rn : Nat) : ∀ f ∈ fieldsOf e rn, KeyClean f := by
  intro f hf
  unfold fieldsOf optStr optNum at hf
  simp only [List.mem_append, List.mem_cons] at hf
  unfold KeyClean
  repeat' (first | (rcases hf with hf | hf) | (split at hf))
  all_goals (first | (subst hf; simp) | simp at hf | skip)
  all_goals (first | (intro c hc; simp at hc; omega) | (rename_i h; cases h) | (rename_i h _; cases h))

theorem fieldsOf_ne (e : Entry) (rn : Nat) : fieldsOf e rn ≠ [] := by
  unfold fieldsOf
  simp

/-! ## Production wiring -/

theorem findDevice_ok_iff (sup : Bool) (l : Lookup) (p : Prof) (d : Str) :
    findDevice sup l = .ok p d ↔ sup = true ∧ l = .found p d false true := by
  unfold findDevice
  cases sup <;> cases l <;> simp
  rename_i p' d' del au
  cases del <;> cases au <;> simp

theorem wiredDevID_isSome (g : WGroup) (sv : WServer) (id : Ident) :
    (wiredDevID g sv id).isSome = true ↔
      (sv.proto = 3 ∨ sv.proto = 4 ∨ sv.proto = 5) ∧ ∃ lab dom, id.sni = some (lab, dom) ∧ dom ∈ g.domains := by
  unfold wiredDevID
  cases hs : id.sni with
  | none => simp
  | some pr =>
    obtain ⟨lab, dom⟩ := pr
    by_cases h : (sv.proto = 3 ∨ sv.proto = 4 ∨ sv.proto = 5) ∧ dom ∈ g.domains
    · simp only [h, and_self, ↓reduceIte, Option.isSome_some, true_iff]
      exact ⟨trivial, lab, dom, rfl, h.2⟩
    · simp only [h, ↓reduceIte, Option.isSome_none, Bool.false_eq_true, false_iff]
      rintro ⟨h1, lab', dom', he, hm⟩
      cases he
      exact h ⟨h1, hm⟩

end Agd.Record

