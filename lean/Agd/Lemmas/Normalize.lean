import Agd.Model.Normalize
/-! Helper lemmas for C08 (`Agd/Props/C08.lean`). Core Lean only. -/
namespace Agd.Normalize

/-- What the theorems assume about `miekg/dns`'s length accounting (validated on every case
by the harness): compressed ≤ uncompressed, and removing the answer section never lengthens
the remaining records by more than what was removed. -/
structure Contract (r : Resp) : Prop where
  comp_le_unc : r.q + sum r.ans + sum r.ns + sum r.extra ≤ r.unc
  drop_ns : ∀ kn, sum (r.ns2.take kn) ≤ sum r.ans + sum (r.ns.take kn)
  drop_extra : ∀ ke, sum r.ns2 + sum (r.extra2.take ke) ≤ sum r.ans + sum r.ns + sum (r.extra.take ke)

theorem sum_take_le (xs : List Nat) (k : Nat) : sum (xs.take k) ≤ sum xs := by
  induction xs generalizing k with
  | nil => simp [sum]
  | cons x xs ih =>
    cases k with
    | zero => simp [sum]
    | succ k => simp only [List.take_succ_cons, sum]; have := ih k; omega

theorem truncLoop_spec (size : Nat) (rs : List Nat) (l : Nat) (h : l ≤ size) :
    (truncLoop size l rs).2 ≤ rs.length ∧
    l + sum (rs.take (truncLoop size l rs).2) ≤ size ∧
    (truncLoop size l rs).1 ≤ size ∧
    ((truncLoop size l rs).1 < size →
      (truncLoop size l rs).2 = rs.length ∧ (truncLoop size l rs).1 = l + sum rs) := by
  induction rs generalizing l with
  | nil => simp [truncLoop, sum]; omega
  | cons r rs ih =>
    unfold truncLoop
    by_cases h1 : l + r > size
    · simp [h1, sum]; omega
    · by_cases h2 : l + r = size
      · simp [h2, sum]
      · have h3 : l + r ≤ size := by omega
        have := ih (l + r) h3
        simp only [h1, h2, ↓reduceIte, List.take_succ_cons, sum, List.length_cons]
        omega

theorem take_len (xs : List Nat) : xs.take xs.length = xs := List.take_length

/-- Both ways of measuring what the three section loops keep stay within the limit, unless
header + question + OPT alone exceed it. -/
theorem cutOver_bound (size ol : Nat) (r : Resp) (hc : Contract r) :
    r.q + sum (r.ns2.take (cutOver size ol r).kn) + sum (r.extra2.take (cutOver size ol r).ke) + ol
      ≤ max size (r.q + ol) ∧
    r.q + sum (r.ans.take (cutOver size ol r).ka) + sum (r.ns.take (cutOver size ol r).kn)
      + sum (r.extra.take (cutOver size ol r).ke) + ol ≤ max size (r.q + ol) := by
  obtain ⟨h1, h2, h3⟩ := hc
  unfold cutOver
  by_cases h0 : r.q + ol < size
  · have sa := truncLoop_spec size r.ans (r.q + ol) (by omega)
    simp only [h0, ↓reduceIte]
    generalize truncLoop size (r.q + ol) r.ans = a at sa ⊢
    obtain ⟨sa1, sa2, sa3, sa4⟩ := sa
    by_cases ha : a.1 < size
    · obtain ⟨sa5, sa6⟩ := sa4 ha
      have sn := truncLoop_spec size r.ns a.1 (by omega)
      simp only [ha, ↓reduceIte]
      generalize truncLoop size a.1 r.ns = n at sn ⊢
      obtain ⟨sn1, sn2, sn3, sn4⟩ := sn
      by_cases hn : n.1 < size
      · obtain ⟨sn5, sn6⟩ := sn4 hn
        have se := truncLoop_spec size r.extra n.1 (by omega)
        simp only [hn, ↓reduceIte]
        generalize truncLoop size n.1 r.extra = e at se ⊢
        obtain ⟨se1, se2, se3, se4⟩ := se
        rw [sa5, sn5, take_len, take_len]
        have c3 := h3 e.2
        have t1 : sum (List.take r.ns.length r.ns2) ≤ sum r.ns2 := sum_take_le _ _
        omega
      · simp only [hn, ↓reduceIte]
        rw [sa5, take_len]
        have c2 := h2 n.2
        simp only [List.take_zero, sum]
        omega
    · simp only [ha, ↓reduceIte, List.take_zero, sum]
      omega
  · simp only [h0, ↓reduceIte, List.take_zero, sum]
    omega

/-! ## Nothing is dropped from a message that fits compressed -/

/-- Every record has a positive length (a record is at least 11 bytes on the wire). -/
def AllPos (xs : List Nat) : Prop := ∀ x ∈ xs, 0 < x

theorem sum_zero_of_pos (xs : List Nat) (hp : AllPos xs) (h : sum xs = 0) : xs = [] := by
  cases xs with
  | nil => rfl
  | cons x xs =>
    have := hp x (by simp)
    simp only [sum] at h
    omega

/-- A section whose records all fit is kept whole by `truncateLoop`. -/
theorem truncLoop_all (size : Nat) (rs : List Nat) (l : Nat) (hp : AllPos rs)
    (h : l + sum rs ≤ size) :
    (truncLoop size l rs).2 = rs.length ∧ (truncLoop size l rs).1 = l + sum rs := by
  induction rs generalizing l with
  | nil => simp [truncLoop, sum]
  | cons r rs ih =>
    have hp' : AllPos rs := fun x hx => hp x (List.mem_cons_of_mem _ hx)
    simp only [sum] at h
    unfold truncLoop
    by_cases h1 : l + r > size
    · omega
    · by_cases h2 : l + r = size
      · have hz : sum rs = 0 := by omega
        have := sum_zero_of_pos rs hp' hz
        subst this
        simp [h2, sum]
      · have := ih (l + r) hp' (by omega)
        simp only [h1, h2, ↓reduceIte, List.length_cons, sum]
        omega

/-- The three section loops keep everything when the whole message, compressed, with the OPT record
reserved, fits `size`. -/
theorem cutOver_all (size ol : Nat) (r : Resp) (ha : AllPos r.ans) (hn : AllPos r.ns)
    (he : AllPos r.extra) (h : r.q + ol + sum r.ans + sum r.ns + sum r.extra ≤ size) :
    cutOver size ol r = { ka := r.ans.length, kn := r.ns.length, ke := r.extra.length, tc := r.tc } := by
  have e0 : ∀ xs : List Nat, AllPos xs → sum xs = 0 → xs.length = 0 := by
    intro xs hp hz; rw [sum_zero_of_pos xs hp hz]; rfl
  unfold cutOver
  by_cases h0 : r.q + ol < size
  · obtain ⟨a2, a1⟩ := truncLoop_all size r.ans (r.q + ol) ha (by omega)
    simp only [h0, ↓reduceIte]
    by_cases h1 : (truncLoop size (r.q + ol) r.ans).1 < size
    · obtain ⟨n2, n1⟩ := truncLoop_all size r.ns (truncLoop size (r.q + ol) r.ans).1 hn (by omega)
      simp only [h1, ↓reduceIte]
      by_cases h2 : (truncLoop size (truncLoop size (r.q + ol) r.ans).1 r.ns).1 < size
      · obtain ⟨e2, _⟩ := truncLoop_all size r.extra
          (truncLoop size (truncLoop size (r.q + ol) r.ans).1 r.ns).1 he (by omega)
        simp only [h2, ↓reduceIte, a2, n2, e2]
        simp
      · have hz : sum r.extra = 0 := by omega
        have := e0 r.extra he hz
        simp only [h2, ↓reduceIte, a2, n2, this]
        simp
    · have hz1 : sum r.ns = 0 := by omega
      have hz2 : sum r.extra = 0 := by omega
      have l1 := e0 r.ns hn hz1
      have l2 := e0 r.extra he hz2
      simp only [h1, ↓reduceIte, a2, l1, l2]
      simp
  · have hz0 : sum r.ans = 0 := by omega
    have hz1 : sum r.ns = 0 := by omega
    have hz2 : sum r.extra = 0 := by omega
    have l0 := e0 r.ans ha hz0
    have l1 := e0 r.ns hn hz1
    have l2 := e0 r.extra he hz2
    simp only [h0, ↓reduceIte, l0, l1, l2]
    simp

/-- The heart of the size bound: after `truncate`, the message (with the OPT record that was
present during truncation) is no longer than the limit, unless header + question + OPT alone
exceed it, in which case exactly those are left. -/
theorem finalLen_truncate_le (size0 : Nat) (r : Resp) (opt : Option Opt) (hc : Contract r) :
    finalLen r (truncate false size0 r opt) opt ≤ max (max size0 minMsgSize) (r.q + optLen? opt) := by
  have hb := cutOver_bound (max size0 minMsgSize) (optLen? opt) r hc
  obtain ⟨h1, h2, h3⟩ := hc
  unfold truncate msgTruncate
  simp only [Bool.false_or]
  by_cases hfit : r.unc + optLen? opt ≤ max size0 minMsgSize
  · simp only [hfit, decide_true, ↓reduceIte]
    have a5 := h3 r.extra.length
    rw [take_len] at a5
    have a2 : sum (List.take r.ns.length r.ns2) ≤ sum r.ns2 := sum_take_le _ _
    by_cases htc : r.tc = true
    · simp only [htc, ↓reduceIte, finalLen]
      omega
    · have htc' : r.tc = false := by simpa using htc
      simp only [htc', finalLen, take_len, Bool.false_eq_true, ↓reduceIte]
      omega
  · simp only [hfit, decide_false, Bool.false_eq_true, ↓reduceIte]
    generalize cutOver (max size0 minMsgSize) (optLen? opt) r = c at hb ⊢
    by_cases htc : c.tc = true
    · simp only [htc, ↓reduceIte, finalLen]
      exact hb.1
    · have htc' : c.tc = false := by simpa using htc
      simp only [htc', finalLen, Bool.false_eq_true, ↓reduceIte]
      exact hb.2

/-- Whatever is cut from a message, what is left is no longer than the whole message was
(`Len()` of all records, compressed, with the same OPT record). -/
theorem finalLen_le_full (r : Resp) (c : Cut) (opt : Option Opt) (hc : Contract r) :
    finalLen r c opt ≤ r.q + sum r.ans + sum r.ns + sum r.extra + optLen? opt := by
  obtain ⟨_, _, h3⟩ := hc
  have a1 := h3 c.ke
  have a2 : sum (r.ns2.take c.kn) ≤ sum r.ns2 := sum_take_le _ _
  have a3 : sum (r.extra.take c.ke) ≤ sum r.extra := sum_take_le _ _
  have a4 : sum (r.ns.take c.kn) ≤ sum r.ns := sum_take_le _ _
  have a5 : sum (r.ans.take c.ka) ≤ sum r.ans := sum_take_le _ _
  unfold finalLen
  split <;> omega

/-! ## `truncate`: TC and the answer section -/

theorem truncate_tc_ka (x : Bool) (s : Nat) (r : Resp) (o : Option Opt) :
    (truncate x s r o).tc = true → (truncate x s r o).ka = 0 := by
  unfold truncate
  by_cases h : (msgTruncate x s r o).tc = true
  · simp [h]
  · have h' : (msgTruncate x s r o).tc = false := by simpa using h
    simp [h']

theorem msgTruncate_not_dropped (x : Bool) (s : Nat) (r : Resp) (o : Option Opt)
    (h : (msgTruncate x s r o).tc = false) :
    ¬ ((msgTruncate x s r o).ka < r.ans.length ∨ (msgTruncate x s r o).kn < r.ns.length ∨
       (msgTruncate x s r o).ke < r.extra.length) := by
  unfold msgTruncate at h ⊢
  by_cases hfit : (x || decide (r.unc + optLen? o ≤ max s minMsgSize)) = true
  · simp only [hfit, ↓reduceIte]; omega
  · simp only [hfit, Bool.false_eq_true, ↓reduceIte] at h ⊢
    unfold cutOver at h ⊢
    dsimp only at h ⊢
    simp only [Bool.or_eq_false_iff, decide_eq_false_iff_not] at h
    omega

theorem truncate_dropped (x : Bool) (s : Nat) (r : Resp) (o : Option Opt)
    (hd : (truncate x s r o).ka < r.ans.length ∨ (truncate x s r o).kn < r.ns.length ∨
          (truncate x s r o).ke < r.extra.length) :
    (truncate x s r o).tc = true ∧ (truncate x s r o).ka = 0 := by
  by_cases h : (msgTruncate x s r o).tc = true
  · unfold truncate; simp [h]
  · have h' : (msgTruncate x s r o).tc = false := by simpa using h
    have nd := msgTruncate_not_dropped x s r o h'
    unfold truncate at hd
    simp only [h', Bool.false_eq_true, ↓reduceIte] at hd
    exact absurd hd nd

/-! ## Options -/

/-- Payload lengths of the options with code `c`, in order. -/
def lensOf (c : Nat) (os : List EOpt) : List Nat := (os.filter (fun e => e.code == c)).map (·.len)

def lensOf? (c : Nat) : Option Opt → List Nat
  | none => []
  | some o => lensOf c o.opts

theorem lensOf_setOpt_ne (c c' l : Nat) (os : List EOpt) (h : c ≠ c') :
    lensOf c' (setOpt c l os) = lensOf c' os := by
  induction os with
  | nil =>
    have : (c == c') = false := by simpa using h
    simp [setOpt, lensOf, this]
  | cons e es ih =>
    unfold setOpt
    by_cases he : (e.code == c) = true
    · have hc : e.code = c := by simpa using he
      have : (e.code == c') = false := by simpa [hc] using h
      simp [he, lensOf, this]
    · have he' : (e.code == c) = false := by simpa using he
      simp only [he', Bool.false_eq_true, ↓reduceIte]
      simp only [lensOf] at ih ⊢
      by_cases h2 : (e.code == c') = true
      · simp [h2, ih]
      · have h2' : (e.code == c') = false := by simpa using h2
        simp [h2', ih]

theorem lensOf_filterSupported (c : Nat) (os : List EOpt) (h1 : c ≠ codeNSID) (h2 : c ≠ codeEXPIRE) :
    lensOf c (filterSupported os) = [] := by
  unfold lensOf filterSupported
  rw [List.filter_filter]
  have : ∀ e : EOpt, ((e.code == c) && (e.code == codeNSID || e.code == codeEXPIRE)) = false := by
    intro e
    by_cases hc : e.code = c
    · subst hc; simp [h1, h2]
    · simp [hc]
  simp [this]

theorem optsLen_filterSupported_le (os : List EOpt) : optsLen (filterSupported os) ≤ optsLen os := by
  induction os with
  | nil => simp [filterSupported, optsLen]
  | cons e es ih =>
    unfold filterSupported at ih ⊢
    by_cases h : (e.code == codeNSID || e.code == codeEXPIRE) = true
    · simp only [List.filter_cons, h, ↓reduceIte, optsLen]; omega
    · simp only [List.filter_cons, h, Bool.false_eq_true, ↓reduceIte, optsLen]; omega

theorem optsLen_setOpt_le (c l : Nat) (os : List EOpt) :
    optsLen (setOpt c l os) ≤ optsLen os + 4 + l := by
  induction os with
  | nil => simp [setOpt, optsLen]
  | cons e es ih =>
    unfold setOpt
    by_cases he : (e.code == c) = true
    · simp [he, optsLen]; omega
    · have he' : (e.code == c) = false := by simpa using he
      simp only [he', Bool.false_eq_true, ↓reduceIte, optsLen]
      omega

theorem mem_setOpt (c l : Nat) (os : List EOpt) :
    ∃ e ∈ setOpt c l os, e.code = c ∧ e.len = l := by
  induction os with
  | nil => exact ⟨{ code := c, len := l }, by simp [setOpt], rfl, rfl⟩
  | cons e es ih =>
    unfold setOpt
    by_cases he : (e.code == c) = true
    · have hc : e.code = c := by simpa using he
      exact ⟨{ e with len := l }, by simp [he], hc, rfl⟩
    · have he' : (e.code == c) = false := by simpa using he
      obtain ⟨x, hx, h1, h2⟩ := ih
      exact ⟨x, by simp [he', hx], h1, h2⟩

theorem mem_setOpt_of_ne (c l : Nat) (os : List EOpt) (x : EOpt) (hx : x ∈ os) (hne : x.code ≠ c) :
    x ∈ setOpt c l os := by
  induction os with
  | nil => cases hx
  | cons e es ih =>
    unfold setOpt
    by_cases he : (e.code == c) = true
    · have hc : e.code = c := by simpa using he
      simp only [he, ↓reduceIte]
      rcases List.mem_cons.mp hx with h | h
      · subst h; exact absurd hc hne
      · exact List.mem_cons_of_mem _ h
    · have he' : (e.code == c) = false := by simpa using he
      simp only [he', Bool.false_eq_true, ↓reduceIte]
      rcases List.mem_cons.mp hx with h | h
      · subst h; exact List.mem_cons_self
      · exact List.mem_cons_of_mem _ (ih h)

theorem padLenOf_range (d : Nat) : 1 ≤ padLenOf d ∧ padLenOf d ≤ 31 := by
  unfold padLenOf
  have := Nat.mod_lt d (show 31 > 0 by decide)
  omega

theorem padStep_plain (t : Transport) (h : t.hasPadding = false) (req o : Option Opt) (draw : Nat) :
    padStep t req o draw = o := by
  unfold padStep
  cases req <;> cases o <;> simp [h]

theorem optLen_padStep_le (t : Transport) (req o : Option Opt) (draw : Nat) :
    optLen? (padStep t req o draw) ≤ optLen? o + 35 := by
  unfold padStep
  cases req with
  | none => cases o <;> simp
  | some ro =>
    cases o with
    | none => simp
    | some o =>
      simp only [optLen?]
      by_cases hp : t.hasPadding = true
      · simp only [hp, ↓reduceIte, padAnswer]
        by_cases hc : hasCode codePadding ro.opts = true
        · simp only [hc, ↓reduceIte, optLen]
          have := optsLen_setOpt_le codePadding (padLenOf draw) o.opts
          have := padLenOf_range draw
          omega
        · have hc' : hasCode codePadding ro.opts = false := by simpa using hc
          simp [hc']
      · have hp' : t.hasPadding = false := by simpa using hp
        simp [hp']

theorem optLen_addKeepAlive_le (req o : Option Opt) (idle : Nat) :
    optLen? (addKeepAlive req o idle) ≤ optLen? o + 6 := by
  unfold addKeepAlive
  cases req with
  | none => cases o <;> simp
  | some ro =>
    cases o with
    | none => simp
    | some o =>
      simp only [optLen?]
      by_cases hc : hasCode codeKeepAlive ro.opts = true
      · simp only [hc, ↓reduceIte, optLen]
        have := optsLen_setOpt_le codeKeepAlive (keepAliveLen idle) o.opts
        have : keepAliveLen idle ≤ 2 := by unfold keepAliveLen; split <;> omega
        omega
      · have hc' : hasCode codeKeepAlive ro.opts = false := by simpa using hc
        simp [hc']

theorem padAnswer_mem (ro o : Opt) (draw : Nat) (hp : hasCode codePadding ro.opts = true) :
    ∃ e ∈ (padAnswer ro o draw).opts, e.code = codePadding ∧ 1 ≤ e.len ∧ e.len ≤ 31 := by
  obtain ⟨e, he, h1, h2⟩ := mem_setOpt codePadding (padLenOf draw) o.opts
  have := padLenOf_range draw
  refine ⟨e, ?_, h1, by omega, by omega⟩
  simp only [padAnswer, hp, ↓reduceIte]
  exact he

theorem addKeepAlive_some_mem (ro o : Opt) (idle : Nat) :
    ∃ o', addKeepAlive (some ro) (some o) idle = some o' ∧
      ∀ e ∈ o.opts, e.code ≠ codeKeepAlive → e ∈ o'.opts := by
  unfold addKeepAlive
  by_cases hc : hasCode codeKeepAlive ro.opts = true
  · simp only [hc, ↓reduceIte]
    exact ⟨_, rfl, fun e he hne => mem_setOpt_of_ne _ _ _ e he hne⟩
  · have hc' : hasCode codeKeepAlive ro.opts = false := by simpa using hc
    simp only [hc', Bool.false_eq_true, ↓reduceIte]
    exact ⟨o, rfl, fun e he _ => he⟩

@[simp] theorem optLen?_packOpt (hi : Nat) (o : Option Opt) : optLen? (packOpt hi o) = optLen? o := by
  cases o <;> rfl

@[simp] theorem lensOf?_packOpt (c hi : Nat) (o : Option Opt) :
    lensOf? c (packOpt hi o) = lensOf? c o := by
  cases o <;> rfl

@[simp] theorem finalLen_packOpt (r : Resp) (c : Cut) (hi : Nat) (o : Option Opt) :
    finalLen r c (packOpt hi o) = finalLen r c o := by
  simp [finalLen]

theorem packOpt_some (hi : Nat) (x : Option Opt) (o : Opt) (h : x = some o) :
    ∃ o', packOpt hi x = some o' ∧ o'.udpSize = o.udpSize ∧ o'.version = o.version ∧
      o'.opts = o.opts ∧ o'.extRcode = hi := by
  subst h
  exact ⟨_, rfl, rfl, rfl, rfl, rfl⟩

/-- The OPT record of the final message before `Pack` touches its extended-rcode byte. -/
def prePack (t : Transport) (cfgMax idleMs : Nat) (req : Option Opt) (r : Resp) (draw : Nat) :
    Option Opt :=
  if t.hasKeepAlive then addKeepAlive req (normalizeG false t cfgMax req r draw).opt idleMs
  else (normalizeG false t cfgMax req r draw).opt

theorem serve_opt (t : Transport) (cfgMax idleMs : Nat) (req : Option Opt) (r : Resp)
    (draw slack : Nat) :
    (serve t cfgMax idleMs req r draw slack).opt = packOpt r.rcodeHi (prePack t cfgMax idleMs req r draw) :=
  rfl

theorem serve_cut (t : Transport) (cfgMax idleMs : Nat) (req : Option Opt) (r : Resp)
    (draw slack : Nat) :
    (serve t cfgMax idleMs req r draw slack).cut =
      truncate (tsigAtTruncate req r) (maxDNSSize t.isUdp (advertised req) (t.cap cfgMax)) r
        (baseOpt false req r) :=
  rfl

theorem serve_wire (t : Transport) (cfgMax idleMs : Nat) (req : Option Opt) (r : Resp)
    (draw slack : Nat) :
    (serve t cfgMax idleMs req r draw slack).wire =
      finalLen r (serve t cfgMax idleMs req r draw slack).cut (prePack t cfgMax idleMs req r draw) - slack := by
  simp [serve, serveG, prePack]

theorem serve_emitted_of_unguarded (t : Transport) (h : t.guarded = false) (cfgMax idleMs : Nat)
    (req : Option Opt) (r : Resp) (draw slack : Nat) :
    (serve t cfgMax idleMs req r draw slack).emitted = true := by
  simp [serve, serveG, h]

theorem finalLen_opt_le (r : Resp) (c : Cut) (o o' : Option Opt) (k : Nat)
    (h : optLen? o' ≤ optLen? o + k) : finalLen r c o' ≤ finalLen r c o + k := by
  unfold finalLen
  split <;> omega

/-! ## The option removal at the end of the repaired `truncate` -/

theorem truncOpt_false (t : Transport) (cfgMax : Nat) (req : Option Opt) (r : Resp) :
    truncOpt false t cfgMax req r =
      dropOpts (maxDNSSize t.isUdp (advertised req) (t.cap cfgMax)) r
        (truncate (tsigAtTruncate req r) (maxDNSSize t.isUdp (advertised req) (t.cap cfgMax)) r
          (baseOpt false req r)) (baseOpt false req r) := by
  simp [truncOpt, truncCut]

/-- `dropOpts` leaves the record alone or empties its option list; header fields never change. -/
theorem dropOpts_cases (size : Nat) (r : Resp) (c : Cut) (o : Option Opt) :
    dropOpts size r c o = o ∨
      ∃ b, o = some b ∧ dropOpts size r c o = some { b with opts := [] } := by
  cases o with
  | none => left; rfl
  | some b =>
    simp only [dropOpts]
    split
    · right; exact ⟨b, rfl, rfl⟩
    · left; rfl

theorem optLen_dropOpts_le (size : Nat) (r : Resp) (c : Cut) (o : Option Opt) :
    optLen? (dropOpts size r c o) ≤ optLen? o := by
  rcases dropOpts_cases size r c o with h | ⟨b, hb, h⟩
  · rw [h]; exact Nat.le_refl _
  · rw [h, hb]; simp [optLen?, optLen, optsLen]

theorem lensOf_dropOpts (code size : Nat) (r : Resp) (c : Cut) (o : Option Opt) :
    lensOf? code (dropOpts size r c o) = lensOf? code o ∨ lensOf? code (dropOpts size r c o) = [] := by
  rcases dropOpts_cases size r c o with h | ⟨b, hb, h⟩
  · left; rw [h]
  · right; rw [h]; simp [lensOf?, lensOf]

/-- With every count at zero the message is header + question + OPT. -/
theorem finalLen_zero (r : Resp) (c : Cut) (o : Option Opt) (ha : c.ka = 0) (hn : c.kn = 0)
    (he : c.ke = 0) : finalLen r c o = r.q + optLen? o := by
  unfold finalLen
  split <;> simp [ha, hn, he, sum]

/-- If the truncated message is still longer than the limit, nothing but header, question and
OPT is left. -/
theorem cut_zero_of_over (size0 : Nat) (r : Resp) (opt : Option Opt) (hc : Contract r)
    (h : finalLen r (truncate false size0 r opt) opt > max size0 minMsgSize) :
    (truncate false size0 r opt).ka = 0 ∧ (truncate false size0 r opt).kn = 0 ∧
    (truncate false size0 r opt).ke = 0 := by
  have hb := finalLen_truncate_le size0 r opt hc
  have hq : r.q + optLen? opt > max size0 minMsgSize := by omega
  have hu := hc.comp_le_unc
  unfold truncate msgTruncate
  simp only [Bool.false_or]
  have hfit : ¬ (r.unc + optLen? opt ≤ max size0 minMsgSize) := by omega
  simp only [hfit, decide_false, Bool.false_eq_true, ↓reduceIte]
  have h0 : ¬ (r.q + optLen? opt < max size0 minMsgSize) := by omega
  unfold cutOver
  simp only [h0, ↓reduceIte]
  split <;> simp

/-- The message after the repaired `truncate` (with the OPT record as that call leaves it) is no
longer than the limit, unless header + question + a bare OPT record alone exceed it. -/
theorem finalLen_dropOpts_le (size0 : Nat) (r : Resp) (opt : Option Opt) (hc : Contract r)
    (hs : minMsgSize ≤ size0) :
    finalLen r (truncate false size0 r opt) (dropOpts size0 r (truncate false size0 r opt) opt)
      ≤ max size0 (r.q + 11) := by
  have hb := finalLen_truncate_le size0 r opt hc
  have hm : max size0 minMsgSize = size0 := by omega
  rw [hm] at hb
  by_cases hover : finalLen r (truncate false size0 r opt) opt > size0
  · obtain ⟨ha, hn, he⟩ := cut_zero_of_over size0 r opt hc (by omega)
    rw [finalLen_zero r _ _ ha hn he]
    rw [finalLen_zero r _ _ ha hn he] at hover
    cases opt with
    | none => simp [dropOpts, optLen?]; omega
    | some b =>
      unfold dropOpts
      by_cases hemp : b.opts.isEmpty = true
      · have : b.opts = [] := by simpa using hemp
        simp [hemp, optLen?, optLen, this, optsLen]; omega
      · have hover' : finalLen r (truncate false size0 r (some b)) (some b) > size0 := by
          rw [finalLen_zero r _ _ ha hn he]; exact hover
        simp [hemp, ha, hn, he, hover', optLen?, optLen, optsLen]; omega
  · have := finalLen_opt_le r (truncate false size0 r opt) opt
      (dropOpts size0 r (truncate false size0 r opt) opt) 0
      (by have := optLen_dropOpts_le size0 r (truncate false size0 r opt) opt; omega)
    omega

/-- The OPT record handed to the padding step echoes the client's size with version 0. -/
theorem truncOpt_echo (t : Transport) (cfgMax : Nat) (ro : Opt) (r : Resp) :
    ∃ o, truncOpt false t cfgMax (some ro) r = some o ∧ o.udpSize = ro.udpSize ∧ o.version = 0 := by
  rw [truncOpt_false]
  have hb : ∃ b, baseOpt false (some ro) r = some b ∧ b.udpSize = ro.udpSize ∧ b.version = 0 := by
    unfold baseOpt
    cases r.opt <;> simp [rewriteOpt, synthOpt]
  obtain ⟨b, hb, h1, h2⟩ := hb
  rcases dropOpts_cases (maxDNSSize t.isUdp (advertised (some ro)) (t.cap cfgMax)) r
    (truncate (tsigAtTruncate (some ro) r) (maxDNSSize t.isUdp (advertised (some ro)) (t.cap cfgMax)) r
      (baseOpt false (some ro) r)) (baseOpt false (some ro) r) with h | ⟨b', hb', h⟩
  · rw [h, hb]; exact ⟨b, rfl, h1, h2⟩
  · rw [h]
    rw [hb] at hb'
    cases hb'
    exact ⟨_, rfl, h1, h2⟩

/-- `normalize`'s own OPT handling neither adds nor alters an option other than NSID / EXPIRE. -/
theorem lensOf_baseOpt (c : Nat) (req : Option Opt) (r : Resp) (h1 : c ≠ codeNSID)
    (h2 : c ≠ codeEXPIRE) : lensOf? c (baseOpt false req r) = lensOf? c r.opt := by
  unfold baseOpt
  cases req with
  | none => rfl
  | some ro =>
    cases hr : r.opt <;>
      simp [lensOf?, rewriteOpt, synthOpt, lensOf_filterSupported c _ h1 h2]

theorem lensOf_truncOpt (c : Nat) (t : Transport) (cfgMax : Nat) (req : Option Opt) (r : Resp)
    (h1 : c ≠ codeNSID) (h2 : c ≠ codeEXPIRE) :
    lensOf? c (truncOpt false t cfgMax req r) = lensOf? c r.opt ∨
    lensOf? c (truncOpt false t cfgMax req r) = [] := by
  rw [truncOpt_false]
  rcases lensOf_dropOpts c (maxDNSSize t.isUdp (advertised req) (t.cap cfgMax)) r
    (truncate (tsigAtTruncate req r) (maxDNSSize t.isUdp (advertised req) (t.cap cfgMax)) r
      (baseOpt false req r)) (baseOpt false req r) with h | h
  · left; rw [h, lensOf_baseOpt c req r h1 h2]
  · right; exact h

/-- The padding step changes no option other than padding, and not even that unless the
transport pads and the client sent the option. -/
theorem lensOf_padStep (c : Nat) (t : Transport) (req o : Option Opt) (draw : Nat)
    (h : c ≠ codePadding ∨ ¬ (t.hasPadding = true ∧
      (match req with | none => false | some ro => hasCode codePadding ro.opts) = true)) :
    lensOf? c (padStep t req o draw) = lensOf? c o := by
  unfold padStep
  cases req with
  | none => cases o <;> rfl
  | some ro =>
    cases o with
    | none => rfl
    | some b =>
      by_cases hp : t.hasPadding = true
      · simp only [hp, ↓reduceIte, padAnswer]
        by_cases hc : hasCode codePadding ro.opts = true
        · simp only [hc, ↓reduceIte]
          rcases h with h | h
          · simp [lensOf?, lensOf_setOpt_ne codePadding c _ _ (fun e => h e.symm)]
          · exact absurd ⟨hp, hc⟩ h
        · have hc' : hasCode codePadding ro.opts = false := by simpa using hc
          simp [hc']
      · have hp' : t.hasPadding = false := by simpa using hp
        simp [hp']

/-- `addTCPKeepAlive` changes no option other than keep-alive, and not even that unless the client
sent the option. -/
theorem lensOf_addKeepAlive (c : Nat) (req o : Option Opt) (idle : Nat)
    (h : c ≠ codeKeepAlive ∨
      (match req with | none => false | some ro => hasCode codeKeepAlive ro.opts) = false) :
    lensOf? c (addKeepAlive req o idle) = lensOf? c o := by
  unfold addKeepAlive
  cases req with
  | none => cases o <;> rfl
  | some ro =>
    cases o with
    | none => rfl
    | some b =>
      by_cases hc : hasCode codeKeepAlive ro.opts = true
      · simp only [hc, ↓reduceIte]
        rcases h with h | h
        · simp [lensOf?, lensOf_setOpt_ne codeKeepAlive c _ _ (fun e => h e.symm)]
        · simp [hc] at h
      · have hc' : hasCode codeKeepAlive ro.opts = false := by simpa using hc
        simp [hc']

end Agd.Normalize
