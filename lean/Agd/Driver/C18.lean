import Agd.Model.ConnLimit
import Agd.Driver.Util
/-! Line-protocol driver for the C18 model. -/
namespace Agd.Driver.C18
open Agd.ConnLimit Agd.Driver

structure S where
  v : Variant := repaired
  st : St := init 1 1
  ctr : Counter := { current := 0, stop := 1, resume := 1, accepting := true }
  pipe : Pipe := Pipe.init 1

def showOut : Out → String
  | .pending => "pending" | .wait => "wait" | .closed => "closed" | .conn k => s!"conn {k}"
  | .ok => "ok" | .errClosed => "errclosed" | .innerErr => "innererr" | .none => "none"

def showCtr (c : Counter) : String := s!"{c.current} {showB c.accepting}"

def showPipe (p : Pipe) : String :=
  s!"{p.running} {showB p.blocked} {p.queued} tok={p.tokens} dead={showB p.dead}"

def showListeners (s : St) (n : Nat) : String :=
  " ".intercalate ((List.range n).map fun l =>
    s!"L{l}:w={s.waitq.count l},k={s.woken.count l},p={s.pending.count l},c={showB (decide (l ∈ s.closed))}")

def showState (s : St) (n : Nat) : String :=
  s!"cur={s.c.current} acc={showB s.c.accepting} open={s.open_.length} " ++ showListeners s n

def protoOf : String → Proto
  | "dns" => .dns | "dnscrypt" => .dnscrypt | "https" => .doh | "quic" => .doq | _ => .dot

def showWiredCtr : Wired Counter → String
  | .rejected => "rejected" | .panic => "panic" | .off => "off"
  | .on k => s!"on {k.stop} {k.resume} {k.current} {showB k.accepting}"

def showWiredNat : Wired Nat → String
  | .rejected => "rejected" | .panic => "panic" | .off => "off" | .on n => s!"sema {n}"

def doOp (s : S) (op : Op) : S × String :=
  let r := step s.v s.st op
  ({ s with st := r.1 }, showOut r.2)

def step (s : S) : List String → S × String
  | ["new", w, cf, stop, resume] =>
    if nat! stop = 0 ∨ nat! resume > nat! stop then (s, "bad-config")
    else
      ({ s with v := { wake := if w == "s" then .signal else .broadcast, closedFirst := bool! cf },
                st := init (nat! stop) (nat! resume) }, "ok")
  | ["accept", l] => doOp s (.accept (nat! l))
  | ["recheck", l] => doOp s (.recheck (nat! l))
  | ["deliver", l] => doOp s (.deliver (nat! l))
  | ["fail", l] => doOp s (.fail (nat! l))
  | ["close", k] => doOp s (.close (nat! k) false)
  | ["closee", k] => doOp s (.close (nat! k) true)
  | ["lclose", l] => doOp s (.lclose (nat! l) false)
  | ["lclosee", l] => doOp s (.lclose (nat! l) true)
  | ["state", n] => (s, showState s.st (nat! n))
  | ["ctr", cur, stop, resume, acc] =>
    let c : Counter := { current := nat! cur, stop := nat! stop, resume := nat! resume,
                         accepting := bool! acc }
    ({ s with ctr := c }, showCtr c)
  | ["inc"] =>
    let r := s.ctr.increment
    ({ s with ctr := r.1 }, s!"{showB r.2} {showCtr r.1}")
  | ["dec"] =>
    let c := s.ctr.decrement
    ({ s with ctr := c }, showCtr c)
  | ["refill"] =>
    let c := s.ctr.refill (s.ctr.stop + 1)
    ({ s with ctr := c }, showCtr c)
  | ["pipe", n] => ({ s with pipe := Pipe.init (nat! n) }, showPipe (Pipe.init (nat! n)))
  | ["q"] => let p := s.pipe.step .query; ({ s with pipe := p }, showPipe p)
  | ["done"] => let p := s.pipe.step .done; ({ s with pipe := p }, showPipe p)
  | ["timeout"] => let p := s.pipe.step .timeout; ({ s with pipe := p }, showPipe p)
  | ["wconn", present, enabled, stop, resume, addrs] =>
    let c : Option ConnLimitYaml :=
      if bool! present then some { enabled := bool! enabled, stop := nat! stop, resume := nat! resume }
      else none
    (s, showWiredCtr (ConnLimitYaml.wire c (nat! addrs)))
  | ["wtcp", present, enabled, count, proto] =>
    let c : Option TcpYaml :=
      if bool! present then some { enabled := bool! enabled, count := nat! count } else none
    (s, showWiredNat ((protoOf proto).wireTcp c))
  | _ => (s, "bad-op")

def main : IO Unit := loop step {}

end Agd.Driver.C18
