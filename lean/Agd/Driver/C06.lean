import Agd.Model.Buffers
import Agd.Driver.Util
/-! Line-protocol driver for the C06 model (pooled receive buffers).

```
init <udp> <tcp> <doq> <upsudp> <upstcp>     -> ok
recv <path> <pick|-> <prehex|-> <wirehex|->  -> <buflen> <first 48 residue bytes hex|-> <outcome> <consumed>
old  <path> <pick|-> <prehex|-> <wirehex|->  -> same, with the pre-fix DoQ / upstream code
```
`outcome` is `reject:<why>` or `view:<hex|->`; `consumed` is the number of stream bytes taken (TCP). -/
namespace Agd.Driver.C06
open Agd.Buffers Agd.Driver

def hexVal (c : Char) : Nat :=
  if '0' ≤ c ∧ c ≤ '9' then c.toNat - '0'.toNat
  else if 'a' ≤ c ∧ c ≤ 'f' then c.toNat - 'a'.toNat + 10
  else if 'A' ≤ c ∧ c ≤ 'F' then c.toNat - 'A'.toNat + 10
  else 0

def unhexL : List Char → List UInt8 → List UInt8
  | a :: b :: r, acc => unhexL r (UInt8.ofNat (hexVal a * 16 + hexVal b) :: acc)
  | _, acc => acc.reverse

def unhex (s : String) : Bytes := if s == "-" then [] else unhexL s.toList []

def hexDigit (n : Nat) : Char := if n < 10 then Char.ofNat (48 + n) else Char.ofNat (87 + n)

def hex (b : Bytes) : String :=
  if b.isEmpty then "-"
  else String.ofList (b.foldr (fun x acc => hexDigit (x.toNat / 16) :: hexDigit (x.toNat % 16) :: acc) [])

def parsePath : String → Option Path
  | "udp" => some .udp | "tcp" => some .tcp | "doq" => some .doq
  | "upsudp" => some .upsUdp | "upstcp" => some .upsTcp | _ => none

def showWhy : Why → String
  | .short => "short" | .badsize => "badsize" | .readerr => "readerr"
  | .readfull => "readfull" | .oversize => "oversize"

def showOut : Outcome → String
  | .reject w => "reject:" ++ showWhy w
  | .view b => "view:" ++ hex b

def doRecv (old : Bool) (s : Server) (p : Path) (pick pre wire : String) : Server × String :=
  let op : Op := { path := p, pick := if pick == "-" then none else some (nat! pick),
                   pre := unhex pre, wire := unhex wire }
  let tb := takeBuf (s.cfg.size p) (s.free p) op.pick
  let seen := match p with
    | .upsUdp | .upsTcp => overwrite tb.1 op.pre
    | _ => tb.1
  let r := if old then stepOld s op else step s op
  let consumed := match p with
    | .tcp => (recvTCP tb.1 op.wire).2.2
    | _ => op.wire.length
  (r.1, s!"{seen.length} {hex (seen.take 48)} {showOut r.2} {consumed}")

def step (s : Server) : List String → Server × String
  | ["init", a, b, c, d, e] =>
    (Server.init { udp := nat! a, tcp := nat! b, doq := nat! c, upsUdp := nat! d, upsTcp := nat! e }, "ok")
  | ["recv", "doh", _, _, wire] =>
    (s, s!"0 - {showOut (recvDoH (unhex wire))} {(unhex wire).length}")
  | ["recv", path, pick, pre, wire] =>
    match parsePath path with
    | some p => doRecv false s p pick pre wire
    | none => (s, "bad-op")
  | ["old", path, pick, pre, wire] =>
    match parsePath path with
    | some p => doRecv true s p pick pre wire
    | none => (s, "bad-op")
  | _ => (s, "bad-op")

def main : IO Unit := loop step (Server.init Cfg.prod)

end Agd.Driver.C06
