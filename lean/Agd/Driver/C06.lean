import Agd.Model.Buffers
import Agd.Driver.Util
/-! Line-protocol driver for the C06 model (pooled receive buffers).

```
init <udp> <tcp> <doq> <upsudp> <upstcp>     -> ok
recv <path> <pick|-> <prehex|-> <wirehex|->  -> <buflen> <first 48 residue bytes hex|-> <outcome> <consumed>
old  <path> <pick|-> <prehex|-> <wirehex|->  -> same, with the pre-fix DoQ / upstream code
acc  <rid> <path> <bid> <prehex|-> <wirehex|-> -> <buflen> <first 48 residue bytes hex|-> <reject:<why>|pending|ignored>
srv  <rid>                                    -> <view:<hex|->|none>
pfx  <arrhex|-> <len> <msghex|->              -> <hex of the bytes packWithPrefix writes>
pudp <arrhex|-> <len> <msghex|->              -> <hex of the bytes the UDP writer writes>
preq <udp|tcp> <spare> <bufhex|-> <packedhex|-> -> err | <n> <hex of the buffer afterwards> (packReq; `oldpreq`: pre-fix)
retry <udp|tcp> <spare> <bufhex|-> <packedhex|-> <parthex|-> -> err | <first write hex> <second write hex>
wr   <path> <pick|-> <msghex|-> <fail 0|1>    -> <len of the writer's pooled slice> <hex of the bytes written> <put:<len>|drop>
```
`wr` is one response write under the production wiring (`realWiring`): Get from the writer's pool, pack,
re-slice, write, Put when the write failed (DoQ: always).  `recv` and `wr` share one state (`ServerW`).
`acc`/`srv` drive the concurrent system (`Sys`): buffers have identities, `acc` is Get + read + guards,
`srv` is the worker (Unpack of the recorded slice of the buffer as it is now, then Put).
`outcome` is `reject:<why>` or `view:<hex|->`; `consumed` is the number of stream bytes taken (TCP). -/
namespace Agd.Driver.C06
open Agd.Buffers Agd.Driver

def hexVal (c : Char) : Nat :=
  if '0' ≤ c ∧ c ≤ '9' then c.toNat - '0'.toNat
  else if 'a' ≤ c ∧ c ≤ 'f' then c.toNat - 'a'.toNat + 10
  else if 'A' ≤ c ∧ c ≤ 'F' then c.toNat - 'A'.toNat + 10
  else 0

def unhexL : List Char → List UInt8 → List UInt8
  | a :: b :: r, acc => unhexL r (UInt8.ofNat (hexVal a * 16 + hexVal b) :: acc)
  | _, acc => acc.reverse

def unhex (s : String) : Bytes := if s == "-" then [] else unhexL s.toList []

def hexDigit (n : Nat) : Char := if n < 10 then Char.ofNat (48 + n) else Char.ofNat (87 + n)

def hex (b : Bytes) : String :=
  if b.isEmpty then "-"
  else String.ofList (b.foldr (fun x acc => hexDigit (x.toNat / 16) :: hexDigit (x.toNat % 16) :: acc) [])

def parsePath : String → Option Path
  | "udp" => some .udp | "tcp" => some .tcp | "doq" => some .doq
  | "upsudp" => some .upsUdp | "upstcp" => some .upsTcp | "doh" => some .doh | _ => none

def showWhy : Why → String
  | .short => "short" | .badsize => "badsize" | .readerr => "readerr"
  | .readfull => "readfull" | .oversize => "oversize"

def showOut : Outcome → String
  | .reject w => "reject:" ++ showWhy w
  | .view b => "view:" ++ hex b

def doRecv (old : Bool) (sw : ServerW) (p : Path) (pick pre wire : String) : ServerW × String :=
  let s := sw.recvView
  let op : Op := { path := p, pick := if pick == "-" then none else some (nat! pick),
                   pre := unhex pre, wire := unhex wire }
  let tb := takeBuf (s.cfg.size p) (s.free p) op.pick
  let seen := match p with
    | .upsUdp | .upsTcp => overwrite tb.1 op.pre
    | _ => tb.1
  let r := if old then stepOld s op else step s op
  let consumed := match p with
    | .tcp => (recvTCP tb.1 op.wire).2.2
    | _ => op.wire.length
  (sw.withRecv r.1, s!"{seen.length} {hex (seen.take 48)} {showOut r.2} {consumed}")

def doWrite (sw : ServerW) (p : Path) (pick msg fail : String) : ServerW × String :=
  let x : Write := { path := p, pick := if pick == "-" then none else some (nat! pick),
                     msg := unhex msg, fail := fail == "1" }
  let seen := match realWiring p with
    | some pool => (takeBuf (sw.cfg.poolSize pool) (sw.free pool) x.pick).1.length
    | none => 0
  let r := writeW realWiring sw x
  let put := match realWiring p with
    | some _ => if writerPuts p x.fail then s!"put:{r.2.length}" else "drop"
    | none => "drop"
  (r.1, s!"{seen} {hex r.2} {put}")

structure St where
  srv : ServerW
  sys : Sys

def doAcc (y : Sys) (rid : Nat) (p : Path) (bid : Nat) (pre wire : Bytes) : Sys × String :=
  let seen := match p with
    | .upsUdp | .upsTcp => overwrite (y.heap p bid) pre
    | _ => y.heap p bid
  if (y.pend rid).isSome || (y.own p bid).isSome then (y, s!"{seen.length} {hex (seen.take 48)} ignored")
  else
    let r := y.accept rid p bid pre wire
    let out := match r.2 with
      | some o => showOut o
      | none => "pending"
    (r.1, s!"{seen.length} {hex (seen.take 48)} {out}")

def step (s : St) : List String → St × String
  | ["init", a, b, c, d, e] =>
    let cfg : Cfg := { udp := nat! a, tcp := nat! b, doq := nat! c, upsUdp := nat! d, upsTcp := nat! e }
    ({ srv := ServerW.init cfg, sys := Sys.init cfg }, "ok")
  | ["recv", "doh", _, _, wire] =>
    (s, s!"0 - {showOut (recvDoH (unhex wire))} {(unhex wire).length}")
  | ["recv", path, pick, pre, wire] =>
    match parsePath path with
    | some p => let r := doRecv false s.srv p pick pre wire; ({ s with srv := r.1 }, r.2)
    | none => (s, "bad-op")
  | ["old", path, pick, pre, wire] =>
    match parsePath path with
    | some p => let r := doRecv true s.srv p pick pre wire; ({ s with srv := r.1 }, r.2)
    | none => (s, "bad-op")
  | ["wr", path, pick, msg, fail] =>
    match parsePath path with
    | some p => let r := doWrite s.srv p pick msg fail; ({ s with srv := r.1 }, r.2)
    | none => (s, "bad-op")
  | ["acc", rid, path, bid, pre, wire] =>
    match parsePath path with
    | some p => let r := doAcc s.sys (nat! rid) p (nat! bid) (unhex pre) (unhex wire); ({ s with sys := r.1 }, r.2)
    | none => (s, "bad-op")
  | ["srv", rid] =>
    let r := s.sys.serve (nat! rid)
    ({ s with sys := r.1 }, match r.2 with | some o => showOut o | none => "none")
  | ["pfx", arr, len, msg] => (s, hex (packWithPrefix (unhex arr) (nat! len) (unhex msg)).1)
  | ["pudp", arr, len, msg] => (s, hex (packUDP (unhex arr) (nat! len) (unhex msg)).1)
  | ["preq", nw, spare, buf, packed] =>
    (s, match packReq (nat! spare) (nw == "tcp") (unhex buf) (unhex packed) with
      | none => "err" | some r => s!"{r.1} {hex r.2}")
  | ["oldpreq", nw, spare, buf, packed] =>
    (s, match packReqOld (nat! spare) (nw == "tcp") (unhex buf) (unhex packed) with
      | none => "err" | some r => s!"{r.1} {hex r.2}")
  | ["retry", nw, spare, buf, packed, part] =>
    (s, match retryWrites (nat! spare) (nw == "tcp") (unhex buf) (unhex packed) (unhex part) with
      | none => "err" | some w => s!"{hex w.1} {hex w.2}")
  | _ => (s, "bad-op")

def main : IO Unit := loop step { srv := ServerW.init Cfg.prod, sys := Sys.init Cfg.prod }

end Agd.Driver.C06
