import Agd.Model.Cache
import Agd.Driver.Util
/-!
Line-protocol driver for the C04 model.

```
cfg <s|e|o|k> <minTTL ns> <override>          reset; s = simple cache, e = ECS cache, o = simple cache before the TTL fix,
                                              k = simple cache before the key fix (entries keyed by the response)
q <now> <REQ> <scope> <fake> <MSG>            one request at time `now`; MSG = what the next handler answers,
                                              scope = ECS scope of that answer (simple cache: the class in the answer's
                                              question section, used by `k` only), fake = name in FakeECSFQDNs
qf <now> <REQ>                                the same request while the next handler fails (error, no
                                              message, unreadable ECS data): `H <MSG>` if served from cache, else `F`
glue <hasECS> <bits> <ecs6> <remote6> <ecsCtry> <connCtry>
                                              family, declined flag and country the ECS cache derives from the request info
wire <simple> <size> <ecsSize> <min ns> <enabled>
                                              which cache the configuration builds (0 none, 1 simple, 2 ECS), MinTTL, override
fwd <REQ>                                     ECS cache: what is forwarded on a miss: DO bit, family, subnet id
evict <REQ>                                   capacity eviction of the entries the request could hit
low <MSG>                                     findLowestTTL
cacheable <qtype> <MSG>                       isCacheable
ttl <s|e|o> <lowest> <age ns>                 TTL of a served item
rmhop <qtype> <do> <MSG>                      rmHopToHopData
keyeq <s|n|d> <REQ> <REQ>                     do two requests map to the same cache key
REQ = name qtype qclass do ad rd cd fam6 declined subnet edns
MSG = rcode tc aa ad ra rd cd nq nAnswer nNs nExtra (typ ttl soaMin data)*
```
-/
namespace Agd.Driver.C04
open Agd.Cache Agd.Driver

structure S where
  kind : String := "s"
  cfg : Cfg := { minTTL := 0, override := false }
  store : Store := Store.empty

def parseRRs : Nat → List String → List RR × List String
  | 0, ts => ([], ts)
  | n + 1, a :: b :: c :: d :: ts =>
    let p := parseRRs n ts
    ({ typ := nat! a, ttl := nat! b, soaMin := nat! c, data := nat! d } :: p.1, p.2)
  | _ + 1, _ => ([], [])

def parseMsg : List String → Option Msg
  | rc :: tc :: aa :: ad :: ra :: rd :: cd :: nq :: na :: nn :: ne :: ts =>
    let a := parseRRs (nat! na) ts
    let n := parseRRs (nat! nn) a.2
    let e := parseRRs (nat! ne) n.2
    some { rcode := nat! rc, tc := bool! tc, aa := bool! aa, ad := bool! ad, ra := bool! ra,
           rd := bool! rd, cd := bool! cd, nq := nat! nq, answer := a.1, ns := n.1, extra := e.1 }
  | _ => none

def parseReq : List String → Option (Req × List String)
  | name :: qt :: qc :: d :: ad :: rd :: cd :: f6 :: decl :: sub :: ed :: ts =>
    some ({ name := name, qtype := nat! qt, qclass := nat! qc, do_ := bool! d, ad := bool! ad,
            rd := bool! rd, cd := bool! cd, fam6 := bool! f6, declined := bool! decl,
            subnet := nat! sub, edns := bool! ed }, ts)
  | _ => none

def showRR (r : RR) : String := s!"{r.typ}:{r.ttl}:{r.soaMin}:{r.data}"

def showRRs (rs : List RR) : String :=
  ",".intercalate ((rs.filter (fun r => r.typ ≠ typOPT)).map showRR)

def showMsg (m : Msg) : String :=
  s!"{m.rcode} {showB m.tc}{showB m.aa}{showB m.ad}{showB m.ra}{showB m.rd}{showB m.cd} " ++
  s!"[{showRRs m.answer}] [{showRRs m.ns}] [{showRRs m.extra}]"

def showOut (o : Out) : String := (if o.hit then "H " else "M ") ++ showMsg o.resp

def ttlFn : String → Nat → Nat → Nat
  | "e" => ecsTTL
  | "o" => simpleTTLOrig
  | _ => simpleTTL

def step (s : S) : List String → S × String
  | ["cfg", kind, minTTL, ov] =>
    ({ kind := kind, cfg := { minTTL := nat! minTTL, override := bool! ov }, store := Store.empty }, "ok")
  | "q" :: now :: rest =>
    match parseReq rest with
    | some (r, scope :: fake :: ms) =>
      match parseMsg ms with
      | some a =>
        let o := if s.kind == "e" then Ecs.step s.cfg s.store (nat! now) r a (Ecs.respDep (nat! scope) (bool! fake))
                 else if s.kind == "k" then Simple.stepOldKey s.cfg s.store (nat! now) r a (nat! scope)
                 else Simple.stepWith (ttlFn s.kind) s.cfg s.store (nat! now) r a
        ({ s with store := o.store }, showOut o)
      | none => (s, "bad-op")
    | _ => (s, "bad-op")
  | "qf" :: now :: rest =>
    match parseReq rest with
    | some (r, _) =>
      let o := if s.kind == "e" then Ecs.stepFault s.store (nat! now) r
               else Simple.stepFault (ttlFn s.kind) s.store (nat! now) r
      match o.2 with
      | some m => ({ s with store := o.1 }, "H " ++ showMsg m)
      | none => ({ s with store := o.1 }, "F")
    | none => (s, "bad-op")
  | ["glue", he, bits, e6, r6, ec, cc] =>
    let ri : RI := { hasECS := bool! he, ecsBits := nat! bits, ecsFam6 := bool! e6, remoteFam6 := bool! r6,
                     ecsCtry := nat! ec, connCtry := nat! cc }
    (s, s!"{showB (Ecs.famOf ri)} {showB (Ecs.declinedOf ri)} {Ecs.ctryOf ri}")
  | ["wire", ts, size, es, mn, en] =>
    let y : Yaml := { typeSimple := bool! ts, size := nat! size, ecsSize := nat! es, min := nat! mn, enabled := bool! en }
    (s, s!"{y.kind} {y.cfg.minTTL} {showB y.cfg.override}")
  | "evict" :: rest =>
    match parseReq rest with
    | some (r, _) =>
      let st := if s.kind == "e" then (s.store.del (Ecs.keyNo r)).del (Ecs.keyDep r)
                else s.store.del (Simple.keyOfReq r)
      ({ s with store := st }, "ok")
    | none => (s, "bad-op")
  | "fwd" :: rest =>
    match parseReq rest with
    | some (r, _) => (s, s!"{showB (Ecs.fwdDO r)} {showB r.fam6} {Ecs.effSubnet r}")
    | none => (s, "bad-op")
  | "low" :: ms =>
    match parseMsg ms with
    | some m => (s, toString (findLowestTTL m))
    | none => (s, "bad-op")
  | "cacheable" :: qt :: ms =>
    match parseMsg ms with
    | some m => (s, showB (isCacheable (nat! qt) m))
    | none => (s, "bad-op")
  | ["ttl", k, low, age] => (s, toString (ttlFn k (nat! low) (nat! age)))
  | "rmhop" :: qt :: d :: ms =>
    match parseMsg ms with
    | some m =>
      let f := Ecs.rmHop m (nat! qt) (bool! d)
      (s, s!"{f.answer.length} {f.ns.length} {f.extra.length} " ++ showMsg f)
    | none => (s, "bad-op")
  | "keyeq" :: k :: rest =>
    match parseReq rest with
    | some (r1, rest2) =>
      match parseReq rest2 with
      | some (r2, _) =>
        let b := if k == "n" then decide (Ecs.keyNo r1 = Ecs.keyNo r2)
                 else if k == "d" then decide (Ecs.keyDep r1 = Ecs.keyDep r2)
                 else decide (Simple.keyOfReq r1 = Simple.keyOfReq r2)
        (s, showB b)
      | none => (s, "bad-op")
    | none => (s, "bad-op")
  | _ => (s, "bad-op")

def main : IO Unit := loop step {}

end Agd.Driver.C04
