import Agd.Model.Serve
import Agd.Driver.Util
/-!
Line-protocol driver for the C01 model.

```
serve <transport> <wok> <hdrhex|-> <unpacked> <id> <qr> <opcode> <rd> <cd> <nAn> <nNs> <edns> <ka>
      <outcome…> q <nq> {<namehex> <qtype> <qclass>}
  outcome: silent | wrote <rcode> <n> | failed <ne> | wrotefailed <rcode> <n> <ne>
  → <status> <hid|-> <k> {| id opcode rcode rd cd nq {namehex qtype qclass} nans ede} d<disposals>
accept <qr> <opcode> <nq> <nAn> <nNs>            → ignore|notimp|formerr|accept
json <id> <nameBad> <namehex> <type> <qc> <cd> <do> <sde> <outcome…>
  type/qc: - | <n> | bad ; cd/do/sde: - | 0 | 1 | bad
  → <status> <k> {| status rd cd nq {namehex qtype} nans} d<disposals>
quic <orig:0/1> <poolhex|-> <streamhex|->        → none | <payloadhex>
```
-/
namespace Agd.Driver.C01
open Agd.Serve Agd.Driver

def hexVal (c : Char) : Nat :=
  if '0' ≤ c ∧ c ≤ '9' then c.toNat - '0'.toNat
  else if 'a' ≤ c ∧ c ≤ 'f' then c.toNat - 'a'.toNat + 10
  else 0

def hexBytes (s : String) : List Nat :=
  let rec go : List Char → List Nat
    | a :: b :: r => (hexVal a * 16 + hexVal b) :: go r
    | _ => []
  if s == "-" then [] else go s.toList

def hexDigit (n : Nat) : Char :=
  if n < 10 then Char.ofNat ('0'.toNat + n) else Char.ofNat ('a'.toNat + n - 10)

def toHex (bs : List Nat) : String :=
  if bs.isEmpty then "-" else String.ofList (bs.flatMap fun b => [hexDigit (b / 16 % 16), hexDigit (b % 16)])

/-- Names travel as hex of their UTF-8 bytes; the model treats them as opaque tokens. -/
def parseQs : Nat → List String → List Question
  | 0, _ => []
  | n + 1, nm :: qt :: qc :: r => { name := nm, qtype := nat! qt, qclass := nat! qc } :: parseQs n r
  | _, _ => []

def parseTransport : String → Option Transport
  | "udp" => some .udp | "tcp" => some .tcp | "dot" => some .dot | "dohpost" => some .dohPost
  | "dohget" => some .dohGet | "dohjson" => some .dohJSON | "doq" => some .doq
  | "dcudp" => some .dnscryptUDP | "dctcp" => some .dnscryptTCP | _ => none

/-- Parses an outcome, returns it with the remaining tokens. -/
def parseOutcome (m : Msg) : List String → Option (Outcome × List String)
  | "silent" :: r => some (.silent, r)
  | "wrote" :: rc :: n :: r => some (.wrote (handlerResp m (nat! rc) (nat! n)), r)
  | "failed" :: ne :: r => some (.failed (bool! ne), r)
  | "wrotefailed" :: rc :: n :: ne :: r => some (.wroteFailed (handlerResp m (nat! rc) (nat! n)) (bool! ne), r)
  | _ => none

def outcomeLen : List String → Nat
  | "silent" :: _ => 1 | "wrote" :: _ => 3 | "failed" :: _ => 2 | "wrotefailed" :: _ => 4 | _ => 0

def showQ (q : Question) : String := s!"{q.name} {q.qtype} {q.qclass}"

def showResp (r : Resp) : String :=
  let qs := " ".intercalate (r.questions.map showQ)
  let ede := match r.ede with | none => "-" | some e => toString e
  s!"| {r.id} {r.opcode} {r.rcode} {showB r.rd} {showB r.cd} {r.questions.length} {qs} {r.answers.length} {ede}"

def showSees (s : Sees) (hid : String) : String :=
  s!"{s.status} {hid} {s.msgs.length} " ++ " ".intercalate (s.msgs.map showResp)

def showAction : Action → String
  | .ignore => "ignore" | .notimp => "notimp" | .formerr => "formerr" | .accept => "accept"

def numParam : String → NumParam
  | "-" => .absent | "bad" => .bad | s => .num (nat! s)

def boolParam : String → BoolParam
  | "-" => .absent | "bad" => .bad | s => .val (bool! s)

def showJV (v : JSONView) : String :=
  let qs := " ".intercalate (v.questions.map fun q => s!"{q.1} {q.2}")
  s!"| {v.status} {showB v.rd} {showB v.cd} {v.questions.length} {qs} {v.answers.length}"

/-- What a concurrent request writes into an object it takes from the pools. -/
def foreignResp (k : Nat) : Resp :=
  { id := 57005 + k, opcode := 0, rcode := 0, rd := true, cd := false,
    questions := [{ name := "concurrent", qtype := 1, qclass := 1 }], answers := [0], ede := none }

def step (s : Unit) : List String → Unit × String
  | "serve" :: t :: wok :: hdr :: unp :: id :: qr :: op :: rd :: cd :: nan :: nns :: edns :: ka :: rest =>
    match parseTransport t with
    | none => (s, "bad-op")
    | some tr =>
      let k := outcomeLen rest
      match rest.drop k with
      | "q" :: nq :: qtoks =>
        let m : Msg := { id := nat! id, qr := bool! qr, opcode := nat! op, rd := bool! rd, cd := bool! cd,
                         questions := parseQs (nat! nq) qtoks, nAn := nat! nan, nNs := nat! nns,
                         edns := bool! edns, keepalive := bool! ka }
        match parseOutcome m rest with
        | none => (s, "bad-op")
        | some (o, _) =>
          let hid := match parseHdr (hexBytes hdr) with
            | none => "-"
            | some h => s!"{h.id}:{showB h.qr}:{h.opcode}:{showB h.rd}:{showB h.cd}:{h.qd}:{h.an}:{h.ns}"
          let um := if bool! unp then some m else none
          -- what the client sees with the Disposer's pools shared with concurrent requests
          let sees := match um with
            | none => dropped tr
            | some m => serveMsgShared disposeKinds tr m o (bool! wok) foreignResp
          (s, showSees sees hid ++ s!" d{disposeCount disposeKinds tr um o}")
      | _ => (s, "bad-op")
  | ["accept", qr, op, nq, nan, nns] =>
    let m : Msg := { id := 0, qr := bool! qr, opcode := nat! op, rd := false, cd := false,
                     questions := List.replicate (nat! nq) { name := "", qtype := 1, qclass := 1 },
                     nAn := nat! nan, nNs := nat! nns, edns := false, keepalive := false }
    (s, showAction (acceptMsg m))
  | "json" :: id :: nameBad :: name :: qt :: qc :: cd :: d :: sde :: rest =>
    let j : JSONReq := { name := name, nameEmpty := bool! nameBad, qtype := numParam qt, qclass := numParam qc,
                         cd := boolParam cd, do_ := boolParam d, sde := boolParam sde }
    let m0 := (jsonToMsg j (nat! id)).getD
      { id := 0, qr := false, opcode := 0, rd := false, cd := false, questions := [], nAn := 0, nNs := 0,
        edns := false, keepalive := false }
    match parseOutcome m0 rest with
    | none => (s, "bad-op")
    | some (o, _) =>
      let r := serveJSON j (nat! id) o
      (s, s!"{r.1} {r.2.length} " ++ " ".intercalate (r.2.map showJV)
          ++ s!" d{disposeCount disposeKinds .dohJSON (jsonToMsg j (nat! id)) o}")
  | ["quic", orig, pool, stream] =>
    let f := if bool! orig then quicPayloadOrig else quicPayload
    (s, match f (hexBytes pool) (hexBytes stream) with | none => "none" | some p => toHex p)
  | _ => (s, "bad-op")

def main : IO Unit := loop step ()

end Agd.Driver.C01
