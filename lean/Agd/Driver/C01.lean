import Agd.Model.Serve
import Agd.Driver.Util
/-!
Line-protocol driver for the C01 model.

```
serve <transport> <wok> <wirehex|-> <unpacked> <id> <qr> <opcode> <rd> <cd> <nAn> <nNs> <edns> <ka>
      <outcome…> q <nq> {<namehex> <qtype> <qclass>}
  wirehex: the whole message as the client sent it; unpacked…: what `Unpack` made of the bytes the
  transport hands it (the model decides itself whether the bytes get that far)
  outcome: silent | wrote <rcode> <n> | failed <ne> | wrotefailed <rcode> <n> <ne>
  → <status> <hid|-> <qparse> w<contract> <k> {| id opcode rcode rd cd nq {namehex qtype qclass} nans ede} d<disposals> f<fin>
  qparse: - | ptr | bad | ok:<namehex>:<qtype>:<qclass>   (the model's own parse of the first question)
conn <transport> <wok> {; <wirehex> <unpacked> … q <nq> {…}}      one TCP/DoT connection, frames in order
  → <n> {/ <status> <k> {| resp}}
udploop <swallowShort> <wok> {; crit | ; soft | ; <wirehex> <unpacked> … q <nq> {…}}
  → <alive> <n> {/ <status> <k> {| resp}}
accept <qr> <opcode> <nq> <nAn> <nNs>            → ignore|notimp|formerr|accept
json <ct> <id> <nameBad> <namehex> <type> <qc> <cd> <do> <sde> <outcome…>
  type/qc: - | <n> | bad ; cd/do/sde: - | 0 | 1 | bad ; ct = 1: answer in wire format
  → <status> <k> {| status rd cd nq {namehex qtype} nans} d<disposals>          (ct = 0)
  → <status> <k> {| id opcode rcode rd cd nq {namehex qtype qclass} nans ede} d<disposals>   (ct = 1)
quic <orig:0/1> <poolhex|-> <streamhex|->        → none | <payloadhex>
doh <zoneAware> <pathhex> <METHOD> <zoned> <ndns> {bad|<hex|->} ; <wirehex> <unpacked> … q <nq> {…}
  one HTTP request on the wire-format side (wirehex: the body; unpacked…: Unpack of the octets the front end hands on)
  → <status> <k> {| resp}
jsonreq <zoneAware> <pathhex> <zoned> <id> <nameBad> <namehex> <type> <qc> <cd> <do> <sde> <outcome…>  → <status> <k> {| jsonview}
dce2e <dcudp|dctcp> <wirehex> <unpacked> … q <nq> {…}     a decrypted DNSCrypt message, library filter included
  → <status> <k> {| resp}
fault <dcRecovers> <transport> <wok> <-|rcode:n> <wirehex> <unpacked> … q <nq> {…}    the handler panics (after writing, if rcode:n)
  → <up> <status> <k> {| resp} f<fin>
life <reboot> <pooled> {s|x|a}      Start / Shutdown / an arrival on one listener → {ok|already|notstarted|hung|served|unanswered|refused}
clife <waitFirst> {r<id>|d<id>|f<id>|e}   one TCP/DoT connection with real pipelining: frame read (r: will be answered, d: will be dropped),
      worker of the frame finishes, read loop ends → {w<id>|l<id>|c} | reading=<b> inflight=<n> closes=<n>
quicread <poolhex|-> {; <datahex|-> <nil|eof|other>}     the results of the successive stream.Read calls
  → none | <payloadhex>                          (readQUICMsg with the real buffer size on that script)
```
-/
namespace Agd.Driver.C01
open Agd.Serve Agd.Driver

def hexVal (c : Char) : Nat :=
  if '0' ≤ c ∧ c ≤ '9' then c.toNat - '0'.toNat
  else if 'a' ≤ c ∧ c ≤ 'f' then c.toNat - 'a'.toNat + 10
  else 0

/-- Tail recursive: a DoQ stream that fills the 64 KiB read buffer is 131070 hex digits. -/
def hexBytes (s : String) : List Nat :=
  let rec go : List Char → List Nat → List Nat
    | a :: b :: r, acc => go r ((hexVal a * 16 + hexVal b) :: acc)
    | _, acc => acc.reverse
  if s == "-" then [] else go s.toList []

def toHex (bs : List Nat) : String :=
  if bs.isEmpty then "-" else
    String.ofList (bs.foldl (fun acc b => hexDigit (b % 16) :: hexDigit (b / 16 % 16) :: acc) []).reverse

/-- Names travel as hex of their UTF-8 bytes; the model treats them as opaque tokens. -/
def parseQs : Nat → List String → List Question
  | 0, _ => []
  | n + 1, nm :: qt :: qc :: r => { name := nm, qtype := nat! qt, qclass := nat! qc } :: parseQs n r
  | _, _ => []

def parseTransport : String → Option Transport
  | "udp" => some .udp | "tcp" => some .tcp | "dot" => some .dot | "dohpost" => some .dohPost
  | "dohget" => some .dohGet | "dohjson" => some .dohJSON | "doq" => some .doq
  | "dcudp" => some .dnscryptUDP | "dctcp" => some .dnscryptTCP | _ => none

/-- Parses an outcome, returns it with the remaining tokens. -/
def parseOutcome (m : Msg) : List String → Option (Outcome × List String)
  | "silent" :: r => some (.silent, r)
  | "wrote" :: rc :: n :: r => some (.wrote (handlerResp m (nat! rc) (nat! n)), r)
  | "failed" :: ne :: r => some (.failed (bool! ne), r)
  | "wrotefailed" :: rc :: n :: ne :: r => some (.wroteFailed (handlerResp m (nat! rc) (nat! n)) (bool! ne), r)
  | _ => none

def outcomeLen : List String → Nat
  | "silent" :: _ => 1 | "wrote" :: _ => 3 | "failed" :: _ => 2 | "wrotefailed" :: _ => 4 | _ => 0

def showQ (q : Question) : String := s!"{q.name} {q.qtype} {q.qclass}"

def showResp (r : Resp) : String :=
  let qs := " ".intercalate (r.questions.map showQ)
  let ede := match r.ede with | none => "-" | some e => toString e
  s!"| {r.id} {r.opcode} {r.rcode} {showB r.rd} {showB r.cd} {r.questions.length} {qs} {r.answers.length} {ede}"

def showSees (s : Sees) (hid : String) : String :=
  s!"{s.status} {hid} {s.msgs.length} " ++ " ".intercalate (s.msgs.map showResp)

def showAction : Action → String
  | .ignore => "ignore" | .notimp => "notimp" | .formerr => "formerr" | .accept => "accept"

def numParam : String → NumParam
  | "-" => .absent | "bad" => .bad | s => .num (nat! s)

def boolParam : String → BoolParam
  | "-" => .absent | "bad" => .bad | s => .val (bool! s)

def showJV (v : JSONView) : String :=
  let qs := " ".intercalate (v.questions.map fun q => s!"{q.1} {q.2}")
  s!"| {v.status} {showB v.rd} {showB v.cd} {v.questions.length} {qs} {v.answers.length}"

/-- What a concurrent request writes into an object it takes from the pools. -/
def foreignResp (k : Nat) : Resp :=
  { id := 57005 + k, opcode := 0, rcode := 0, rd := true, cd := false,
    questions := [{ name := "concurrent", qtype := 1, qclass := 1 }], answers := [0], ede := none }

/-- A parsed "message as unpacked + outcome" group:
`<wirehex> <unp> <id> <qr> <op> <rd> <cd> <nan> <nns> <edns> <ka> <outcome…> q <nq> {…}`. -/
structure Frame where
  bytes : List Nat
  um : Option Msg
  o : Outcome

def parseFrame : List String → Option Frame
  | wire :: unp :: id :: qr :: op :: rd :: cd :: nan :: nns :: edns :: ka :: rest =>
    let k := outcomeLen rest
    match rest.drop k with
    | "q" :: nq :: qtoks =>
      let m : Msg := { id := nat! id, qr := bool! qr, opcode := nat! op, rd := bool! rd, cd := bool! cd,
                       questions := parseQs (nat! nq) qtoks, nAn := nat! nan, nNs := nat! nns,
                       edns := bool! edns, keepalive := bool! ka }
      match parseOutcome m rest with
      | none => none
      | some (o, _) => some { bytes := hexBytes wire, um := if bool! unp then some m else none, o := o }
    | _ => none
  | _ => none

/-- Splits a token list at every ";" (the first group is what precedes the first ";"). -/
def splitSemi (ts : List String) : List (List String) :=
  let r := ts.foldl (fun (acc : List (List String) × List String) t =>
    if t == ";" then (acc.1 ++ [acc.2], []) else (acc.1, acc.2 ++ [t])) ([], [])
  r.1 ++ [r.2]

def showQParse (b : List Nat) : String :=
  match parseHdr b with
  | none => "-"
  | some h =>
    if b.length ≤ 12 || h.qd == 0 then "-"
    else match parseQuestion (b.drop 12) with
      | .ok q => s!"ok:{q.name}:{q.qtype}:{q.qclass}"
      | .ptr => "ptr"
      | .bad => "bad"

def showSeesShort (s : Sees) : String :=
  s!"/ {s.status} {s.msgs.length} " ++ " ".intercalate (s.msgs.map showResp)

def step (s : Unit) : List String → Unit × String
  | "serve" :: t :: wok :: rest =>
    match parseTransport t, parseFrame rest with
    | some tr, some f =>
      let ubo := unpackInput tr [] f.bytes
      let ub := ubo.getD []
      let hid := match parseHdr ub with
        | none => "-"
        | some h => s!"{h.id}:{showB h.qr}:{h.opcode}:{showB h.rd}:{showB h.cd}:{h.qd}:{h.an}:{h.ns}"
      -- what `Unpack` returned, if the bytes got that far
      let um' := if ubo.isSome then f.um else none
      let wa := match um' with | none => true | some m => wireAgreesB ub m
      -- end to end from the bytes; the Disposer's pools are shared with concurrent requests
      let sees := match um' with
        | some m => serveMsgShared disposeKinds tr m f.o (bool! wok) foreignResp
        | none => serveBytes tr [] f.bytes (fun _ => none) f.o (bool! wok)
      (s, s!"{sees.status} {hid} {showQParse ub} w{showB wa} {sees.msgs.length} "
          ++ " ".intercalate (sees.msgs.map showResp)
          ++ s!" d{disposeCount disposeKinds tr um' f.o} f{showB sees.fin}")
    | _, _ => (s, "bad-op")
  | "conn" :: t :: wok :: rest =>
    match parseTransport t with
    | none => (s, "bad-op")
    | some tr =>
      let groups := (splitSemi rest).drop 1
      let frames := groups.filterMap parseFrame
      if frames.length != groups.length then (s, "bad-op") else
      let unpack : List Nat → Option Msg := fun b => (frames.find? (·.bytes == b)).bind (·.um)
      let out := serveConn tr unpack (bool! wok) (frames.map fun f => (f.bytes, f.o))
      (s, s!"{out.length} " ++ " ".intercalate (out.map showSeesShort))
  | "udploop" :: sw :: wok :: rest =>
    let groups := (splitSemi rest).drop 1
    let items : List (Option (UdpRead × Option Frame)) := groups.map fun g =>
      match g with
      | ["crit"] => some (.critErr, none)
      | ["soft"] => some (.softErr, none)
      | g => (parseFrame g).map fun f => (.dgram f.bytes, some f)
    if items.any (·.isNone) then (s, "bad-op") else
    let its := items.filterMap id
    let frames := its.filterMap (·.2)
    let lookup : List Nat → Option Frame := fun b => frames.find? (fun f => f.bytes.take udpBufSize == b)
    let unpack : List Nat → Option Msg := fun b => (lookup b).bind (·.um)
    -- the handler's outcome is scripted per datagram: find it by the message's bytes
    let out := its.foldl (fun (acc : List Sees × Bool) it =>
      if !acc.2 then acc else
      let r := udpLoop (bool! sw) unpack (fun _ => match it.2 with | some f => f.o | none => .silent) (bool! wok) [it.1]
      (acc.1 ++ r.1, r.2)) ([], true)
    (s, s!"{showB out.2} {out.1.length} " ++ " ".intercalate (out.1.map showSeesShort))
  | ["accept", qr, op, nq, nan, nns] =>
    let m : Msg := { id := 0, qr := bool! qr, opcode := nat! op, rd := false, cd := false,
                     questions := List.replicate (nat! nq) { name := "", qtype := 1, qclass := 1 },
                     nAn := nat! nan, nNs := nat! nns, edns := false, keepalive := false }
    (s, showAction (acceptMsg m))
  | "json" :: ct :: id :: nameBad :: name :: qt :: qc :: cd :: d :: sde :: rest =>
    let j : JSONReq := { name := name, nameEmpty := bool! nameBad, qtype := numParam qt, qclass := numParam qc,
                         cd := boolParam cd, do_ := boolParam d, sde := boolParam sde }
    let m0 := (jsonToMsg j (nat! id)).getD
      { id := 0, qr := false, opcode := 0, rd := false, cd := false, questions := [], nAn := 0, nNs := 0,
        edns := false, keepalive := false }
    match parseOutcome m0 rest with
    | none => (s, "bad-op")
    | some (o, _) =>
      let disp := s!" d{disposeCount disposeKinds .dohJSON (jsonToMsg j (nat! id)) o}"
      if bool! ct then
        let r := match jsonToMsg j (nat! id) with
          | none => serveJSONWire j (nat! id) o
          | some m => serveMsgShared disposeKinds .dohJSON m o true foreignResp
        (s, s!"{r.status} {r.msgs.length} " ++ " ".intercalate (r.msgs.map showResp) ++ disp)
      else
        let r := serveJSON j (nat! id) o
        (s, s!"{r.1} {r.2.length} " ++ " ".intercalate (r.2.map showJV) ++ disp)
  | ["quic", orig, pool, stream] =>
    let f := if bool! orig then quicPayloadOrig else quicPayload
    (s, match f (hexBytes pool) (hexBytes stream) with | none => "none" | some p => toHex p)
  | "quicread" :: pool :: rest =>
    let groups := (splitSemi rest).drop 1
    let reads : List QRead := groups.filterMap fun g =>
      match g with
      | [d, e] => some { data := hexBytes d, err := if e == "eof" then some .eof else if e == "other" then some .other else none }
      | _ => none
    if reads.length != groups.length then (s, "bad-op") else
    (s, match quicRead quicBufSize (hexBytes pool) reads with | none => "none" | some p => toHex p)
  | "doh" :: za :: path :: meth :: zoned :: ndns :: rest =>
    -- doh <zoneAware> <pathhex> <GET|POST|…> <zoned> <ndns> {bad|<hex|->} ; <frame: the octets that reach Unpack>
    let n := nat! ndns
    let dnsToks := rest.take n
    match (splitSemi (rest.drop n)).drop 1 with
    | [g] =>
      match parseFrame g with
      | none => (s, "bad-op")
      | some f =>
        let parts := (String.ofList ((hexBytes path).map fun b => Char.ofNat b)).splitOn "/"
        let m : Method := if meth == "GET" then .get else if meth == "POST" then .post else .other
        let dns := dnsToks.map fun t => if t == "bad" then none else some (hexBytes t)
        let r : DohReq := { parts := parts, meth := m, dns := dns, body := f.bytes,
                            raddr := { v6 := bool! zoned, zone := if bool! zoned then some "eth0" else none } }
        let sees := serveDoHReq (bool! za) r (fun _ => f.um) f.o
        (s, s!"{sees.status} {sees.msgs.length} " ++ " ".intercalate (sees.msgs.map showResp))
    | _ => (s, "bad-op")
  | "jsonreq" :: za :: path :: zoned :: id :: nameBad :: name :: qt :: qc :: cd :: d :: sde :: rest =>
    let j : JSONReq := { name := name, nameEmpty := bool! nameBad, qtype := numParam qt, qclass := numParam qc,
                         cd := boolParam cd, do_ := boolParam d, sde := boolParam sde }
    let m0 := (jsonToMsg j (nat! id)).getD
      { id := 0, qr := false, opcode := 0, rd := false, cd := false, questions := [], nAn := 0, nNs := 0,
        edns := false, keepalive := false }
    match parseOutcome m0 rest with
    | none => (s, "bad-op")
    | some (o, _) =>
      let parts := (String.ofList ((hexBytes path).map fun b => Char.ofNat b)).splitOn "/"
      let a : RAddr := { v6 := bool! zoned, zone := if bool! zoned then some "eth0" else none }
      let r := serveJSONReq (bool! za) parts a j (nat! id) o
      (s, s!"{r.1} {r.2.length} " ++ " ".intercalate (r.2.map showJV))
  | "dce2e" :: t :: rest =>
    match parseTransport t, parseFrame rest with
    | some tr, some f =>
      let sees := serveDNSCryptE2E tr f.um f.o
      (s, s!"{sees.status} {sees.msgs.length} " ++ " ".intercalate (sees.msgs.map showResp))
    | _, _ => (s, "bad-op")
  | "fault" :: dc :: t :: wok :: pw :: rest =>
    -- fault <dcRecovers> <transport> <wok> <-|rcode:n> <frame>: the handler panics (after writing rcode/n records, if given)
    match parseTransport t, parseFrame rest with
    | some tr, some f =>
      (match f.um with
      | none => let d := serveWire tr none .silent (bool! wok)
                (s, s!"1 {d.status} 0  f{showB d.fin}")
      | some m =>
        let w : Option Resp := match pw.splitOn ":" with
          | [rc, n] => some (handlerResp m (nat! rc) (nat! n))
          | _ => none
        let r := serveMsgF (bool! dc) tr m (.panics w) (bool! wok)
        (s, s!"{showB r.up} {r.sees.status} {r.sees.msgs.length} " ++ " ".intercalate (r.sees.msgs.map showResp)
            ++ s!" f{showB r.sees.fin}"))
    | _, _ => (s, "bad-op")
  | "life" :: reboot :: pooled :: ops =>
    let parsed : List (Option LOp) := ops.map fun o =>
      if o == "s" then some .start else if o == "x" then some .shutdown else if o == "a" then some .arrive else none
    if parsed.any (·.isNone) then (s, "bad-op") else
    let obs := (lRun (bool! reboot) (bool! pooled) lInit (parsed.filterMap id)).2
    let showO : LObs → String
      | .ok => "ok" | .errAlreadyStarted => "already" | .errNotStarted => "notstarted" | .hung => "hung"
      | .served => "served" | .unanswered => "unanswered" | .refused => "refused"
    (s, " ".intercalate (obs.map showO))
  | "clife" :: wf :: evs =>
    -- clife <waitFirst> {r<id> | d<id> | f<id> | e}: one TCP/DoT connection under a schedule
    let parsed : List (Option CEv) := evs.map fun e =>
      if e == "e" then some .endRead
      else match e.toList with
        | 'r' :: ds => some (.recv (nat! (String.ofList ds)) false)
        | 'd' :: ds => some (.recv (nat! (String.ofList ds)) true)
        | 'f' :: ds => some (.finish (nat! (String.ofList ds)))
        | _ => none
    if parsed.any (·.isNone) then (s, "bad-op") else
    let st := cRun (bool! wf) cInit (parsed.filterMap id)
    let showO : CObs → String
      | .wrote i => s!"w{i}" | .lost i => s!"l{i}" | .closed => "c"
    (s, (if st.log.isEmpty then "-" else " ".intercalate (st.log.map showO)) ++
        s!" | reading={showB st.reading} inflight={st.inflight.length + st.dropping.length} closes={st.closes}")
  | _ => (s, "bad-op")

def main : IO Unit := loop step ()

end Agd.Driver.C01
