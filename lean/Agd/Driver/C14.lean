import Agd.Model.ProfileDB
import Agd.Model.ProfileCache
import Agd.Driver.Util
/-! Line-protocol driver for the C14 model (profile database + file cache). -/
namespace Agd.Driver.C14
open Agd.ProfileDB Agd.Driver

def showRes : Res → String
  | .ok p d => s!"ok {p.id} {p.tag} {d.id} {d.tag}"
  | .devNF => "nf"
  | .profNF => "pnf"

/-- `n` numbers from the token list. -/
def takeNats (n : Nat) (ts : List String) : List Nat × List String :=
  ((ts.take n).map nat!, ts.drop n)

/-- Profile groups: `pid auto deleted tag n id₁ … idₙ`. -/
def parseProfiles : Nat → List String → List Profile × List String
  | 0, ts => ([], ts)
  | n + 1, pid :: auto :: del :: tag :: k :: ts =>
    let ids := takeNats (nat! k) ts
    let r := parseProfiles n ids.2
    ({ id := nat! pid, devIds := ids.1, auto := bool! auto, deleted := bool! del, tag := nat! tag } :: r.1, r.2)
  | _ + 1, _ => ([], [])

/-- Device groups: `id linked human tag n ip₁ … ipₙ`. -/
def parseDevices : Nat → List String → List Device
  | 0, _ => []
  | n + 1, id :: linked :: human :: tag :: k :: ts =>
    let ips := takeNats (nat! k) ts
    { id := nat! id, linked := nat! linked, dedicated := ips.1, human := nat! human, tag := nat! tag }
      :: parseDevices n ips.2
  | _ + 1, _ => []

/-- Wire device groups: `id linked human tag valid n ip₁ … ipₙ`. -/
def parseWireDevices : Nat → List String → List WireDevice × List String
  | 0, ts => ([], ts)
  | n + 1, id :: linked :: human :: tag :: valid :: k :: ts =>
    let ips := takeNats (nat! k) ts
    let r := parseWireDevices n ips.2
    ({ dev := { id := nat! id, linked := nat! linked, dedicated := ips.1, human := nat! human, tag := nat! tag },
       valid := bool! valid } :: r.1, r.2)
  | _ + 1, _ => ([], [])

/-- Wire profile groups: `pid auto deleted tag ok nd device…`. -/
def parseWireProfiles : Nat → List String → List WireProfile
  | 0, _ => []
  | n + 1, pid :: auto :: del :: tag :: ok :: nd :: ts =>
    let ds := parseWireDevices (nat! nd) ts
    { prof := { id := nat! pid, devIds := [], auto := bool! auto, deleted := bool! del, tag := nat! tag },
      devs := ds.1, ok := bool! ok } :: parseWireProfiles n ds.2
  | _ + 1, _ => []

def showNats (l : List Nat) : String := " ".intercalate (toString l.length :: l.map toString)

/-- A response in the format of the `sync` line (after kind and time). -/
def showResp (r : List Profile × List Device) : String :=
  " ".intercalate ([toString r.1.length, toString r.2.length] ++
    r.1.map (fun p => s!"{p.id} {showB p.auto} {showB p.deleted} {p.tag} {showNats p.devIds}") ++
    r.2.map (fun d => s!"{d.id} {d.linked} {d.human} {d.tag} {showNats d.dedicated}"))

def showOpt : Option Nat → String
  | some v => toString v
  | none => "-"

def rangeFrom1 (n : Nat) : List Nat := (List.range n).map (· + 1)

/-- Dump of the four index maps over the pools `1..nd`, `1..nip`, `1..nh`, `1..np`. -/
def snap (s : St) (nd nip nh np : Nat) : String :=
  let d := (rangeFrom1 nd).map fun i => showOpt (s.devIdx i)
  let l := (rangeFrom1 nip).map fun i => showOpt (s.idx (.linked i))
  let e := (rangeFrom1 nip).map fun i => showOpt (s.idx (.ded i))
  let h := (rangeFrom1 nh).flatMap fun hh => (rangeFrom1 np).map fun p => showOpt (s.idx (.human hh p))
  let pr := (rangeFrom1 np).map fun i => showOpt ((s.profiles i).map (·.tag))
  let dv := (rangeFrom1 nd).map fun i => showOpt ((s.devices i).map (·.tag))
  "d:" ++ ",".intercalate d ++ " l:" ++ ",".intercalate l ++ " e:" ++ ",".intercalate e ++
    " h:" ++ ",".intercalate h ++ " p:" ++ ",".intercalate pr ++ " v:" ++ ",".intercalate dv

def showBytes (l : List Nat) : String :=
  if l.isEmpty then "-" else ".".intercalate (l.map toString)

open Agd.ProfileCache in
def showAddr : Addr → String
  | .zero => "zero"
  | .v4 b => "v4 " ++ showBytes b
  | .v6 b z => "v6 " ++ showBytes b ++ " " ++ showBytes z

open Agd.ProfileCache in
/-- One address as a device's linked IP, its only dedicated IP and a profile's custom blocking IP,
written to the cache and read back. -/
def addrThroughCache (a : Addr) : String :=
  let d : Agd.ProfileCache.Device :=
    { auth := { enabled := false, dohOnly := false, pw := .allow }, id := 1, linked := a,
      name := 1, human := 0, dedicated := [a], filtering := true }
  match deviceFromPb (deviceToPb d), bmFromPb (bmToPb (.customIP [a] [a])) with
  | some d', some (.customIP v4 v6) =>
    showAddr d'.linked ++ " | " ++ " , ".intercalate (d'.dedicated.map showAddr) ++ " | " ++
      " , ".intercalate ((v4 ++ v6).map showAddr)
  | _, _ => "err"

def look (s : St) (r : Res × List Cleanup) : St × String :=
  ({ s with pending := s.pending ++ r.2 }, showRes r.1 ++ s!" {r.2.length}")

def step (s : St) : List String → St × String
  | ["reset"] => (init, "ok")
  | "sync" :: full :: t :: np :: nd :: rest =>
    -- a successful Refresh: answers with the sync time the storage was asked for
    let ps := parseProfiles (nat! np) rest
    let ds := parseDevices (nat! nd) ps.2
    (applySync s (bool! full) (nat! t) ps.1 ds, s!"ok {reqTime s (bool! full)}")
  | "syncns" :: t :: np :: nd :: rest =>
    -- a full Refresh whose cache store failed (Refresh returns the error after applying the data)
    let ps := parseProfiles (nat! np) rest
    let ds := parseDevices (nat! nd) ps.2
    (Agd.ProfileDB.step s (.syncNS (nat! t) ps.1 ds), s!"ok {reqTime s true}")
  | ["fail", full] =>
    -- a Refresh whose storage request failed
    (stepEv s (.failed (bool! full)), s!"ok {reqTime s (bool! full)}")
  | ["dev", id] => look s (findByDev s (nat! id))
  | ["link", ip] => look s (lookupKey s (.linked (nat! ip)))
  | ["ded", ip] => look s (lookupKey s (.ded (nat! ip)))
  | ["hum", pid, h] => look s (lookupHuman s (nat! pid) (nat! h))
  | ["flush"] => (flush s, s!"ok {s.pending.length}")
  | ["run", i] => (Agd.ProfileDB.step s (.run (nat! i)), "ok")
  | ["snap", nd, nip, nh, np] => (s, snap s (nat! nd) (nat! nip) (nat! nh) (nat! np))
  | ["restart", v] =>
    (Agd.ProfileDB.step s (.restart (nat! v)), "ok")
  | ["rtauth", aen, adoh, apw] =>
    let a : Agd.ProfileCache.Auth := Agd.ProfileCache.Auth.mk (bool! aen) (bool! adoh)
      (if apw == "0" then .allow else .bcrypt (nat! apw))
    let b := Agd.ProfileCache.authFromPb (Agd.ProfileCache.authToPb a)
    (s, s!"{showB b.enabled} {showB b.dohOnly} " ++
        (match b.pw with | .allow => "0" | .bcrypt h => toString h | .nilHash => "nil"))
  | "wire" :: np :: rest =>
    -- backendpb.ProfileStorage.Profiles: the response made of a stream of wire profiles
    (s, showResp (respOfWire (parseWireProfiles (nat! np) rest)))
  | ["bpauth", present, adoh, apw] =>
    -- backendpb: authentication settings as converted (present = 0: absent on the wire)
    let w : Option Agd.ProfileCache.PbAuth := if present == "0" then none else
      some { dohOnly := bool! adoh, pw := if apw == "0" then .unset else .bcrypt (nat! apw) }
    let b := Agd.ProfileCache.backendAuth w
    (s, s!"{showB b.enabled} {showB b.dohOnly} " ++
        (match b.pw with | .allow => "0" | .bcrypt h => toString h | .nilHash => "nil"))
  | ["bprate", mode] =>
    -- backendpb: rate-limit settings absent (0), disabled (1), enabled (2); then through the cache
    let w : Option Agd.ProfileCache.WireRate := if mode == "0" then none else
      some { enabled := mode == "2", rps := 5, cidr := [] }
    let r := Agd.ProfileCache.ratelimiterFromPb 1024 (Agd.ProfileCache.ratelimiterToPb (Agd.ProfileCache.backendRate 1024 w))
    (s, (match Agd.ProfileCache.backendRate 1024 w with | .global => "global" | .default _ _ _ => "default") ++ " " ++
        (match r with | .global => "global" | .default _ _ _ => "default"))
  | ["rlprobe", estStorage, estCache, rps, len, tries] =>
    -- a custom limiter made by backendpb with one estimate, and the same read back from the cache
    -- by a storage created with another: how many requests pass after a response of `len` bytes
    let live := Agd.ProfileCache.backendRate (nat! estStorage) (some { enabled := true, rps := nat! rps, cidr := [] })
    let back := Agd.ProfileCache.ratelimiterFromPb (nat! estCache) (Agd.ProfileCache.ratelimiterToPb live)
    let show1 (r : Agd.ProfileCache.Ratelimiter) : String :=
      match r.passesAfter (nat! len) (nat! tries) with | none => "panic" | some n => toString n
    (s, show1 live ++ " " ++ show1 back)
  | ["ctxdl", timeout] =>
    -- internal/cmd ctxWithOptionalTimeout: has the refresh context a deadline?
    (s, match Agd.ProfileDB.ctxDeadline (nat! timeout) 0 with | none => "none" | some _ => "some")
  | ["needfull", fullIvl, retryIvl, sinceFull, sinceErr] =>
    (s, showB (Agd.ProfileDB.needsFullSync (int! fullIvl) (int! retryIvl) (int! sinceFull)
      (if sinceErr == "-" then none else some (int! sinceErr))))
  | "bpsched" :: tz :: weekly :: days =>
    -- backendpb (*ScheduleSettings).toInternal: tz `none` = no schedule on the wire, `x` = unknown
    -- zone; weekly 0 = weekly_range absent; a day is `-` (absent) or `start:end` (`-` = absent bound)
    let optNat (t : String) : Option Nat := if t == "-" then none else some (nat! t)
    let day (t : String) : Option Agd.ProfileCache.WireDay :=
      if t == "-" then none else
        match t.splitOn ":" with
        | [a, b] => some ⟨optNat a, optNat b⟩
        | _ => none
    let w : Option Agd.ProfileCache.WireSchedule := if tz == "none" then none else
      some { tz := if tz == "x" then none else some (nat! tz),
             weekly := if weekly == "0" then none else some (days.map day) }
    let showDay : Option Agd.ProfileCache.DayIvl → String
      | none => "-"
      | some i => s!"{i.start.toNat}-{i.stop.toNat}"
    (s, match Agd.ProfileCache.backendSchedule w with
      | .panic => "panic"
      | .reject => "reject"
      | .ok none => "nosched"
      | .ok (some c) => s!"tz={c.tz} " ++ " ".intercalate
          ([c.sun, c.mon, c.tue, c.wed, c.thu, c.fri, c.sat].map showDay))
  | ["worker", script] =>
    -- agdservice.RefreshWorker over ticks `e` (a refresh that returns) / `p` (a refresh that
    -- panics): how many refreshes ever happen (the panicking one included)
    let ticks : List Tick := script.toList.map fun c => if c == 'p' then Tick.panic else Tick.ev (.failed false)
    let applied := (workerEvs ticks).length
    (s, toString (if applied < ticks.length then applied + 1 else applied))
  | ["bpaccess", mode] =>
    let w : Option Agd.ProfileCache.WireAccess := if mode == "0" then none else
      some { enabled := mode == "2", cfg := ⟨[], [], [], [], []⟩ }
    (s, match Agd.ProfileCache.backendAccess w with | none => "empty" | some _ => "default")
  | ["rtrate", _] =>
    -- a custom limiter built with any `Enabled` (which `NewDefaultRatelimiter` ignores) through the cache
    (s, match Agd.ProfileCache.ratelimiterFromPb 1024 (Agd.ProfileCache.ratelimiterToPb (.default [] 1 1024)) with
      | .global => "global" | .default _ _ _ => "default")
  | "addr" :: bytes =>
    -- netip: UnmarshalBinary of the bytes, and MarshalBinary of the result
    (s, match Agd.ProfileCache.Addr.unmarshal (bytes.map nat!) with
      | none => "err"
      | some a => showAddr a ++ " | " ++ showBytes a.marshal)
  | "rtaddr" :: bytes =>
    -- the address backendpb makes of the bytes, through the file cache
    (s, match Agd.ProfileCache.Addr.unmarshal (bytes.map nat!) with
      | none => "err"
      | some a => addrThroughCache a)
  | ["load", v, np, nd] =>
    (s, match Agd.ProfileCache.loadDecision (nat! v) (nat! np) (nat! nd) with
      | .loaded => "loaded" | .versionIgnored => "version" | .emptyIgnored => "empty")
  | _ => (s, "bad-op")

def main : IO Unit := loop step init

end Agd.Driver.C14
