import Agd.Model.Config
import Agd.Model.ConfigShape
import Agd.Model.ConfigBackend
import Agd.Driver.Util
/-!
Line-protocol driver for the C20 model.

* `cfg tok…` — start from the distributed example and apply the tokens: `path=value` sets a
  scalar (`-` = key absent, i.e. the Go zero value), `-path` removes a section.  Answer: `ok`,
  `parse` (a value does not fit its Go type) or `err path:kind[;path:kind…]`.
* `conv` — what the `toInternal` conversions produce for the last configuration.
* `xconv` — the conversions that resolve cross-references: `ok <stream listeners>` or `xerr stage:what`.
* `listeners` — stream listeners that reach `Accept` / stay parked on the fresh limiter.
* `lim stop resume n` — the same for an explicit limiter and `n` listeners.
* `build` — the start-up constructors: `ok` or `panic …`.
* `env kvUrl rlUrl consulUrl kvSize redisAddr redisIdle maxActive maxIdle` — the environment checks that depend
  on the last configuration (`absent|bad|good` for URLs): `ok` or `err VAR[;VAR…]`; `envbuild` — the builder
  steps that dereference those variables: `ok` or `panic …`.
* `handle is4 tcp respLen` — one query: `served w`, `stuck path` or `panic …`.
* `bstart` — the backend-facing builder steps (billing statistics, profile database, rate limiter with their
  refresh workers) over the last configuration: `ok` or `panic <step>`; `bprof backend|cache applies rps len` —
  `Check`, `CountResponses` on a response of `len` bytes, `Check` on the limiter of a profile with a custom limit
  of `rps` per second that was built from the backend's answer / restored from the cache file:
  `<first> <second>` (`pass|drop|global`) or `panic div-zero`.
* `shape if=b web=kind lurl=b qlog=b ac=kind g=ddr/tls/srv,srv…/profiles …` — a file whose server groups are
  rebuilt from scratch: `ok` or `err server_groups.<i>.<part>:<kind>`; `startup` — the builder steps of `Main`
  over the last shape: `ok tickets=… tls=n web=b qlog=b prof=b groups=n`, `xerr <stage>` or `panic <stage>`.
-/
namespace Agd.Driver.C20
open Agd.Config Agd.Driver

structure S where
  c : Config := {}
  parseOk : Bool := true
  e : Env := {}
  sh : Shape.Shape := {}

def url! (s : String) : UrlSt := if s == "good" then .good else if s == "bad" then .badScheme else .absent

def showEnvPanic : EnvPanic → String
  | .kvLru => "panic kv-lru"
  | .nilUrl v => "panic nil-url " ++ v.name
  | .kvEnum => "panic kv-enum"

/-- Result of applying one token. -/
inductive Upd | ok (c : Config) | range | unknown

def num (ty : Ty) (v : String) (set : Int → Config) : Upd :=
  let n : Int := if v == "-" then 0 else int! v
  if ty.inRange n then .ok (set n) else .range

def flag (v : String) (set : Bool → Config) : Upd := .ok (set (v != "-" && bool! v))
def str (v : String) (set : String → Config) : Upd := .ok (set (if v == "-" then "" else v))

def setField (c : Config) (k v : String) : Upd :=
  match k with
  | "ratelimit.allowlist.type" => str v fun x => { c with alType := x }
  | "ratelimit.allowlist.refresh_interval" => num .dur v fun x => { c with alRefresh := x }
  | "ratelimit.connection_limit.enabled" => flag v fun x => { c with clEnabled := x }
  | "ratelimit.connection_limit.stop" => num .uint v fun x => { c with clStop := x }
  | "ratelimit.connection_limit.resume" => num .uint v fun x => { c with clResume := x }
  | "ratelimit.ipv4.count" => num .uint v fun x => { c with v4Count := x }
  | "ratelimit.ipv4.interval" => num .dur v fun x => { c with v4Ivl := x }
  | "ratelimit.ipv4.subnet_key_len" => num .int v fun x => { c with v4Len := x }
  | "ratelimit.ipv6.count" => num .uint v fun x => { c with v6Count := x }
  | "ratelimit.ipv6.interval" => num .dur v fun x => { c with v6Ivl := x }
  | "ratelimit.ipv6.subnet_key_len" => num .int v fun x => { c with v6Len := x }
  | "ratelimit.quic.enabled" => flag v fun x => { c with quicEnabled := x }
  | "ratelimit.quic.max_streams_per_peer" => num .int v fun x => { c with quicMax := x }
  | "ratelimit.tcp.enabled" => flag v fun x => { c with tcpEnabled := x }
  | "ratelimit.tcp.max_pipeline_count" => num .uint v fun x => { c with tcpMax := x }
  | "ratelimit.backoff_count" => num .uint v fun x => { c with bkCount := x }
  | "ratelimit.backoff_duration" => num .dur v fun x => { c with bkDur := x }
  | "ratelimit.backoff_period" => num .dur v fun x => { c with bkPeriod := x }
  | "ratelimit.response_size_estimate" => num .size v fun x => { c with est := x }
  | "upstream.servers.0.timeout" => num .dur v fun x => { c with upS0 := x }
  | "upstream.servers.1.timeout" => num .dur v fun x => { c with upS1 := x }
  | "upstream.fallback.servers.0.timeout" => num .dur v fun x => { c with upF0 := x }
  | "upstream.fallback.servers.1.timeout" => num .dur v fun x => { c with upF1 := x }
  | "upstream.healthcheck.enabled" => flag v fun x => { c with hcEnabled := x }
  | "upstream.healthcheck.interval" => num .dur v fun x => { c with hcIvl := x }
  | "upstream.healthcheck.timeout" => num .dur v fun x => { c with hcTimeout := x }
  | "upstream.healthcheck.backoff_duration" => num .dur v fun x => { c with hcBackoff := x }
  | "cache.type" => str v fun x => { c with caType := x }
  | "cache.size" => num .int v fun x => { c with caSize := x }
  | "cache.ecs_size" => num .int v fun x => { c with caEcs := x }
  | "cache.ttl_override.enabled" => flag v fun x => { c with ttlEnabled := x }
  | "cache.ttl_override.min" => num .dur v fun x => { c with ttlMin := x }
  | "dnsdb.enabled" => flag v fun x => { c with dbEnabled := x }
  | "dnsdb.max_size" => num .int v fun x => { c with dbMax := x }
  | "dns.read_timeout" => num .dur v fun x => { c with dnsRead := x }
  | "dns.tcp_idle_timeout" => num .dur v fun x => { c with dnsIdle := x }
  | "dns.write_timeout" => num .dur v fun x => { c with dnsWrite := x }
  | "dns.handle_timeout" => num .dur v fun x => { c with dnsHandle := x }
  | "dns.max_udp_response_size" => num .size v fun x => { c with dnsUdp := x }
  | "backend.timeout" => num .dur v fun x => { c with beTimeout := x }
  | "backend.refresh_interval" => num .dur v fun x => { c with beRefresh := x }
  | "backend.full_refresh_interval" => num .dur v fun x => { c with beFull := x }
  | "backend.full_refresh_retry_interval" => num .dur v fun x => { c with beRetry := x }
  | "backend.bill_stat_interval" => num .dur v fun x => { c with beBill := x }
  | "geoip.host_cache_size" => num .int v fun x => { c with geoHost := x }
  | "geoip.ip_cache_size" => num .int v fun x => { c with geoIp := x }
  | "geoip.refresh_interval" => num .dur v fun x => { c with geoRefresh := x }
  | "check.kv.type" => str v fun x => { c with kvType := x }
  | "check.kv.ttl" => num .dur v fun x => { c with kvTtl := x }
  | "web.timeout" => num .dur v fun x => { c with webTimeout := x }
  | "safe_browsing.cache_size" => num .int v fun x => { c with sbSize := x }
  | "safe_browsing.cache_ttl" => num .dur v fun x => { c with sbTtl := x }
  | "safe_browsing.refresh_interval" => num .dur v fun x => { c with sbRefresh := x }
  | "safe_browsing.refresh_timeout" => num .dur v fun x => { c with sbTimeout := x }
  | "adult_blocking.cache_size" => num .int v fun x => { c with abSize := x }
  | "adult_blocking.cache_ttl" => num .dur v fun x => { c with abTtl := x }
  | "adult_blocking.refresh_interval" => num .dur v fun x => { c with abRefresh := x }
  | "adult_blocking.refresh_timeout" => num .dur v fun x => { c with abTimeout := x }
  | "filters.custom_filter_cache_size" => num .int v fun x => { c with flCustom := x }
  | "filters.safe_search_cache_size" => num .int v fun x => { c with flSafe := x }
  | "filters.response_ttl" => num .dur v fun x => { c with flRespTtl := x }
  | "filters.refresh_interval" => num .dur v fun x => { c with flRefresh := x }
  | "filters.refresh_timeout" => num .dur v fun x => { c with flRefreshTo := x }
  | "filters.index_refresh_timeout" => num .dur v fun x => { c with flIndexTo := x }
  | "filters.rule_list_refresh_timeout" => num .dur v fun x => { c with flRuleTo := x }
  | "filters.max_size" => num .size v fun x => { c with flMax := x }
  | "filters.ede_enabled" => flag v fun x => { c with flEde := x }
  | "filters.sde_enabled" => flag v fun x => { c with flSde := x }
  | "filters.rule_list_cache.enabled" => flag v fun x => { c with rlcEnabled := x }
  | "filters.rule_list_cache.size" => num .int v fun x => { c with rlcSize := x }
  | "interface_listeners.channel_buffer_size" => num .int v fun x => { c with ilBuf := x }
  | "network.so_sndbuf" => num .size v fun x => { c with nwSnd := x }
  | "network.so_rcvbuf" => num .size v fun x => { c with nwRcv := x }
  | "upstream.healthcheck.domain_template" => str v fun x => { c with hcTmpl := x }
  | "check.node_location" => str v fun x => { c with ckLoc := x }
  | "check.node_name" => str v fun x => { c with ckName := x }
  | "server_groups.0.ddr.device_records.https_port" => num .u16 v fun x => { c with devHttps := x }
  | "server_groups.0.ddr.device_records.quic_port" => num .u16 v fun x => { c with devQuic := x }
  | "server_groups.0.ddr.device_records.tls_port" => num .u16 v fun x => { c with devTls := x }
  | "server_groups.0.ddr.public_records.https_port" => num .u16 v fun x => { c with pubHttps := x }
  | "server_groups.0.ddr.public_records.quic_port" => num .u16 v fun x => { c with pubQuic := x }
  | "server_groups.0.ddr.public_records.tls_port" => num .u16 v fun x => { c with pubTls := x }
  | "interface_listeners.list.eth0_plain_dns.port" => num .u16 v fun x => { c with ilPort0 := x }
  | "interface_listeners.list.eth0_plain_dns_secondary.port" => num .u16 v fun x => { c with ilPort1 := x }
  | "server_groups.0.filtering_group" => str v fun x => { c with sgFg := x }
  | "filtering_groups.0.id" => str v fun x => { c with fg0Id := x }
  | "filtering_groups.0.rule_lists.0" => str v fun x => { c with fg0List0 := x }
  | "server_groups.0.servers.0.bind_interfaces.0.id" => str v fun x => { c with bi0Id := x }
  | "server_groups.0.servers.1.protocol" => str v fun x => { c with proto1 := x }
  | "server_groups.0.servers.2.protocol" => str v fun x => { c with proto2 := x }
  | "server_groups.0.servers.3.protocol" => str v fun x => { c with proto3 := x }
  | _ => .unknown

def dropSection (c : Config) (k : String) : Option Config :=
  match k with
  | "ratelimit" => some { c with pRl := false }
  | "ratelimit.allowlist" => some { c with pAl := false }
  | "ratelimit.connection_limit" => some { c with pCl := false }
  | "ratelimit.ipv4" => some { c with pV4 := false }
  | "ratelimit.ipv6" => some { c with pV6 := false }
  | "ratelimit.quic" => some { c with pQuic := false }
  | "ratelimit.tcp" => some { c with pTcp := false }
  | "upstream" => some { c with pUp := false }
  | "upstream.fallback" => some { c with pFb := false }
  | "upstream.healthcheck" => some { c with pHc := false }
  | "cache" => some { c with pCa := false }
  | "cache.ttl_override" => some { c with pTtl := false }
  | "dnsdb" => some { c with pDb := false }
  | "dns" => some { c with pDns := false }
  | "backend" => some { c with pBe := false }
  | "geoip" => some { c with pGeo := false }
  | "check" => some { c with pCk := false }
  | "check.kv" => some { c with pKv := false }
  | "web" => some { c with pWeb := false }
  | "safe_browsing" => some { c with pSb := false }
  | "adult_blocking" => some { c with pAb := false }
  | "filters" => some { c with pFl := false }
  | "filters.rule_list_cache" => some { c with pRlc := false }
  | "interface_listeners" => some { c with pIl := false }
  | "network" => some { c with pNw := false }
  | "upstream.servers" => some { c with pUpSrv := false }
  | "upstream.fallback.servers" => some { c with pFbSrv := false }
  | "query_log" => some { c with pQl := false }
  | "query_log.file" => some { c with pQlFile := false }
  | "filtering_groups" => some { c with pFg := false }
  | "filtering_groups.0.parental" => some { c with pFg0Par := false }
  | "filtering_groups.0.rule_lists" => some { c with pFg0Rl := false }
  | "filtering_groups.0.safe_browsing" => some { c with pFg0Sb := false }
  | "server_groups" => some { c with pSg := false }
  | "server_groups.0.ddr" => some { c with pDdr := false }
  | "server_groups.0.servers" => some { c with pSrvs := false }
  | "server_groups.0.tls" => some { c with pTls := false }
  | "connectivity_check" => some { c with pCc := false }
  | "access" => some { c with pAc := false }
  | "additional_metrics_info" => some c
  | "interface_listeners.list" => some { c with pIlList := false }
  | _ => none

/-- Apply the tokens of a `cfg` line; `none` = malformed line. -/
def apply : S → List String → Option S
  | s, [] => some s
  | s, t :: r =>
    if t.startsWith "-" then
      match dropSection s.c (t.drop 1).toString with
      | some c => apply { s with c := c } r
      | none => none
    else
      match t.splitOn "=" with
      | [k, v] =>
        match setField s.c k v with
        | .ok c => apply { s with c := c } r
        | .range => apply { s with parseOk := false } r
        | .unknown => none
      | _ => none

def showErrs (es : List Err) : String :=
  ";".intercalate (es.map fun e => e.1.name ++ ":" ++ e.2.name)

def showPanic : Panic → String
  | .lruSize f => "panic lru " ++ f.name
  | .connLimiter => "panic connlimiter"
  | .idleTimeout => "panic idle-timeout"
  | .chanSize => "panic chan-size"
  | .divZero => "panic div-zero"
  | .badPrefix => "panic bad-prefix"
  | .makeslice => "panic makeslice"
  | .makechan => "panic makechan"
  | .chanAlloc => "panic chan-alloc"

def showCache : CacheType → String
  | .none => "none" | .simple => "simple" | .ecs => "ecs"

/-! ### Shapes -/

def srv! : String → Option Shape.Srv
  | "dns" => some .dns | "dnsif" => some .dnsIf | "tls" => some .tls | "https" => some .https
  | "quic" => some .quic | "dnscrypt" => some .dnscrypt | _ => none

/-- The `tls` section of group `i` by kind; the key files are the ones the harness writes. -/
def tls! (i : Nat) : String → Option (Option Shape.Tls)
  | "absent" | "null" => some none
  | "empty" => some (some { certs := 0, wild := false })
  | "full" => some (some { keys := [2*i+1, 2*i] })
  | "nokeys" => some (some {})
  | "nowild" => some (some { keys := [2*i+1, 2*i], wild := false })
  | "nocerts" => some (some { certs := 0, keys := [2*i+1, 2*i] })
  | "nullcert" => some (some { nilCert := true, keys := [2*i+1, 2*i], wild := false })
  | "shared" => some (some { keys := [9, 2*i, 9] })
  | _ => none

def group! (i : Nat) (t : String) : Option Shape.Group :=
  match t.splitOn "/" with
  | [ddr, tls, srvs, prof] =>
    match tls! i tls, (srvs.splitOn ",").filter (· ≠ "") |>.mapM srv! with
    | some tl, some ss => some { ddr := ddr != "absent" && ddr != "null", tls := tl, srvs := ss, profiles := bool! prof }
    | _, _ => none
  | _ => none

def applyShape : Shape.Shape → List String → Option Shape.Shape
  | sh, [] => some sh
  | sh, t :: r =>
    match t.splitOn "=" with
    | ["if", v] => applyShape { sh with ifaces := bool! v } r
    | ["web", v] => applyShape { sh with web := v != "absent" && v != "null",
                                          linkedIp := v != "absent" && v != "null" && v != "timeout" && v != "nolinked" } r
    | ["lurl", v] => applyShape { sh with linkedUrl := bool! v } r
    | ["qlog", v] => applyShape { sh with qlog := bool! v } r
    | ["ac", _] => applyShape sh r
    | ["g", v] =>
      match group! sh.groups.length v with
      | some g => applyShape { sh with groups := sh.groups ++ [g] } r
      | none => none
    | _ => none

def showPart : Shape.Part → String
  | .groups => "" | .ddr => ".ddr" | .servers => ".servers" | .tls => ".tls" | .certs => ".tls.certificates"
  | .cert0 => ".tls.certificates.0"

def showKind : Shape.Kind → String
  | .empty => "empty" | .noValue => "novalue" | .cross => "cross"

def showShapeErr : Shape.Err → String
  | (_, .groups, k) => "err server_groups:" ++ showKind k
  | (i, p, k) => s!"err server_groups.{i}{showPart p}:{showKind k}"

def showStage : Shape.Stage → String
  | .tlsManager => "tls_manager" | .serverGroups => "server_groups" | .web => "web"

def showStarted (st : Shape.Started) : String :=
  s!"ok tickets={",".intercalate (st.tickets.map fun k => s!"k{k}")} tls={st.tlsSrvs} web={showB st.web} " ++
  s!"qlog={showB st.qlog} prof={showB st.profiles} groups={st.groups}"

def step (s : S) : List String → S × String
  | "shape" :: toks =>
    match applyShape {} toks with
    | none => (s, "bad-op")
    | some sh =>
      match Shape.validate sh with
      | none => ({ s with sh := sh }, "ok")
      | some e => ({ s with sh := sh }, showShapeErr e)
  | ["startup"] =>
    match Shape.startup false s.sh with
    | .ok st => (s, showStarted st)
    | .xerr g => (s, "xerr " ++ showStage g)
    | .panic g => (s, "panic " ++ showStage g)
  | "cfg" :: toks =>
    match apply {} toks with
    | none => (s, "bad-op")
    | some s' =>
      if !s'.parseOk then (s', "parse")
      else match validate false s'.c with
        | [] => (s', "ok")
        | es => (s', "err " ++ showErrs es)
  | ["conv"] =>
    let c := s.c
    (s, s!"cache={showCache (cacheType c)} noecs={c.caSize} ecs={c.caEcs} minttl={c.ttlMin} " ++
        s!"override={showB c.ttlEnabled} connlim={if c.clEnabled then s!"1,{c.clStop},{c.clResume}" else "0"} " ++
        s!"hcinit={if c.hcEnabled then c.hcTimeout else 0} " ++
        s!"bk={c.bkCount},{c.bkPeriod},{c.bkDur},{c.est} v4={c.v4Count},{c.v4Ivl},{c.v4Len} " ++
        s!"v6={c.v6Count},{c.v6Ivl},{c.v6Len} tcp={showB c.tcpEnabled},{c.tcpMax} " ++
        s!"quic={showB c.quicEnabled},{c.quicMax} dns={c.dnsRead},{c.dnsWrite},{c.dnsIdle},{c.dnsUdp} " ++
        s!"dot={showB c.tcpEnabled},{c.tcpMax},{c.dnsIdle},{c.dnsRead},{c.dnsWrite}")
  | ["xconv"] =>
    match xconv s.c with
    | .ok n => (s, s!"ok {n}")
    | .error e => (s, "xerr " ++ e.name)
  | ["listeners"] =>
    let r := startListeners s.c
    (s, s!"{r.1} {r.2}")
  | ["lim", stop, resume, n] =>
    let r := limStart (nat! stop) (nat! resume) (nat! n)
    (s, s!"{r.1} {r.2}")
  | ["env", kvUrl, rlUrl, consulUrl, kvSize, redisAddr, redisIdle, maxActive, maxIdle] =>
    let e : Env := { kvUrl := url! kvUrl, rlUrl := url! rlUrl, consulUrl := url! consulUrl, kvSize := int! kvSize,
                     redisAddr := bool! redisAddr, redisIdle := int! redisIdle, redisMaxActive := int! maxActive,
                     redisMaxIdle := int! maxIdle }
    match envCheck s.c e with
    | [] => ({ s with e := e }, "ok")
    | vs => ({ s with e := e }, "err " ++ ";".intercalate (vs.map EnvVar.name))
  | ["envbuild"] =>
    match envBuild s.c s.e with
    | .ok _ => (s, "ok")
    | .error p => (s, showEnvPanic p)
  | ["build"] =>
    match build s.c with
    | .ok _ => (s, "ok")
    | .error p => (s, showPanic p)
  | ["bstart"] =>
    match Backend.start (Backend.wire s.c) with
    | .ok _ => (s, "ok")
    | .error (.ticker st) => (s, "panic " ++ st.name)
    | .error .divZero => (s, "panic div-zero")
  | ["bprof", src, applies, rps, len] =>
    let so : Backend.Source := if src == "cache" then .cache else .backend
    match Backend.probe (Backend.estOf (Backend.wire s.c) so) (bool! applies) (nat! rps) (nat! len) with
    | .ok (a, b) => (s, a.name ++ " " ++ b.name)
    | .error (.ticker st) => (s, "panic " ++ st.name)
    | .error .divZero => (s, "panic div-zero")
  | ["handle", is4, tcp, len] =>
    match handle s.c { is4 := bool! is4, tcp := bool! tcp, respLen := nat! len } with
    | .ok (.served w) => (s, s!"served {w}")
    | .ok (.stuck f) => (s, "stuck " ++ f.name)
    | .error p => (s, showPanic p)
  | _ => (s, "bad-op")

def main : IO Unit := loop step {}

end Agd.Driver.C20
