/-! Shared helpers for the line-protocol model driver (core Lean only). -/
namespace Agd.Driver

def words (line : String) : List String :=
  (line.trimAscii.toString.splitOn " ").filter (· ≠ "")

def nat! (s : String) : Nat := s.toNat?.getD 0
def int! (s : String) : Int := s.toInt?.getD 0
def bool! (s : String) : Bool := s == "1" || s == "true"
def showB (b : Bool) : String := if b then "1" else "0"

/-- Generic stdin loop: `step` consumes a tokenised line and returns the new state and one output line. -/
partial def loop {σ : Type} (step : σ → List String → σ × String) (s : σ) : IO Unit := do
  let stdin ← IO.getStdin
  let stdout ← IO.getStdout
  let rec go (s : σ) : IO Unit := do
    let line ← stdin.getLine
    if line.isEmpty then
      stdout.flush
      return ()
    let (s', out) := step s (words line)
    stdout.putStrLn out
    stdout.flush
    go s'
  go s

end Agd.Driver
