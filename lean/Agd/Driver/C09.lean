import Agd.Model.Ratelimit
import Agd.Model.RatelimitFront
import Agd.Driver.Util
/-! Line-protocol driver for the C09 model. -/
namespace Agd.Driver.C09
open Agd.Ratelimit Agd.Driver

structure S where
  ctr : Counter := Counter.new 0 0
  ring : Ring := Ring.new 1
  cfg : Cfg := { count := 0, period := 0, duration := 0, est := 1, v4count := 0, v4ivl := 0,
                 v4len := 0, v6count := 0, v6ivl := 0, v6len := 0, refuseAny := false, allow := [] }
  st : St := St.empty
  prof : Option ProfLim := none
  protos : Bool := true
  al : Allowlist := { persistent := [], dynamic := [] }

def showV : Verdict → String
  | .drop => "drop" | .allowlisted => "allow" | .pass => "pass"

def showE : Effect → String
  | .dropped => "dropped" | .servedNoCount => "served" | .servedCounted => "served"

def showSeen : Seen → String
  | .silent => "silent" | .upstream => "upstream" | .formerr => "formerr" | .servfail => "servfail"

def parseFront : String → Front
  | "ecs" => .badECS | "dev" => .devErr | "port0" => .spoofed | "blocked" => .blocked
  | "unkded" => .unknownDedicated | _ => .ok

def parsePrefixes : List String → List Prefix
  | a :: b :: c :: r => { is4 := bool! a, val := nat! b, bits := nat! c } :: parsePrefixes r
  | _ => []

def parseAddrs : List String → List Addr
  | a :: b :: r => { is4 := bool! a, val := nat! b } :: parseAddrs r
  | _ => []

def step (s : S) : List String → S × String
  | ["ctr", num, ivl] =>
    ({ s with ctr := Counter.new (nat! num) (int! ivl), ring := Ring.new (nat! num + 1) }, "ok")
  | ["add", ts] =>
    let (c', a) := s.ctr.add (int! ts)
    let (r', b) := ringAdd s.ring s.ctr.ivl (int! ts)
    ({ s with ctr := c', ring := r' }, if a == b then showB a else "MODEL-INTERNAL-MISMATCH")
  | ["radd", ts] =>
    -- The ring alone (`RequestCounter.Add` as written), for stamps outside the statement's hypotheses:
    -- non-positive, decreasing.
    let (r', b) := ringAdd s.ring s.ctr.ivl (int! ts)
    ({ s with ring := r' }, showB b)
  | ["cfg", count, period, duration, est, c4, i4, l4, c6, i6, l6, any] =>
    ({ s with cfg := { count := nat! count, period := int! period, duration := int! duration,
                       est := nat! est, v4count := nat! c4, v4ivl := int! i4, v4len := nat! l4,
                       v6count := nat! c6, v6ivl := int! i6, v6len := nat! l6,
                       refuseAny := bool! any, allow := [] },
              st := St.empty, prof := none, al := { persistent := [], dynamic := [] } }, "ok")
  | "allow" :: rest =>
    let al := { s.al with persistent := s.al.persistent ++ parsePrefixes rest }
    ({ s with al := al, cfg := { s.cfg with allow := al.flat } }, "ok")
  | "dyn" :: rest =>
    -- `DynamicAllowlist.Update`: the limiter state is untouched.
    let al := s.al.update (parsePrefixes rest)
    ({ s with al := al, cfg := { s.cfg with allow := al.flat } }, "ok")
  | "consul" :: ok :: rest =>
    -- `AllowlistUpdater.Refresh`: `consul 0` = failed refresh, `consul 1 <is4 val>…` = decoded records.
    let al := s.al.consulRefresh (if bool! ok then some (parseAddrs rest) else none)
    ({ s with al := al, cfg := { s.cfg with allow := al.flat } }, "ok")
  | ["age", _] =>
    -- The harness moved the real limiter's state into the past; for the model this is just time passing.
    (s, "ok")
  | ["isallowed", is4, val] =>
    (s, showB (s.al.isAllowed { is4 := bool! is4, val := nat! val }))
  | ["libmw", enabled, port0, now, is4, val, qt, len] =>
    let respLen := if len == "-" then none else some (nat! len)
    let (g, e) := serveLib s.cfg (bool! enabled) (bool! port0) s.st (int! now) 2
      { is4 := bool! is4, val := nat! val } (nat! qt) respLen
    ({ s with st := g }, showE e)
  | ["req", now, is4, val, qt] =>
    let (st', v) := isRateLimited s.cfg s.st (int! now) { is4 := bool! is4, val := nat! val } (nat! qt)
    ({ s with st := st' }, showV v)
  | ["resp", now, is4, val, qt, len] =>
    let st' := countResponses s.cfg s.st (loopTimes (int! now) 2 (respWeight s.cfg.est (nat! len)))
      { is4 := bool! is4, val := nat! val } (nat! qt)
    ({ s with st := st' }, "ok")
  | "prof" :: rps :: est :: rest =>
    ({ s with prof := some { subnets := parsePrefixes rest, ctr := Counter.new (nat! rps) 1000000000,
                             est := nat! est } }, "ok")
  | ["pcheck", now, is4, val] =>
    match s.prof with
    | none => (s, "noprof")
    | some p =>
      let (p', res) := p.check (int! now) { is4 := bool! is4, val := nat! val }
      ({ s with prof := some p' }, match res with | .pass => "pass" | .drop => "drop" | .useGlobal => "global")
  | ["presp", now, is4, val, len] =>
    match s.prof with
    | none => (s, "noprof")
    | some p =>
      ({ s with prof := some (p.countResponses (loopTimes (int! now) 2 (respWeight p.est (nat! len)))
          { is4 := bool! is4, val := nat! val }) }, "ok")
  | ["noprof"] => ({ s with prof := none }, "ok")
  | ["mw", limited, now, is4, val, qt, len, isProf] =>
    let respLen := if len == "-" then none else some (nat! len)
    let (m, e) := serve s.cfg (bool! limited)
      { glob := s.st, prof := if bool! isProf then s.prof else none } (int! now) 2
      { is4 := bool! is4, val := nat! val } (nat! qt) respLen
    ({ s with st := m.glob, prof := if bool! isProf then m.prof else s.prof }, showE e)
  | ["front", cls, limited, now, is4, val, qt, len, flen, isProf] =>
    -- One request through the repaired `Wrap` (`frontStep`), the only profile under id 0.
    let respLen := if len == "-" then none else some (nat! len)
    let f : FReq := { front := parseFront cls, flen := nat! flen,
                      req := { now := int! now, tick := 2, limited := bool! limited,
                               addr := { is4 := bool! is4, val := nat! val }, qtype := nat! qt,
                               resp := respLen, prof := if bool! isProf then some 0 else none } }
    let (h, seen) := frontStep s.cfg { glob := s.st, profs := fun i => if i = 0 then s.prof else none } f
    ({ s with st := h.glob, prof := h.profs 0 }, showSeen seen)
  | _ => (s, "bad-op")

def main : IO Unit := loop step {}

end Agd.Driver.C09
