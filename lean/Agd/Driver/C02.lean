import Agd.Model.Filter
import Agd.Driver.Util
/-! Line-protocol driver for the C02 model (rule precedence, response filtering, blocked shape). -/
namespace Agd.Driver.C02
open Agd.Filter Agd.Driver

structure S where
  lists : List (String × List Rule) := []
  sb : HashFilter := { hosts := [], repl := [] }
  ad : HashFilter := { hosts := [], repl := [] }
  nr : HashFilter := { hosts := [], repl := [] }
  prof : Cfg := {}
  grp : Cfg := {}
  sw : Switches := { hasProfile := true, profOn := true, devOn := true }
  mode : Mode := .nullIP
  ttl : Nat := 10
  ups : List ((Host × QType) × Msg) := []

def host! (s : String) : Host := if s == "-" || s == "" then [] else s.splitOn "."
def showHost (h : Host) : String := if h.isEmpty then "-" else ".".intercalate h
def csv (s : String) : List String := if s == "-" || s == "" then [] else s.splitOn ","

def parseSel (s : String) : TypeSel :=
  if s.startsWith "=" then .only (nat! (s.drop 1).toString)
  else if s.startsWith "~" then .except (nat! (s.drop 1).toString)
  else .any

def parseRule (tok : String) : Option Rule :=
  match tok.splitOn "|" with
  | ["b", d, t] => some (.net (host! d) false (parseSel t))
  | ["a", d, t] => some (.net (host! d) true (parseSel t))
  | ["r4", d, v] => some (.rewrite (host! d) (.ip4 v))
  | ["r6", d, v] => some (.rewrite (host! d) (.ip6 v))
  | ["rc", d, t] => some (.rewrite (host! d) (.cname (host! t)))
  | ["rr", d, n] => some (.rewrite (host! d) (.rcode (nat! n)))
  | ["h4", d] => some (.hosts false (host! d))
  | ["h6", d] => some (.hosts true (host! d))
  | _ => none

def showId : ListId → String
  | .custom => "custom"
  | .shared n => s!"l{n}"
  | .svc n => s!"s{n}"
  | .safeBrowsing => "sb"
  | .adult => "adult"
  | .genSS => "gss"
  | .ytSS => "yss"
  | .newReg => "nrd"

def showV : Verdict → String
  | .none => "none"
  | .allowed l => s!"allow {showId l}"
  | .blocked l => s!"block {showId l}"
  | .modReq l t => s!"modreq {showId l} {showHost t}"
  | .modResp l rc vals => s!"modresp {showId l} {rc} {if vals.isEmpty then "-" else ",".intercalate vals}"

def showRR (r : RR) : String :=
  s!"{r.typ}:{if r.up then "^" else showHost r.name}:{r.val}:{r.ttl}:{if r.up then "u" else "s"}"

def showMsg (m : Msg) : String :=
  let a := if m.ans.isEmpty then "-" else ",".intercalate (m.ans.map showRR)
  let soa := match m.soa with | some t => toString t | none => "-"
  s!"{m.rcode} {a} {soa} {m.upNs}"

def lookupList (s : S) (name : String) : List Rule := (s.lists.lookup name).getD []

def idx (name : String) : Nat := nat! (name.drop 1).toString

def mkCfg (s : S) (custom lists svcs sb ad g y nr : String) : Cfg :=
  { custom := if custom == "-" then none else some (lookupList s custom)
    lists := (csv lists).map fun n => (idx n, lookupList s n)
    svcs := (csv svcs).map fun n => (idx n, lookupList s n)
    sb := if bool! sb then some s.sb else none
    adult := if bool! ad then some s.ad else none
    genSS := if bool! g then some (lookupList s "g") else none
    ytSS := if bool! y then some (lookupList s "y") else none
    newReg := if bool! nr then some s.nr else none }

/-- Distinct early-exit candidates among the matching rewrites of one list: more than one means the
result depends on the engine's match order, which the model does not fix. -/
def ambigRules (rs : List Rule) (host : Host) : Bool :=
  let ts := (rewriteHits rs host).filter fun
    | .cname _ => true
    | .rcode _ => true
    | _ => false
  ts.eraseDups.length > 1

def ambigCfg (c : Cfg) (host : Host) : Bool :=
  c.rewriteSources.any (fun p => ambigRules p.2 host) ||
  (match c.genSS with | some rs => ambigRules rs host | none => false) ||
  (match c.ytSS with | some rs => ambigRules rs host | none => false)

def parseIPs (s : String) : List (Bool × String) :=
  (csv s).map fun v => (!(v.contains ':'), v)

def parseRRs (name : Host) (s : String) : List RR :=
  (csv s).filterMap fun tok =>
    match tok.splitOn "/" with
    | [t, v, ttl] => some { name := name, typ := nat! t, val := v, ttl := nat! ttl, up := true }
    | _ => none

def parseAns (s : String) : List Ans :=
  (csv s).map fun tok =>
    match tok.splitOn "/" with
    | ["1", v] => .a (host! v)
    | ["28", v] => .aaaa (host! v)
    | ["5", v] => .cname (host! v)
    | _ => .other

def upstreamOf (s : S) (h : Host) (qt : QType) : Msg :=
  (s.ups.lookup (h, qt)).getD { rcode := 0, ans := [], soa := none }

def pick (s : S) (w : String) : Cfg := if w == "p" then s.prof else s.grp

def step (s : S) : List String → S × String
  | ["reset"] => ({}, "ok")
  | "list" :: name :: toks =>
    ({ s with lists := (name, toks.filterMap parseRule) :: s.lists.filter (·.1 != name) }, "ok")
  | ["hp", which, repl, hosts] =>
    let f : HashFilter := { hosts := (csv hosts).map host!, repl := host! repl }
    (match which with
     | "sb" => { s with sb := f }
     | "ad" => { s with ad := f }
     | _ => { s with nr := f }, "ok")
  | ["cfg", w, custom, lists, svcs, sb, ad, g, y, nr] =>
    let c := mkCfg s custom lists svcs sb ad g y nr
    (if w == "p" then { s with prof := c } else { s with grp := c }, "ok")
  | ["sw", a, b, c] => ({ s with sw := { hasProfile := bool! a, profOn := bool! b, devOn := bool! c } }, "ok")
  | ["mode", m, ttl, v4, v6] =>
    let md : Mode := match m with
      | "null" => .nullIP
      | "nx" => .nxdomain
      | "ref" => .refused
      | _ => .customIP (parseIPs v4) (parseIPs v6)
    ({ s with mode := md, ttl := nat! ttl }, "ok")
  | ["up", h, qt, rc, rrs, ns] =>
    let k := (host! h, nat! qt)
    let m : Msg := { rcode := nat! rc, ans := parseRRs (host! h) rrs, soa := none, upNs := nat! ns }
    ({ s with ups := (k, m) :: s.ups.filter (·.1 != k) }, "ok")
  | ["req", w, h, qt] =>
    let c := pick s w
    (s, showV (filterRequest c (host! h) (nat! qt)) ++ (if ambigCfg c (host! h) then " ambig" else ""))
  | ["resp", w, answers] => (s, showV (filterResponse (pick s w) (parseAns answers)))
  | ["mw", h, qt] =>
    let e : Env := { sw := s.sw, prof := s.prof, grp := s.grp, mode := s.mode, ttl := s.ttl,
                     upstream := upstreamOf s }
    let amb := match selectFilter s.sw s.prof s.grp with
      | some c => ambigCfg c (host! h)
      | none => false
    (s, showMsg (serve e (host! h) (nat! qt)) ++ (if amb then " ambig" else ""))
  | _ => (s, "bad-op")

def main : IO Unit := loop step {}

end Agd.Driver.C02
