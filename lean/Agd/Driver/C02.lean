import Agd.Model.Filter
import Agd.Driver.Util
/-! Line-protocol driver for the C02 model (rule precedence, response filtering, blocked shape). -/
namespace Agd.Driver.C02
open Agd.Filter Agd.Driver

structure S where
  lists : List (String × List Rule) := []
  sb : HashFilter := { hosts := [], repl := [] }
  ad : HashFilter := { hosts := [], repl := [] }
  nr : HashFilter := { hosts := [], repl := [] }
  profP : PCfg := {}
  grpP : PCfg := { isClient := false }
  sw : Switches := { hasProfile := true, profOn := true, devOn := true }
  mode : Option Mode := some .nullIP
  ttl : Int := 10000000000
  now : Int := 0
  zones : List (String × Zone) := []
  srvMode : Mode := .nullIP
  srvTtl : Nat := 10
  ups : List ((Host × QType) × Msg) := []
  /-- production wiring: environment switches, block hosts (once given, the storage is the one the
  builder creates), filtering groups and server groups, `filters.response_ttl` in nanoseconds -/
  envSw : EnvSw := {}
  blockHosts : Option (String × String) := none
  wiring : Wiring := {}
  respTtl : Int := 10000000000

/-- The labels of a name in its wire spelling (letter case kept; the text may end in the root dot). -/
def labels (s : String) : Host :=
  if s == "-" || s == "" || s == "." then [] else
    ((if s.endsWith "." then (s.dropEnd 1).toString else s)).splitOn "."

/-- `agdnet.NormalizeDomain`: the model's case folding of the labels. -/
def host! (s : String) : Host := normName (labels s)
def showHost (h : Host) : String := if h.isEmpty then "-" else ".".intercalate h
def csv (s : String) : List String := if s == "-" || s == "" then [] else s.splitOn ","

def parseSel (s : String) : TypeSel :=
  if s.startsWith "=" then .only (nat! (s.drop 1).toString)
  else if s.startsWith "~" then .except (nat! (s.drop 1).toString)
  else .any

def parseRule (tok : String) : Option Rule :=
  match tok.splitOn "|" with
  | ["b", d, t] => some (.net (host! d) false (parseSel t))
  | ["a", d, t] => some (.net (host! d) true (parseSel t))
  | ["r4", d, v] => some (.rewrite (host! d) (.ip4 v))
  | ["r6", d, v] => some (.rewrite (host! d) (.ip6 v))
  | ["rc", d, t] => some (.rewrite (host! d) (.cname (host! t)))
  | ["rr", d, n] => some (.rewrite (host! d) (.rcode (nat! n)))
  | ["ro", d, t, v] => some (.rewrite (host! d) (.other (nat! t) v))
  | ["h4", d] => some (.hosts false (host! d))
  | ["h6", d] => some (.hosts true (host! d))
  | _ => none

def showId : ListId → String
  | .custom => "custom"
  | .shared n => s!"l{n}"
  | .svc n => s!"s{n}"
  | .safeBrowsing => "sb"
  | .adult => "adult"
  | .genSS => "gss"
  | .ytSS => "yss"
  | .newReg => "nrd"

def showRR (r : RR) : String :=
  s!"{r.typ}:{if r.up then "^" else showHost r.name}:{r.val}:{r.ttl}:{if r.up then "u" else "s"}"

def showMsg (m : Msg) : String :=
  let a := if m.ans.isEmpty then "-" else ",".intercalate (m.ans.map showRR)
  let soa := match m.soa with | some t => toString t | none => "-"
  s!"{m.rcode} {a} {soa} {m.upNs} {m.upExtra}"

/-- A verdict as text; a safety filter's synthesised answer is shown as the message it stands for
under the message constructor `(m, ttl)` of the request. -/
def showV (m : Mode) (ttl : Nat) (host : Host) (qt : QType) : Verdict → String
  | .none => "none"
  | .allowed l => s!"allow {showId l}"
  | .blocked l => s!"block {showId l}"
  | .modReq l t => s!"modreq {showId l} {showHost t}"
  | .modResp l rc vals => s!"modresp {showId l} {rc} {if vals.isEmpty then "-" else ",".intercalate vals}"
  | .hashResp l v4 ip => s!"modmsg {showId l} {showMsg (hashRespMsg m ttl host qt v4 ip)}"

/-- What a debug answer reports: stage, state, list. -/
def showReported (r : Bool × Verdict) : String :=
  let stage := if r.1 then "req" else "resp"
  match r.2 with
  | .none => s!"{stage} normal -"
  | .allowed l => s!"{stage} allowed {showId l}"
  | .blocked l => s!"{stage} blocked {showId l}"
  | .modReq l _ => s!"{stage} modified {showId l}"
  | .modResp l _ _ => s!"{stage} modified {showId l}"
  | .hashResp l _ _ => s!"{stage} modified {showId l}"

def lookupList (s : S) (name : String) : List Rule := (s.lists.lookup name).getD []

def idx (name : String) : Nat := nat! (name.drop 1).toString

def isIdxName (pre : Char) (name : String) : Bool :=
  name.length > 1 && name.front == pre && (name.drop 1).toString.all Char.isDigit

def isIPText (s : String) : Option (Bool × String) :=
  if s.contains ':' then some (false, s)
  else if s.all (fun ch => ch.isDigit || ch == '.') then some (true, s)
  else none

def baseStorage (s : S) : Storage :=
  { lists := s.lists.filterMap fun p => if isIdxName 'l' p.1 then some (idx p.1, p.2) else none
    svcs := s.lists.filterMap fun p => if isIdxName 's' p.1 then some (idx p.1, p.2) else none
    sb := s.sb, adult := s.ad, newReg := s.nr
    genSS := lookupList s "g", ytSS := lookupList s "y", now := s.now }

def storageOf (s : S) : Storage :=
  match s.blockHosts with
  | some (sbH, adH) => builtStorage s.envSw (host! sbH, isIPText sbH) (host! adH, isIPText adH) (baseStorage s)
  | none => baseStorage s

def serverOf (s : S) : Server := { st := storageOf s, mode := s.srvMode, ttl := s.srvTtl, grp := s.grpP }

def profileOf (s : S) : Profile :=
  { conf := s.profP, mode := s.mode, ttl := s.ttl, filteringOn := s.sw.profOn, devFilteringOn := s.sw.devOn }

def whoOf (s : S) : Option Profile := if s.sw.hasProfile then some (profileOf s) else none

/-- Distinct early-exit candidates (CNAME / rcode rewrites) among the matching rewrites of one list.
More than one means the result depends on the order in which the engine returns the matches, which
urlfilter does not specify. -/
def candidates (rs : List Rule) (host : Host) : List Rewrite :=
  ((rewriteHits rs host).filter fun
    | .cname _ => true
    | .rcode _ => true
    | _ => false).eraseDups

/-- The list as the engine may present it: one variant per candidate, with that candidate first (the
model reads the matches in source order, so this makes it the deciding early exit). -/
def listVariants (rs : List Rule) (host : Host) : List (List Rule) :=
  let cs := candidates rs host
  if cs.length > 1 then cs.map fun t => Rule.rewrite host t :: rs else [rs]

def optVariants (o : Option (List Rule)) (host : Host) : List (Option (List Rule)) :=
  match o with
  | some rs => (listVariants rs host).map some
  | none => [none]

def listsVariants (host : Host) : List (Nat × List Rule) → List (List (Nat × List Rule))
  | [] => [[]]
  | (i, rs) :: rest =>
    (listVariants rs host).flatMap fun v => (listsVariants host rest).map fun tl => (i, v) :: tl

/-- Every configuration the engine's match order can make of `c` for this name. -/
def cfgVariants (c : Cfg) (host : Host) : List Cfg :=
  (optVariants c.custom host).flatMap fun cu =>
  (listsVariants host c.lists).flatMap fun ls =>
  (optVariants c.genSS host).flatMap fun g =>
  (optVariants c.ytSS host).map fun y =>
    { c with custom := cu, lists := ls, genSS := g, ytSS := y }

/-- One answer, or all admissible ones when the match order matters. -/
def showAlts (xs : List String) : String :=
  match xs.eraseDups with
  | [x] => x
  | ys => "ambig " ++ " || ".intercalate ys

def parseIPs (s : String) : List (Bool × String) :=
  (csv s).map fun v => (!(v.contains ':'), v)

def parseMode (m v4 v6 : String) : Mode :=
  match m with
  | "null" => .nullIP
  | "nx" => .nxdomain
  | "ref" => .refused
  | _ => .customIP (parseIPs v4) (parseIPs v6)

/-- `none` = a nil blocking mode. -/
def parseModeOpt (m v4 v6 : String) : Option Mode :=
  if m == "none" then none else some (parseMode m v4 v6)

def semi (s : String) : List String := if s == "-" || s == "" then [] else s.splitOn ";"

/-- `name;wd:start-stop;…` (weekday 0 = Sunday, minutes); `-` = no schedule. -/
def parseSched (zones : List (String × Zone)) (tok : String) : Option Sched :=
  match semi tok with
  | [] => none
  | zn :: ivs =>
    let tbl : List (Nat × DayIv) := ivs.filterMap fun iv =>
      match iv.splitOn ":" with
      | [wd, r] =>
        match r.splitOn "-" with
        | [a, b] => some (nat! wd, { start := nat! a, stop := nat! b })
        | _ => none
      | _ => none
    some { week := (List.range 7).map fun d => tbl.lookup d, zone := (zones.lookup zn).getD {} }

/-- `start:stop:off,…` -/
def parsePeriods (tok : String) : List Period :=
  (csv tok).filterMap fun p =>
    match p.splitOn ":" with
    | [a, b, o] => some { start := int! a, stop := int! b, off := int! o }
    | _ => none

def parseRRs (name : Host) (s : String) : List RR :=
  (csv s).filterMap fun tok =>
    match tok.splitOn "/" with
    | ["5", v, ttl] =>
      -- a CNAME: shown lower-case (as the harness renders it), filtered by its wire spelling
      some { name := name, typ := 5, val := showHost (host! v), ttl := nat! ttl, up := true, target := labels v }
    | [t, v, ttl] => some { name := name, typ := nat! t, val := v, ttl := nat! ttl, up := true }
    | [t, v, ttl, hints] =>
      some { name := name, typ := nat! t, val := v, ttl := nat! ttl, up := true, hints := (semi hints).map host! }
    | _ => none

/-- The answer records of a `resp` line, read the way the code reads them (`ansOf`): the target of a
CNAME comes in its wire spelling. -/
def parseAns (s : String) : List Ans :=
  (csv s).map fun tok =>
    match tok.splitOn "/" with
    | ["1", v] => .a (host! v)
    | ["28", v] => .aaaa (host! v)
    | ["5", v] => ansOf { name := [], typ := 5, val := "", ttl := 0, up := true, target := labels v }
    | ["65", hints] => .https ((semi hints).map host!)
    | _ => .other

def upstreamOf (s : S) (h : Host) (qt : QType) : Msg :=
  (s.ups.lookup (h, qt)).getD { rcode := 0, ans := [], soa := none }

/-- The composite filter and message constructor a `req`/`resp` line refers to: `p` = the profile's
configuration with the profile's constructor, `g` = the group's with the server's. -/
def pick (s : S) (w : String) : Cfg × Mode × Nat :=
  if w == "p" then (assemble (storageOf s) s.profP, ctorOf (serverOf s) (some (profileOf s)))
  else (assemble (storageOf s) s.grpP, s.srvMode, s.srvTtl)

/-- One custom-IP bytes field of the backend message: `-` = empty, otherwise the address. -/
def parsePbIP (v : String) : Option (Bool × String) :=
  if v == "-" || v == "" then none else some (!(v.contains ':'), v)

/-- `zone;wd:startNs~endNs;…` (weekday 0 = Sunday, nanoseconds since local midnight). -/
def parsePbSched (zones : List (String × Zone)) (tok : String) : Option PbSchedule :=
  match semi tok with
  | [] => none
  | zn :: ivs =>
    let tbl : List (Nat × PbDayRange) := ivs.filterMap fun iv =>
      match iv.splitOn ":" with
      | [wd, r] =>
        match r.splitOn "~" with
        | [a, b] => some (nat! wd, { startNs := int! a, endNs := int! b })
        | _ => none
      | _ => none
    some { zone := (zones.lookup zn).getD {}, days := (List.range 7).map fun d => tbl.lookup d }

def step (s : S) : List String → S × String
  | ["reset"] => ({}, "ok")
  | "list" :: name :: toks =>
    ({ s with lists := (name, toks.filterMap parseRule) :: s.lists.filter (·.1 != name) }, "ok")
  | ["hp", which, repl, hosts] =>
    let f : HashFilter := { hosts := (csv hosts).map host!, repl := host! repl, replIP := isIPText repl }
    (match which with
     | "sb" => { s with sb := f }
     | "ad" => { s with ad := f }
     | _ => { s with nr := f }, "ok")
  | ["pcfg", w, isClient, custOn, custom, pOn, paused, ad, g, y, svcs, rlOn, lists, sbOn, dang, nr] =>
    let c : PCfg :=
      { isClient := bool! isClient, customOn := bool! custOn
        customRules := if custom == "-" then [] else lookupList s custom
        parentalOn := bool! pOn, pause := parseSched s.zones paused, adultOn := bool! ad, gssOn := bool! g, yssOn := bool! y
        svcIds := (csv svcs).map idx, ruleListOn := bool! rlOn, listIds := (csv lists).map idx
        sbOn := bool! sbOn, dangerousOn := bool! dang, nrdOn := bool! nr }
    (if w == "p" then { s with profP := c } else { s with grpP := c }, "ok")
  | ["sw", a, b, c] => ({ s with sw := { hasProfile := bool! a, profOn := bool! b, devOn := bool! c } }, "ok")
  | ["mode", m, ttl, v4, v6] =>
    -- the TTL is a duration in milliseconds (may be negative)
    ({ s with mode := parseModeOpt m v4 v6, ttl := int! ttl * 1000000 }, "ok")
  | ["now", t] => ({ s with now := int! t }, "ok")
  | ["zone", name, base, periods] =>
    ({ s with zones := (name, { periods := parsePeriods periods, base := int! base }) :: s.zones.filter (·.1 != name) }, "ok")
  | ["srv", m, ttl, v4, v6] =>
    ({ s with srvMode := parseMode m v4 v6, srvTtl := durSecs (int! ttl * 1000000) }, "ok")
  | ["up", h, qt, rc, rrs, ns, ex] =>
    let k := (host! h, nat! qt)
    let m : Msg := { rcode := nat! rc, ans := parseRRs (host! h) rrs, soa := none, upNs := nat! ns, upExtra := nat! ex }
    ({ s with ups := (k, m) :: s.ups.filter (·.1 != k) }, "ok")
  | ["req", w, h, qt] =>
    let (c, m, t) := pick s w
    (s, showAlts ((cfgVariants c (host! h)).map fun c' => showV m t (host! h) (nat! qt) (filterRequest c' (host! h) (nat! qt))))
  | ["resp", w, answers] =>
    let (c, m, t) := pick s w
    (s, showV m t [] 0 (filterResponse c (parseAns answers)))
  | ["sched", tok, t] =>
    (s, match parseSched s.zones tok with
        | some sc => showB (sc.contains (int! t))
        | none => "none")
  | ["mw", h, qt] =>
    let e := envOf (serverOf s) (whoOf s) (upstreamOf s)
    let envs : List Env :=
      if e.sw.hasProfile then (cfgVariants e.prof (host! h)).map fun c' => { e with prof := c' }
      else (cfgVariants e.grp (host! h)).map fun c' => { e with grp := c' }
    (s, showAlts (envs.map fun e' => showMsg (serve e' (host! h) (nat! qt))))
  | ["dbg", h, qt] =>
    let e := envOf (serverOf s) (whoOf s) (upstreamOf s)
    let envs : List Env :=
      if e.sw.hasProfile then (cfgVariants e.prof (host! h)).map fun c' => { e with prof := c' }
      else (cfgVariants e.grp (host! h)).map fun c' => { e with grp := c' }
    (s, showAlts (envs.map fun e' =>
      showMsg (serveDebug e' (host! h) (nat! qt)) ++ " | " ++ showReported (reportedVerdict e' (host! h) (nat! qt))))
  | ["env", a, b, c, d, e, f] =>
    ({ s with envSw := { adult := bool! a, sb := bool! b, nrd := bool! c, svc := bool! d, gss := bool! e, yss := bool! f } }, "ok")
  | ["bhost", sbH, adH] => ({ s with blockHosts := some (sbH, adH) }, "ok")
  | ["rttl", ms] => ({ s with respTtl := int! ms * 1000000 }, "ok")
  | ["ygrp", id, rlOn, ids, pOn, ad, g, y, sbOn, dang, nr] =>
    let yg : GroupYaml :=
      { rlEnabled := bool! rlOn, rlIds := (csv ids).map idx, parEnabled := bool! pOn, blockAdult := bool! ad
        generalSafeSearch := bool! g, youtubeSafeSearch := bool! y, sbEnabled := bool! sbOn
        blockDangerous := bool! dang, blockNewlyRegistered := bool! nr }
    ({ s with wiring := { s.wiring with groups := (id, yg) :: s.wiring.groups.filter (·.1 != id) } }, "ok")
  | ["sgrp", sg, id] =>
    ({ s with wiring := { s.wiring with serverGroups := (sg, id) :: s.wiring.serverGroups.filter (·.1 != sg) } }, "ok")
  | ["usegrp", sg] =>
    (match s.wiring.server (storageOf s) s.respTtl sg with
     | some srv => ({ s with grpP := srv.grp, srvMode := srv.mode, srvTtl := srv.ttl }, "ok")
     | none => (s, "no-group"))
  | ["mwf", kind, h, qt] =>
    let e := envOf (serverOf s) (whoOf s) (upstreamOf s)
    let up : Host → QType → Option Msg := if kind == "uperr" then fun _ _ => none else fun a b => some (upstreamOf s a b)
    (s, match serveFaulty e (kind == "cancel") up (host! h) (nat! qt) with
        | none => "nothing"
        | some m => showMsg m)
  | ["pbprof", fe, custom, parNil, pOn, ad, g, y, svcs, sched, rlNil, rlOn, lists, sbNil, sbOn, dang, nr, mode, v4, v6, ttlNil, ttl] =>
    -- the profile as the backend sends it, through the model of `DNSProfile.toInternal`
    let x : PbProfile :=
      { filteringEnabled := bool! fe
        customRules := if custom == "-" then [] else lookupList s custom
        parental := if bool! parNil then none else some
          { enabled := bool! pOn, blockAdult := bool! ad, generalSafeSearch := bool! g, youtubeSafeSearch := bool! y
            blockedServices := (csv svcs).map idx, schedule := parsePbSched s.zones sched }
        ruleLists := if bool! rlNil then none else some { enabled := bool! rlOn, ids := (csv lists).map idx }
        safeBrowsing := if bool! sbNil then none else some { enabled := bool! sbOn, blockDangerous := bool! dang, blockNrd := bool! nr }
        mode := match mode with
          | "unset" => .unset
          | "null" => .nullIP
          | "nx" => .nxdomain
          | "ref" => .refused
          | _ => .customIP (parsePbIP v4) (parsePbIP v6)
        ttl := if bool! ttlNil then none else some (int! ttl * 1000000) }
    (match x.toProfile true with
     | some p => ({ s with profP := p.conf, mode := p.mode, ttl := p.ttl }, "ok " ++ (if p.filteringOn then "1" else "0"))
     | none => (s, "rejected"))
  | ["pbiv", a, b] =>
    -- one day range of a backend schedule: the interval `DNSProfile.toInternal` stores, or rejected
    (s, match (PbDayRange.toIv { startNs := int! a, endNs := int! b }) with
        | some iv => s!"{iv.start}-{iv.stop}"
        | none => "rejected")
  | ["special", a, b, c, h, qt] =>
    let e := envOf (serverOf s) (whoOf s) (upstreamOf s)
    (s, showMsg (serveSpecial { relay := bool! a, prefetch := bool! b, canary := bool! c } e (host! h) (nat! qt)))
  | _ => (s, "bad-op")

def main : IO Unit := loop step {}

end Agd.Driver.C02
