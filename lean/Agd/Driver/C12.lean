import Agd.Model.ResultCache
import Agd.Driver.Util
/-!
Line-protocol driver for the C12 model.

The generic machines of `Agd.ResultCache` are instantiated with the identity hash (`S := Key`), a
small concrete rule engine for the generator's rule grammar, and gcache's LRU policy expressed as
explicit `evict` operations of the model (so every driver step is a sequence of model steps).
-/
namespace Agd.Driver.C12
open Agd.ResultCache Agd.Driver

/-! ### Concrete rule engine for the generator's grammar -/

/-- `kind`: `B` block (`||dom^`), `A` allow (`@@||dom^`), `H` hosts-style (`ip dom`, exact host, requests and answers alike),
`C` block for one client (`||dom^$client=ip`), `T` block type-A requests only
(`||dom^$dnstype=A`), `R` safe-search rewrite (`|dom^$dnsrewrite=…`, exact
host). -/
structure Rule where
  kind : String
  dom : String
  ip : String
  ver : Nat

def isSuffixDom (host dom : String) : Bool :=
  host == dom || host.endsWith ("." ++ dom)

/-- `sub` = 2 * qtype + isAns. -/
def ruleMatches (r : Rule) (k : Key) (client : String) : Bool :=
  match r.kind with
  | "B" => isSuffixDom k.host r.dom
  | "A" => isSuffixDom k.host r.dom
  | "C" => isSuffixDom k.host r.dom && client == r.ip
  | "H" => k.host == r.dom
  | "T" => isSuffixDom k.host r.dom && k.sub == 2
  | "R" => k.host == r.dom
  | _ => false

def engineOf (rules : List Rule) (k : Key) (client : String) : String :=
  match rules.find? (fun r => ruleMatches r k client) with
  | some r => r.kind ++ ":" ++ r.dom ++ ":" ++ toString r.ver
  | none => "none"

def parseRule (ver : Nat) (tok : String) : Rule :=
  match tok.splitOn "|" with
  | [k, d, ip] => { kind := k, dom := d, ip := ip, ver := ver }
  | [k, d] => { kind := k, dom := d, ip := "", ver := ver }
  | _ => { kind := "?", dom := "", ip := "", ver := ver }

/-! ### LRU order (gcache) as a list, most recent first -/

def touch {α : Type} [DecidableEq α] (l : List α) (k : α) : List α := k :: l.erase k

/-- Victim to evict before inserting `k`, if any. -/
def victim {α : Type} [DecidableEq α] (l : List α) (cap : Nat) (k : α) : Option α :=
  if l.contains k then none else if l.length ≥ cap then l.getLast? else none

/-! ### Driver state -/

structure S where
  rl : RL Key String String := { engine := fun _ _ => "none", cache := Tbl.empty, enabled := false }
  rlLru : List Key := []
  rlCap : Nat := 1
  hp : HP Key := HP.init
  hpRep : Rep := .host
  hpHits : List (Nat × Res) := []
  cu : CU := Tbl.empty
  cuLru : List String := []
  cuCap : Nat := 1
  /-- the storage: one filter per list identifier (`Store`), with gcache's LRU order per list -/
  st : List (String × RL Key String String) := []
  stLru : List (String × List Key) := []
  stCap : Nat := 1
  /-- the synchronisation pipeline; its custom-filter cache is `cu` (with `cuLru`, `cuCap`) -/
  sy : Sync := Sync.init

/-- `hashableSubdomains` for hosts under a one-label ICANN suffix: the last four labels, then every
label suffix with at least two labels. -/
def suffixes : List String → List (List String)
  | [] => []
  | l :: ls => (l :: ls) :: suffixes ls

def subsOf (host : String) : List String :=
  let labels := host.splitOn "."
  let labels := labels.drop (labels.length - 4)
  ((suffixes labels).filter (fun ls => ls.length ≥ 2)).map (fun ls => ".".intercalate ls)

def parseMode : String → Mode
  | "nx" => .nxdomain
  | "ref" => .refused
  | "null" => .nullIP
  | "c4" => .customIP true false
  | "c6" => .customIP false true
  | "c46" => .customIP true true
  | _ => .customIP false false

def parseQT : String → QT
  | "1" => .a
  | "28" => .aaaa
  | "65" => .https
  | _ => .other

def parseRep : String → Rep
  | "ip4" => .ip4
  | "ip6" => .ip6
  | _ => .host

def showRes : Res → String
  | .none => "none"
  | .modReq rule => "modreq " ++ rule
  | .modResp rule rcode ans ttl soa ede =>
    "modresp " ++ rule ++ " rcode=" ++ toString rcode ++ " ans=" ++ toString ans ++ " ttl=" ++ toString ttl ++
      " soa=" ++ showB soa ++ " ede=" ++ showB ede

def parseReq (mode ttl ede edns qt : String) : Req :=
  { mode := parseMode mode, ttl := nat! ttl, ede := bool! ede, edns := bool! edns, qt := parseQT qt }

def hpStep (s : S) (op : HOp Key) : S × Option Res :=
  let r := s.hp.step true subsOf s.hpRep id op
  ({ s with hp := r.1 }, r.2)

/-- A rule-list query with gcache's LRU order: `Get` refreshes recency, `Set` evicts the least
recently used entry when full. -/
def rlQuery (s : S) (k : Key) (client : String) : S × String :=
  if !s.rl.enabled then
    let r := s.rl.step id (.query k client)
    ({ s with rl := r.1 }, r.2.getD "?")
  else
    match s.rl.lookup id k with
    | some _ =>
      let r := s.rl.step id (.query k client)
      ({ s with rl := r.1, rlLru := touch s.rlLru k }, r.2.getD "?")
    | none =>
      let v := victim s.rlLru s.rlCap k
      let rl1 := match v with
        | some old => (s.rl.step id (.evict old)).1
        | none => s.rl
      let lru1 := match v with
        | some old => s.rlLru.erase old
        | none => s.rlLru
      let r := rl1.step id (.query k client)
      ({ s with rl := r.1, rlLru := touch lru1 k }, r.2.getD "?")

/-- The component of the storage for list `l` (`Store` is a function of the list identifier; the
driver keeps the components it has touched in an association list, evaluated eagerly). -/
def stGet (s : S) (l : String) : RL Key String String :=
  (s.st.lookup l).getD { engine := fun _ _ => "none", cache := Tbl.empty, enabled := true }

def stSet (s : S) (l : String) (x : RL Key String String) : List (String × RL Key String String) :=
  (l, x) :: s.st.filter (fun p => p.1 != l)

/-- The same for one list of the storage: `Store.step` changes the component of the addressed list
by `RL.step` and nothing else, so every driver step is a sequence of `Store.step`s for list `l`. -/
def stQuery (s : S) (l : String) (k : Key) (client : String) : S × String :=
  let lru := (s.stLru.lookup l).getD []
  let setLru (x : List Key) : List (String × List Key) := (l, x) :: s.stLru.filter (fun p => p.1 != l)
  let rl := stGet s l
  match rl.lookup id k with
  | some _ =>
    let r := rl.step id (.query k client)
    ({ s with st := stSet s l r.1, stLru := setLru (touch lru k) }, r.2.getD "?")
  | none =>
    let v := victim lru s.stCap k
    let rl1 := match v with
      | some old => (rl.step id (.evict old)).1
      | none => rl
    let lru1 := match v with
      | some old => lru.erase old
      | none => lru
    let r := rl1.step id (.query k client)
    ({ s with st := stSet s l r.1, stLru := setLru (touch lru1 k) }, r.2.getD "?")

def cuGet (s : S) (c : Conf) : S × Option (List String) :=
  if !c.enabled || c.rules.isEmpty then (s, none)
  else
    -- `cache.Get` refreshes recency even when the item turns out to be stale.
    let present := (s.cu c.id).isSome
    let fresh := match s.cu c.id with
      | some it => it.upd == c.upd
      | none => false
    if fresh then
      let r := s.cu.step (.get c)
      ({ s with cu := r.1, cuLru := touch s.cuLru c.id }, r.2)
    else
      let v := if present then none else victim s.cuLru s.cuCap c.id
      let cu1 := match v with
        | some old => (s.cu.step (.evict old)).1
        | none => s.cu
      let lru1 := match v with
        | some old => s.cuLru.erase old
        | none => s.cuLru
      let r := cu1.step (.get c)
      ({ s with cu := r.1, cuLru := touch lru1 c.id }, r.2)

/-- The token of the first rule (`dom#ver`) that blocks `host`. -/
def cuTok (o : Option (List String)) (host : String) : String :=
  match o with
  | none => "none"
  | some rules =>
    match rules.find? (fun r => isSuffixDom host ((r.splitOn "#").headD "")) with
    | some r => "B:" ++ (r.splitOn "#").headD "" ++ ":" ++ ((r.splitOn "#").getD 1 "")
    | none => "none"

/-- One step of the pipeline that does not touch the custom-filter cache. -/
def syStep (s : S) (op : YOp) : S := { s with sy := ({ s.sy with cache := s.cu }.step stampNow op).1 }

def step (s : S) : List String → S × String
  | ["rl", "new", enabled, cap] =>
    ({ s with rl := { engine := fun _ _ => "none", cache := Tbl.empty, enabled := bool! enabled },
              rlLru := [], rlCap := nat! cap }, "ok")
  | "rl" :: "refresh" :: ver :: rules =>
    let rs := rules.map (parseRule (nat! ver))
    ({ s with rl := (s.rl.step id (.refresh (engineOf rs))).1, rlLru := [] }, "ok")
  | ["rl", "q", client, host, sub] => rlQuery s ⟨host, nat! sub⟩ client
  | ["ss", "q", client, host, qt] =>
    -- `safesearch.Filter.FilterRequest` (`RL.ssStep`): questions that do not pass the gate never
    -- reach the rule list or its cache.
    if ssGate (nat! qt) then rlQuery s ⟨host, 2 * nat! qt⟩ client else (s, "none")
  | ["st", "new", cap] =>
    ({ s with st := [], stLru := [], stCap := nat! cap }, "ok")
  | "st" :: "refresh" :: l :: ver :: rules =>
    let rs := rules.map (parseRule (nat! ver))
    ({ s with st := stSet s l ((stGet s l).step id (.refresh (engineOf rs))).1,
              stLru := s.stLru.filter (fun p => p.1 != l) }, "ok")
  | ["st", "q", l, client, host, sub] => stQuery s l ⟨host, nat! sub⟩ client
  | ["st", "ssq", l, client, host, qt] =>
    if ssGate (nat! qt) then stQuery s l ⟨host, 2 * nat! qt⟩ client else (s, "none")
  | ["hp", "new", rep] => ({ s with hp := HP.init, hpRep := parseRep rep, hpHits := [] }, "ok")
  | "hp" :: "refresh" :: hosts =>
    let s1 := (hpStep s (.store hosts)).1
    ((hpStep s1 .clear).1, "ok")
  | ["hp", "q", mode, ttl, ede, edns, qt, sub, host] =>
    let r := s.hp.query true subsOf s.hpRep id ⟨host, nat! sub⟩ (parseReq mode ttl ede edns qt)
    ({ s with hp := r.1 }, showRes r.2)
  | ["hp", "begin", tid, mode, ttl, ede, edns, qt, sub, host] =>
    let t := nat! tid
    let pausable := fun (res : Res) => s.hpRep == .host && res != .none
    let (s1, o1) := hpStep s (.begin t ⟨host, nat! sub⟩ (parseReq mode ttl ede edns qt))
    match o1 with
    | some res =>
      if pausable res then ({ s1 with hpHits := (t, res) :: s1.hpHits }, "paused") else (s1, showRes res)
    | none =>
      let (s2, _) := hpStep s1 (.mtch t)
      let m := ((findThread s2.hp.threads t).bind (·.matched)).getD ""
      if s.hpRep == .host && m != "" then (s2, "paused")
      else
        let (s3, o3) := hpStep s2 (.finish t)
        (s3, showRes (o3.getD .none))
  | ["hp", "finish", tid] =>
    let t := nat! tid
    match s.hpHits.find? (fun p => p.1 == t) with
    | some p => ({ s with hpHits := s.hpHits.filter (fun q => q.1 != t) }, showRes p.2)
    | none =>
      let (s1, o) := hpStep s (.finish t)
      (s1, match o with | some res => showRes res | none => "no-thread")
  | ["cu", "new", cap] => ({ s with cu := Tbl.empty, cuLru := [], cuCap := nat! cap }, "ok")
  | "cu" :: "q" :: id :: upd :: enabled :: ver :: host :: doms =>
    let c : Conf := { id := id, upd := int! upd, rules := doms.map (fun d => d ++ "#" ++ ver),
                      enabled := bool! enabled }
    let (s1, o) := cuGet s c
    let out := match o with
      | none => "none"
      | some rules =>
        match rules.find? (fun r => isSuffixDom host ((r.splitOn "#").headD "")) with
        | some r => "B:" ++ (r.splitOn "#").headD "" ++ ":" ++ ((r.splitOn "#").getD 1 "")
        | none => "none"
    (s1, out)
  | ["sy", "new", cap] => ({ s with cu := Tbl.empty, cuLru := [], cuCap := nat! cap, sy := Sync.init }, "ok")
  | "sy" :: "change" :: id :: ver :: dt :: doms =>
    (syStep s (.change id (doms.map (fun d => d ++ "#" ++ ver)) (nat! dt)), "ok")
  | ["sy", "sync", full, dt] => (syStep s (.sync (bool! full) (nat! dt)), "ok")
  | ["sy", "fail"] => (s, "ok")
  | ["sy", "restart", back] => ({ (syStep s (.restart (nat! back))) with cu := Tbl.empty, cuLru := [] }, "ok")
  | ["sy", "q", id, host] =>
    -- `Sync.step (.query id)` with gcache's LRU order for the custom-filter cache.
    match s.sy.db id with
    | some c =>
      let (s1, o) := cuGet s c
      (s1, cuTok o host)
    | none => (s, "no-profile")
  | _ => (s, "bad-op")

def main : IO Unit := loop step {}

end Agd.Driver.C12
