import Agd.Model.Pools
import Agd.Driver.Util
/-! Line-protocol driver for the C07 model (cloner pools as an ownership model).

Ops (numbers separated by blanks):
* `reset`
* `new d span k off cap n v1..vn k off cap n v1..vn …` — a foreign message
* `clone src dst`, `dispose h`, `make d usePool k v1..vn`, `poke h i j v`

Answer: `<recycle flags> <alias> <dump>` where the dump lists, for every live handle `< 8`, the kinds and
values of its objects as read through the heap. -/
namespace Agd.Driver.C07
open Agd.Pools Agd.Driver

def nHandles : Nat := 8

def parseSpecs : Nat → List String → List Spec
  | 0, _ => []
  | fuel + 1, k :: off :: cap :: n :: r =>
    let cnt := nat! n
    { kind := nat! k, off := nat! off, cap := nat! cap, vals := (r.take cnt).map nat! } ::
      parseSpecs fuel (r.drop cnt)
  | _, _ => []

def showObj (h : Heap) (o : Obj) : String :=
  toString o.kind ++ ":" ++ ",".intercalate ((content h o).map toString)

def dump (s : St) : String :=
  ";".intercalate ((List.range nHandles).filterMap (fun h =>
    match s.live h with
    | none => none
    | some m => some (toString h ++ "=" ++ "/".intercalate (m.map (showObj s.heap)))))

def flags (fs : List Bool) : String :=
  if fs.isEmpty then "-" else String.ofList (fs.map (fun b => if b then 'R' else 'F'))

def answer (s : St) (fs : List Bool) : St × String :=
  (s, flags fs ++ " " ++ showB (anyAlias s nHandles) ++ " " ++ dump s)

def step (s : St) : List String → St × String
  | ["reset"] => (St.init, "ok")
  | "new" :: d :: span :: rest =>
    answer (newMsg s (nat! d) (nat! span) (parseSpecs rest.length rest)) []
  | ["clone", a, b] =>
    let r := clone s (nat! a) (nat! b)
    answer r.1 r.2
  | ["dispose", h] => answer (dispose s (nat! h)) []
  | "make" :: d :: u :: k :: vs =>
    let r := make s (nat! d) (bool! u) (nat! k) (vs.map nat!)
    answer r.1 [r.2]
  | ["poke", h, i, j, v] => answer (poke s (nat! h) (nat! i) (nat! j) (nat! v)) []
  | _ => (s, "bad-op")

def main : IO Unit := loop step St.init

end Agd.Driver.C07
