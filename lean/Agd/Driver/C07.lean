import Agd.Model.Pools
import Agd.Model.PoolCtx
import Agd.Driver.Util
/-! Line-protocol driver for the C07 model (cloner pools as an ownership model).

Ops (numbers separated by blanks):
* `reset`
* `new d span k off cap n v1..vn k off cap n v1..vn …` — a foreign message
* `clone src dst`, `dispose h`, `make d usePool k v1..vn`, `poke h i j v`
* `grow h i v c` — append `v` to the slice that is object `i` of `h` (new capacity `c` if it has to move)
* `ins d pos usePool k v1..vn` — a new object at position `pos` of `d`

* `q <op>` — the same op, answered with `<recycle flags> q` only (steps that take several lines)

Answer: `<recycle flags> <alias><capalias> <dump>` where the dump lists, for every live handle `< 8`, the kinds and
values of its objects as read through the heap.

The pooled request contexts (`Model/PoolCtx.lean`; a state of its own next to the cloner's):
* `creset`
* `cget r k` — request `r` takes a context out of the pool (`k`: which one); answer: `new` or `recycled`
* `cset r f v` — plain fill; `cfill r f ok v hasDflt d` — a fill with an error branch (`BFill`)
* `cread r f1 f2 …` — answer: the values read, blank-separated (`-` if `r` holds nothing)
* `cput r` -/
namespace Agd.Driver.C07
open Agd.Pools Agd.Driver

def nHandles : Nat := 8

def parseSpecs : Nat → List String → List Spec
  | 0, _ => []
  | fuel + 1, k :: off :: cap :: n :: r =>
    let cnt := nat! n
    { kind := nat! k, off := nat! off, cap := nat! cap, vals := (r.take cnt).map nat! } ::
      parseSpecs fuel (r.drop cnt)
  | _, _ => []

def showObj (h : Heap) (o : Obj) : String :=
  toString o.kind ++ ":" ++ ",".intercalate ((content h o).map toString)

def dump (s : St) : String :=
  ";".intercalate ((List.range nHandles).filterMap (fun h =>
    match s.live h with
    | none => none
    | some m => some (toString h ++ "=" ++ "/".intercalate (m.map (showObj s.heap)))))

def flags (fs : List Bool) : String :=
  if fs.isEmpty then "-" else String.ofList (fs.map (fun b => if b then 'R' else 'F'))

def answer (s : St) (fs : List Bool) : St × String :=
  (s, flags fs ++ " " ++ showB (anyAlias s nHandles) ++ showB (anyCapAlias s nHandles) ++ " " ++ dump s)

/-- Execute one op: the new state and the recycle flags; `none` for an unknown op. -/
def exec (s : St) : List String → Option (St × List Bool)
  | "new" :: d :: span :: rest => some (newMsg s (nat! d) (nat! span) (parseSpecs rest.length rest), [])
  | ["clone", a, b] => some (clone s (nat! a) (nat! b))
  | ["dispose", h] => some (dispose s (nat! h), [])
  | "make" :: d :: u :: k :: vs =>
    let r := make s (nat! d) (bool! u) (nat! k) (vs.map nat!)
    some (r.1, [r.2])
  | ["poke", h, i, j, v] => some (poke s (nat! h) (nat! i) (nat! j) (nat! v), [])
  | ["grow", h, i, v, c] => some (grow s (nat! h) (nat! i) (nat! v) (nat! c), [])
  | "ins" :: d :: pos :: u :: k :: vs =>
    let r := ins s (nat! d) (nat! pos) (bool! u) (nat! k) (vs.map nat!)
    some (r.1, [r.2])
  | _ => none

def step (s : St) : List String → St × String
  | ["reset"] => (St.init, "ok")
  | "q" :: ws =>
    match exec s ws with
    | some r => (r.1, flags r.2 ++ " q")
    | none => (s, "bad-op")
  | ws =>
    match exec s ws with
    | some r => answer r.1 r.2
    | none => (s, "bad-op")

/-- The ops of the context model; `none`: not one of them. -/
def cstep (c : Agd.PoolCtx.St) : List String → Option (Agd.PoolCtx.St × String)
  | ["creset"] => some (Agd.PoolCtx.St.init, "ok")
  | ["cget", r, k] =>
    let fresh := c.pool.length == 0 || (c.held (nat! r)).isSome
    some (Agd.PoolCtx.step c (.get (nat! r) (nat! k)), if fresh then "new" else "recycled")
  | ["cset", r, f, v] => some (Agd.PoolCtx.step c (.set (nat! r) (nat! f) (nat! v)), "ok")
  | ["cfill", r, f, ok, v, hasD, d] =>
    let b : Agd.PoolCtx.BFill := { f := nat! f, ok := bool! ok, v := nat! v, dflt := if bool! hasD then some (nat! d) else none }
    some (Agd.PoolCtx.run c (b.ops (nat! r)), "ok")
  | "cread" :: r :: fs =>
    let c' := Agd.PoolCtx.step c (.read (nat! r) (fs.map nat!))
    match c.held (nat! r) with
    | none => some (c', "-")
    | some _ => some (c', " ".intercalate (((c'.out (nat! r)).headD []).map toString))
  | ["cput", r] => some (Agd.PoolCtx.step c (.put (nat! r)), "ok")
  | _ => none

def step2 (s : St × Agd.PoolCtx.St) (ws : List String) : (St × Agd.PoolCtx.St) × String :=
  match cstep s.2 ws with
  | some r => ((s.1, r.1), r.2)
  | none => let r := step s.1 ws; ((r.1, s.2), r.2)

def main : IO Unit := loop step2 (St.init, Agd.PoolCtx.St.init)

end Agd.Driver.C07
