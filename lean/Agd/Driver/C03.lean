import Agd.Model.Device
import Agd.Driver.Util
/-!
Line-protocol driver for the C03 model.

Strings travel as `x<hex of the bytes>` (so `x` is the empty string).  Ops:

* `srv <proto> <linked> <profiles>`         new server (group with/without profiles), no binds, no device domains; DB untouched
* `bind a <ip> <port>` / `bind p <ip> <single> <port>`
* `dom <xs>`
* `dbreset`
* `prof <xpid> <deleted> <xdev>*`
* `dev <xid> <enabled> <dohonly> (allow | deny | pw <xs>)`
* `mdev <xid> <b|c> (- | <dohonly> none | <dohonly> pw <xs>)`   a device by its backend message (`-`: no
  `authentication` field; `none`: no password hash) and where the database has it from (`b` backend, `c` cache
  file written from the backend's data): the settings are computed by the model of the converters
* `byid <xid> <res>` · `byhuman <xpid> <xlowerhuman> <res>` · `create <xpid> <xhuman> <dt> <res>` ·
  `bylinked <ip> <res>` · `byded <ip> <res>`  with `<res>` = `ok <xpid> <xdid>` | `dnf…` | `pnf…` | `err`
* `req <userinfo> <xpath> <xsni> <edns> <lip> <lport> <rip>` with `<userinfo>` = `-` | `u:<xs>` |
  `p:<xs>:<xs>` and `<edns>` = `-` (no OPT) | `e` (no options) | `<code>:<xs>,…`

* `http <tls> <xauthorization> <xpath> <edns> <lip> <lport> <rip>` with `<tls>` = `-` (no TLS state) | `<xsni>`:
  the request information is derived by the model of `addRequestInfo` from the raw header

* `wreq <port0><blockedIP><blockedHost> <pblock> <req arguments…>` with `<pblock>` = `-` | `<xpid>` (the profile whose
  access list blocks this request): the request through `Wrap`; answers `drop` or what `req` answers

* `wgroup <profiles> <xwildcard>*` a server group of the configuration file (`profiles_enabled`,
  `tls.device_id_wildcards` as written) · `wsrv <xyamlproto> <linked>` a server of that group with `bind_addresses`
  (given by `bind a` lines after it): protocol, device domains and profile switch are computed by the model of the
  conversion (`srvOfConf`)

`<edns>` may hold several OPT records separated by `|` (the last one counts); both addresses are unmapped
(`::ffff:a.b.c.d` ↦ `a.b.c.d`) before the finder sees them.

`req` and `http` answer `<result> <cont> <downstream>`.
-/
namespace Agd.Driver.C03
open Agd.Device Agd.Driver

def hexVal (c : Char) : Nat :=
  if '0' ≤ c && c ≤ '9' then c.toNat - 48
  else if 'a' ≤ c && c ≤ 'f' then c.toNat - 87
  else if 'A' ≤ c && c ≤ 'F' then c.toNat - 55 else 0

def unhexL : List Char → Str
  | a :: b :: r => Char.ofNat (hexVal a * 16 + hexVal b) :: unhexL r
  | _ => []

/-- Decode `x<hex>`. -/
def unx (s : String) : Str := unhexL (s.toList.drop 1)

def hexDigit (n : Nat) : Char := if n < 10 then Char.ofNat (48 + n) else Char.ofNat (87 + n)

def tox (s : Str) : String :=
  String.ofList ('x' :: s.flatMap (fun c => [hexDigit (c.toNat / 16 % 16), hexDigit (c.toNat % 16)]))

inductive RawRes | ok (pid did : Str) | dnf | pnf | err

structure S where
  srv : Srv := { proto := .dns, linkedIP := false, binds := [], domains := [] }
  profiles : Bool := true
  profs : List Profile := []
  devs : List Device := []
  byid : List (Str × RawRes) := []
  byhuman : List (Str × Str × RawRes) := []
  create : List (Str × Str × Nat × RawRes) := []
  bylinked : List (IP × RawRes) := []
  byded : List (IP × RawRes) := []
  wgroup : GroupConf := { profiles := true, wildcards := [] }

def parseProto : String → Proto
  | "dns" => .dns | "dnscrypt" => .dnscrypt | "doh" => .doh | "doq" => .doq | "dot" => .dot
  | _ => .invalid

def parseRes : List String → RawRes
  | ["ok", p, d] => .ok (unx p) (unx d)
  | [t] => if t.startsWith "dnf" then .dnf else if t.startsWith "pnf" then .pnf else .err
  | _ => .err

def S.resolve (s : S) : Option RawRes → DBRes
  | none => .devNotFound
  | some .dnf => .devNotFound
  | some .pnf => .profNotFound
  | some .err => .error
  | some (.ok pid did) =>
    match s.profs.find? (fun p => p.id = pid), s.devs.find? (fun d => d.id = did) with
    | some p, some d => .found p d
    | _, _ => .error

def S.db (s : S) : DB where
  byDeviceID i := s.resolve ((s.byid.find? (fun e => e.1 = i)).map (·.2))
  byHumanID p h := s.resolve ((s.byhuman.find? (fun e => e.1 = p && e.2.1 = h)).map (·.2.2))
  createAuto p h dt :=
    s.resolve ((s.create.find? (fun e => e.1 = p && e.2.1 = h && e.2.2.1 = dt)).map (·.2.2.2))
  byLinkedIP a := s.resolve ((s.bylinked.find? (fun e => e.1 = a)).map (·.2))
  byDedicatedIP a := s.resolve ((s.byded.find? (fun e => e.1 = a)).map (·.2))

def parseUserinfo (t : String) : Option (Str × Option Str) :=
  match t.splitOn ":" with
  | ["u", u] => some (unx u, none)
  | ["p", u, p] => some (unx u, some (unx p))
  | _ => none

def parseOPT (t : String) : List EOpt :=
  if t == "e" then []
  else (t.splitOn ",").filterMap fun o =>
    match o.splitOn ":" with
    | [c, d] => some { code := nat! c, data := unx d }
    | _ => none

def parseEdns (t : String) : Option (List EOpt) :=
  if t == "-" then none else ednsOfExtra ((t.splitOn "|").map parseOPT)

def parseGate (flags pblock : String) : Gate :=
  let f := flags.toList
  { port0 := f.getD 0 '0' == '1', blockedIP := f.getD 1 '0' == '1', blockedHost := f.getD 2 '0' == '1',
    profBlocks := fun i => pblock != "-" && i = unx pblock }


def showAuthErr : AuthErr → String
  | .notDoH => "notdoh" | .noUserinfo => "nouserinfo" | .noPassword => "nopassword" | .failed => "failed"

def showErrCls : ErrCls → String
  | .basicAuth => "basic" | .urlPath => "path" | .sni => "sni" | .edns => "edns" | .db => "db"

def showResult (r : Result) : String :=
  let head := match r with
    | .none => "none"
    | .ok p d => s!"ok {tox p.id} {tox d.id}"
    | .authFail e => s!"authfail {showAuthErr e}"
    | .error c => s!"error {showErrCls c}"
    | .unknownDedicated => "unkded"
  let down := match deviceDataOf r with
    | some (p, d) => s!"{tox p.id}/{tox d.id}"
    | none => "anon"
  s!"{head} cont={showB (continues r)} down={down}"

def showServed : Served → String
  | .dropped => "drop"
  | .failed c => showResult (.error c)
  | .next r => showResult r

def step (s : S) : List String → S × String
  | ["srv", proto, linked, profiles] =>
    ({ s with srv := { proto := parseProto proto, linkedIP := bool! linked, binds := [], domains := [] },
              profiles := bool! profiles }, "ok")
  | ["bind", "a", ip, port] =>
    ({ s with srv := { s.srv with binds := s.srv.binds ++ [.addr ip (nat! port)] } }, "ok")
  | ["bind", "p", ip, single, port] =>
    ({ s with srv := { s.srv with binds := s.srv.binds ++ [.pref ip (bool! single) (nat! port)] } }, "ok")
  | ["dom", d] => ({ s with srv := { s.srv with domains := s.srv.domains ++ [unx d] } }, "ok")
  | "wgroup" :: profiles :: ws =>
    ({ s with wgroup := { profiles := bool! profiles, wildcards := ws.map unx } }, "ok")
  | ["wsrv", proto, linked] =>
    ({ s with srv := srvOfConf s.wgroup { proto := unx proto, linked := bool! linked, binds := [] },
              profiles := s.wgroup.profiles }, "ok")
  | ["dbreset"] => ({ srv := s.srv, profiles := s.profiles, wgroup := s.wgroup }, "ok")
  | "prof" :: pid :: deleted :: devs =>
    ({ s with profs := { id := unx pid, deleted := bool! deleted, devices := devs.map unx } :: s.profs }, "ok")
  | "dev" :: id :: enabled :: dohonly :: rest =>
    let check : Str → Bool := match rest with
      | ["allow"] => fun _ => true
      | ["pw", p] => fun x => x = unx p
      | _ => fun _ => false
    ({ s with devs := { id := unx id, auth := { enabled := bool! enabled, dohOnly := bool! dohonly, check } } :: s.devs }, "ok")
  | "mdev" :: id :: src :: rest =>
    let m : Option MsgAuth := match rest with
      | [d, "none"] => some { dohOnly := bool! d, hash := none }
      | [d, "pw", p] => some { dohOnly := bool! d, hash := some (fun x => x = unx p) }
      | _ => none
    let source : Source := if src == "c" then .cacheFile else .backend
    ({ s with devs := { id := unx id, auth := authFrom source m } :: s.devs }, "ok")
  | "byid" :: id :: res => ({ s with byid := (unx id, parseRes res) :: s.byid }, "ok")
  | "byhuman" :: pid :: h :: res => ({ s with byhuman := (unx pid, unx h, parseRes res) :: s.byhuman }, "ok")
  | "create" :: pid :: h :: dt :: res =>
    ({ s with create := (unx pid, unx h, nat! dt, parseRes res) :: s.create }, "ok")
  | "bylinked" :: ip :: res => ({ s with bylinked := (ip, parseRes res) :: s.bylinked }, "ok")
  | "byded" :: ip :: res => ({ s with byded := (ip, parseRes res) :: s.byded }, "ok")
  | ["req", ui, path, sni, edns, lip, lport, rip] =>
    let rq : Req := { userinfo := parseUserinfo ui, path := unx path, sni := unx sni, edns := parseEdns edns,
                      lip := lip, lport := nat! lport, rip := rip }
    (s, showResult (findIn s.profiles s.srv s.db (normAddrs rq)))
  | ["wreq", flags, pblock, ui, path, sni, edns, lip, lport, rip] =>
    let rq : Req := { userinfo := parseUserinfo ui, path := unx path, sni := unx sni, edns := parseEdns edns,
                      lip := lip, lport := nat! lport, rip := rip }
    (s, showServed (serve (parseGate flags pblock) s.profiles s.srv s.db rq))
  | ["http", tls, auth, path, edns, lip, lport, rip] =>
    let h : HttpReq := { tls := if tls == "-" then none else some (unx tls), auth := unx auth, path := unx path }
    let base : Req := { userinfo := none, path := [], sni := [], edns := parseEdns edns,
                        lip := lip, lport := nat! lport, rip := rip }
    (s, showResult (findIn s.profiles s.srv s.db (normAddrs (addRequestInfo h base))))
  | _ => (s, "bad-op")

def main : IO Unit := loop step {}

end Agd.Driver.C03
