import Agd.Model.Access
import Agd.Driver.Util
/-! Line-protocol driver for the C10 model. -/
namespace Agd.Driver.C10
open Agd.Access Agd.Driver

structure PCfg where
  allowedNets : List Prefix := []
  blockedNets : List Prefix := []
  allowedASN : List Nat := []
  blockedASN : List Nat := []
  rules : List Rule := []

def PCfg.acc (p : PCfg) : ProfAcc :=
  { allowedNets := p.allowedNets, blockedNets := p.blockedNets, allowedASN := p.allowedASN,
    blockedASN := p.blockedASN, eng := ruleEngine p.rules }

structure S where
  gnets : List Prefix := []
  grules : List Rule := []
  profs : List (Nat × PCfg) := []
  /-- access settings as the backend sends them, per profile (`none`: no `access` message). -/
  wire : List (Nat × Option AccessSettings) := []
  /-- fifth deepening: profiles the device finder knows (index, automatic devices enabled) and the devices with a
  human-readable ID that exist. -/
  fauto : List (Nat × Bool) := []
  fdevs : List (Nat × String) := []

def S.wireOf (s : S) (k : Nat) : Option AccessSettings := ((s.wire.find? (fun e => e.1 == k)).map (·.2)).getD none

def S.setWire (s : S) (k : Nat) (x : Option AccessSettings) : S :=
  { s with wire := (k, x) :: s.wire.filter (fun e => e.1 != k) }

def S.updWire (s : S) (k : Nat) (f : AccessSettings → AccessSettings) : S := s.setWire k ((s.wireOf k).map f)

def S.global (s : S) : Global := { nets := s.gnets, eng := ruleEngine s.grules }

def S.prof (s : S) (k : Nat) : PCfg := ((s.profs.find? (fun e => e.1 == k)).map (·.2)).getD {}

def S.setProf (s : S) (k : Nat) (p : PCfg) : S :=
  { s with profs := (k, p) :: s.profs.filter (fun e => e.1 != k) }

def parseNats (s : String) : List Nat := if s == "-" then [] else (s.splitOn ",").map (fun x => nat! x)

def parseToks (s : String) : List Tok :=
  if s == "-" then [] else s.toList.map (fun c => if c == '*' then .star else if c == '^' then .sep else .lit c)

/-- `kind allow important permitted restricted anchor end text`: for a hosts-style rule `text` is the
comma-separated list of names, for a network rule the body of the pattern. -/
def parseRule (kind allow imp perm restr anchor endA text : String) : Rule :=
  if kind == "h" then { kind := .host, hosts := if text == "-" then [] else text.splitOn "," }
  else
    { kind := .net,
      pat := { anchor := if anchor == "d" then .domain else if anchor == "s" then .start else .none,
               toks := parseToks text, endAnch := bool! endA },
      allow := bool! allow, important := bool! imp, permitted := parseNats perm, restricted := parseNats restr }

def parseProto (s : String) : Proto :=
  if s == "udp" then .udp else if s == "tcp" then .tcp else if s == "dot" then .dot
  else if s == "doh" then .doh else if s == "doq" then .doq else .dnscrypt

def showReply : Reply → String
  | .srvFormerr => "FORMERR"
  | .srvNotimp => "NOTIMP"
  | .srvServfail => "SERVFAIL"
  | .mwFormerr => "FORMERR"
  | .fromNext => "NEXT"
  | .http500 => "HTTP500"

def showReplies (l : List Reply) : String := if l.isEmpty then "-" else ",".intercalate (l.map showReply)

def parseASN (s : String) : Option Nat := if s == "-" then none else some (nat! s)

/-- The switches of the profile and device records: one letter per field that differs from the usual
value (`F`/`f` profile/device filtering off, `Q` query log off, `I` IP log off, `X` deleted, `A`
automatic devices, `P` prefetch/canary/relay blocking, `M` another blocking mode, `S` filters on, `G` no rate limiter of its own,
`l` linked address, `d` dedicated addresses, `a` device authentication). -/
def parseAttrs (f : String) : DevAttrs :=
  let has (c : Char) : Bool := f.toList.contains c
  { profFiltering := !has 'F', devFiltering := !has 'f', queryLog := !has 'Q', ipLog := !has 'I',
    deleted := has 'X', autoDevices := has 'A', blockSpecial := has 'P', customBlockingMode := has 'M',
    filtersOn := has 'S', globalRatelimiter := has 'G', linkedIP := has 'l', dedicatedIPs := has 'd', auth := has 'a' }

def parseDev (s : S) (d : String) : DevRes :=
  if d == "nil" then .none
  else if d == "empty" then .ok none {}
  else if d == "auth" then .authFail
  else if d == "unk" then .unknownDedicated
  else if d == "err" then .error
  else match d.splitOn ":" with
    | ["ok", k] => .ok (some (s.prof (nat! k)).acc) {}
    | ["ok", k, f] => .ok (some (s.prof (nat! k)).acc) (parseAttrs f)
    | ["empty", f] => .ok none (parseAttrs f)
    | _ => .none

/-- Address family on the wire of the protocol: `1` IPv4, `0` IPv6, `z` IPv6 with a zone. -/
def fam4 (s : String) : Bool := s == "1"
def famZoned (s : String) : Bool := s == "z"
def showFam (is4 zoned : Bool) : String := if zoned then "z" else showB is4

def showEff : List Effect → String
  | [] => "-"
  | [.formerr] => "F"
  | [.next] => "N"
  | _ => "?"

def showKind : DevKind → String
  | .none => "nil"
  | .ok => "ok"
  | .authFail => "auth"
  | .unknownDedicated => "unk"
  | .error => "err"

def showInfo : Option RI → String
  | none => ""
  | some i => " | [" ++ i.host ++ "] " ++ toString i.qtype ++ " " ++ toString i.qclass ++ " " ++ showFam i.remote.is4 i.zoned ++ " " ++
      toString i.remote.val ++ " " ++ (match i.asn with | none => "-" | some a => toString a) ++ " " ++ showB i.ecs ++ " " ++
      showKind i.dev

/-- Texts that may contain blanks travel as dot-separated decimal code points (`-`: empty). -/
def unpts (s : String) : List Char := if s == "-" then [] else (s.splitOn ".").map (fun x => Char.ofNat (nat! x))
def pts (l : List Char) : String := if l.isEmpty then "-" else ".".intercalate (l.map (fun c => toString c.toNat))

def step (s : S) : List String → S × String
  | ["reset"] => ({}, "ok")
  | ["gnet", is4, val, bits] =>
    ({ s with gnets := s.gnets ++ [{ is4 := bool! is4, val := nat! val, bits := nat! bits }] }, "ok")
  | ["grule", kind, allow, imp, perm, restr, anchor, endA, text] =>
    ({ s with grules := s.grules ++ [parseRule kind allow imp perm restr anchor endA text] }, "ok")
  | ["pnew", k] => (s.setProf (nat! k) {}, "ok")
  | ["pan", k, is4, val, bits] =>
    let p := s.prof (nat! k)
    (s.setProf (nat! k) { p with allowedNets := p.allowedNets ++ [{ is4 := bool! is4, val := nat! val, bits := nat! bits }] }, "ok")
  | ["pbn", k, is4, val, bits] =>
    let p := s.prof (nat! k)
    (s.setProf (nat! k) { p with blockedNets := p.blockedNets ++ [{ is4 := bool! is4, val := nat! val, bits := nat! bits }] }, "ok")
  | ["paa", k, asn] =>
    let p := s.prof (nat! k)
    (s.setProf (nat! k) { p with allowedASN := p.allowedASN ++ [nat! asn] }, "ok")
  | ["pba", k, asn] =>
    let p := s.prof (nat! k)
    (s.setProf (nat! k) { p with blockedASN := p.blockedASN ++ [nat! asn] }, "ok")
  | ["prule", k, kind, allow, imp, perm, restr, anchor, endA, text] =>
    let p := s.prof (nat! k)
    (s.setProf (nat! k) { p with rules := p.rules ++ [parseRule kind allow imp perm restr anchor endA text] }, "ok")
  | ["req", is4, val, port, qname, qtype, qclass, asn, ecs, dev] =>
    let o := wrap s.global { addr := { is4 := fam4 is4, val := nat! val }, zoned := famZoned is4, port := nat! port, qname := qname,
                             qtype := nat! qtype, qclass := nat! qclass, asn := parseASN asn, ecsOk := ecs == "1",
                             ecsBad := ecs == "2", dev := parseDev s dev }
    (s, o.why ++ " " ++ showEff o.effects ++ " " ++ showB o.err ++ showInfo o.info)
  | ["srv", proto, resp, opcode, nq, nans, nns, nw, is4, val, port, qname, qtype, qclass, asn, ecs, dev] =>
    let r : Req := { addr := { is4 := fam4 is4, val := nat! val }, zoned := famZoned is4, port := nat! port, qname := qname,
                     qtype := nat! qtype, qclass := nat! qclass, asn := parseASN asn, ecsOk := ecs == "1",
                     ecsBad := ecs == "2", dev := parseDev s dev }
    let m : MsgShape := { response := bool! resp, opcode := nat! opcode, nQ := nat! nq, nAns := nat! nans, nNs := nat! nns }
    (s, showReplies (serverWire (parseProto proto) m s.global r (bool! nw)) ++ " " ++ showB (serverReachedNext m s.global r))
  | ["pmatch", anchor, endA, text, host] =>
    (s, showB (({ anchor := if anchor == "d" then .domain else if anchor == "s" then .start else .none,
                  toks := parseToks text, endAnch := bool! endA } : Pat).matches (if host == "-" then [] else host.toList)))
  | ["gip", is4, val] => (s, showB (s.global.isBlockedIPZ { addr := { is4 := fam4 is4, val := nat! val }, zoned := famZoned is4 }))
  | ["ghost", host, qt] => (s, showB (s.global.isBlockedHost (if host == "-" then "" else host) (nat! qt)))
  | ["pblk", k, is4, val, asn, qname, qt] =>
    (s, showB ((s.prof (nat! k)).acc.isBlockedZ qname (nat! qt) { addr := { is4 := fam4 is4, val := nat! val }, zoned := famZoned is4 } (parseASN asn)))
  | ["wnew", k, e] => (s.setWire (nat! k) (if e == "-" then none else some { enabled := e == "1" }), "ok")
  | ["wcidr", k, which, nbytes, val, bits] =>
    let c : Cidr := ⟨nat! nbytes, nat! val, nat! bits⟩
    (s.updWire (nat! k) (fun x => if which == "a" then { x with allowCidr := x.allowCidr ++ [c] }
                                  else { x with blockCidr := x.blockCidr ++ [c] }), "ok")
  | ["wasn", k, which, asn] =>
    (s.updWire (nat! k) (fun x => if which == "a" then { x with allowASN := x.allowASN ++ [nat! asn] }
                                  else { x with blockASN := x.blockASN ++ [nat! asn] }), "ok")
  | ["wrule", k, kind, allow, imp, perm, restr, anchor, endA, text] =>
    (s.updWire (nat! k) (fun x => { x with rules := x.rules ++ [parseRule kind allow imp perm restr anchor endA text] }), "ok")
  | ["wblk", k, stage, is4, val, asn, qname, qt] =>
    let c := accessFromBackend (s.wireOf (nat! k))
    let c := if stage == "c" then confOfCache (cacheOfConf c) else c
    (s, showB (confBlocked c qname (nat! qt) { addr := { is4 := fam4 is4, val := nat! val }, zoned := famZoned is4 } (parseASN asn)))
  | ["fprof", k, auto] => ({ s with fauto := s.fauto ++ [(nat! k, bool! auto)] }, "ok")
  | ["freq", pk, hid, fails, is4, val, port, qname, qtype, qclass, asn, ecs] =>
    let db : AutoDB := { profs := s.fauto.map (fun e => (e.1, e.2, some (s.prof e.1).acc)), devs := s.fdevs }
    let key : ExtKey := { prof := if pk == "-" then none else some (nat! pk), hid := hid, backendFails := bool! fails }
    let r : Req := { addr := { is4 := fam4 is4, val := nat! val }, zoned := famZoned is4, port := nat! port, qname := qname,
                     qtype := nat! qtype, qclass := nat! qclass, asn := parseASN asn, ecsOk := ecs == "1",
                     ecsBad := ecs == "2", dev := .none }
    let o := wrapF s.global AutoDB.find db key r
    ({ s with fdevs := o.1.devs }, o.2.why ++ " " ++ showEff o.2.effects ++ " " ++ showB o.2.err ++ " " ++ toString o.1.creates)
  | ["lrule", t] => (s, pts (lowerRuleL (unpts t)))
  | ["rxblk", t, h] => (s, showB (rxRuleBlocks (unpts t) (unpts h)))
  | ["ynet", is4, val, bits] =>
    match (⟨fam4 is4, nat! val, if bits == "-" then none else some (nat! bits)⟩ : YamlNet).toPrefix with
    | some p => ({ s with gnets := s.gnets ++ [p] }, "ok")
    | none => (s, "rejected")
  | ["norm", x] => (s, "[" ++ normDomain x ++ "] [" ++ normQueryDomain x ++ "]")
  | _ => (s, "bad-op")

def main : IO Unit := loop step {}

end Agd.Driver.C10
