import Agd.Model.Forward
import Agd.Driver.Util
/-! Line-protocol driver for the C17 model.

```
cfg <nMain> <nFb> <backoff>                    -> ok          (state := NewHandler state)
cfg <nMain> <nFb> <backoff> <probes|->         -> like rf     (NewHandler with its initial health check at time 0)
q <main|-> <fb|-> <om,om,…|-> <ofb,ofb,…|->    -> a<tok>|sf  followed by the calls (m<u>, f<f>)
rf <now> <probes|-> [dead]                     -> act=… lf=… probed=… err=0|1   (dead: the context is done from the start)
rb <now> <probes|-> [dead]                     -> ok          (a round begins; queries may arrive)
qi <u> <main|-> <fb|-> <om…> <ofb…>            -> like q      (a query while the loop is at upstream u)
re                                             -> like rf, plus seq=<q|p<u>|end,…> (the round's events)
x <any|udp|tcp> <udpwire> <tcpwire>            -> ok<tok>|net|eof|other tcp=0|1 probe=0|1
v <reqId> <reqName> <reqType> <respId> <n> (<name> <type>)*   -> ok|id|count|type|name
rd <n> <byte>*                                 -> none | id=… tc=… qs=name:type,…   (readMsg)
xb <any|udp|tcp> <reqId> <hexname> <reqType> <udpraw> <tcpraw>
                                               -> ok id=… tc=… rc=… q=<hexname>:<type> tcp=0|1 | net|eof|other tcp=0|1
```
`xb` is `Exchange` from the bytes up: a raw is `net`, `eof` or `b<n>:<hex>` (`n` octets were read into a
buffer that now holds `<hex>`: the reply followed by what was left of the packed request), or `<first>><second>`
for the two attempts of `exchangeNet`; names travel as the hex of their presentation form.
A probe is `1`/`0` (succeeded / failed), `r<rcode>` (a response with that RCODE), `e` (an error),
`z` (nil, nil), `h` (the upstream never answers: the probe fails when the context of the round is done, and it is
done for every upstream after it) or `w.<net>.<udpwire>.<tcpwire>` (a plain upstream; `checkUpstream` of the exchange).
A wire may be `<first>><second>`: the two attempts of `exchangeNet`; modifiers `sf nx rf` set the RCODE.
`<main>`/`<fb>` are the upstreams the implementation was seen to pick (the random choice is
an input of the model).  An outcome is `r<tok>`, `n` (net.Error), `o` (other error), `z`
(nil, nil) or `w.<net>.<udpwire>.<tcpwire>.<tok>`; a wire is `<base>[+tc][+na]` with base one of
`ok id nm cs ty q2 q0 bad net eof` (`tc` alone is `ok+tc`): how the reply relates to the query,
whether its TC bit is set, and whether it carries no answer (token 0).  The modifiers apply to
every base that is a message, so a mismatch can be combined with truncation. -/
namespace Agd.Driver.C17
open Agd.Forward Agd.Driver

structure S where
  cfg : Cfg := { nMain := 0, nFb := 0, backoff := 0 }
  st : St := St.init { nMain := 0, nFb := 0, backoff := 0 }
  /-- a round in progress: its probes and the queries that arrived so far (slot, arguments) -/
  round : Option ((Nat → Probe) × List (Nat × QArgs)) := none

def reqId : Nat := 7
def reqQ : Question := { name := [97, 98, 46], qtype := 1 }

def baseWire (tok : Nat) : String → Wire
  | "ok" => .msg { id := reqId, qs := [reqQ], tc := false, tok := tok }
  | "tc" => .msg { id := reqId, qs := [reqQ], tc := true, tok := tok }
  | "id" => .msg { id := reqId + 1, qs := [reqQ], tc := false, tok := tok }
  | "nm" => .msg { id := reqId, qs := [{ name := [97, 99, 46], qtype := 1 }], tc := false, tok := tok }
  | "cs" => .msg { id := reqId, qs := [{ name := [65, 98, 46], qtype := 1 }], tc := false, tok := tok }
  | "ty" => .msg { id := reqId, qs := [{ name := [97, 98, 46], qtype := 28 }], tc := false, tok := tok }
  | "q2" => .msg { id := reqId, qs := [reqQ, reqQ], tc := false, tok := tok }
  | "q0" => .msg { id := reqId, qs := [], tc := false, tok := tok }
  | "net" => .netErr
  | "eof" => .eof
  | _ => .bad

/-- One modifier applied to a wire; `none` for an unknown modifier. -/
def modWire (w : Wire) (m : String) : Option Wire :=
  match w, m with
  | .msg x, "tc" => some (.msg { x with tc := true })
  | .msg x, "na" => some (.msg { x with tok := 0 })
  | .msg x, "sf" => some (.msg { x with rcode := 2 })
  | .msg x, "nx" => some (.msg { x with rcode := 3 })
  | .msg x, "rf" => some (.msg { x with rcode := 5 })
  | _, _ => none

def wire1 (tok : Nat) (s : String) : Wire :=
  match s.splitOn "+" with
  | [] => .bad
  | b :: mods =>
    match mods.foldl (fun w m => w.bind (modWire · m)) (some (baseWire tok b)) with
    | some w => w
    | none => .bad

/-- `<first>><second>`: the retry of `exchangeNet`; a single wire stands for both attempts. -/
def wire (tok : Nat) (s : String) : Wire :=
  match s.splitOn ">" with
  | [a, b] => retryWire (wire1 tok a) (wire1 tok b)
  | _ => retryWire (wire1 tok s) (wire1 tok s)

def net : String → Net
  | "udp" => .udp
  | "tcp" => .tcp
  | _ => .any

def outcome (s : String) : Outcome :=
  if s == "n" then .netErr
  else if s == "o" then .otherErr
  else if s == "z" then .noResp
  else if s.startsWith "r" then .reply (nat! (s.drop 1).toString)
  else match s.splitOn "." with
    | ["w", n, u, t, tok] => (exchange (net n) reqId reqQ (wire (nat! tok) u) (wire (nat! tok) t)).1.outcome
    | _ => .otherErr

def outcomes (s : String) : Nat → Outcome :=
  let l := if s == "-" then [] else (s.splitOn ",").map outcome
  fun i => l.getD i .otherErr

/-- A probe token. -/
def probeOk (s : String) : Bool :=
  if s == "1" then true
  else if s == "0" then false
  else if s == "e" then checkUpstream .err
  else if s == "z" then checkUpstream .nil
  else if s.startsWith "r" then checkUpstream (.resp (nat! (s.drop 1).toString))
  else match s.splitOn "." with
    | ["w", n, u, t] => checkUpstream (exchange (net n) reqId reqQ (wire 1 u) (wire 1 t)).1.probe
    | _ => false

/-- The probes of a round at `now` from the state `lf`: a token per main upstream (`h` = the upstream
never answers and so uses up the time of the round); `dead0` = the context was done from the start.
Whether the context is done when the loop reaches an upstream is `Agd.Forward.deadBefore`. -/
def probes (b : Int) (lf : Nat → Option Int) (now : Int) (dead0 : Bool) (s : String) : Nat → Probe :=
  let l := if s == "-" then [] else s.splitOn ","
  probesOf b lf now dead0 fun u =>
    let t := l.getD u "0"
    if t == "h" then .hang else if probeOk t then .ok else .fail

def showCall : Call → String
  | .main u => s!"m{u}"
  | .fb f => s!"f{f}"

def showOut (o : ServeOut) : String :=
  let r := match o.res with | .answered r => s!"a{r}" | .servfail => "sf"
  " ".intercalate (r :: o.calls.map showCall)

def showList (l : List Nat) : String :=
  if l.isEmpty then "-" else ",".intercalate (l.map toString)

def probedOf : List Ev → List Nat
  | [] => []
  | .probe u _ _ _ :: r => u :: probedOf r
  | _ :: r => probedOf r

def showV : VRes → String
  | .ok => "ok" | .badId => "id" | .badCount => "count" | .badType => "type" | .badName => "name"

def hexVal (c : Char) : Nat :=
  if '0' ≤ c ∧ c ≤ '9' then c.toNat - 48
  else if 'a' ≤ c ∧ c ≤ 'f' then c.toNat - 87
  else if 'A' ≤ c ∧ c ≤ 'F' then c.toNat - 55
  else 0

def unhex : List Char → List Nat
  | a :: b :: r => (hexVal a * 16 + hexVal b) :: unhex r
  | _ => []

def hexDigit (n : Nat) : Char := if n < 10 then Char.ofNat (48 + n) else Char.ofNat (87 + n)

def hex (l : List Nat) : String := String.ofList (l.flatMap fun b => [hexDigit (b / 16), hexDigit (b % 16)])

/-- `net`, `eof` or `b<n>:<hex>`. -/
def raw1 (s : String) : Raw :=
  if s == "net" then .netErr
  else if s == "eof" then .eof
  else match (s.drop 1).toString.splitOn ":" with
    | [n, h] => .bytes (unhex h.toList) (nat! n)
    | _ => .bytes [] 0

def rawWire (s : String) : Wire :=
  match s.splitOn ">" with
  | [a, b] => retryWire (raw1 a).wire (raw1 b).wire
  | _ => (raw1 s).wire

def nameBytes (s : String) : List Nat := s.toList.map Char.toNat

def parseQs : List String → List Question
  | n :: t :: r => { name := nameBytes n, qtype := nat! t } :: parseQs r
  | _ => []

/-- The arguments of a query line; `none` when the implementation's pick is impossible. -/
def qargs (s : S) (pm pf om ofb : String) : Option QArgs :=
  let pick? : Option Nat :=
    if s.st.active.isEmpty then (if pm == "-" then some 0 else none)
    else if pm == "-" then none
    else if s.st.active.contains (nat! pm) then some (s.st.active.idxOf (nat! pm)) else none
  match pick? with
  | none => none
  | some pick =>
    let pickFb := if pf == "-" then 0 else nat! pf
    if pf != "-" && pickFb ≥ s.cfg.nFb then none
    else some { pick := pick, om := outcomes om, pickFb := pickFb, ofb := outcomes ofb }

def showState (c : Cfg) (st : St) (evs : List Ev) : String :=
  let lf := (List.range c.nMain).map fun u =>
    match st.lastFailed u with | none => "-" | some t => toString t
  s!"act={showList st.active} lf={if lf.isEmpty then "-" else ",".intercalate lf} probed={showList (probedOf evs)} err={showB (c.nFb != 0 && st.active.isEmpty)}"

def showSeq : List IEv → List String
  | [] => []
  | .ev (.query _ _) :: r => "q" :: showSeq r
  | .ev (.probe u _ _ _) :: r => s!"p{u}" :: showSeq r
  | .roundEnd :: r => "end" :: showSeq r

def evsOf : List IEv → List Ev
  | [] => []
  | .ev e :: r => e :: evsOf r
  | .roundEnd :: r => evsOf r

def step (s : S) : List String → S × String
  | ["cfg", n, f, b] =>
    let c : Cfg := { nMain := nat! n, nFb := nat! f, backoff := int! b }
    ({ cfg := c, st := (St.new c none).1 }, "ok")
  | ["cfg", n, f, b, init] =>
    let c : Cfg := { nMain := nat! n, nFb := nat! f, backoff := int! b }
    let r := St.new c (some (probes c.backoff (fun _ => none) 0 false init))
    ({ cfg := c, st := r.1 }, showState c r.1 r.2)
  | ["q", pm, pf, om, ofb] =>
    match qargs s pm pf om ofb with
    | none => (s, "bad-pick")
    | some q => (s, showOut (serve s.cfg s.st q.pick q.om q.pickFb q.ofb))
  | ["rf", now, oks] =>
    if s.round.isSome then (s, "bad-op") else
    let r := refresh s.cfg s.st (probes s.cfg.backoff s.st.lastFailed (int! now) false oks)
    ({ s with st := r.1 }, showState s.cfg r.1 r.2.1)
  | ["rf", now, oks, dead] =>
    if s.round.isSome then (s, "bad-op") else
    let r := refresh s.cfg s.st (probes s.cfg.backoff s.st.lastFailed (int! now) (dead == "dead") oks)
    ({ s with st := r.1 }, showState s.cfg r.1 r.2.1)
  | ["rb", now, oks] =>
    if s.round.isSome then (s, "bad-op") else
    ({ s with round := some (probes s.cfg.backoff s.st.lastFailed (int! now) false oks, []) }, "ok")
  | ["rb", now, oks, dead] =>
    if s.round.isSome then (s, "bad-op") else
    ({ s with round := some (probes s.cfg.backoff s.st.lastFailed (int! now) (dead == "dead") oks, []) }, "ok")
  | ["qi", u, pm, pf, om, ofb] =>
    match s.round with
    | none => (s, "bad-op")
    | some (pr, qs) =>
      match qargs s pm pf om ofb with
      | none => (s, "bad-pick")
      | some q =>
        ({ s with round := some (pr, qs ++ [(nat! u, q)]) },
          showOut (serve s.cfg s.st q.pick q.om q.pickFb q.ofb))
  | ["re"] =>
    match s.round with
    | none => (s, "bad-op")
    | some (pr, qs) =>
      let during : Nat → List QArgs := fun u => (qs.filter (fun x => x.1 == u)).map (·.2)
      let r := refreshI s.cfg s.st pr during
      let seq := showSeq r.2
      ({ s with st := r.1, round := none },
        s!"{showState s.cfg r.1 (evsOf r.2)} seq={if seq.isEmpty then "-" else ",".intercalate seq}")
  | ["tv", spec] =>
    -- a template: labels separated by '.', pieces by ',', a piece is R or the length of a literal
    let labels : Tmpl := (spec.splitOn ".").map fun l =>
      (l.splitOn ",").filterMap fun seg =>
        if seg == "R" then some Seg.rnd
        else if seg == "" then none
        else some (Seg.lit (List.replicate (nat! seg) 97))
    (s, s!"{showB (tmplAccepted labels)} old={showB (tmplAcceptedOld labels)}")
  | ["x", n, u, t] =>
    let r := exchange (net n) reqId reqQ (wire 1 u) (wire 2 t)
    let x := match r.1 with
      | .ok m => s!"ok{m.tok}" | .netErr => "net" | .eof => "eof" | .other => "other"
    (s, s!"{x} tcp={showB r.2} probe={showB (checkUpstream r.1.probe)}")
  | "v" :: rid :: rn :: rt :: pid :: _ :: rest =>
    (s, showV (validate (nat! rid) { name := nameBytes rn, qtype := nat! rt }
      { id := nat! pid, qs := parseQs rest, tc := false, tok := 0 }))
  | "rd" :: n :: bytes =>
    match readMsg (bytes.map (nat! ·)) (nat! n) with
    | none => (s, "none")
    | some m =>
      let qs := m.qs.map fun q => s!"{String.ofList (q.name.map Char.ofNat)}:{q.qtype}"
      (s, s!"id={m.id} tc={showB m.tc} rc={m.rcode} qs={if qs.isEmpty then "-" else ",".intercalate qs}")
  | ["xb", n, rid, hn, rt, u, t] =>
    let r := exchange (net n) (nat! rid) { name := unhex hn.toList, qtype := nat! rt } (rawWire u) (rawWire t)
    let x := match r.1 with
      | .ok m =>
        let qs := m.qs.map fun (q : Question) => s!"{hex q.name}:{q.qtype}"
        s!"ok id={m.id} tc={showB m.tc} rc={m.rcode} q={",".intercalate qs}"
      | .netErr => "net" | .eof => "eof" | .other => "other"
    (s, s!"{x} tcp={showB r.2}")
  | _ => (s, "bad-op")

def main : IO Unit := loop step {}

end Agd.Driver.C17
