import Agd.Model.Forward
import Agd.Driver.Util
/-! Line-protocol driver for the C17 model.

```
cfg <nMain> <nFb> <backoff>                    -> ok          (state := NewHandler state)
q <main|-> <fb|-> <om,om,…|-> <ofb,ofb,…|->    -> a<tok>|sf  followed by the calls (m<u>, f<f>)
rf <now> <okbits|->                            -> act=… lf=… probed=… err=0|1
x <any|udp|tcp> <udpwire> <tcpwire>            -> ok<tok>|net|eof|other tcp=0|1
v <reqId> <reqName> <reqType> <respId> <n> (<name> <type>)*   -> ok|id|count|type|name
rd <n> <byte>*                                 -> none | id=… tc=… qs=name:type,…   (readMsg)
```
`<main>`/`<fb>` are the upstreams the implementation was seen to pick (the random choice is
an input of the model).  An outcome is `r<tok>`, `n` (net.Error), `o` (other error), `z`
(nil, nil) or `w.<net>.<udpwire>.<tcpwire>.<tok>`; a wire is `<base>[+tc][+na]` with base one of
`ok id nm cs ty q2 q0 bad net eof` (`tc` alone is `ok+tc`): how the reply relates to the query,
whether its TC bit is set, and whether it carries no answer (token 0).  The modifiers apply to
every base that is a message, so a mismatch can be combined with truncation. -/
namespace Agd.Driver.C17
open Agd.Forward Agd.Driver

structure S where
  cfg : Cfg := { nMain := 0, nFb := 0, backoff := 0 }
  st : St := St.init { nMain := 0, nFb := 0, backoff := 0 }

def reqId : Nat := 7
def reqQ : Question := { name := [97, 98, 46], qtype := 1 }

def baseWire (tok : Nat) : String → Wire
  | "ok" => .msg { id := reqId, qs := [reqQ], tc := false, tok := tok }
  | "tc" => .msg { id := reqId, qs := [reqQ], tc := true, tok := tok }
  | "id" => .msg { id := reqId + 1, qs := [reqQ], tc := false, tok := tok }
  | "nm" => .msg { id := reqId, qs := [{ name := [97, 99, 46], qtype := 1 }], tc := false, tok := tok }
  | "cs" => .msg { id := reqId, qs := [{ name := [65, 98, 46], qtype := 1 }], tc := false, tok := tok }
  | "ty" => .msg { id := reqId, qs := [{ name := [97, 98, 46], qtype := 28 }], tc := false, tok := tok }
  | "q2" => .msg { id := reqId, qs := [reqQ, reqQ], tc := false, tok := tok }
  | "q0" => .msg { id := reqId, qs := [], tc := false, tok := tok }
  | "net" => .netErr
  | "eof" => .eof
  | _ => .bad

/-- One modifier applied to a wire; `none` for an unknown modifier. -/
def modWire (w : Wire) (m : String) : Option Wire :=
  match w, m with
  | .msg x, "tc" => some (.msg { x with tc := true })
  | .msg x, "na" => some (.msg { x with tok := 0 })
  | _, _ => none

def wire (tok : Nat) (s : String) : Wire :=
  match s.splitOn "+" with
  | [] => .bad
  | b :: mods =>
    match mods.foldl (fun w m => w.bind (modWire · m)) (some (baseWire tok b)) with
    | some w => w
    | none => .bad

def net : String → Net
  | "udp" => .udp
  | "tcp" => .tcp
  | _ => .any

def outcome (s : String) : Outcome :=
  if s == "n" then .netErr
  else if s == "o" then .otherErr
  else if s == "z" then .noResp
  else if s.startsWith "r" then .reply (nat! (s.drop 1).toString)
  else match s.splitOn "." with
    | ["w", n, u, t, tok] => (exchange (net n) reqId reqQ (wire (nat! tok) u) (wire (nat! tok) t)).1.outcome
    | _ => .otherErr

def outcomes (s : String) : Nat → Outcome :=
  let l := if s == "-" then [] else (s.splitOn ",").map outcome
  fun i => l.getD i .otherErr

def showCall : Call → String
  | .main u => s!"m{u}"
  | .fb f => s!"f{f}"

def showOut (o : ServeOut) : String :=
  let r := match o.res with | .answered r => s!"a{r}" | .servfail => "sf"
  " ".intercalate (r :: o.calls.map showCall)

def showList (l : List Nat) : String :=
  if l.isEmpty then "-" else ",".intercalate (l.map toString)

def probedOf : List Ev → List Nat
  | [] => []
  | .probe u _ _ _ :: r => u :: probedOf r
  | _ :: r => probedOf r

def showV : VRes → String
  | .ok => "ok" | .badId => "id" | .badCount => "count" | .badType => "type" | .badName => "name"

def nameBytes (s : String) : List Nat := s.toList.map Char.toNat

def parseQs : List String → List Question
  | n :: t :: r => { name := nameBytes n, qtype := nat! t } :: parseQs r
  | _ => []

def step (s : S) : List String → S × String
  | ["cfg", n, f, b] =>
    let c : Cfg := { nMain := nat! n, nFb := nat! f, backoff := int! b }
    ({ cfg := c, st := St.init c }, "ok")
  | ["q", pm, pf, om, ofb] =>
    let pick? : Option Nat :=
      if s.st.active.isEmpty then (if pm == "-" then some 0 else none)
      else if pm == "-" then none
      else if s.st.active.contains (nat! pm) then some (s.st.active.idxOf (nat! pm)) else none
    match pick? with
    | none => (s, "bad-pick")
    | some pick =>
      let pickFb := if pf == "-" then 0 else nat! pf
      if pf != "-" && pickFb ≥ s.cfg.nFb then (s, "bad-pick")
      else (s, showOut (serve s.cfg s.st pick (outcomes om) pickFb (outcomes ofb)))
  | ["rf", now, oks] =>
    let bits := if oks == "-" then [] else oks.toList.map (· == '1')
    let pr : Nat → Probe := fun u => { tCheck := int! now, ok := bits.getD u false, tFail := int! now }
    let r := refresh s.cfg s.st pr
    let lf := (List.range s.cfg.nMain).map fun u =>
      match r.1.lastFailed u with | none => "-" | some t => toString t
    ({ s with st := r.1 },
      s!"act={showList r.1.active} lf={if lf.isEmpty then "-" else ",".intercalate lf} probed={showList (probedOf r.2.1)} err={showB r.2.2}")
  | ["x", n, u, t] =>
    let r := exchange (net n) reqId reqQ (wire 1 u) (wire 2 t)
    let x := match r.1 with
      | .ok m => s!"ok{m.tok}" | .netErr => "net" | .eof => "eof" | .other => "other"
    (s, s!"{x} tcp={showB r.2}")
  | "v" :: rid :: rn :: rt :: pid :: _ :: rest =>
    (s, showV (validate (nat! rid) { name := nameBytes rn, qtype := nat! rt }
      { id := nat! pid, qs := parseQs rest, tc := false, tok := 0 }))
  | "rd" :: n :: bytes =>
    match readMsg (bytes.map (nat! ·)) (nat! n) with
    | none => (s, "none")
    | some m =>
      let qs := m.qs.map fun q => s!"{String.ofList (q.name.map Char.ofNat)}:{q.qtype}"
      (s, s!"id={m.id} tc={showB m.tc} qs={if qs.isEmpty then "-" else ",".intercalate qs}")
  | _ => (s, "bad-op")

def main : IO Unit := loop step {}

end Agd.Driver.C17
