import Agd.Model.BillStat
import Agd.Driver.Util
/-! Line-protocol driver for the C16 model (billing statistics recorder, serialised `Refresh`).

Lines:
* `init K`            – fresh recorder, devices `0 … K-1` are printed;          → `ok`
* `rec d t c a p [ctx]` – `Record` (the state of its context is ignored);       → pending entry of `d`
* `recn d n t c a p`  – `n` identical `Record` calls;                           → pending entry of `d`
* `query d|- c|- a|- t p qlog|noqlog ans|noans` – the server handled a query (device, location, start, protocol); → pending entry of `d`
* `begin [ctx]`       – `resetRecords` + entering `Upload`;                     → `blocked` | `batch …`
* `ok i` / `fail i [err]` – the `i`-th in-flight upload returns nil / an error (any value); → `none` | `pend …`
* `wire d n t c a p`  – `recordToProtobuf` of a record with `n` queries;         → `w d secs nanos c p a queries`
* `upload n how k`    – `BillStat.Upload` of `n` records, backend `accept|open|send|close|eof`; → `ok sent` | `err`
* `snap`              – pending table;                                          → `pend …`
* `totals`            – ghost counters;                                         → `tot d:recorded:delivered …`
-/
namespace Agd.Driver.C16
open Agd.BillStat Agd.Driver

/-- Tabulated copy of the model state over devices `0 … k-1`.  The model keeps tables as
functions (good for proofs); iterating `step` on them builds ever deeper closures, so the
driver re-tabulates after every step and rebuilds shallow functions from the data. -/
structure Tab where
  pending : Array (Option Rec) := #[]
  inflight : List (Array (Option Rec)) := []
  recorded : Array Nat := #[]
  delivered : Array Nat := #[]

def ofArr (a : Array (Option Rec)) : Recs := fun d => (a[d]?).join
def ofNat (a : Array Nat) : Dev → Nat := fun d => (a[d]?).getD 0

def Tab.toSt (t : Tab) : St :=
  { pending := ofArr t.pending,
    inflight := t.inflight.map fun a => ⟨ofArr a, fun _ => none⟩,
    recorded := ofNat t.recorded, delivered := ofNat t.delivered, last := fun _ => none }

def Tab.ofSt (k : Nat) (s : St) : Tab :=
  { pending := (Array.range k).map s.pending,
    inflight := s.inflight.map fun b => (Array.range k).map b.recs,
    recorded := (Array.range k).map s.recorded,
    delivered := (Array.range k).map s.delivered }

structure S where
  k : Nat := 0
  tab : Tab := {}

def S.st (s : S) : St := s.tab.toSt
def S.set (s : S) (st : St) : S := { s with tab := Tab.ofSt s.k st }

/-- The count is printed as the wire conversion reads it from the `int32` field (`= r.n` below 2³²). -/
def showRec (d : Nat) (r : Rec) : String :=
  s!"{d}:{toU32 (wrap32 r.n)}:{r.m.time}:{r.m.ctry}:{r.m.asn}:{r.m.proto}"

def showRecs (k : Nat) (t : Recs) : String :=
  " ".intercalate ((List.range k).filterMap fun d => (t d).map (showRec d))

def tag (t body : String) : String := if body.isEmpty then t else t ++ " " ++ body

def showTotals (k : Nat) (s : St) : String :=
  tag "tot" (" ".intercalate ((List.range k).map fun d => s!"{d}:{s.recorded d}:{s.delivered d}"))

/-- `Refresh` up to the call of `Upload`; the state of its context does not matter. -/
def beginOp (s : S) : S × String :=
  if blocked s.st .begin then (s, "blocked")
  else (s.set (stepSer s.st .begin), tag "batch" (showRecs s.k s.st.pending))

/-- `Upload` returned a non-nil error, whatever its value. -/
def failOp (s : S) (i : Nat) : S × String :=
  match s.st.inflight[i]? with
  | none => (s, "none")
  | some _ =>
    let st' := stepSer s.st (.endFail i)
    (s.set st', tag "pend" (showRecs s.k st'.pending))

def step (s : S) : List String → S × String
  | ["init", k] => ({ k := nat! k, tab := Tab.ofSt (nat! k) St.init }, "ok")
  | ["rec", d, t, c, a, p] =>
    let st' := stepSer s.st (.record (nat! d) ⟨int! t, nat! c, nat! a, nat! p⟩)
    (s.set st', tag "pend" (showRecs s.k (fun k => if k = nat! d then st'.pending k else none)))
  | ["rec", d, t, c, a, p, _ctx] =>
    -- the state of the caller's context does not matter to `Record`
    let st' := stepSer s.st (.record (nat! d) ⟨int! t, nat! c, nat! a, nat! p⟩)
    (s.set st', tag "pend" (showRecs s.k (fun k => if k = nat! d then st'.pending k else none)))
  | ["recn", d, n, t, c, a, p] =>
    -- `n` identical `Record` calls in closed form (`bulk_eq_iterate`)
    let s' := s.set (bulk s.st (nat! d) ⟨int! t, nat! c, nat! a, nat! p⟩ (nat! n))
    (s', tag "pend" (showRecs s.k (fun k => if k = nat! d then s'.st.pending k else none)))
  | ["query", d, c, a, t, p, ql, an] =>
    -- the server has handled a query (`mainmw.recordQueryInfo`)
    let q : Query := { dev := if d = "-" then none else some (nat! d),
                       loc := if c = "-" then none else some (nat! c, nat! a),
                       start := int! t, proto := nat! p, qlog := ql = "qlog", answered := an = "ans" }
    let st' := runSer s.st (lowerEv s.st (.query q))
    (s.set st', tag "pend" (showRecs s.k (fun k => if some k = q.dev then st'.pending k else none)))
  | ["begin", _ctx] => beginOp s
  | ["begin"] => beginOp s
  | ["ok", i] =>
    match s.st.inflight[nat! i]? with
    | none => (s, "none")
    | some _ =>
      let st' := stepSer s.st (.endOk (nat! i))
      (s.set st', tag "pend" (showRecs s.k st'.pending))
  | ["fail", i] => failOp s (nat! i)
  | ["fail", i, _err] => failOp s (nat! i)
  | ["wire", d, n, t, c, a, p] =>
    -- `recordToProtobuf` of a record that should hold `n` queries
    let w := toWire (nat! d) ⟨⟨int! t, nat! c, nat! a, nat! p⟩, nat! n⟩
    (s, s!"w {w.dev} {w.secs} {w.nanos} {w.ctry} {w.proto} {w.asn} {w.queries}")
  | ["upload", n, how, k] =>
    -- `BillStat.Upload` of `n` records against a backend that behaves as `how`
    let b : Backend := match how with
      | "open" => ⟨true, none, .ack⟩
      | "send" => ⟨false, some (nat! k), .ack⟩
      | "close" => ⟨false, none, .err⟩
      | "eof" => ⟨false, none, .eof⟩
      | _ => ⟨false, none, .ack⟩
    let batch := (List.range (nat! n)).map fun i => toWire i ⟨⟨0, 0, 0, 0⟩, 1⟩
    let r := upload b batch
    (s, if r.1 then s!"ok {r.2.length}" else "err")
  | ["snap"] => (s, tag "pend" (showRecs s.k s.st.pending))
  | ["totals"] => (s, showTotals s.k s.st)
  | _ => (s, "bad-op")

def main : IO Unit := loop step {}

end Agd.Driver.C16
