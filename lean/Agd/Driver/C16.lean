import Agd.Model.BillStat
import Agd.Driver.Util
/-! Line-protocol driver for the C16 model (billing statistics recorder, serialised `Refresh`).

Lines:
* `init K`            – fresh recorder, devices `0 … K-1` are printed;          → `ok`
* `rec d t c a p`     – `Record`;                                               → pending entry of `d`
* `begin`             – `resetRecords` + entering `Upload`;                     → `blocked` | `batch …`
* `ok i` / `fail i`   – the `i`-th in-flight upload returns nil / an error;     → `none` | `pend …`
* `snap`              – pending table;                                          → `pend …`
* `totals`            – ghost counters;                                         → `tot d:recorded:delivered …`
-/
namespace Agd.Driver.C16
open Agd.BillStat Agd.Driver

/-- Tabulated copy of the model state over devices `0 … k-1`.  The model keeps tables as
functions (good for proofs); iterating `step` on them builds ever deeper closures, so the
driver re-tabulates after every step and rebuilds shallow functions from the data. -/
structure Tab where
  pending : Array (Option Rec) := #[]
  inflight : List (Array (Option Rec)) := []
  recorded : Array Nat := #[]
  delivered : Array Nat := #[]

def ofArr (a : Array (Option Rec)) : Recs := fun d => (a[d]?).join
def ofNat (a : Array Nat) : Dev → Nat := fun d => (a[d]?).getD 0

def Tab.toSt (t : Tab) : St :=
  { pending := ofArr t.pending,
    inflight := t.inflight.map fun a => ⟨ofArr a, fun _ => none⟩,
    recorded := ofNat t.recorded, delivered := ofNat t.delivered, last := fun _ => none }

def Tab.ofSt (k : Nat) (s : St) : Tab :=
  { pending := (Array.range k).map s.pending,
    inflight := s.inflight.map fun b => (Array.range k).map b.recs,
    recorded := (Array.range k).map s.recorded,
    delivered := (Array.range k).map s.delivered }

structure S where
  k : Nat := 0
  tab : Tab := {}

def S.st (s : S) : St := s.tab.toSt
def S.set (s : S) (st : St) : S := { s with tab := Tab.ofSt s.k st }

def showRec (d : Nat) (r : Rec) : String :=
  s!"{d}:{r.n}:{r.m.time}:{r.m.ctry}:{r.m.asn}:{r.m.proto}"

def showRecs (k : Nat) (t : Recs) : String :=
  " ".intercalate ((List.range k).filterMap fun d => (t d).map (showRec d))

def tag (t body : String) : String := if body.isEmpty then t else t ++ " " ++ body

def showTotals (k : Nat) (s : St) : String :=
  tag "tot" (" ".intercalate ((List.range k).map fun d => s!"{d}:{s.recorded d}:{s.delivered d}"))

def step (s : S) : List String → S × String
  | ["init", k] => ({ k := nat! k, tab := Tab.ofSt (nat! k) St.init }, "ok")
  | ["rec", d, t, c, a, p] =>
    let st' := stepSer s.st (.record (nat! d) ⟨int! t, nat! c, nat! a, nat! p⟩)
    (s.set st', tag "pend" (showRecs s.k (fun k => if k = nat! d then st'.pending k else none)))
  | ["begin"] =>
    if blocked s.st .begin then (s, "blocked")
    else (s.set (stepSer s.st .begin), tag "batch" (showRecs s.k s.st.pending))
  | ["ok", i] =>
    match s.st.inflight[nat! i]? with
    | none => (s, "none")
    | some _ =>
      let st' := stepSer s.st (.endOk (nat! i))
      (s.set st', tag "pend" (showRecs s.k st'.pending))
  | ["fail", i] =>
    match s.st.inflight[nat! i]? with
    | none => (s, "none")
    | some _ =>
      let st' := stepSer s.st (.endFail (nat! i))
      (s.set st', tag "pend" (showRecs s.k st'.pending))
  | ["snap"] => (s, tag "pend" (showRecs s.k s.st.pending))
  | ["totals"] => (s, showTotals s.k s.st)
  | _ => (s, "bad-op")

def main : IO Unit := loop step {}

end Agd.Driver.C16
