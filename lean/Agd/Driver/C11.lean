import Agd.Driver.Util
/-! Line-protocol driver for the C11 model (stub: not built yet). -/
namespace Agd.Driver.C11
def main : IO Unit := Agd.Driver.loop (fun (s : Unit) _ => (s, "bad-op")) ()
end Agd.Driver.C11
