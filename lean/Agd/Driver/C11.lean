import Agd.Model.HashPrefix
import Agd.Model.Sha256
import Agd.Driver.Util
/-! Line-protocol driver for the C11 model.  Byte strings travel hex-encoded (`-` = empty).

* `reset i TEXT`            → `ok n` | `err`          (Storage.Reset on storage i)
* `new i TEXT`              → `ok` | `err`            (storage i := NewStorage(TEXT); empty on error)
* `matches i HOST`          → `1` | `0`               (Storage.Matches)
* `matchany i H1 H2 …`      → `none` | `rule HOST`    (Storage.MatchesAny: the first listed host)
* `hashes i P1 P2 …`        → hex digests | `-`       (Storage.Hashes, prefixes as 4 hex chars)
* `prefixes STR`            → `err` | prefixes | `-`  (prefixesFromStr)
* `ps DOMAIN SUFFIX icann`  → `ok`                    (one entry of the PublicSuffix table)
* `psclear`                 → `ok`
* `subs HOST`               → hosts | `-`             (hashableSubdomains)
* `filterable QT`           → `1` | `0`
* `filter i HOST QT`        → `none` | `rule HOST`    (Filter.FilterRequest verdict)
* `matcher SUF0 i0 SUF1 i1` → `ok`                    (NewMatcher)
* `txt HOST QT`             → `pass` | `refused` | `txt …`  (preservice through MatchByPrefix)
* `mbp HOST`                → `nomatch` | `err` | `ok …`    (Matcher.MatchByPrefix)
* `question FLAGS QNAME QT` → `none` | `list i rule HOST`   (question name as sent, through the group's
                              switches: FLAGS = five 0/1 for safe browsing on, dangerous, newly registered,
                              parental on, adult)
* `install i TEXT`          → `ok` | `err`            (a refresh of list i from its URL: empty body refused)
* `wmatcher ENV`            → `ok`                    (the matcher the builder makes; ENV = three 0/1 for
                              SAFE_BROWSING_ENABLED, ADULT_BLOCKING_ENABLED, NEW_REG_DOMAINS_ENABLED)
* `wquestion ENV FLAGS QNAME QT` → as `question`, with only the lists the builder has created
* `qtxt QNAME QT`           → as `txt`, from the question name as sent (not normalised)
-/
namespace Agd.Driver.C11
open Agd.HashPrefix Agd.Driver

def hexDigit (n : Nat) : Char := if n < 10 then Char.ofNat (48 + n) else Char.ofNat (87 + n)

def toHex (b : Bytes) : String :=
  if b.isEmpty then "-" else
  String.ofList (b.flatMap fun x => [hexDigit (x.toNat / 16), hexDigit (x.toNat % 16)])

def hv (c : Char) : Nat :=
  let n := c.toNat
  if n ≤ 57 then n - 48 else if n ≤ 70 then n - 55 else n - 87

def fromHexChars : List Char → Bytes
  | a :: b :: r => UInt8.ofNat (hv a * 16 + hv b) :: fromHexChars r
  | _ => []

def fromHex (s : String) : Bytes := if s == "-" then [] else fromHexChars s.toList

def showList (l : List Bytes) : String :=
  if l.isEmpty then "-" else " ".intercalate (l.map toHex)

/-- Digests as the code returns them: the model's `hexEncode`, as text. -/
def showDigests (l : List Bytes) : String :=
  if l.isEmpty then "-" else
  " ".intercalate (l.map fun b => String.ofList ((hexEncode b).map fun c => Char.ofNat c.toNat))

structure S where
  stores : Nat → Store := fun _ => Store.empty
  cfg : MatcherCfg := []
  table : List (Bytes × (Bytes × Bool)) := []

def S.ps (s : S) (d : Bytes) : Bytes × Bool :=
  match s.table.find? (fun e => e.1 == d) with
  | some e => e.2
  | none => ([], false)

def H := Agd.Sha256.sum

def parseCfg : List String → MatcherCfg
  | a :: b :: r => (fromHex a, nat! b) :: parseCfg r
  | _ => []

def step (s : S) : List String → S × String
  | ["reset", i, text] =>
    let r := reset H (s.stores (nat! i)) (fromHex text)
    ({ s with stores := resetAt H s.stores (nat! i) (fromHex text) },
      match r.2 with | some n => s!"ok {n}" | none => "err")
  | ["new", i, text] =>
    let r := newStorage H (fromHex text)
    ({ s with stores := fun j => if j = nat! i then r.1.getD Store.empty else s.stores j },
      match r.2 with | some _ => "ok" | none => "err")
  | ["matches", i, host] => (s, showB («matches» H (s.stores (nat! i)) (fromHex host)))
  | "matchany" :: i :: hosts =>
    (s, match firstMatch H (s.stores (nat! i)) (hosts.map fromHex) with
        | none => "none" | some r => "rule " ++ toHex r)
  | "hashes" :: i :: prefs => (s, showDigests (hashes (s.stores (nat! i)) (prefs.map fromHex)))
  | ["prefixes", str] =>
    (s, match prefixesFromStr (fromHex str) with | none => "err" | some ps => showList ps)
  | ["ps", d, suf, icann] => ({ s with table := (fromHex d, (fromHex suf, bool! icann)) :: s.table }, "ok")
  | ["psclear"] => ({ s with table := [] }, "ok")
  | ["subs", host] => (s, showList (hashableSubdomains s.ps (fromHex host)))
  | ["filterable", qt] => (s, showB (isFilterable (nat! qt)))
  | ["filter", i, host, qt] =>
    (s, match filterRule H s.ps (s.stores (nat! i)) (fromHex host) (nat! qt) with
        | none => "none" | some r => "rule " ++ toHex r)
  | "matcher" :: rest => ({ s with cfg := parseCfg rest }, "ok")
  | ["txt", host, qt] =>
    (s, match respond s.stores s.cfg (fromHex host) (nat! qt) with
        | .pass => "pass" | .refused => "refused" | .txt hs => "txt " ++ showDigests hs)
  | ["question", flags, qname, qt] =>
    let f := flags.toList.map (· == '1')
    let en := enabledLists (f.getD 0 false) (f.getD 1 false) (f.getD 2 false) (f.getD 3 false) (f.getD 4 false)
    (s, match questionVerdict H s.ps s.stores en (fromHex qname) (nat! qt) with
        | none => "none" | some (i, r) => s!"list {i} rule " ++ toHex r)
  | ["install", i, text] =>
    let r := installText H (s.stores (nat! i)) (fromHex text)
    ({ s with stores := fun j => if j = nat! i then r.1 else s.stores j },
      match r.2 with | some _ => "ok" | none => "err")
  | ["wmatcher", env] =>
    let e := env.toList.map (· == '1')
    ({ s with cfg := builtCfg (e.getD 0 false) (e.getD 1 false) }, "ok")
  | ["wquestion", env, flags, qname, qt] =>
    let e := env.toList.map (· == '1')
    let f := flags.toList.map (· == '1')
    let en := builtLists (e.getD 0 false) (e.getD 1 false) (e.getD 2 false)
      (enabledLists (f.getD 0 false) (f.getD 1 false) (f.getD 2 false) (f.getD 3 false) (f.getD 4 false))
    (s, match questionVerdict H s.ps s.stores en (fromHex qname) (nat! qt) with
        | none => "none" | some (i, r) => s!"list {i} rule " ++ toHex r)
  | ["qtxt", qname, qt] =>
    (s, match questionRespond s.stores s.cfg (fromHex qname) (nat! qt) with
        | .pass => "pass" | .refused => "refused" | .txt hs => "txt " ++ showDigests hs)
  | ["mbp", host] =>
    (s, match matchByPrefix s.stores s.cfg (fromHex host) with
        | .notMatched => "nomatch" | .err => "err" | .ok hs => "ok " ++ showDigests hs)
  | _ => (s, "bad-op")

def main : IO Unit := loop step {}

end Agd.Driver.C11
