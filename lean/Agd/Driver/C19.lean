import Agd.Model.LinkIP
import Agd.Driver.Util
/-! Line-protocol driver for the C19 model.

Strings travel hex-encoded (two lower-case hex digits per byte, `-` for the empty string).

* `sp <method> <path>`            → `1`/`0`  (`shouldProxy`)
* `norm <path>`                   → hex of `normalize path`
* `host <remoteaddr>`             → `ok <hex>` or `err`  (`netutil.SplitHost`)
* `req <base> <ua> <method> <path> <remote> (<name> <value>)*`
    → `404` | `robots` | `500` | `proxy-error` | `proxy <path> <name>=<v>,<v>;…` over the watched header names.
* `wreq <base> <ua> <method> <target> <remote> (<name> <value>)*`
    → `rejected` when `net/http` refuses the request target (any form: origin, absolute, `*`, the
      authority of CONNECT), `unmodelled` for an absolute-form target whose authority is outside
      `simpleAuthority`, otherwise as `req` with the path that `parseAnyTarget` derives from the raw target.
* `dreq …` / `dwreq …`: as `req` / `wreq`, but nobody listens on the target (`serveFaulty` with the
  single attempt `noConn`): `404` | `robots` | `500` | `proxy-error`.
* `fl <base> <ua> <events> (<method> <target> <remote> <nhdr> (<name> <value>)*)*`
    → what the backend receives, in order, under the schedule `<events>` (comma-separated `r<i>` =
      request `i` runs up to and including `Rewrite`, `s<i>` = the transport writes request `i`) over
      the listed requests: `<i>:<method>:proxy <path> <headers>` joined by ` | `, or `-`. -/
namespace Agd.Driver.C19
open Agd.LinkIP Agd.Driver

def hexVal (c : Char) : Nat :=
  if c.isDigit then c.toNat - '0'.toNat
  else if 'a' ≤ c ∧ c ≤ 'f' then c.toNat - 'a'.toNat + 10
  else if 'A' ≤ c ∧ c ≤ 'F' then c.toNat - 'A'.toNat + 10
  else 0

def unhexL : List Char → Str
  | a :: b :: r => Char.ofNat (hexVal a * 16 + hexVal b) :: unhexL r
  | _ => []

def unhex (s : String) : Str := if s == "-" then [] else unhexL s.toList

def hexDigit (n : Nat) : Char :=
  if n < 10 then Char.ofNat ('0'.toNat + n) else Char.ofNat ('a'.toNat + n - 10)

def hex (s : Str) : String :=
  if s.isEmpty then "-"
  else String.ofList (s.flatMap fun c => [hexDigit (c.toNat / 16 % 16), hexDigit (c.toNat % 16)])

def parseHdrs : List String → Hdrs
  | n :: v :: r => (unhex n, unhex v) :: parseHdrs r
  | _ => []

def xCustom : Str := ['X', '-', 'C', 'u', 's', 't', 'o', 'm']
def xClientIP : Str := ['X', '-', 'C', 'l', 'i', 'e', 'n', 't', '-', 'I', 'p']

/-- header names reported by `req`. -/
def watched : List Str :=
  [hXConnectingIP, hXRequestID] ++ forwardingNames ++ [hUserAgent, xCustom, xClientIP, hConnection, hUpgrade]

def showHdrs (h : Hdrs) : String :=
  let items := watched.filterMap fun n =>
    match vals n h with
    | [] => none
    | vs => some (String.ofList n ++ "=" ++ ",".intercalate (vs.map hex))
  if items.isEmpty then "-" else ";".intercalate items

def reqID : Str := ['I', 'D']

def showResp : Resp → String
  | .notFound => "404"
  | .robots => "robots"
  | .err500 => "500"
  | .proxyErr => "proxy-error"
  | .proxied path h => "proxy " ++ hex path ++ " " ++ showHdrs h

def showAnswer : ClientAnswer → String
  | .notFound => "404"
  | .robots => "robots"
  | .err500 => "500"
  | .empty => "proxy-error"
  | .backend st => "backend-" ++ toString st

partial def parseReqs : List String → List Req
  | m :: t :: remote :: n :: rest =>
    let k := nat! n
    let r : Req :=
      match parseTarget (unhex t) with
      | some p => { method := unhex m, path := p, remote := unhex remote, hdrs := parseHdrs (rest.take (2 * k)) }
      | none => { method := [], path := [], remote := [], hdrs := [] }
    r :: parseReqs (rest.drop (2 * k))
  | _ => []

def parseEvs (s : String) : List Ev :=
  (s.splitOn ",").filterMap fun w =>
    match w.toList with
    | 'r' :: ds => some (.rewrite (nat! (String.ofList ds)))
    | 's' :: ds => some (.send (nat! (String.ofList ds)))
    | _ => none

def showLog (l : List (Nat × Out)) : String :=
  if l.isEmpty then "-"
  else " | ".intercalate (l.map fun io =>
    toString io.1 ++ ":" ++ hex io.2.method ++ ":" ++ showResp (.proxied io.2.path io.2.hdrs))

def step (s : Unit) : List String → Unit × String
  | ["sp", m, p] => (s, showB (shouldProxy (unhex m) (unhex p)))
  | ["norm", p] => (s, hex (normalize (unhex p)))
  | ["host", a] =>
    (s, match splitHost (unhex a) with
        | some h => "ok " ++ hex h
        | none => "err")
  | "req" :: base :: ua :: m :: p :: remote :: hs =>
    let e : Env := { base := unhex base, reqID := reqID, ua := unhex ua }
    let r : Req := { method := unhex m, path := unhex p, remote := unhex remote, hdrs := parseHdrs hs }
    (s, showResp (serve e r))
  | "wreq" :: base :: ua :: m :: target :: remote :: hs =>
    (s, match parseAnyTarget (unhex m) (unhex target) with
        | .refused => "rejected"
        | .unmodelled => "unmodelled"
        | .path p =>
          let e : Env := { base := unhex base, reqID := reqID, ua := unhex ua }
          let r : Req := { method := unhex m, path := p, remote := unhex remote, hdrs := parseHdrs hs }
          showResp (serve e r))
  | "dreq" :: base :: ua :: m :: p :: remote :: hs =>
    let e : Env := { base := unhex base, reqID := reqID, ua := unhex ua }
    let r : Req := { method := unhex m, path := unhex p, remote := unhex remote, hdrs := parseHdrs hs }
    (s, showAnswer (serveFaulty e r true [.noConn]).1)
  | "dwreq" :: base :: ua :: m :: target :: remote :: hs =>
    (s, match parseAnyTarget (unhex m) (unhex target) with
        | .refused => "rejected"
        | .unmodelled => "unmodelled"
        | .path p =>
          let e : Env := { base := unhex base, reqID := reqID, ua := unhex ua }
          let r : Req := { method := unhex m, path := p, remote := unhex remote, hdrs := parseHdrs hs }
          showAnswer (serveFaulty e r true [.noConn]).1)
  | "fl" :: base :: ua :: evs :: rs =>
    let e : Env := { base := unhex base, reqID := reqID, ua := unhex ua }
    (s, showLog (runFlight .none e (parseReqs rs) (parseEvs evs)).log)
  | _ => (s, "bad-op")

def main : IO Unit := loop step ()

end Agd.Driver.C19
