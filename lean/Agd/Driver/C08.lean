import Agd.Model.Normalize
import Agd.Driver.Util
/-!
Line-protocol driver for the C08 model.

```
serve <legacy> <transport> <cfgMax> <idleMs> <draw> <slack>
      <reqOpt 0|1> <reqSize> <reqDo> <reqOpts>
      <tc> <q> <unc> <ans> <ns> <extra> <ns2> <extra2>
      <respOpt 0|1> <size> <extRcode> <version> <do> <z> <opts>
maxsize <isUdp> <edns> <cap>
```
Lists are comma separated, `_` is the empty list; options are `code:len`.
Answer: `ka kn ke tc opt size ext ver do z opts len wire emitted`.
-/
namespace Agd.Driver.C08
open Agd.Normalize Agd.Driver

def parseList (s : String) : List Nat :=
  if s == "_" then [] else (s.splitOn ",").map nat!

def parseOpts (s : String) : List EOpt :=
  if s == "_" then []
  else (s.splitOn ",").map fun p =>
    match p.splitOn ":" with
    | [c, l] => { code := nat! c, len := nat! l }
    | _ => { code := 0, len := 0 }

def parseT : String → Option Transport
  | "udp" => some .udp | "tcp" => some .tcp | "dot" => some .dot | "doh" => some .doh
  | "doq" => some .doq | "dcu" => some .dcUdp | "dct" => some .dcTcp | _ => none

def showList (xs : List String) : String := if xs.isEmpty then "_" else ",".intercalate xs

def showOpt : Option Opt → String
  | none => "0 0 0 0 0 0 _"
  | some o => s!"1 {o.udpSize} {o.extRcode} {o.version} {showB o.dobit} {o.z} " ++
      showList (o.opts.map fun e => s!"{e.code}:{e.len}")

def mkOpt (present size ext ver dobit z opts : String) : Option Opt :=
  if bool! present then
    some { udpSize := nat! size, extRcode := nat! ext, version := nat! ver, dobit := bool! dobit,
           z := nat! z, opts := parseOpts opts }
  else none

def step (s : Unit) : List String → Unit × String
  | ["serve", legacy, t, cfgMax, idle, draw, slack, ro, rsize, rdo, ropts,
     tc, q, unc, ans, ns, extra, ns2, extra2, po, psize, pext, pver, pdo, pz, popts] =>
    match parseT t with
    | none => (s, "bad-op")
    | some t =>
      let req := mkOpt ro rsize "0" "0" rdo "0" ropts
      let r : Resp := { tc := bool! tc, q := nat! q, unc := nat! unc, ans := parseList ans,
                        ns := parseList ns, extra := parseList extra, ns2 := parseList ns2,
                        extra2 := parseList extra2, opt := mkOpt po psize pext pver pdo pz popts }
      let o := serveG (bool! legacy) t (nat! cfgMax) (nat! idle) req r (nat! draw) (nat! slack)
      (s, s!"{o.cut.ka} {o.cut.kn} {o.cut.ke} {showB o.cut.tc} {showOpt o.opt} {o.len} {o.wire} {showB o.emitted}")
  | ["maxsize", isUdp, edns, cap] =>
    (s, toString (maxDNSSize (bool! isUdp) (nat! edns) (nat! cap)))
  | _ => (s, "bad-op")

def main : IO Unit := loop step ()

end Agd.Driver.C08
