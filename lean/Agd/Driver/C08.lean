import Agd.Model.Normalize
import Agd.Driver.Util
/-!
Line-protocol driver for the C08 model.

```
serve <legacy> <transport> <cfgMax> <idleMs> <draw> <slack>
      <reqOpt 0|1> <reqSize> <reqDo> <reqOpts>
      <tc> <q> <unc> <ans> <ns> <extra> <ns2> <extra2>
      <respOpt 0|1> <size> <extRcode> <version> <do> <z> <opts> <rcodeHi> <tsig>
respond <legacy> <transport> <cfgMax> <idleMs> <draw> <slack> <draw2>
      <hdrResponse> <opcode> <nq> <nans> <nns> <qe>
      <reqOpt 0|1> <reqSize> <reqDo> <reqOpts>
      <wrote|silent|failed0|failed1> <the 17 response fields of `serve` (ignored unless `wrote`)>
maxsize <isUdp> <edns> <cap>
dcenv <isUdp> <advertised> <len>      -- DNSCrypt envelope: `dcSize encLen prefix frameOk`
dcvis <legacy> <adv> <cfg> <unc>      -- DNSCrypt/UDP: `plain <unc>` (left uncompressed) or `cut`
dcaccept <hdrResponse> <nq>           -- does the DNSCrypt library hand the query to the handler?
```
`respond` answers `none` when nothing reaches the wire.
Lists are comma separated, `_` is the empty list; options are `code:len`.
Answer: `ka kn ke tc opt size ext ver do z opts len wire emitted`.
-/
namespace Agd.Driver.C08
open Agd.Normalize Agd.Driver

def parseList (s : String) : List Nat :=
  if s == "_" then [] else (s.splitOn ",").map nat!

def parseOpts (s : String) : List EOpt :=
  if s == "_" then []
  else (s.splitOn ",").map fun p =>
    match p.splitOn ":" with
    | [c, l] => { code := nat! c, len := nat! l }
    | _ => { code := 0, len := 0 }

def parseT : String → Option Transport
  | "udp" => some .udp | "tcp" => some .tcp | "dot" => some .dot | "doh" => some .doh
  | "doq" => some .doq | "dcu" => some .dcUdp | "dct" => some .dcTcp | _ => none

def showList (xs : List String) : String := if xs.isEmpty then "_" else ",".intercalate xs

def showOpt : Option Opt → String
  | none => "0 0 0 0 0 0 _"
  | some o => s!"1 {o.udpSize} {o.extRcode} {o.version} {showB o.dobit} {o.z} " ++
      showList (o.opts.map fun e => s!"{e.code}:{e.len}")

def mkOpt (present size ext ver dobit z opts : String) : Option Opt :=
  if bool! present then
    some { udpSize := nat! size, extRcode := nat! ext, version := nat! ver, dobit := bool! dobit,
           z := nat! z, opts := parseOpts opts }
  else none

def showOut (o : Out) : String :=
  s!"{o.cut.ka} {o.cut.kn} {o.cut.ke} {showB o.cut.tc} {showOpt o.opt} {o.len} {o.wire} {showB o.emitted}"

def mkResp (tc q unc ans ns extra ns2 extra2 po psize pext pver pdo pz popts rhi tsig : String) : Resp :=
  { tc := bool! tc, q := nat! q, unc := nat! unc, ans := parseList ans,
    ns := parseList ns, extra := parseList extra, ns2 := parseList ns2,
    extra2 := parseList extra2, opt := mkOpt po psize pext pver pdo pz popts,
    rcodeHi := nat! rhi, tsig := bool! tsig }

def step (s : Unit) : List String → Unit × String
  | ["serve", legacy, t, cfgMax, idle, draw, slack, ro, rsize, rdo, ropts,
     tc, q, unc, ans, ns, extra, ns2, extra2, po, psize, pext, pver, pdo, pz, popts, rhi, tsig] =>
    match parseT t with
    | none => (s, "bad-op")
    | some t =>
      let req := mkOpt ro rsize "0" "0" rdo "0" ropts
      let r := mkResp tc q unc ans ns extra ns2 extra2 po psize pext pver pdo pz popts rhi tsig
      (s, showOut (serveG (bool! legacy) t (nat! cfgMax) (nat! idle) req r (nat! draw) (nat! slack)))
  | "respond" :: legacy :: t :: cfgMax :: idle :: draw :: slack :: draw2 :: hresp :: opc :: nq ::
      nans :: nns :: qe :: ro :: rsize :: rdo :: ropts :: hk :: rest =>
    match parseT t, rest with
    | some t, [tc, q, unc, ans, ns, extra, ns2, extra2, po, psize, pext, pver, pdo, pz, popts, rhi, tsig] =>
      let req := mkOpt ro rsize "0" "0" rdo "0" ropts
      let hdr : QHdr := { response := bool! hresp, opcode := nat! opc, nq := nat! nq,
                          nans := nat! nans, nns := nat! nns }
      let h : Option Handler :=
        if hk == "wrote" then
          some (.wrote (mkResp tc q unc ans ns extra ns2 extra2 po psize pext pver pdo pz popts rhi tsig))
        else if hk == "silent" then some .silent
        else if hk == "failed0" then some (.failed false)
        else if hk == "failed1" then some (.failed true)
        else none
      match h with
      | none => (s, "bad-op")
      | some h =>
        match respondG (bool! legacy) t (nat! cfgMax) (nat! idle) hdr (nat! qe) req h (nat! draw)
            (nat! slack) (nat! draw2) with
        | none => (s, "none")
        | some o => (s, showOut o)
    | _, _ => (s, "bad-op")
  | ["dcenv", isUdp, adv, len] =>
    (s, s!"{dcSize (bool! isUdp) (nat! adv)} {dcEncLen (nat! len)} {dcPrefix (nat! len)} {showB (dcFrameOk (nat! len))}")
  | ["dcvis", legacy, adv, cfg, unc] =>
    -- does the library leave a message of uncompressed length `unc` (OPT included) alone, packed
    -- without compression, for a UDP client advertising `adv` under the configured maximum `cfg`?
    let seen := dcAdvSeen (bool! legacy) (nat! adv) (nat! cfg)
    (s, if nat! unc ≤ max (dcSize true seen) minMsgSize then s!"plain {nat! unc}" else "cut")
  | ["dcaccept", hresp, nq] =>
    (s, showB (dcAccepts { response := bool! hresp, opcode := 0, nq := nat! nq, nans := 0, nns := 0 }))
  | ["maxsize", isUdp, edns, cap] =>
    (s, toString (maxDNSSize (bool! isUdp) (nat! edns) (nat! cap)))
  | _ => (s, "bad-op")

def main : IO Unit := loop step ()

end Agd.Driver.C08
