import Agd.Model.Refresh
import Agd.Driver.Util
/-! Line-protocol driver for the C13 model (filter refreshes). -/
namespace Agd.Driver.C13
open Agd.Refresh Agd.Driver

abbrev Tab (α : Type) := List (Nat × α)

def look {α : Type} (t : Tab α) (d : α) (k : Nat) : α :=
  match t.find? (fun p => p.1 == k) with
  | some p => p.2
  | none => d

def cfg0 : Cfg :=
  { idxMax := 0, rlMax := 0, svcMax := 0, svcEnabled := false, keepInvalid := true,
    svcNilCheck := true }

structure S where
  cfg : Cfg := cfg0
  len : Tab Nat := []
  idx : Tab (Option (List Entry)) := []
  svc : Tab (Option (List SvcEntry)) := []
  hashOk : Tab Bool := []
  fresh : Tab Bool := []
  resp : Tab Resp := []
  keys : List Nat := []
  st : St := St.empty
  h : HSt := { mem := none, disk := none }
  /-- further hash-prefix filters, by slot number -/
  hs : Tab HSt := []
  ss : SSt := { gen := { mem := none, disk := none }, yt := { mem := none, disk := none } }

def S.env (s : S) : Env :=
  { len := look s.len 0, idx := look s.idx none, svc := look s.svc none,
    hashOk := look s.hashOk false }

/-- `g` = `Get` error; `status:c:cut:eofLast` = a response. -/
def parseResp (t : String) : Resp :=
  match t.splitOn ":" with
  | [st, c, cut, eof] => .resp (nat! st) (nat! c) (bool! cut) (bool! eof)
  | _ => .getErr

def parseEntries : List String → List Entry
  | k :: ko :: uo :: u :: r =>
    { key := nat! k, keyOk := bool! ko, urlOk := bool! uo, url := nat! u } :: parseEntries r
  | _ => []

def hexVal (c : Char) : Nat :=
  if c.isDigit then c.toNat - '0'.toNat else if 'a' ≤ c ∧ c ≤ 'f' then c.toNat - 'a'.toNat + 10 else 0

/-- Two hex digits per byte. -/
def hexBytes : List Char → List Nat
  | a :: b :: r => (hexVal a * 16 + hexVal b) :: hexBytes r
  | _ => []

/-- One decoded index entry: `n` = null, `o:num:hexkey:urlEmpty:urlParses:url` = an object; `num` is
the number the harness gives the key string. -/
def parseRaw (t : String) : RawEntry × Nat :=
  match t.splitOn ":" with
  | ["o", num, hex, ue, up, u] =>
    ({ null := false, key := hexBytes hex.toList, urlEmpty := bool! ue, urlParses := bool! up,
       url := nat! u }, nat! num)
  | ["t", num, hex, ue, up, u] =>
    ({ null := false, key := hexBytes hex.toList, urlEmpty := bool! ue, urlParses := bool! up,
       url := nat! u, typeErr := true }, nat! num)
  | _ => ({ null := true, key := [], urlEmpty := true, urlParses := false, url := 0 }, 0)

def numOf (tbl : List (List Nat × Nat)) (k : List Nat) : Nat :=
  match tbl.find? (fun p => p.1 == k) with
  | some p => p.2
  | none => 0

/-- `n` = null, `b` = bad id, anything else = a service that converts. -/
def parseSvcEntries (ts : List String) : List SvcEntry :=
  ts.map fun t => if t == "n" then .null else if t == "b" then .badId else .ok

def optNat (t : String) : Option Nat := if t == "-" then none else some (nat! t)

def showO : Option Nat → String
  | none => "-"
  | some c => toString c

def insertKey (ks : List Nat) (k : Nat) : List Nat :=
  if ks.contains k then ks else
  (ks.filter (· < k)) ++ k :: (ks.filter (· > k))

/-- The same state with the two maps rebuilt from evaluated tables over the keys seen so far.  The
model's maps are functions; without this the closures of all earlier rounds stay in the chain and
are re-entered on every look-up (exponentially often through `keepPrev`).  Keys outside `keys`
have never been named by any document or file, so both maps are `none` there anyway. -/
def normSt (keys : List Nat) (st : St) : St :=
  let rl : Tab (Option Nat) := keys.map fun k => (k, st.rl k)
  let rd : Tab (Option Nat) := keys.map fun k => (k, st.rlDisk k)
  { st with rl := look rl none, rlDisk := look rd none }

def showSt (s : S) (ok : String) : String :=
  let rls := s.keys.filterMap fun k =>
    match s.st.rl k, s.st.rlDisk k with
    | none, none => none
    | m, d => some (toString k ++ ":" ++ showO m ++ "/" ++ showO d)
  "ok=" ++ ok ++ " idx=" ++ showO s.st.idxDisk ++ " svc=" ++ showO s.st.svc ++ "/" ++
    showO s.st.svcDisk ++ " rl=" ++ ",".intercalate rls

/-- Whether the context gets cancelled in the round (so that the services are not reached). -/
def addUntilCancelled (s : S) (R : Round) (u : Nat) : Bool :=
  match (refresh s.env s.cfg.idxMax R.acceptStale s.st.idxDisk R.idxFresh R.idxResp).1 with
  | none => false
  | some d =>
    match s.env.idx d with
    | none => false
    | some es =>
      (addUntilCancel s.env s.cfg R s.st.rl u ⟨fun _ => none, s.st.rlDisk⟩ (toInternal es)).2

def step (s : S) : List String → S × String
  | ["cfg", im, rm, sm, se, ki, nc] =>
    ({ cfg := { idxMax := nat! im, rlMax := nat! rm, svcMax := nat! sm, svcEnabled := bool! se,
                keepInvalid := bool! ki, svcNilCheck := bool! nc } }, "ok")
  | ["cfg", im, rm, sm, se, ki, nc, rr] =>
    ({ cfg := { idxMax := nat! im, rlMax := nat! rm, svcMax := nat! sm, svcEnabled := bool! se,
                keepInvalid := bool! ki, svcNilCheck := bool! nc, rejectReserved := bool! rr } }, "ok")
  | ["cfg", im, rm, sm, se, ki, nc, rr, ld] =>
    ({ cfg := { idxMax := nat! im, rlMax := nat! rm, svcMax := nat! sm, svcEnabled := bool! se,
                keepInvalid := bool! ki, svcNilCheck := bool! nc, rejectReserved := bool! rr,
                lenientDecode := bool! ld } }, "ok")
  -- an index document as decoded, in document order: the model sorts and validates it itself
  | "rawdoc" :: c :: jsonOk :: rest =>
    let ps := rest.map parseRaw
    let tbl := ps.map fun p => (p.1.key, p.2)
    let es := loadRaw s.cfg.rejectReserved (numOf tbl) (ps.map (·.1))
    let decoded := (decodeDoc s.cfg.lenientDecode (ps.map (·.1))).isSome
    ({ s with idx := (nat! c, if bool! jsonOk && decoded then some es else none) :: s.idx,
              keys := es.foldl (fun ks e => insertKey ks e.key) s.keys }, "ok")
  -- a restart with another configuration: the size limits change, the state stays
  | ["max", im, rm, sm] =>
    ({ s with cfg := { s.cfg with idxMax := nat! im, rlMax := nat! rm, svcMax := nat! sm } }, "ok")
  | ["len", c, n] => ({ s with len := (nat! c, nat! n) :: s.len }, "ok")
  | "doc" :: c :: jsonOk :: rest =>
    let es := parseEntries rest
    ({ s with idx := (nat! c, if bool! jsonOk then some es else none) :: s.idx,
              keys := es.foldl (fun ks e => insertKey ks e.key) s.keys }, "ok")
  | "svcdoc" :: c :: jsonOk :: rest =>
    ({ s with svc := (nat! c, if bool! jsonOk then some (parseSvcEntries rest) else none) :: s.svc },
      "ok")
  | ["hashok", c, b] => ({ s with hashOk := (nat! c, bool! b) :: s.hashOk }, "ok")
  | ["fresh", k, b] => ({ s with fresh := (nat! k, bool! b) :: s.fresh }, "ok")
  | ["resp", u, r] => ({ s with resp := (nat! u, parseResp r) :: s.resp }, "ok")
  | ["disk", "rl", k, c] =>
    ({ s with st := { s.st with rlDisk := put s.st.rlDisk (nat! k) (optNat c) },
              keys := insertKey s.keys (nat! k) }, "ok")
  | ["disk", "idx", c] => ({ s with st := { s.st with idxDisk := optNat c } }, "ok")
  | ["disk", "svc", c] => ({ s with st := { s.st with svcDisk := optNat c } }, "ok")
  | ["disk", "hash", c] => ({ s with h := { s.h with disk := optNat c } }, "ok")
  | ["round", acc, idxFresh, idxResp, svcFresh, svcResp] =>
    let R : Round := { acceptStale := bool! acc, idxFresh := bool! idxFresh,
                       idxResp := parseResp idxResp, fresh := look s.fresh false,
                       resp := look s.resp .getErr, svcFresh := bool! svcFresh,
                       svcResp := parseResp svcResp }
    let res := refreshStorage s.env s.cfg s.st R
    let s' := { s with st := normSt s.keys res.1, fresh := [], resp := [] }
    (s', showSt s' (if refreshPanics s.env s.cfg s.st R then "p" else showB res.2))
  -- the request for rule-list URL `u` cancels the context of the round
  | ["roundc", acc, idxFresh, idxResp, svcFresh, svcResp, u] =>
    let R : Round := { acceptStale := bool! acc, idxFresh := bool! idxFresh,
                       idxResp := parseResp idxResp, fresh := look s.fresh false,
                       resp := look s.resp .getErr, svcFresh := bool! svcFresh,
                       svcResp := parseResp svcResp }
    let res := refreshStorageCancel s.env s.cfg s.st R (nat! u)
    let s' := { s with st := normSt s.keys res.1, fresh := [], resp := [] }
    (s', showSt s' (if !(addUntilCancelled s R (nat! u)) && refreshPanics s.env s.cfg s.st R then "p"
                    else showB res.2))
  -- a whole round of `Default.refresh` with the safe-search filters
  | ["ssround", acc, idxFresh, idxResp, svcFresh, svcResp, mx, gOn, gFresh, gResp, yOn, yFresh, yResp] =>
    let R : Round := { acceptStale := bool! acc, idxFresh := bool! idxFresh,
                       idxResp := parseResp idxResp, fresh := look s.fresh false,
                       resp := look s.resp .getErr, svcFresh := bool! svcFresh,
                       svcResp := parseResp svcResp }
    let SR : SRound := { max := nat! mx, genOn := bool! gOn, genFresh := bool! gFresh,
                         genResp := parseResp gResp, ytOn := bool! yOn, ytFresh := bool! yFresh,
                         ytResp := parseResp yResp }
    let res := refreshFull s.env s.cfg s.st s.ss R SR
    let s' := { s with st := normSt s.keys res.1.1, ss := res.1.2, fresh := [], resp := [] }
    (s', showSt s' (showB res.2) ++ " ssg=" ++ showO s'.ss.gen.mem ++ "/" ++ showO s'.ss.gen.disk ++
      " ssy=" ++ showO s'.ss.yt.mem ++ "/" ++ showO s'.ss.yt.disk)
  | ["disk", "ssg", c] => ({ s with ss := { s.ss with gen := { s.ss.gen with disk := optNat c } } }, "ok")
  | ["disk", "ssy", c] => ({ s with ss := { s.ss with yt := { s.ss.yt with disk := optNat c } } }, "ok")
  -- one of several hash-prefix filters
  | ["hashs", slot, max, acc, fresh, r] =>
    let h0 := look s.hs { mem := none, disk := none } (nat! slot)
    let res := refreshHash s.env (nat! max) (bool! acc) h0 (bool! fresh) (parseResp r)
    ({ s with hs := (nat! slot, res.1) :: s.hs },
      "ok=" ++ showB res.2 ++ " mem=" ++ showO res.1.mem ++ " disk=" ++ showO res.1.disk)
  | ["disk", "hashs", slot, c] =>
    let h0 := look s.hs { mem := none, disk := none } (nat! slot)
    ({ s with hs := (nat! slot, { h0 with disk := optNat c }) :: s.hs }, "ok")
  | ["restart"] =>
    ({ s with st := restart s.st,
              ss := { gen := { s.ss.gen with mem := none }, yt := { s.ss.yt with mem := none } },
              hs := s.hs.map fun p => (p.1, { p.2 with mem := none }) }, "ok")
  | ["hash", max, acc, fresh, r] =>
    let res := refreshHash s.env (nat! max) (bool! acc) s.h (bool! fresh) (parseResp r)
    ({ s with h := res.1 },
      "ok=" ++ showB res.2 ++ " mem=" ++ showO res.1.mem ++ " disk=" ++ showO res.1.disk)
  -- one `refreshFromURL` call of `n` writes under a file-system fault: what the cache path holds
  -- afterwards and whether the temporary file is still there
  | ["fsf", kind, n, i, j, ok] =>
    let chunks : List (List Nat) := List.replicate (nat! n) [1, 2]
    let f : FsFault := match kind with
      | "create" => .createFails
      | "write" => .writeFails (nat! i) (nat! j)
      | "replace" => .replaceFails
      | "chtimes" => .chtimesFails
      | _ => .none
    let r := fsExec ⟨some [0], none⟩ (fsTraceF chunks (bool! ok) f)
    (s, "path=" ++ (if r.path == some [0] then "old" else if r.path == some chunks.flatten then "new"
                    else "other") ++ " tmp=" ++ (if r.tmp.isSome then "left" else "none"))
  | ["hrestart"] => ({ s with h := { s.h with mem := none } }, "ok")
  | _ => (s, "bad-op")

def main : IO Unit := loop step {}

end Agd.Driver.C13
