import Agd.Model.Refresh
import Agd.Driver.Util
/-! Line-protocol driver for the C13 model (filter refreshes). -/
namespace Agd.Driver.C13
open Agd.Refresh Agd.Driver

abbrev Tab (α : Type) := List (Nat × α)

def look {α : Type} (t : Tab α) (d : α) (k : Nat) : α :=
  match t.find? (fun p => p.1 == k) with
  | some p => p.2
  | none => d

structure S where
  cfg : Cfg := { idxMax := 0, rlMax := 0, svcMax := 0, svcEnabled := false, keepInvalid := true }
  len : Tab Nat := []
  idx : Tab (Option (List Entry)) := []
  svcOk : Tab Bool := []
  hashOk : Tab Bool := []
  fresh : Tab Bool := []
  resp : Tab Resp := []
  keys : List Nat := []
  st : St := St.empty
  h : HSt := { mem := none, disk := none }

def S.env (s : S) : Env :=
  { len := look s.len 0, idx := look s.idx none, svcOk := look s.svcOk false,
    hashOk := look s.hashOk false }

/-- `g` = `Get` error; `status:c:cut:eofLast` = a response. -/
def parseResp (t : String) : Resp :=
  match t.splitOn ":" with
  | [st, c, cut, eof] => .resp (nat! st) (nat! c) (bool! cut) (bool! eof)
  | _ => .getErr

def parseEntries : List String → List Entry
  | k :: ko :: uo :: u :: r =>
    { key := nat! k, keyOk := bool! ko, urlOk := bool! uo, url := nat! u } :: parseEntries r
  | _ => []

def optNat (t : String) : Option Nat := if t == "-" then none else some (nat! t)

def showO : Option Nat → String
  | none => "-"
  | some c => toString c

def insertKey (ks : List Nat) (k : Nat) : List Nat :=
  if ks.contains k then ks else
  (ks.filter (· < k)) ++ k :: (ks.filter (· > k))

def showSt (s : S) (ok : Bool) : String :=
  let rls := s.keys.filterMap fun k =>
    match s.st.rl k, s.st.rlDisk k with
    | none, none => none
    | m, d => some (toString k ++ ":" ++ showO m ++ "/" ++ showO d)
  "ok=" ++ showB ok ++ " idx=" ++ showO s.st.idxDisk ++ " svc=" ++ showO s.st.svc ++ "/" ++
    showO s.st.svcDisk ++ " rl=" ++ ",".intercalate rls

def step (s : S) : List String → S × String
  | ["cfg", im, rm, sm, se, ki] =>
    ({ cfg := { idxMax := nat! im, rlMax := nat! rm, svcMax := nat! sm, svcEnabled := bool! se,
                keepInvalid := bool! ki } }, "ok")
  | ["len", c, n] => ({ s with len := (nat! c, nat! n) :: s.len }, "ok")
  | "doc" :: c :: jsonOk :: rest =>
    let es := parseEntries rest
    ({ s with idx := (nat! c, if bool! jsonOk then some es else none) :: s.idx,
              keys := es.foldl (fun ks e => insertKey ks e.key) s.keys }, "ok")
  | ["svcok", c, b] => ({ s with svcOk := (nat! c, bool! b) :: s.svcOk }, "ok")
  | ["hashok", c, b] => ({ s with hashOk := (nat! c, bool! b) :: s.hashOk }, "ok")
  | ["fresh", k, b] => ({ s with fresh := (nat! k, bool! b) :: s.fresh }, "ok")
  | ["resp", u, r] => ({ s with resp := (nat! u, parseResp r) :: s.resp }, "ok")
  | ["disk", "rl", k, c] =>
    ({ s with st := { s.st with rlDisk := put s.st.rlDisk (nat! k) (optNat c) },
              keys := insertKey s.keys (nat! k) }, "ok")
  | ["disk", "idx", c] => ({ s with st := { s.st with idxDisk := optNat c } }, "ok")
  | ["disk", "svc", c] => ({ s with st := { s.st with svcDisk := optNat c } }, "ok")
  | ["disk", "hash", c] => ({ s with h := { s.h with disk := optNat c } }, "ok")
  | ["round", acc, idxFresh, idxResp, svcFresh, svcResp] =>
    let R : Round := { acceptStale := bool! acc, idxFresh := bool! idxFresh,
                       idxResp := parseResp idxResp, fresh := look s.fresh false,
                       resp := look s.resp .getErr, svcFresh := bool! svcFresh,
                       svcResp := parseResp svcResp }
    let res := refreshStorage s.env s.cfg s.st R
    let s' := { s with st := res.1, fresh := [], resp := [] }
    (s', showSt s' res.2)
  | ["restart"] => ({ s with st := restart s.st }, "ok")
  | ["hash", max, acc, fresh, r] =>
    let res := refreshHash s.env (nat! max) (bool! acc) s.h (bool! fresh) (parseResp r)
    ({ s with h := res.1 },
      "ok=" ++ showB res.2 ++ " mem=" ++ showO res.1.mem ++ " disk=" ++ showO res.1.disk)
  | ["hrestart"] => ({ s with h := { s.h with mem := none } }, "ok")
  | _ => (s, "bad-op")

def main : IO Unit := loop step {}

end Agd.Driver.C13
