import Agd.Model.Record
import Agd.Driver.Util
/-!
Line-protocol driver for the C15 model.

Strings travel as `x` followed by hex byte pairs (`x` alone is the empty string); `-` is "absent".

* `esc S`                      → hex of `esc S`
* `lex L`                      → the members the independent reader `lexLine` finds in line `L`, or `none`
* `line RN <entry>`            → hex of `encodeLine entry RN`
* `serve <req>`                → the effects of `serve req`
* `fsinit`, `fsw RN <entry>`, `fsstep I C`, `fsfile`, `fsorder` → the concurrent file model
* `preset`, `pmsg K id qlog iplog deleted` → the backend's latest message for profile `K`
* `pserve SRC K <req>`         → the effects of `serve req` where the profile database's answer is
  `lookupFrom SRC (message K)` (`SRC` is `b` backend or `c` cache file; the `devKind` token of `<req>` says
  whether the database finds the device at all, its profile tokens are ignored)

* `wserve RN EL FE PEN DOMS K LINKED SNI BYID BYLINKED <req>` → the effects of a request to a server
  (YAML protocol index `K`, `linked_ip_enabled` `LINKED`) of a server group (`profiles_enabled` `PEN`,
  device domains `DOMS` = `-` or `xD,xD`) under `query_log.file.enabled` = `FE`; `SNI` is `-` or
  `xLABEL,xPARENT`; `BYID`/`BYLINKED` are the profile database's answers `kind,pid,qlog,iplog,dev`; the
  device and protocol tokens of `<req>` are ignored; answer: effects without the entry, then
  `file=` the bytes appended to the log file (random number `RN`, elapsed `EL`)
* `fsstep I C` at the step after the encoding: `C` ≠ `-` makes the `write(2)` fail

`<entry>` is 21 tokens: ip reqKind reqList reqRule respKind respList respRule timeMs reqId prof dev
cc rc name elapsedMs asn qtype rcode proto dnssec.
-/
namespace Agd.Driver.C15
open Agd.Record Agd.Driver

def hexVal (c : Char) : Nat :=
  if '0' ≤ c ∧ c ≤ '9' then c.toNat - 48
  else if 'a' ≤ c ∧ c ≤ 'f' then c.toNat - 87
  else if 'A' ≤ c ∧ c ≤ 'F' then c.toNat - 55
  else 0

def unhexL : List Char → Str
  | a :: b :: r => (hexVal a * 16 + hexVal b) :: unhexL r
  | _ => []

/-- `xHEX` → bytes. -/
def str! (s : String) : Str := unhexL (s.toList.drop 1)

def hexC (n : Nat) : Char := Char.ofNat (hexDigit n)

def hexOf (s : Str) : String :=
  String.ofList ('x' :: s.foldr (fun b acc => hexC (b / 16 % 16) :: hexC (b % 16) :: acc) [])

def kind! : String → ResKind
  | "allowed" => .allowed | "blocked" => .blocked | "modresp" => .modResp | "modreq" => .modReq
  | _ => .none

def showKind : ResKind → String
  | .none => "none" | .allowed => "allowed" | .blocked => "blocked" | .modResp => "modresp"
  | .modReq => "modreq"

def parseEntry : List String → Option Entry
  | [ip, rk, rl, rr, sk, sl, sr, t, rid, prof, dev, cc, rc, name, el, asn, qt, rcode, proto, sec] =>
    some { ip := if ip == "-" then none else some (str! ip),
           reqRes := ⟨kind! rk, str! rl, str! rr⟩, respRes := ⟨kind! sk, str! sl, str! sr⟩,
           timeMs := int! t, reqId := str! rid, prof := str! prof, dev := str! dev, cc := str! cc,
           rc := str! rc, name := str! name, elapsedMs := int! el, asn := nat! asn, qtype := nat! qt,
           rcode := nat! rcode, proto := nat! proto, dnssec := bool! sec }
  | _ => none

def showEntry (e : Entry) : String :=
  " ".intercalate
    [match e.ip with | none => "-" | some a => hexOf a,
     showKind e.reqRes.kind, hexOf e.reqRes.list, hexOf e.reqRes.rule,
     showKind e.respRes.kind, hexOf e.respRes.list, hexOf e.respRes.rule,
     toString e.timeMs, hexOf e.reqId, hexOf e.prof, hexOf e.dev, hexOf e.cc, hexOf e.rc, hexOf e.name,
     toString e.elapsedMs, toString e.asn, toString e.qtype, toString e.rcode, toString e.proto,
     showB e.dnssec]

def showIPK : IPKind → String
  | .none => "none" | .unspec => "unspec" | .addr => "addr"

def ipval! : String → IPVal
  | "addr" => .addr | "unspec" => .unspec | "bad" => .bad | _ => .nil

def hints! (s : String) : List IPVal := if s == "" then [] else (s.splitOn "+").map ipval!

/-- `o`, `4:K+K`, `6:K+K`. -/
def kv! (s : String) : KV :=
  match s.splitOn ":" with
  | ["4", hs] => .hint4 (hints! hs)
  | ["6", hs] => .hint6 (hints! hs)
  | _ => .other

/-- `o`, `a:K`, `aaaa:K`, `https:KV;KV`. -/
def rr! (s : String) : RR :=
  if s.startsWith "a:" then .a (ipval! (s.drop 2).toString)
  else if s.startsWith "aaaa:" then .aaaa (ipval! (s.drop 5).toString)
  else if s.startsWith "https:" then
    let rest := (s.drop 6).toString
    .https (if rest == "" then [] else (rest.splitOn ";").map kv!)
  else .other

/-- The answer-section shape: `-` or a comma-separated list of records. -/
def answer! (s : String) : List RR := if s == "-" then [] else (s.splitOn ",").map rr!

def resp! (rcode ad shape : String) : RespData := RespData.ofMsg (nat! rcode) (bool! ad) (answer! shape)

def showResp (r : RespData) : String := s!"{r.rcode},{showB r.ad},{showIPK r.ip}"

/-- The profile database's answer; the device result is computed by the model's `findDevice`. -/
def lookup! (kind pid qlog iplog dev : String) : Lookup :=
  let p : Prof := ⟨str! pid, bool! qlog, bool! iplog⟩
  match kind with
  | "ok" => .found p (str! dev) false true
  | "authfail" => .found p (str! dev) false false
  | "deleted" => .found p (str! dev) true true
  | "deleted-authfail" => .found p (str! dev) true false
  | "unknown" => .unknownDedicated
  | "error" => .err
  | _ => .notFound

def parseReq : List String → Option Req
  | port0 :: dk :: pid :: qlog :: iplog :: dev :: gbi :: gbh :: pb :: becs :: rl :: prl :: special :: debug :: adw ::
      ctxErr :: upErr :: writeErr :: rk :: rlist :: rrule :: sk :: slist :: srule :: blockErr ::
      name :: qt :: proto :: rip :: rid :: start :: loc :: lctry :: lasn :: orc :: oad :: oip ::
      brc :: bad :: bip :: mrc :: mad :: mip :: geo :: [] =>
    some { port0 := bool! port0,
           dev := findDevice (supportsDeviceID (nat! proto)) (lookup! dk pid qlog iplog dev),
           globBlockIP := bool! gbi, badECS := bool! becs, profRl := nat! prl,
           globBlockHost := bool! gbh, profBlock := bool! pb, rlDrop := bool! rl, special := bool! special,
           debug := bool! debug, adWanted := bool! adw, ctxErr := bool! ctxErr, upErr := bool! upErr,
           writeErr := bool! writeErr,
           reqRes := ⟨kind! rk, str! rlist, str! rrule⟩, respRes := ⟨kind! sk, str! slist, str! srule⟩,
           blockErr := bool! blockErr, name := str! name, qtype := nat! qt, proto := nat! proto,
           remoteIP := str! rip, reqId := str! rid, startMs := int! start, elapsedMs := 0,
           loc := if bool! loc then some (str! lctry, nat! lasn) else none,
           orig := resp! orc oad oip, blockedResp := resp! brc bad bip, modResp := resp! mrc mad mip,
           geoCtry := str! geo }
  | _ => none

def showEffects (e : Effects) : String :=
  let r := match e.resp with | none => "-" | some r => showResp r
  let rs := match e.ruleStat with | none => "-" | some _ => "1"
  let b := match e.bill with
    | none => "-"
    | some b => s!"{hexOf b.dev},{hexOf b.ctry},{b.asn},{b.proto}"
  let l := match e.log with | none => "-" | some en => showEntry en
  s!"resp={r} rs={rs} bill={b} log={l}"

structure S where
  jobs : List (Entry × Nat) := []
  fs : FS := {}
  msgs : List (Nat × WireProf) := []

def src! : String → Source
  | "c" => .cacheFile
  | _ => .backend

/-- The tokens of a `serve` request with the profile tokens replaced by what the database holds for
message `w` from source `src`. -/
def provTokens (src : Source) (w : WireProf) : List String → List String
  | port0 :: dk :: _ :: _ :: _ :: rest =>
    let p := profFrom src w
    port0 :: (if dk == "anon" then "anon" else if p.deleted then "deleted" else "ok") :: hexOf p.prof.id ::
      showB p.prof.qlog :: showB p.prof.iplog :: rest
  | l => l

def jobsOf (l : List (Entry × Nat)) : Jobs := fun i => l[i]?

def step (s : S) : List String → S × String
  | ["esc", x] => (s, hexOf (esc (str! x)))
  | ["lex", x] =>
    (match lexLine (str! x) with
     | none => (s, "none")
     | some toks =>
       (s, " ".intercalate (toks.map fun t =>
         match t.2 with
         | .str b => s!"{hexOf t.1}=s:{hexOf b}"
         | .num n => s!"{hexOf t.1}=n:{hexOf n}")))
  | "line" :: rn :: rest =>
    (match parseEntry rest with
     | some e => (s, hexOf (encodeLine e (nat! rn)))
     | none => (s, "bad-op"))
  | "serve" :: rest =>
    (match parseReq rest with
     | some q => (s, showEffects (serve q))
     | none => (s, "bad-op"))
  | ["preset"] => ({ s with msgs := [] }, "ok")
  | ["pmsg", k, pid, qlog, iplog, deleted] =>
    ({ s with msgs := (nat! k, ⟨str! pid, bool! qlog, bool! iplog, bool! deleted⟩) :: s.msgs }, "ok")
  | "pserve" :: src :: k :: rest =>
    (match s.msgs.lookup (nat! k) with
     | none => (s, "bad-op")
     | some w =>
       match parseReq (provTokens (src! src) w rest) with
       | some q => (s, showEffects (serve q))
       | none => (s, "bad-op"))
  | "wserve" :: rn :: el :: fe :: pen :: doms :: k :: linked :: sni :: byid :: bylinked :: rest =>
    (match parseReq rest with
     | none => (s, "bad-op")
     | some q0 =>
       let lk (t : String) : Lookup :=
         match t.splitOn "," with
         | [kind, pid, ql, il, dev] => lookup! kind pid ql il dev
         | _ => .notFound
       let g : WGroup := ⟨bool! pen, if doms == "-" then [] else (doms.splitOn ",").map str!⟩
       let sv : WServer := ⟨protoOfYAML (nat! k), bool! linked⟩
       let id : Ident :=
         { sni := match sni.splitOn "," with
                  | [l, d] => some (str! l, str! d)
                  | _ => none,
           byID := lk byid, byLinked := lk bylinked }
       let q := { q0 with elapsedMs := int! el }
       let e := wiredServe g sv id q
       let r := match e.resp with | none => "-" | some r => showResp r
       let rs := match e.ruleStat with | none => "-" | some _ => "1"
       let b := match e.bill with
         | none => "-"
         | some b => s!"{hexOf b.dev},{hexOf b.ctry},{b.asn},{b.proto}"
       let f := wiredFile (bool! fe) g sv id q (nat! rn)
       (s, s!"resp={r} rs={rs} bill={b} file={if f.isEmpty then "-" else hexOf f}"))
  | ["fsinit"] => ({ s with jobs := [], fs := {} }, "ok")
  | "fsw" :: rn :: rest =>
    (match parseEntry rest with
     | some e => ({ s with jobs := s.jobs ++ [(e, nat! rn)] }, "ok")
     | none => (s, "bad-op"))
  | ["fsstep", i, c] =>
    let fs' := s.fs.step (jobsOf s.jobs) (nat! i) (if c == "-" then none else some (nat! c))
    ({ s with fs := fs' }, s!"{fs'.pc (nat! i)} {fs'.hold (nat! i)}")
  | ["fsfile"] => (s, hexOf s.fs.file)
  | ["fsorder"] => (s, " ".intercalate (s.fs.order.map toString))
  | _ => (s, "bad-op")

def main : IO Unit := loop step {}

end Agd.Driver.C15
