import Agd.Model.ECS
import Agd.Model.ECSWire
import Agd.Model.ECSRefresh
import Agd.Driver.Util
/-! Line-protocol driver for the C05 model (ECS cache path). -/
namespace Agd.Driver.C05
open Agd.ECS Agd.Driver
open Agd.ECS.Refresh (RF REv Res Ver RAct codeProg)

structure S where
  data : List ((Fam × Nat) × Loc) := []
  sub : List ((Loc × Fam) × Option Pfx) := []
  fake : List Nat := []
  st : St := St.empty
  /-- capacities and recency lists (most recent first) of the two LRU caches; capacity 0 = unbounded -/
  capN : Nat := 0
  capE : Nat := 0
  lruN : List NKey := []
  lruE : List EKey := []
  gspecial : List Nat := []
  gtop : List (Nat × Nat) := []
  gistop : List Nat := []
  gasn : List (LKey × Pfx) := []
  gctry : List (Nat × Pfx) := []
  /-- wave h: the `Refresh` / `Data` machine of one `geoip.File` and the two database pairs -/
  rf : RF := RF.init codeProg (fun _ _ => none)
  rfAtomic : Bool := true
  rfdb : List ((Ver × Fam × Nat) × Loc) := []

def fam! (s : String) : Fam := if s == "6" then .v6 else .v4

def S.env (s : S) : Env :=
  { data := fun f a => (s.data.find? (fun e => e.1 == (f, a))).map (·.2)
    subnet := fun l f =>
      match s.sub.find? (fun e => e.1 == (l, f)) with
      | some e => e.2
      | none => some (zeroPfx f)
    fake := fun h => s.fake.contains h }

/-- The `geoip.File` database described by the `g…` ops. -/
def S.db (s : S) : GeoDB :=
  { special := fun c => s.gspecial.contains c
    topASN := fun c => (s.gtop.find? (fun e => e.1 == c)).map (·.2)
    isTop := fun a => s.gistop.contains a
    asnNets := s.gasn
    ctryNets := s.gctry }

def parseOpt (t : String) : Opt :=
  match t.splitOn ":" with
  | ["e", fa, al, av, m, sc] => .ecs ⟨nat! fa, nat! al, nat! av, nat! m, nat! sc⟩
  | ["o", c] => .other (nat! c)
  | _ => .other 0

/-- Parses `n` option tokens. -/
def takeOpts : Nat → List String → List Opt × List String
  | 0, ts => ([], ts)
  | n + 1, t :: ts => let r := takeOpts n ts; (parseOpt t :: r.1, r.2)
  | _ + 1, [] => ([], [])

/-- Parses `n` OPT RRs: `<do> <nopt> <opt>*`. -/
def takeRRs : Nat → List String → List OptRR × List String
  | 0, ts => ([], ts)
  | n + 1, d :: k :: ts =>
    let o := takeOpts (nat! k) ts
    let r := takeRRs n o.2
    (⟨bool! d, o.1⟩ :: r.1, r.2)
  | _ + 1, _ => ([], [])

def showOpt : Opt → String
  | .ecs e => s!"e:{e.family}:{e.alen}:{e.aval}:{e.mask}:{e.scope}"
  | .other c => s!"o:{c}"

def showRRs (rrs : List OptRR) : String :=
  if rrs.isEmpty then "-"
  else String.join (rrs.map fun rr => "[" ++ ",".intercalate (rr.opts.map showOpt) ++ "]")

def showECS (os : List Opt) : String :=
  if os.isEmpty then "-" else ",".intercalate (os.map showOpt)

def showOut (o : Out) : String :=
  let kind := match o.kind with | .formerr => "formerr" | .err => "err" | .ok => "ok"
  let up := match o.up with | none => "-" | some rrs => showRRs rrs
  let tok := match o.tok with | none => "-" | some t => toString t
  let ecs := if o.kind == .ok then showECS (ecsOpts o.rextra) else "-"
  s!"{kind} up={up} tok={tok} ecs={ecs}"

/-- The bytes of a name token. -/
def nameBytes (s : String) : List Nat := s.toUTF8.toList.map (·.toNat)

def parseReq : List String → Option (Req × Up)
  | rf :: ra :: h :: qt :: qc :: nrr :: rest =>
    let rr := takeRRs (nat! nrr) rest
    match rr.2 with
    | uk :: ca :: tok :: hasopt :: nopt :: rest' =>
      let uo := takeOpts (nat! nopt) rest'
      some (⟨fam! rf, nat! ra, hostOfName (nameBytes h), nat! qt, nat! qc, rr.1, none, none, qnOfName (nameBytes h)⟩,
        ⟨uk != "0", bool! ca, nat! tok, if bool! hasopt then [⟨false, uo.1⟩] else []⟩)
    | _ => none
  | _ => none

/-- `gcache` LRU bookkeeping around one `serve`: a hit moves its key to the front; a store moves
its key to the front or, if the key is new and the cache is full, evicts the least recently used
key first (a `drop` event of the model). -/
def touch {K : Type} [DecidableEq K] (l : List K) (k : K) : List K := k :: l.filter (· != k)

def lruAfter (s : S) (r : Req) (res : St × Out) : S :=
  let env := s.env
  match mapped env r with
  | none => { s with st := res.1 }
  | some sub =>
    let kN := nkey r sub
    let kE := ekey r sub
    let kN0 := nkey r (zeroPfx (ecsFamOf r))
    match res.2.src with
    | .noecsCache => { s with st := res.1, lruN := touch s.lruN kN }
    | .ecsCache => { s with st := res.1, lruE := touch s.lruE kE }
    | _ =>
      if res.1.ecs kE != s.st.ecs kE then
        -- stored in the ECS-aware cache
        if s.lruE.contains kE || s.capE == 0 || s.lruE.length < s.capE then
          { s with st := res.1, lruE := touch s.lruE kE }
        else
          match s.lruE.getLast? with
          | some old =>
            { s with st := { res.1 with ecs := putE res.1.ecs old none }, lruE := kE :: s.lruE.dropLast }
          | none => { s with st := res.1, lruE := [kE] }
      else if res.1.noecs kN0 != s.st.noecs kN0 then
        if s.lruN.contains kN0 || s.capN == 0 || s.lruN.length < s.capN then
          { s with st := res.1, lruN := touch s.lruN kN0 }
        else
          match s.lruN.getLast? with
          | some old =>
            { s with st := { res.1 with noecs := putN res.1.noecs old none }, lruN := kN0 :: s.lruN.dropLast }
          | none => { s with st := res.1, lruN := [kN0] }
      else { s with st := res.1 }

def ver! (s : String) : Ver := if s == "new" then .new else .old

def S.rfLookup (s : S) : Ver → Fam → Nat → Loc := fun v f a =>
  match s.rfdb.find? (fun e => e.1 == (v, f, a)) with
  | some e => e.2
  | none => ⟨0, 0, 0⟩

def showAct : RAct → String
  | .lock => "lock" | .unlock => "unlock" | .swap => "swap" | .clear => "clear"

def showRes : Res → String
  | .none => "ok"
  | .acted a => showAct a
  | .hit l => s!"hit {l.ctry} {l.subdiv} {l.asn}"
  | .miss => "miss"
  | .blocked => "blocked"
  | .loc l => s!"loc {l.ctry} {l.subdiv} {l.asn}"

def S.rfEv (s : S) (e : REv) : S × String :=
  let r := s.rf.ev s.rfLookup s.rfAtomic e
  ({ s with rf := r.1 }, showRes r.2)

def step (s : S) : List String → S × String
  | ["reset"] => ({}, "ok")
  | ["cap", n, e] => ({ s with capN := nat! n, capE := nat! e }, "ok")
  -- the GeoIP databases are refreshed: the tables are replaced, the caches live on
  | ["regeo"] => ({ s with data := [], sub := [] }, "ok")
  | ["fake", h] => ({ s with fake := qnOfName (nameBytes h) :: s.fake }, "ok")
  | ["data", f, a, c, sd, asn] =>
    ({ s with data := ((fam! f, nat! a), ⟨nat! c, nat! sd, nat! asn⟩) :: s.data }, "ok")
  | ["sub", c, sd, asn, f, pf, pa, pb] =>
    let v : Option Pfx := if pf == "0" then none else some ⟨fam! pf, nat! pa, nat! pb⟩
    ({ s with sub := ((⟨nat! c, nat! sd, nat! asn⟩, fam! f), v) :: s.sub }, "ok")
  | "setecs" :: isResp :: pf :: pa :: pb :: nrr :: rest =>
    (s, showRRs (setECS (takeRRs (nat! nrr) rest).1 ⟨fam! pf, nat! pa, nat! pb⟩ (bool! isResp)))
  | ["locfrom", hasCl, c, sd, asn, hasEl, c', sd', asn'] =>
    let cl : Option Loc := if bool! hasCl then some ⟨nat! c, nat! sd, nat! asn⟩ else none
    let el : Option Loc := if bool! hasEl then some ⟨nat! c', nat! sd', nat! asn'⟩ else none
    let l := locFromReq cl el
    (s, s!"{l.ctry} {l.subdiv} {l.asn}")
  | ["gspecial", c] => ({ s with gspecial := nat! c :: s.gspecial }, "ok")
  | ["gtop", c, a] => ({ s with gtop := s.gtop ++ [(nat! c, nat! a)] }, "ok")
  | ["gistop", a] => ({ s with gistop := nat! a :: s.gistop }, "ok")
  | ["gasn", c, sd, a, f, pa, pb] =>
    ({ s with gasn := s.gasn ++ [(⟨nat! c, nat! sd, nat! a⟩, ⟨fam! f, nat! pa, nat! pb⟩)] }, "ok")
  | ["gctry", c, f, pa, pb] => ({ s with gctry := s.gctry ++ [(nat! c, ⟨fam! f, nat! pa, nat! pb⟩)] }, "ok")
  | ["gsub", c, sd, a, f] =>
    let p := s.db.subnetByLocation ⟨nat! c, nat! sd, nat! a⟩ (fam! f)
    (s, s!"{if p.fam == .v4 then 4 else 6} {p.addr} {p.bits}")
  | ["dep", scope, h] => (s, showB (respIsECSDependent s.env (nat! scope) (qnOfName (nameBytes h))))
  | ["norm", h] => (s, String.join ((normalizeDomain (nameBytes h)).map fun b => toString (Char.ofNat b)))
  | "req" :: rest =>
    match parseReq rest with
    | some ru =>
      let r := locate s.env ru.1
      let res := serve s.env s.st r ru.2
      (lruAfter s r res, showOut res.2)
    | none => (s, "bad-op")
  -- completion of a request that missed the caches at some earlier moment (overlapping requests)
  | "fin" :: rest =>
    match parseReq rest with
    | some ru =>
      let res := finish s.env s.st (locate s.env ru.1) ru.2
      ({ s with st := res.1 }, showOut res.2)
    | none => (s, "bad-op")
  -- round 4: option data as octets (decimal, comma-separated; "-" = empty) through decoder, ecsData and echo
  | ["wire", bs] =>
    let b : List Nat := if bs == "-" then [] else (bs.splitOn ",").map (nat! ·)
    (s, match wireAnswer b with
      | .dropped => "drop"
      | .formerr => "formerr"
      | .echo e => "echo " ++ ",".intercalate (e.map toString))
  -- round 4: the `cache` object of the configuration file through validate / toInternal
  | ["wiring", t, sz, esz] =>
    let c : CacheYAML := ⟨nat! t, int! sz, int! esz⟩
    (s, if !c.valid then "invalid" else match c.kind with
      | .none => "none"
      | .simple => s!"simple {c.counts.1}"
      | .ecs => s!"ecs {c.counts.1} {c.counts.2}")
  -- wave h: geoip.File.Refresh interleaved with Data look-ups (Model/ECSRefresh.lean)
  | ["rfnew", atomic] =>
    ({ s with rf := RF.init codeProg (fun _ _ => none), rfAtomic := bool! atomic, rfdb := [] }, "ok")
  | ["rfloc", v, f, a, c, sd, asn] =>
    ({ s with rfdb := ((ver! v, fam! f, nat! a), ⟨nat! c, nat! sd, nat! asn⟩) :: s.rfdb }, "ok")
  -- the refresh fails before its critical section (a file cannot be read, a scan fails): nothing changes
  | ["rffail"] => ({ s with rf := { s.rf with prog := [] } }, "ok")
  | ["rfstep"] => if s.rf.prog.isEmpty then (s, "done") else s.rfEv .step
  | ["rfget", f, a] => s.rfEv (.get (fam! f) (nat! a))
  | ["rffill", f, a] => s.rfEv (.fill (fam! f) (nat! a))
  | ["rfflush", i] => s.rfEv (.flush (nat! i))
  | ["rflook", f, a] =>
    let r := s.rf.look s.rfLookup s.rfAtomic (fam! f) (nat! a)
    ({ s with rf := r.1 }, showRes r.2)
  | ["rfstate"] =>
    (s, s!"ver={if s.rf.ver == .new then "new" else "old"} locked={showB s.rf.locked} left={s.rf.prog.length}")
  | _ => (s, "bad-op")

def main : IO Unit := loop step {}

end Agd.Driver.C05
