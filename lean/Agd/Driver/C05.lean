import Agd.Model.ECS
import Agd.Driver.Util
/-! Line-protocol driver for the C05 model (ECS cache path). -/
namespace Agd.Driver.C05
open Agd.ECS Agd.Driver

structure S where
  data : List ((Fam × Nat) × Loc) := []
  sub : List ((Loc × Fam) × Option Pfx) := []
  fake : List Nat := []
  st : St := St.empty

def fam! (s : String) : Fam := if s == "6" then .v6 else .v4

def S.env (s : S) : Env :=
  { data := fun f a => (s.data.find? (fun e => e.1 == (f, a))).map (·.2)
    subnet := fun l f =>
      match s.sub.find? (fun e => e.1 == (l, f)) with
      | some e => e.2
      | none => some (zeroPfx f)
    fake := fun h => s.fake.contains h }

def parseOpt (t : String) : Opt :=
  match t.splitOn ":" with
  | ["e", fa, al, av, m, sc] => .ecs ⟨nat! fa, nat! al, nat! av, nat! m, nat! sc⟩
  | ["o", c] => .other (nat! c)
  | _ => .other 0

/-- Parses `n` option tokens. -/
def takeOpts : Nat → List String → List Opt × List String
  | 0, ts => ([], ts)
  | n + 1, t :: ts => let r := takeOpts n ts; (parseOpt t :: r.1, r.2)
  | _ + 1, [] => ([], [])

/-- Parses `n` OPT RRs: `<do> <nopt> <opt>*`. -/
def takeRRs : Nat → List String → List OptRR × List String
  | 0, ts => ([], ts)
  | n + 1, d :: k :: ts =>
    let o := takeOpts (nat! k) ts
    let r := takeRRs n o.2
    (⟨bool! d, o.1⟩ :: r.1, r.2)
  | _ + 1, _ => ([], [])

def showOpt : Opt → String
  | .ecs e => s!"e:{e.family}:{e.alen}:{e.aval}:{e.mask}:{e.scope}"
  | .other c => s!"o:{c}"

def showRRs (rrs : List OptRR) : String :=
  if rrs.isEmpty then "-"
  else String.join (rrs.map fun rr => "[" ++ ",".intercalate (rr.opts.map showOpt) ++ "]")

def showECS (os : List Opt) : String :=
  if os.isEmpty then "-" else ",".intercalate (os.map showOpt)

def showOut (o : Out) : String :=
  let kind := match o.kind with | .formerr => "formerr" | .err => "err" | .ok => "ok"
  let up := match o.up with | none => "-" | some rrs => showRRs rrs
  let tok := match o.tok with | none => "-" | some t => toString t
  let ecs := if o.kind == .ok then showECS (ecsOpts o.rextra) else "-"
  s!"{kind} up={up} tok={tok} ecs={ecs}"

def step (s : S) : List String → S × String
  | ["reset"] => ({}, "ok")
  | ["fake", h] => ({ s with fake := nat! h :: s.fake }, "ok")
  | ["data", f, a, c, sd, asn] =>
    ({ s with data := ((fam! f, nat! a), ⟨nat! c, nat! sd, nat! asn⟩) :: s.data }, "ok")
  | ["sub", c, sd, asn, f, pf, pa, pb] =>
    let v : Option Pfx := if pf == "0" then none else some ⟨fam! pf, nat! pa, nat! pb⟩
    ({ s with sub := ((⟨nat! c, nat! sd, nat! asn⟩, fam! f), v) :: s.sub }, "ok")
  | "setecs" :: isResp :: pf :: pa :: pb :: nrr :: rest =>
    (s, showRRs (setECS (takeRRs (nat! nrr) rest).1 ⟨fam! pf, nat! pa, nat! pb⟩ (bool! isResp)))
  | ["locfrom", hasCl, c, sd, asn, hasEl, c', sd', asn'] =>
    let cl : Option Loc := if bool! hasCl then some ⟨nat! c, nat! sd, nat! asn⟩ else none
    let el : Option Loc := if bool! hasEl then some ⟨nat! c', nat! sd', nat! asn'⟩ else none
    let l := locFromReq cl el
    (s, s!"{l.ctry} {l.subdiv} {l.asn}")
  | ["dep", scope, h] => (s, showB (respIsECSDependent s.env (nat! scope) (nat! h)))
  | "req" :: rf :: ra :: h :: qt :: qc :: nrr :: rest =>
    let rr := takeRRs (nat! nrr) rest
    match rr.2 with
    | uk :: ca :: tok :: hasopt :: nopt :: rest' =>
      let uo := takeOpts (nat! nopt) rest'
      let r : Req := ⟨fam! rf, nat! ra, nat! h, nat! qt, nat! qc, rr.1⟩
      let u : Up := ⟨uk != "0", bool! ca, nat! tok, if bool! hasopt then [⟨false, uo.1⟩] else []⟩
      let res := serve s.env s.st r u
      ({ s with st := res.1 }, showOut res.2)
    | _ => (s, "bad-op")
  | _ => (s, "bad-op")

def main : IO Unit := loop step {}

end Agd.Driver.C05
