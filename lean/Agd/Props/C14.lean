import Agd.Tie.TrC14
import Agd.Lemmas.ProfileDB
import Agd.Lemmas.ProfileCache
import Agd.Tie.C14
/-!
# C14 — profile look-ups always reflect the latest synchronised data, also after restart

Property theorems only.  Specification (`Latest`, `OwnerDev`, `OwnerKey`, `HistWF`) and helper
lemmas live in `Agd/Lemmas/ProfileDB.lean` and `Agd/Lemmas/ProfileCache.lean`.
-/
namespace Agd.ProfileDB

/-- **lookup_refines_spec.** After ANY well-formed history of full and partial synchronisations,
look-ups and clean-up goroutine executions — the clean-ups scheduled at arbitrary later points,
before or after any number of later synchronisations — each of the four look-ups returns
`(p, d)` exactly when `d` is the current device owning the key and `p` the current profile
containing it. -/
theorem lookup_refines_spec (ops : List Op) (h : HistWF ops) :
    (∀ id p d, (findByDev (run ops) id).1 = .ok p d ↔ OwnerDev (latest ops) id p d) ∧
    (∀ ip p d, (lookupKey (run ops) (.linked ip)).1 = .ok p d ↔ OwnerKey (latest ops) (.linked ip) p d) ∧
    (∀ ip p d, (lookupKey (run ops) (.ded ip)).1 = .ok p d ↔ OwnerKey (latest ops) (.ded ip) p d) ∧
    (∀ pid hid p d, (lookupHuman (run ops) pid hid).1 = .ok p d ↔
      OwnerKey (latest ops) (.human hid pid) p d) := by
  have hI := inv_run ops h
  exact ⟨fun id p d => lookupDev_spec hI id p d, fun ip p d => lookupKey_spec hI _ p d,
    fun ip p d => lookupKey_spec hI _ p d, fun pid hid p d => lookupHuman_spec hI pid hid p d⟩

/-- Not-found: a result that is not `ok`. -/
def Res.notFound : Res → Prop
  | .ok _ _ => False
  | _ => True

/-- **lookup_unowned_not_found.** Keys that no current device owns are answered not-found. -/
theorem lookup_unowned_not_found (ops : List Op) (h : HistWF ops) :
    (∀ id, (∀ p d, ¬ OwnerDev (latest ops) id p d) → (findByDev (run ops) id).1.notFound) ∧
    (∀ k, (∀ p d, ¬ OwnerKey (latest ops) k p d) → (lookupKey (run ops) k).1.notFound) ∧
    (∀ pid hid, (∀ p d, ¬ OwnerKey (latest ops) (.human hid pid) p d) →
      (lookupHuman (run ops) pid hid).1.notFound) := by
  have hI := inv_run ops h
  refine ⟨?_, ?_, ?_⟩
  · intro id hno
    cases hr : (findByDev (run ops) id).1 with
    | ok p d => exact (hno p d ((lookupDev_spec hI id p d).mp hr)).elim
    | devNF => trivial
    | profNF => trivial
  · intro k hno
    cases hr : (lookupKey (run ops) k).1 with
    | ok p d => exact (hno p d ((lookupKey_spec hI k p d).mp hr)).elim
    | devNF => trivial
    | profNF => trivial
  · intro pid hid hno
    cases hr : (lookupHuman (run ops) pid hid).1 with
    | ok p d => exact (hno p d ((lookupHuman_spec hI pid hid p d).mp hr)).elim
    | devNF => trivial
    | profNF => trivial

/-! Non-vacuity: a history in which device 1 gives up linked IP 7, a look-up hits the stale entry
and starts a clean-up, device 2 then receives IP 7, and the clean-up runs only afterwards. -/

def exP (tag : Nat) : Profile := { id := 1, devIds := [1, 2], auto := false, deleted := false, tag := tag }
def exD (id linked : Nat) : Device := { id := id, linked := linked, dedicated := [], human := 0, tag := linked }

def exOps : List Op :=
  [.sync true 10 [exP 1] [exD 1 7, exD 2 0], .sync false 11 [exP 2] [exD 1 8, exD 2 0], .byKey (.linked 7),
   .sync false 12 [exP 3] [exD 1 8, exD 2 7], .run 0]

example : (run exOps).pending = [] ∧ ((run (exOps.take 3)).pending = [.key (.linked 7)]) ∧
    (lookupKey (run exOps) (.linked 7)).1 = .ok (exP 3) (exD 2 7) := by decide

/-- Every response of the example history is well formed. -/
theorem exOps_resp : ∀ full t ps ds, Op.sync full t ps ds ∈ exOps → RespWF ps ds := by
  intro full t ps ds hm
  simp only [exOps, List.mem_cons, List.mem_nil_iff, or_false, Op.sync.injEq, reduceCtorEq, false_or, or_false] at hm
  rcases hm with ⟨_, _, rfl, rfl⟩ | ⟨_, _, rfl, rfl⟩ | ⟨_, _, rfl, rfl⟩ <;>
    exact { nodupP := by decide, nodupD := by decide, listed := by decide, owned := by decide }

macro "ex_uniq" t:term "," f:term : tactic => `(tactic| (
  apply uniq_small _ $t $f
  · intro k p h
    simp [exOps, latest, spec, specStep, Spec.empty, Latest.apply, Latest.overlay, Latest.empty, putMany, putAll, put, profItems, exP] at h
    repeat' split at h
    all_goals first | (cases h; rfl) | (obtain ⟨_, h⟩ := h; subst h; rfl) | (simp at h) | omega
  · intro k d h
    simp [exOps, latest, spec, specStep, Spec.empty, Latest.apply, Latest.overlay, Latest.empty, putMany, putAll, put, devItems, exD] at h
    repeat' split at h
    all_goals first | (cases h; simp) | (obtain ⟨_, h⟩ := h; subst h; simp) | (simp at h) | omega))

/-- The example history is well formed. -/
theorem exOps_wf : HistWF exOps := by
  refine ⟨exOps_resp, by intro t ps ds hm; simp [exOps] at hm, ?_⟩
  intro pre hpre
  have : pre = exOps.take pre.length := List.prefix_iff_eq_take.mp hpre
  rw [this]
  have hcases : ∀ n, Uniq (latest (exOps.take n)) := by
    intro n
    have hn : n = 0 ∨ n = 1 ∨ n = 2 ∨ n = 3 ∨ n = 4 ∨ 5 ≤ n := by omega
    rcases hn with rfl | rfl | rfl | rfl | rfl | h
    · exact ⟨by intro id p p' h; simp [latest, spec, Spec.empty, Latest.empty] at h, by intro k p d p' d' h; simp [OwnerKey, OwnerDev, latest, spec, Spec.empty, Latest.empty] at h⟩
    · ex_uniq (exP 1), (fun _ => 1)
    · ex_uniq (exP 2), (fun _ => 1)
    · ex_uniq (exP 2), (fun _ => 1)
    · ex_uniq (exP 3), (fun ip => if ip = 7 then 2 else 1)
    · have : exOps.take n = exOps := List.take_of_length_le (by simpa [exOps] using h)
      rw [this]
      ex_uniq (exP 3), (fun ip => if ip = 7 then 2 else 1)
  exact hcases _

example : HistWF exOps ∧ (lookupKey (run exOps) (.linked 7)).1 = .ok (exP 3) (exD 2 7) :=
  ⟨exOps_wf, by decide⟩

/-! Non-vacuity with a restart: the partial sync that moved device 1 from IP 7 to IP 8 is lost by the
restart (only full syncs are cached), so the restarted database answers from the cached full sync. -/

def exRestartOps : List Op :=
  [.sync true 10 [exP 1] [exD 1 7, exD 2 0], .sync false 11 [exP 2] [exD 1 8, exD 2 0], .restart 15,
   .byKey (.linked 8)]

macro "ex_uniq_r" t:term "," f:term : tactic => `(tactic| (
  apply uniq_small _ $t $f
  · intro k p h
    simp [exRestartOps, latest, spec, specStep, Spec.empty, restartLatest, CacheFile.usable, fileCacheVersion,
      Latest.apply, Latest.overlay, Latest.empty, putMany, putAll, put, profItems, exP] at h
    repeat' split at h
    all_goals first | (cases h; rfl) | (obtain ⟨_, h⟩ := h; subst h; rfl) | (simp at h) | omega
  · intro k d h
    simp [exRestartOps, latest, spec, specStep, Spec.empty, restartLatest, CacheFile.usable, fileCacheVersion,
      Latest.apply, Latest.overlay, Latest.empty, putMany, putAll, put, devItems, exD] at h
    repeat' split at h
    all_goals first | (cases h; simp) | (obtain ⟨_, h⟩ := h; subst h; simp) | (simp at h) | omega))

theorem exRestartOps_wf : HistWF exRestartOps := by
  refine ⟨?_, by intro t ps ds hm; simp [exRestartOps] at hm, ?_⟩
  · intro full t ps ds hm
    simp only [exRestartOps, List.mem_cons, List.mem_nil_iff, or_false, Op.sync.injEq, reduceCtorEq, or_false] at hm
    rcases hm with ⟨_, _, rfl, rfl⟩ | ⟨_, _, rfl, rfl⟩ <;>
      exact { nodupP := by decide, nodupD := by decide, listed := by decide, owned := by decide }
  · intro pre hpre
    have : pre = exRestartOps.take pre.length := List.prefix_iff_eq_take.mp hpre
    rw [this]
    have hcases : ∀ n, Uniq (latest (exRestartOps.take n)) := by
      intro n
      have hn : n = 0 ∨ n = 1 ∨ n = 2 ∨ n = 3 ∨ 4 ≤ n := by omega
      rcases hn with rfl | rfl | rfl | rfl | h
      · exact ⟨by intro id p p' h; simp [latest, spec, Spec.empty, Latest.empty] at h, by intro k p d p' d' h; simp [OwnerKey, OwnerDev, latest, spec, Spec.empty, Latest.empty] at h⟩
      · ex_uniq_r (exP 1), (fun _ => 1)
      · ex_uniq_r (exP 2), (fun _ => 1)
      · ex_uniq_r (exP 1), (fun _ => 1)
      · have : exRestartOps.take n = exRestartOps := List.take_of_length_le (by simpa [exRestartOps] using h)
        rw [this]
        ex_uniq_r (exP 1), (fun _ => 1)
    exact hcases _

example : HistWF exRestartOps ∧ (lookupKey (run exRestartOps) (.linked 7)).1 = .ok (exP 1) (exD 1 7) ∧
    (lookupKey (run (exRestartOps.take 2)) (.linked 8)).1 = .ok (exP 2) (exD 1 8) ∧
    (lookupKey (run exRestartOps) (.linked 8)).1 = .devNF ∧ reqTime (run exRestartOps) false = 10 :=
  ⟨exRestartOps_wf, by decide, by decide, by decide, by decide⟩

/-! ### The defects of the pinned tree (now repaired) are real violations of the statement -/

/-- **cleanup_overtaken_counterexample.** With the unconditional `delete` of the pinned tree, the
history above ends with device 2 owning linked IP 7 in the latest data while the look-up answers
not-found: the clean-up started for device 1's stale entry removed device 2's fresh one. -/
theorem cleanup_overtaken_counterexample :
    let s := run (exOps.take 4)
    let s' := applyCleanupOld { s with pending := [] } (.key (.linked 7))
    s.pending = [.key (.linked 7)] ∧
    OwnerKey (latest exOps) (.linked 7) (exP 3) (exD 2 7) ∧
    (lookupKey s' (.linked 7)).1 = .devNF := by
  refine ⟨by decide, ⟨by decide, by decide, by decide, by decide⟩, by decide⟩

def exMoveOps : List Op :=
  [.sync true 1 [{ id := 1, devIds := [1], auto := false, deleted := false, tag := 1 },
               { id := 2, devIds := [], auto := false, deleted := false, tag := 2 }]
              [{ id := 1, linked := 0, dedicated := [], human := 5, tag := 1 }],
   .sync false 2 [{ id := 2, devIds := [1], auto := false, deleted := false, tag := 3 },
                { id := 1, devIds := [], auto := false, deleted := false, tag := 4 }]
               [{ id := 1, linked := 0, dedicated := [], human := 5, tag := 2 }]]

/-- **humanid_moved_counterexample.** `ProfileByHumanID` of the pinned tree, asked for human id 5
of profile 1 after the device moved to profile 2, returned profile 2 and its device, although no
device of profile 1 owns that id; the repaired look-up answers not-found. -/
theorem humanid_moved_counterexample :
    lookupHumanOld (run exMoveOps) 1 5 =
      .ok { id := 2, devIds := [1], auto := false, deleted := false, tag := 3 }
          { id := 1, linked := 0, dedicated := [], human := 5, tag := 2 } ∧
    (lookupHuman (run exMoveOps) 1 5).1 = .devNF ∧
    (lookupHuman (run exMoveOps) 2 5).1 =
      .ok { id := 2, devIds := [1], auto := false, deleted := false, tag := 3 }
          { id := 1, linked := 0, dedicated := [], human := 5, tag := 2 } := by
  refine ⟨by decide, by decide, by decide⟩

/-! ### Restart from the file cache -/

theorem lookups_congr {s₁ s₂ : St} (h1 : s₁.profiles = s₂.profiles) (h2 : s₁.devices = s₂.devices)
    (h3 : s₁.devIdx = s₂.devIdx) (h4 : s₁.idx = s₂.idx) :
    findByDev s₁ = findByDev s₂ ∧ lookupKey s₁ = lookupKey s₂ ∧ lookupHuman s₁ = lookupHuman s₂ := by
  have hf : findByDev s₁ = findByDev s₂ := by
    funext id; unfold findByDev; rw [h1, h2, h3]
  have hk : lookupKey s₁ = lookupKey s₂ := by
    funext k; unfold lookupKey; rw [h4, hf]
  refine ⟨hf, hk, ?_⟩
  funext pid hid; unfold lookupHuman; rw [h1, hk]

theorem findByDev_ok_maps {s : St} {id : Nat} {p : Profile} {d : Device}
    (h : (findByDev s id).1 = .ok p d) : (∃ pid, s.profiles pid = some p) ∧ s.devices id = some d := by
  rw [findByDev_ok] at h
  unfold attachedDevice at h
  split at h
  · cases h
  · rename_i pid _
    split at h
    · cases h
    · rename_i p' hp'
      split at h
      · cases hd : s.devices id with
        | none => simp [hd] at h
        | some d' =>
          simp [hd] at h
          obtain ⟨rfl, rfl⟩ := h
          exact ⟨⟨pid, hp'⟩, rfl⟩
      · cases h

theorem lookupKey_ok_findByDev {s : St} {k : Key} {p : Profile} {d : Device}
    (h : (lookupKey s k).1 = .ok p d) : ∃ id, (findByDev s id).1 = .ok p d := by
  unfold lookupKey at h
  split at h
  · cases h
  · rename_i id _
    split at h
    · rename_i p' d' hf
      split at h
      · simp at h
        obtain ⟨rfl, rfl⟩ := h
        exact ⟨id, hf⟩
      · cases h
    · cases h
    · cases h

theorem lookupHuman_ok_lookupKey {s : St} {pid hid : Nat} {p : Profile} {d : Device}
    (h : (lookupHuman s pid hid).1 = .ok p d) : (lookupKey s (.human hid pid)).1 = .ok p d := by
  unfold lookupHuman at h
  split at h
  · cases h
  · exact h

/-- A database without profile records, or without device records, finds nothing. -/
theorem no_ok_of_empty (s : St) (h : s.profiles = (fun _ => none) ∨ s.devices = (fun _ => none)) :
    (∀ id p d, (findByDev s id).1 ≠ .ok p d) ∧ (∀ k p d, (lookupKey s k).1 ≠ .ok p d) ∧
    (∀ pid hid p d, (lookupHuman s pid hid).1 ≠ .ok p d) := by
  have h1 : ∀ id p d, (findByDev s id).1 ≠ .ok p d := by
    intro id p d hf
    obtain ⟨⟨pid, hp⟩, hd⟩ := findByDev_ok_maps hf
    rcases h with h | h
    · rw [h] at hp; cases hp
    · rw [h] at hd; cases hd
  have h2 : ∀ k p d, (lookupKey s k).1 ≠ .ok p d := by
    intro k p d hk
    obtain ⟨id, hf⟩ := lookupKey_ok_findByDev hk
    exact h1 id p d hf
  exact ⟨h1, h2, fun pid hid p d hl => h2 _ p d (lookupHuman_ok_lookupKey hl)⟩

/-- **restart_equivalent.** Let `a` be the database right after the full synchronisation that wrote
the cache (whatever its earlier state `s`, whatever clean-ups were pending, whatever the response).
A database started from that cache file finds exactly what `a` finds, for every look-up of every
kind — also when the cache holds no profiles or no devices and is ignored by design, because then
`a` finds nothing either.  When the cache is used, the two databases agree on every look-up in
full (the kind of not-found error and the clean-ups started included) and on the synchronisation
point sent with the next partial request. -/
theorem restart_equivalent (s : St) (t : Nat) (ps : List Profile) (ds : List Device) :
    let a := applySync s true t ps ds
    let r := loadCache fileCacheVersion a.cache
    (∀ id p d, (findByDev r id).1 = .ok p d ↔ (findByDev a id).1 = .ok p d) ∧
    (∀ k p d, (lookupKey r k).1 = .ok p d ↔ (lookupKey a k).1 = .ok p d) ∧
    (∀ pid hid p d, (lookupHuman r pid hid).1 = .ok p d ↔ (lookupHuman a pid hid).1 = .ok p d) ∧
    (ps ≠ [] → ds ≠ [] → findByDev r = findByDev a ∧ lookupKey r = lookupKey a ∧
      lookupHuman r = lookupHuman a ∧ r.syncTime = a.syncTime) := by
  intro a r
  have hfull : ps ≠ [] → ds ≠ [] → findByDev r = findByDev a ∧ lookupKey r = lookupKey a ∧
      lookupHuman r = lookupHuman a ∧ r.syncTime = a.syncTime := by
    intro hp hd
    have hl : ¬ (ps.length = 0 ∨ ds.length = 0) := by
      intro h
      rcases h with h | h
      · exact hp (List.length_eq_zero_iff.mp h)
      · exact hd (List.length_eq_zero_iff.mp h)
    have hr : r = { setAll init ps ds with cache := some ⟨t, ps, ds⟩, syncTime := t } := by
      show loadCache fileCacheVersion (some ⟨t, ps, ds⟩) = _
      unfold loadCache
      simp only []
      rw [if_neg (by simp), if_neg hl]
    rw [hr]
    obtain ⟨c1, c2, c3⟩ := lookups_congr
      (s₁ := { setAll init ps ds with cache := some ⟨t, ps, ds⟩, syncTime := t }) (s₂ := a) rfl rfl rfl rfl
    exact ⟨c1, c2, c3, rfl⟩
  by_cases hp : ps = []
  · -- no profiles: neither database has a profile record
    have ha := no_ok_of_empty a (Or.inl (by subst hp; rfl))
    have hr := no_ok_of_empty r (Or.inl (by subst hp; rfl))
    exact ⟨fun id p d => ⟨fun h => (hr.1 id p d h).elim, fun h => (ha.1 id p d h).elim⟩,
      fun k p d => ⟨fun h => (hr.2.1 k p d h).elim, fun h => (ha.2.1 k p d h).elim⟩,
      fun pid hid p d => ⟨fun h => (hr.2.2 pid hid p d h).elim, fun h => (ha.2.2 pid hid p d h).elim⟩,
      fun h => (h hp).elim⟩
  · by_cases hd : ds = []
    · have ha := no_ok_of_empty a (Or.inr (by subst hd; rfl))
      have hr : r.devices = (fun _ => none) := by
        show (loadCache fileCacheVersion (some ⟨t, ps, ds⟩)).devices = _
        subst hd
        unfold loadCache
        simp only []
        rw [if_pos (show ps.length = 0 ∨ ([] : List Device).length = 0 from Or.inr rfl)]
        rfl
      have hr := no_ok_of_empty r (Or.inr hr)
      exact ⟨fun id p d => ⟨fun h => (hr.1 id p d h).elim, fun h => (ha.1 id p d h).elim⟩,
        fun k p d => ⟨fun h => (hr.2.1 k p d h).elim, fun h => (ha.2.1 k p d h).elim⟩,
        fun pid hid p d => ⟨fun h => (hr.2.2 pid hid p d h).elim, fun h => (ha.2.2 pid hid p d h).elim⟩,
        fun _ h => (h hd).elim⟩
    · obtain ⟨e1, e2, e3, e4⟩ := hfull hp hd
      exact ⟨fun id p d => by rw [e1], fun k p d => by rw [e2], fun pid hid p d => by rw [e3],
        fun _ _ => ⟨e1, e2, e3, e4⟩⟩

example : (lookupKey (loadCache fileCacheVersion (applySync init true 5 [exP 1] [exD 1 7]).cache) (.linked 7)).1
      = .ok (exP 1) (exD 1 7) ∧
    (loadCache fileCacheVersion (applySync init true 5 [exP 1] [exD 1 7]).cache).syncTime = 5 := by decide

/-! ### The shape of a storage response is made by the repository's own converter -/

/-- **backend_response_shape.** Whatever the backend streams — rejected devices and rejected
profiles included — in the response `backendpb` hands to the database every device listed by a
profile is delivered, and every device delivered is listed by a profile of the same response: the
`listed` / `owned` half of `RespWF` is a fact about `devicesToInternal` and the receive loop, not an
assumption on the backend. -/
theorem backend_response_shape (ws : List WireProfile) :
    (∀ p ∈ (respOfWire ws).1, ∀ id ∈ p.devIds, ∃ d ∈ (respOfWire ws).2, d.id = id) ∧
    (∀ d ∈ (respOfWire ws).2, ∃ p ∈ (respOfWire ws).1, d.id ∈ p.devIds) := by
  induction ws with
  | nil =>
    constructor
    · intro p hp; cases hp
    · intro d hd; cases hd
  | cons w r ih =>
    obtain ⟨ih1, ih2⟩ := ih
    unfold respOfWire
    by_cases hok : w.ok = true
    · simp only [hok, if_true]
      refine ⟨?_, ?_⟩
      · intro p hp id hid
        rcases List.mem_cons.mp hp with rfl | hp
        · obtain ⟨d, hd, rfl⟩ := List.mem_map.mp hid
          exact ⟨d, List.mem_append_left _ hd, rfl⟩
        · obtain ⟨d, hd, he⟩ := ih1 p hp id hid
          exact ⟨d, List.mem_append_right _ hd, he⟩
      · intro d hd
        rcases List.mem_append.mp hd with hd | hd
        · exact ⟨convProfile w, List.mem_cons_self, List.mem_map.mpr ⟨d, hd, rfl⟩⟩
        · obtain ⟨p, hp, hin⟩ := ih2 d hd
          exact ⟨p, List.mem_cons_of_mem _ hp, hin⟩
    · simp only [hok]
      exact ⟨ih1, ih2⟩

/-- **backend_response_wf.** So a response is well formed as soon as the backend does not send an
accepted profile id or device id twice in one answer. -/
theorem backend_response_wf (ws : List WireProfile)
    (hP : ((respOfWire ws).1.map (·.id)).Nodup) (hD : ((respOfWire ws).2.map (·.id)).Nodup) :
    RespWF (respOfWire ws).1 (respOfWire ws).2 :=
  { nodupP := hP, nodupD := hD, listed := (backend_response_shape ws).1,
    owned := (backend_response_shape ws).2 }

/-- Non-vacuity: device 2 is rejected (its profile then lists device 1 only), profile 9 is rejected
with its device. -/
example : respOfWire [⟨exP 1, [⟨exD 1 7, true⟩, ⟨exD 2 0, false⟩], true⟩,
      ⟨{ exP 1 with id := 9 }, [⟨exD 3 0, true⟩], false⟩] =
    ([{ exP 1 with devIds := [1] }], [exD 1 7]) := by decide

/-! ### A full synchronisation whose cache store fails -/

/-- **store_failure_spec.** `Refresh` applies the response and advances the synchronisation point
before it stores the cache, and returns the store's error afterwards.  So after a full
synchronisation whose store failed the running database answers every look-up, and sends the next
request, exactly like one whose store succeeded — while a restart finds exactly the database a
restart *before* that synchronisation would have found (the file still is the cache that was
written last, and the restarted database asks for the changes since that cache's time). -/
theorem store_failure_spec (s : St) (t : Nat) (ps : List Profile) (ds : List Device) (v : Nat) :
    let a := step s (.syncNS t ps ds)
    let b := step s (.sync true t ps ds)
    findByDev a = findByDev b ∧ lookupKey a = lookupKey b ∧ lookupHuman a = lookupHuman b ∧
    (∀ full, reqTime a full = reqTime b full) ∧ step a (.restart v) = step s (.restart v) := by
  intro a b
  obtain ⟨c1, c2, c3⟩ := lookups_congr (s₁ := a) (s₂ := b) rfl rfl rfl rfl
  exact ⟨c1, c2, c3, fun _ => rfl, rfl⟩

/-- Non-vacuity with a failed store: the second full synchronisation (device 1 moves from IP 7 to
IP 8) is served at once, but its store fails; the restart falls back to the first one. -/
def exStoreFailOps : List Op :=
  [.sync true 10 [exP 1] [exD 1 7, exD 2 0], .syncNS 12 [exP 2] [exD 1 8, exD 2 0], .byKey (.linked 8),
   .restart 15]

macro "ex_uniq_s" t:term "," f:term : tactic => `(tactic| (
  apply uniq_small _ $t $f
  · intro k p h
    simp [exStoreFailOps, latest, spec, specStep, Spec.empty, restartLatest, CacheFile.usable, fileCacheVersion,
      Latest.apply, Latest.overlay, Latest.empty, putMany, putAll, put, profItems, exP] at h
    repeat' split at h
    all_goals first | (cases h; rfl) | (obtain ⟨_, h⟩ := h; subst h; rfl) | (simp at h) | omega
  · intro k d h
    simp [exStoreFailOps, latest, spec, specStep, Spec.empty, restartLatest, CacheFile.usable, fileCacheVersion,
      Latest.apply, Latest.overlay, Latest.empty, putMany, putAll, put, devItems, exD] at h
    repeat' split at h
    all_goals first | (cases h; simp) | (obtain ⟨_, h⟩ := h; subst h; simp) | (simp at h) | omega))

theorem exStoreFailOps_wf : HistWF exStoreFailOps := by
  refine ⟨?_, ?_, ?_⟩
  · intro full t ps ds hm
    simp only [exStoreFailOps, List.mem_cons, List.mem_nil_iff, or_false, Op.sync.injEq, reduceCtorEq, or_false] at hm
    obtain ⟨_, _, rfl, rfl⟩ := hm
    exact { nodupP := by decide, nodupD := by decide, listed := by decide, owned := by decide }
  · intro t ps ds hm
    simp only [exStoreFailOps, List.mem_cons, List.mem_nil_iff, or_false, Op.syncNS.injEq, reduceCtorEq, false_or, or_false] at hm
    obtain ⟨_, rfl, rfl⟩ := hm
    exact { nodupP := by decide, nodupD := by decide, listed := by decide, owned := by decide }
  · intro pre hpre
    have : pre = exStoreFailOps.take pre.length := List.prefix_iff_eq_take.mp hpre
    rw [this]
    have hcases : ∀ n, Uniq (latest (exStoreFailOps.take n)) := by
      intro n
      have hn : n = 0 ∨ n = 1 ∨ n = 2 ∨ n = 3 ∨ 4 ≤ n := by omega
      rcases hn with rfl | rfl | rfl | rfl | h
      · exact ⟨by intro id p p' h; simp [latest, spec, Spec.empty, Latest.empty] at h, by intro k p d p' d' h; simp [OwnerKey, OwnerDev, latest, spec, Spec.empty, Latest.empty] at h⟩
      · ex_uniq_s (exP 1), (fun _ => 1)
      · ex_uniq_s (exP 2), (fun _ => 1)
      · ex_uniq_s (exP 2), (fun _ => 1)
      · have : exStoreFailOps.take n = exStoreFailOps := List.take_of_length_le (by simpa [exStoreFailOps] using h)
        rw [this]
        ex_uniq_s (exP 1), (fun _ => 1)
    exact hcases _

example : HistWF exStoreFailOps ∧
    (lookupKey (run (exStoreFailOps.take 2)) (.linked 8)).1 = .ok (exP 2) (exD 1 8) ∧
    reqTime (run (exStoreFailOps.take 2)) false = 12 ∧
    (lookupKey (run exStoreFailOps) (.linked 7)).1 = .ok (exP 1) (exD 1 7) ∧
    (lookupKey (run exStoreFailOps) (.linked 8)).1 = .devNF ∧ reqTime (run exStoreFailOps) false = 10 :=
  ⟨exStoreFailOps_wf, by decide, by decide, by decide, by decide, by decide⟩

/-- **version_mismatch_ignored.** A cache of another version, and a cache without profiles or
without devices, leave the started database empty: every look-up is not-found, and the next
request carries the zero time (everything is fetched anew). -/
theorem version_mismatch_ignored (v : Nat) (c : Option CacheFile)
    (h : v ≠ fileCacheVersion ∨ ∀ f, c = some f → f.profs = [] ∨ f.devs = []) :
    let r := loadCache v c
    (∀ id, (findByDev r id).1 = .devNF) ∧ (∀ k, (lookupKey r k).1 = .devNF) ∧
    (∀ pid hid, (lookupHuman r pid hid).1 = .profNF) ∧ (∀ full, reqTime r full = 0) := by
  intro r
  have hmaps : r.profiles = init.profiles ∧ r.devIdx = init.devIdx ∧ r.idx = init.idx ∧
      r.syncTime = 0 := by
    show (loadCache v c).profiles = _ ∧ (loadCache v c).devIdx = _ ∧ (loadCache v c).idx = _ ∧
      (loadCache v c).syncTime = 0
    unfold loadCache
    cases c with
    | none => exact ⟨rfl, rfl, rfl, rfl⟩
    | some f =>
      simp only []
      by_cases hv : v ≠ fileCacheVersion
      · rw [if_pos hv]; exact ⟨rfl, rfl, rfl, rfl⟩
      · rw [if_neg hv]
        have : f.profs.length = 0 ∨ f.devs.length = 0 := by
          rcases h with h | h
          · exact absurd h hv
          · rcases h f rfl with h | h <;> simp [h]
        rw [if_pos this]; exact ⟨rfl, rfl, rfl, rfl⟩
  obtain ⟨h1, h3, h4, h5⟩ := hmaps
  refine ⟨?_, ?_, ?_, ?_⟩
  · intro id; unfold findByDev; rw [h3]; rfl
  · intro k; unfold lookupKey; rw [h4]; rfl
  · intro pid hid; unfold lookupHuman; rw [h1]; rfl
  · intro full; unfold reqTime; rw [h5]; cases full <;> rfl

example : (16 : Nat) ≠ fileCacheVersion := by decide

/-! ### The synchronisation point: no gap between what the database holds and what it asks for -/

/-- **request_time_no_gap.** After ANY sequence of successful synchronisations, failed storage
requests, look-ups, clean-up executions and restarts, a full synchronisation asks the storage for
everything (zero time) and a partial one asks for the changes since exactly the sync time of the
data the database currently answers from — the most recent response applied or the cache loaded at
the last restart (`lastApplied`, a backwards scan of the history that ignores failures, look-ups
and clean-ups).  So no change the backend made after that point can be skipped, and a failed request
does not advance the point. -/
theorem request_time_no_gap (evs : List Ev) (full : Bool) :
    reqTime (runEv evs) full = if full then 0 else lastApplied evs.reverse := by
  have h := (proto_inv evs.reverse).1
  rw [List.foldr_reverse] at h
  unfold reqTime runEv
  cases full with
  | true => rfl
  | false => simpa using h

/-! ### End to end: the look-ups reflect the backend, not merely the responses received -/

/-- **lookups_track_backend.** Let the storage be ANY backend that answers "changes since `t`"
honestly (`Backend.Honest (· = ·)`: its answer laid over its records of time `t` gives its current
records), and let the database run ANY sequence of successful full/partial synchronisations against
it (the backend answers the request the database really sends, `reqTime`), failed requests,
look-ups, clean-up executions and restarts from the cache, backend times not running backwards.
Then — provided the resulting history is well formed (`HistWF`, the backend's uniqueness guarantee)
— each of the four look-ups returns exactly the owner of the key in the BACKEND's records of the
time of the last data applied (`syncTime`: the last successful synchronisation, or after a restart
the cached full one).  This needs the synchronisation point to be kept without gaps: a database
asking for a later point, or applying a partial answer as a full one, would not satisfy it. -/
theorem lookups_track_backend (B : Backend) (hB : B.Honest (fun L L' => L = L')) (acts : List Act)
    (hok : ∀ a ∈ acts, a.ok) (hm : Mono 0 acts) (hwf : HistWF (opsOf B acts init)) :
    let s := run (opsOf B acts init)
    (∀ id p d, (findByDev s id).1 = .ok p d ↔ OwnerDev (B.state s.syncTime) id p d) ∧
    (∀ k p d, (lookupKey s k).1 = .ok p d ↔ OwnerKey (B.state s.syncTime) k p d) ∧
    (∀ pid hid p d, (lookupHuman s pid hid).1 = .ok p d ↔
      OwnerKey (B.state s.syncTime) (.human hid pid) p d) := by
  intro s
  obtain ⟨now', ht⟩ := tracks_run B hB acts init Spec.empty 0 (tracks_init B hB) hok hm
  have he : latest (opsOf B acts init) = B.state s.syncTime := ht.cur
  have hI := inv_run _ hwf
  rw [he] at hI
  exact ⟨fun id p d => lookupDev_spec hI id p d, fun k p d => lookupKey_spec hI k p d,
    fun pid hid p d => lookupHuman_spec hI pid hid p d⟩

/-- Non-vacuity: a backend with a change log (device 1 gets linked IP 7 at time 10 and moves to IP 8
at time 11) is honest, and a database that syncs fully at 10, fails once, syncs partially at 11 and
restarts (falling back to the cached full sync) tracks it. -/
def exLog : Nat → List Profile × List Device
  | 10 => ([exP 1], [exD 1 7, exD 2 0])
  | 11 => ([exP 2], [exD 1 8, exD 2 0])
  | _ => ([], [])

def exActs : List Act := [.sync true 10, .fail false, .sync false 11, .op (.restart 15), .op (.byKey (.linked 8))]

example : (logBackend exLog).Honest (fun L L' => L = L') := logBackend_honest exLog

example : opsOf (logBackend exLog) exActs init = exRestartOps ∧ HistWF (opsOf (logBackend exLog) exActs init) ∧
    (∀ a ∈ exActs, a.ok) ∧ Mono 0 exActs := by
  have he : opsOf (logBackend exLog) exActs init = exRestartOps := rfl
  refine ⟨he, he ▸ exRestartOps_wf, ?_, by simp [exActs, Mono]⟩
  intro a ha
  simp only [exActs, List.mem_cons, List.mem_nil_iff, or_false] at ha
  rcases ha with rfl | rfl | rfl | rfl | rfl <;> trivial

def exEvs : List Ev :=
  [.op (.sync true 10 [exP 1] [exD 1 7, exD 2 0]), .failed false, .op (.byKey (.linked 7)),
   .op (.sync false 12 [exP 2] [exD 1 8, exD 2 0]), .failed true, .op (.restart 15), .failed false]

/-- After the restart the partial request asks for the changes since the cached full sync (10),
not since the later partial one (12) whose data the restart lost. -/
example : reqTime (runEv (exEvs.take 2)) false = 10 ∧ reqTime (runEv (exEvs.take 5)) false = 12 ∧
    reqTime (runEv exEvs) false = 10 ∧ reqTime (runEv exEvs) true = 0 ∧
    lastApplied exEvs.reverse = 10 := by decide

/-! ### Production wiring: the refresh contexts and the start of the process (`internal/cmd`) -/

/-- **backend_timeout_spec.** A request to the backend made under the context the builder creates
for `backend.timeout` is answered iff the timeout is zero ("Set to `0s` to disable timeouts") or
the answer arrives within the timeout — for every instant and every latency. -/
theorem backend_timeout_spec (timeout now latency : Nat) :
    answered (ctxDeadline timeout now) now latency = true ↔ timeout = 0 ∨ latency < timeout := by
  unfold ctxDeadline answered
  by_cases h : timeout = 0
  · simp [h]
  · simp [h]

/-- **backend_timeout_zero_counterexample.** The builder of the pinned tree
(`context.WithTimeout(parent, timeout)` for every value): with the documented `timeout: 0s` NO
request is ever answered, however fast the backend — no synchronisation ever happens; the repaired
constructor answers every one. -/
theorem backend_timeout_zero_counterexample :
    (∀ now latency, answered (ctxDeadlineOld 0 now) now latency = false) ∧
    (∀ now latency, answered (ctxDeadline 0 now) now latency = true) := by
  refine ⟨fun now latency => ?_, fun now latency => ?_⟩
  · simp [ctxDeadlineOld, answered]
  · simp [ctxDeadline, answered]

/-- **start_initial_refresh_spec.** One start of the process (`profiledb.New` on the cache file,
then the initial refresh under the configured timeout) after ANY history: the database holds the
backend's answer applied to what the cache file gave iff `timeout = 0` or the backend answered
within the timeout; otherwise it holds exactly what the cache file gave (and goes on serving it). -/
theorem start_initial_refresh_spec (evs : List Ev) (v timeout latency : Nat) (full : Bool) (t : Nat)
    (ps : List Profile) (ds : List Device) :
    runEv (evs ++ startEvs ctxDeadline v timeout latency full t ps ds) =
      if timeout = 0 ∨ latency < timeout
      then applySync (loadCache v (runEv evs).cache) full t ps ds
      else loadCache v (runEv evs).cache := by
  have h := backend_timeout_spec timeout 0 latency
  by_cases hc : timeout = 0 ∨ latency < timeout
  · have ha : answered (ctxDeadline timeout 0) 0 latency = true := h.mpr hc
    simp [runEv, startEvs, List.foldl_append, stepEv, step, ha, hc]
  · have ha : answered (ctxDeadline timeout 0) 0 latency = false := by
      cases hb : answered (ctxDeadline timeout 0) 0 latency
      · rfl
      · exact absurd (h.mp hb) hc
    simp [runEv, startEvs, List.foldl_append, stepEv, step, ha, hc]

/-- **start_timeout_zero_old_never_syncs.** With the old constructor and `timeout: 0s` every start,
after any history and against a backend of any speed, ends with the cache content only. -/
theorem start_timeout_zero_old_never_syncs (evs : List Ev) (v latency : Nat) (full : Bool) (t : Nat)
    (ps : List Profile) (ds : List Device) :
    runEv (evs ++ startEvs ctxDeadlineOld v 0 latency full t ps ds) = loadCache v (runEv evs).cache := by
  simp [runEv, startEvs, List.foldl_append, stepEv, step, ctxDeadlineOld, answered]

/-- Non-vacuity: a backend that needs 3 time units is answered under `timeout: 0s` and under
`timeout: 5`, not under `timeout: 2`; the old constructor answered nothing under `0s`. -/
example : answered (ctxDeadline 0 100) 100 3 = true ∧ answered (ctxDeadline 5 100) 100 3 = true ∧
    answered (ctxDeadline 2 100) 100 3 = false ∧ answered (ctxDeadlineOld 0 100) 100 0 = false := by decide

/-- **needs_full_sync_spec.** The kind of the next synchronisation: after a failed attempt at a full
one it is full iff the retry interval has passed since that failure, otherwise iff the full
interval has passed since the last full synchronisation (or the sync time of the cache loaded at
start); a process without either (`sinceFull` = the age of the zero time) always starts with a
full one. -/
theorem needs_full_sync_spec (fullIvl retryIvl sinceFull : Int) (sinceErr : Option Int) :
    needsFullSync fullIvl retryIvl sinceFull sinceErr = true ↔
      (sinceErr = none ∧ fullIvl ≤ sinceFull) ∨ (∃ e, sinceErr = some e ∧ retryIvl ≤ e) := by
  cases sinceErr with
  | none => simp [needsFullSync]
  | some e => simp [needsFullSync]

example : needsFullSync 3600 60 9223372036 none = true ∧ needsFullSync 3600 60 10 none = false ∧
    needsFullSync 3600 60 10 (some 61) = true ∧ needsFullSync 3600 60 99999 (some 5) = false := by decide

/-! ### Round 5: a panic inside `Refresh` and the refresh worker -/

/-- **worker_panic_stops_sync.** `refreshInALoop` recovers outside its loop: once a `Refresh` of
the worker has panicked, whatever the backend sends later (`later`, arbitrary) never reaches the
database — after any history `pre`, the database (hence every look-up) stays what the ticks before
the panic made it. -/
theorem worker_panic_stops_sync (pre : List Ev) (before later : List Ev) :
    runEv (pre ++ workerEvs (before.map Tick.ev ++ Tick.panic :: later.map Tick.ev)) =
      runEv (pre ++ before) := by
  have h : ∀ l : List Ev, ∀ r, workerEvs (l.map Tick.ev ++ Tick.panic :: r) = l := by
    intro l r
    induction l with
    | nil => simp [workerEvs]
    | cons e l ih => simp [workerEvs, ih]
  rw [h]

/-- **worker_without_panic_applies_all.** A worker none of whose refreshes panics leaves every one
of them in the history (so the history theorems speak about everything the backend sent). -/
theorem worker_without_panic_applies_all (evs : List Ev) :
    workerEvs (evs.map (tickOf false)) = evs := by
  induction evs with
  | nil => simp [workerEvs]
  | cons e l ih => simp [workerEvs, tickOf, ih]

end Agd.ProfileDB

namespace Agd.ProfileCache

/-- Caches as the backend converter produces them: canonical authentication settings (see
`CanonAuth`) and addresses that are `netip.Addr` values (4 or 16 bytes; any zone). -/
def Canon (est : Nat) (c : Cache) : Prop :=
  (∀ d ∈ c.devices, CanonAuth d.auth ∧ d.linked.WF ∧ ∀ a ∈ d.dedicated, a.WF) ∧
  (∀ p ∈ c.profiles, BmWF p.blockingMode ∧ p.ratelimiter.EstIs est)

/-- **addr_codec_roundtrip.** The binary form the cache stores for a linked, dedicated or custom
blocking address reads back as the same address: zero value, IPv4, IPv6, IPv4-mapped IPv6 and ANY
zone. -/
theorem addr_codec_roundtrip (a : Addr) (h : a.WF) : Addr.unmarshal a.marshal = some a :=
  addr_rt a h

/-- **addr_codec_injective.** Addresses that are different keys in memory (different zone, IPv4 vs.
IPv4-mapped, zero vs. unspecified) have different binary forms: the restarted database cannot merge
or swap two keys. -/
theorem addr_codec_injective (a b : Addr) (ha : a.WF) (hb : b.WF) (h : a.marshal = b.marshal) : a = b :=
  marshal_inj a b ha hb h

/-- **addr_decode_canonical.** Whatever bytes the backend (or a cache file) carries, if
`UnmarshalBinary` accepts them the result is a well-formed address whose binary form is exactly
those bytes. -/
theorem addr_decode_canonical (b : List Nat) (a : Addr) (h : Addr.unmarshal b = some a) :
    a.WF ∧ a.marshal = b :=
  ⟨unmarshal_wf b a h, marshal_unmarshal b a h⟩

def exZoned : Addr := .v6 [254, 128, 0, 0, 0, 0, 0, 0, 0, 0, 0, 0, 0, 0, 18, 52] [101, 116, 104, 48]
def exMapped : Addr := .v6 [0, 0, 0, 0, 0, 0, 0, 0, 0, 0, 255, 255, 192, 0, 2, 1] []

/-- Non-vacuity and sensitivity: `fe80::1234%eth0`, its zone-less twin, `::ffff:192.0.2.1`,
`192.0.2.1`, `0.0.0.0` and the zero value are six different keys with six different binary forms,
each read back unchanged; the zone-less form `AsSlice` (which is NOT what the cache writes) would
turn the first into the second. -/
example : exZoned.WF ∧ exMapped.WF ∧
    Addr.unmarshal exZoned.marshal = some exZoned ∧
    Addr.unmarshal exZoned.asSlice = some (.v6 [254, 128, 0, 0, 0, 0, 0, 0, 0, 0, 0, 0, 0, 0, 18, 52] []) ∧
    Addr.unmarshal exZoned.asSlice ≠ some exZoned ∧
    Addr.unmarshal exMapped.marshal = some exMapped ∧
    Addr.unmarshal (Addr.v4 [192, 0, 2, 1]).marshal = some (.v4 [192, 0, 2, 1]) ∧
    Addr.unmarshal (Addr.v4 [0, 0, 0, 0]).marshal = some (.v4 [0, 0, 0, 0]) ∧
    Addr.unmarshal Addr.zero.marshal = some .zero ∧
    Addr.unmarshal [1, 2, 3] = none := by decide

/-- **filecache_roundtrip.** Reading back what was written succeeds and returns the cache unchanged —
sync time, version, and every field of every profile and device (all combinations of schedule /
access / blocking mode / rate limiter / authentication variants, any TTL, any 16-bit day interval,
linked, dedicated and custom blocking addresses of every family with any zone). -/
theorem filecache_roundtrip (est : Nat) (c : Cache) (h : Canon est c) : fromPb est (toPb c) = some c := by
  obtain ⟨ss, sn, ps, ds, v⟩ := c
  obtain ⟨hd, hp⟩ := h
  have h1 := optAll_rt profileToPb (profileFromPb est) ps (fun p hm => profile_rt est p (hp p hm).1 (hp p hm).2)
  have h2 := optAll_rt deviceToPb deviceFromPb ds
    (fun d hm => device_rt d (hd d hm).1 (hd d hm).2.1 (hd d hm).2.2)
  simp only [fromPb, toPb, h1, h2]

def exAuthDevice : Device :=
  { auth := { enabled := true, dohOnly := true, pw := .allow }, id := 1, linked := exZoned, name := 3,
    human := 4, dedicated := [exMapped, .v4 [198, 51, 100, 7]], filtering := true }

example : Canon 1024 { syncSec := -5, syncNsec := 7, profiles := [], devices := [exAuthDevice], version := 15 } := by
  refine ⟨?_, ?_⟩
  · intro d hd
    simp at hd
    subst hd
    decide
  · intro p hp
    simp at hp

/-- Every limiter the `backendpb` converter makes carries the estimate its storage was created
with. -/
theorem backendRate_estIs (est : Nat) (w : Option WireRate) : (backendRate est w).EstIs est := by
  cases w with
  | none => trivial
  | some x =>
    cases h : x.enabled <;> simp [backendRate, h, Ratelimiter.EstIs]

/-- **backend_values_canon.** Whatever the backend sends, the authentication settings that
`backendpb` makes of it are canonical — the hypothesis of `filecache_roundtrip` is a property of
the repository's own converter, not of the backend. -/
theorem backend_values_canon (a : Option PbAuth) : CanonAuth (backendAuth a) := by
  cases a with
  | none => decide
  | some x =>
    obtain ⟨doh, pw⟩ := x
    cases pw with
    | unset => cases doh <;> decide
    | bcrypt b =>
      constructor
      · intro h; cases h
      · intro h; cases h

/-- **backend_cache_roundtrip.** A cache whose devices and blocking modes came out of the `backendpb`
converter (any wire input: any authentication message, any address bytes the converter accepts —
zoned ones included) is read back unchanged — no assumption on the values left.  (Rate limiter
and access settings need no canonical form: `agd.DefaultRatelimiter` does not keep an enabled flag
and `backendpb` maps absent or disabled settings to the global limiter / the empty access
profile.) -/
theorem backend_cache_roundtrip (est : Nat) (c : Cache)
    (hd : ∀ d ∈ c.devices, (∃ w, d.auth = backendAuth w) ∧ FromWire d.linked ∧ ∀ a ∈ d.dedicated, FromWire a)
    (hp : ∀ p ∈ c.profiles, ∀ v4 v6, p.blockingMode = .customIP v4 v6 → ∀ a ∈ v4 ++ v6, FromWire a)
    (hr : ∀ p ∈ c.profiles, ∃ w, p.ratelimiter = backendRate est w) :
    fromPb est (toPb c) = some c := by
  apply filecache_roundtrip
  refine ⟨?_, ?_⟩
  · intro d hm
    obtain ⟨⟨w, hw⟩, hl, hde⟩ := hd d hm
    refine ⟨?_, fromWire_wf _ hl, fun a ha => fromWire_wf _ (hde a ha)⟩
    rw [hw]; exact backend_values_canon w
  · intro p hm
    refine ⟨?_, ?_⟩
    · cases hbm : p.blockingMode with
      | customIP v4 v6 =>
        have := hp p hm v4 v6 hbm
        exact ⟨fun a ha => fromWire_wf _ (this a (List.mem_append_left _ ha)),
               fun a ha => fromWire_wf _ (this a (List.mem_append_right _ ha))⟩
      | nxdomain => trivial
      | nullIP => trivial
      | refused => trivial
    · obtain ⟨w, hw⟩ := hr p hm
      rw [hw]
      exact backendRate_estIs est w

/-- Non-vacuity: a 20-byte linked IP from the wire is the zoned address, and such a device
satisfies the hypotheses of `backend_cache_roundtrip`. -/
example : Addr.unmarshal exZoned.marshal = some exZoned ∧ FromWire exZoned ∧ FromWire exMapped ∧
    FromWire (.v4 [198, 51, 100, 7]) ∧ FromWire .zero :=
  ⟨by decide, ⟨exZoned.marshal, by decide⟩, ⟨exMapped.marshal, by decide⟩, ⟨[198, 51, 100, 7], by decide⟩,
   ⟨[], by decide⟩⟩

example : backendRate 1024 (some { enabled := false, rps := 5, cidr := [(1, 24)] }) = .global ∧
    backendRate 1024 (some { enabled := true, rps := 5, cidr := [(1, 24)] }) = .default [(1, 24)] 5 1024 ∧
    ratelimiterFromPb 1024 (ratelimiterToPb (backendRate 1024 (some { enabled := true, rps := 5, cidr := [(1, 24)] }))) =
      .default [(1, 24)] 5 1024 ∧
    backendAccess (some { enabled := false, cfg := ⟨[], [], [1], [], []⟩ }) = none ∧
    backendAuth (some { dohOnly := true, pw := .unset }) = { enabled := true, dohOnly := true, pw := .allow } := by
  decide

/-- **filecache_auth_counterexample.** The reader of the pinned tree turned "authentication enabled,
no DoH password" (which the backend converter produces) into a nil authenticator; the repaired
reader returns the device unchanged. -/
theorem filecache_auth_counterexample :
    CanonAuth exAuthDevice.auth ∧
    deviceFromPbOld (deviceToPb exAuthDevice) ≠ some exAuthDevice ∧
    (deviceFromPbOld (deviceToPb exAuthDevice)).map (·.auth.pw) = some .nilHash ∧
    deviceFromPb (deviceToPb exAuthDevice) = some exAuthDevice := by
  refine ⟨by decide, by decide, by decide, by decide⟩

/-- **load_decision_spec.** The cache is used exactly when its version is current and it holds at
least one profile and one device. -/
theorem load_decision_spec (v np nd : Nat) :
    loadDecision v np nd = .loaded ↔ v = fileCacheVersion ∧ 0 < np ∧ 0 < nd := by
  unfold loadDecision
  by_cases hv : v = fileCacheVersion
  · by_cases h0 : np = 0 ∨ nd = 0
    · simp [hv, h0]; omega
    · simp [hv, h0]; omega
  · simp [hv]

/-- **store_kill_old_or_new.** Whatever chunks the content is written in and after however many
completed steps of `renameio.WriteFile` the process is killed, the cache file holds either exactly
the old content or exactly the new content (given that `rename(2)` is atomic). -/
theorem store_kill_old_or_new (old : Option (List Nat)) (chunks : List (List Nat)) (k : Nat) :
    (killedAfter { target := old, temp := none } chunks k).target = old ∨
    (killedAfter { target := old, temp := none } chunks k).target = some chunks.flatten := by
  have hops : storeOps chunks = (.createTemp :: (chunks.map FsOp.write ++ [.sync])) ++ [.rename] := by
    simp [storeOps]
  by_cases hk : k ≤ (FsOp.createTemp :: (chunks.map FsOp.write ++ [.sync])).length
  · left
    unfold killedAfter
    rw [hops, List.take_append_of_le_length hk]
    rw [fold_no_rename]
    intro o ho
    have := List.mem_of_mem_take ho
    simp only [List.mem_cons, List.mem_append, List.mem_map, List.mem_nil_iff, or_false] at this
    rcases this with rfl | ⟨c, _, rfl⟩ | rfl <;> simp
  · right
    unfold killedAfter
    have hlen : (storeOps chunks).length ≤ k := by
      rw [hops, List.length_append]; simp at hk ⊢; omega
    rw [List.take_of_length_le hlen, hops]
    simp only [List.foldl_append, List.foldl_cons, List.foldl_nil, fsStep]
    rw [fold_writes]
    simp

example : (killedAfter { target := some [9], temp := none } [[1, 2], [3]] 2).target = some [9] ∧
    (killedAfter { target := some [9], temp := none } [[1, 2], [3]] 5).target = some [1, 2, 3] := by
  decide

/-- **restored_limiter_counts_alike.** A custom rate limiter read back from the cache by a storage
that was created with the estimate the limiter was built with counts every response as the
original does (and `CountResponses` panics for neither or both). -/
theorem restored_limiter_counts_alike (est : Nat) (r : Ratelimiter) (h : r.EstIs est) (len : Nat) :
    (ratelimiterFromPb est (ratelimiterToPb r)).countedAs len = r.countedAs len := by
  rw [ratelimiter_rt est r h]

/-- **estimate_wiring_necessary.** The cache file does not hold the estimate: read back by a storage
created with ANOTHER estimate, a custom limiter is a different limiter — the builder must hand the
same `response_size_estimate` to the backend storage and to the database (it does:
`builder_estimate_wiring_src`). -/
theorem estimate_wiring_necessary (est est' : Nat) (h : est ≠ est') (sn : List (Nat × Nat)) (rps : Nat) :
    ratelimiterFromPb est' (ratelimiterToPb (.default sn rps est)) ≠ .default sn rps est := by
  simp [ratelimiterFromPb, ratelimiterToPb]
  exact fun h' => h h'.symm

/-- Non-vacuity and sensitivity: with the estimate 1024 on both sides a 3395-byte response counts as
3 requests before and after the restart; an estimate lost on the way (0) makes `CountResponses`
panic, one taken in the wrong unit (1024 × 1024) counts nothing. -/
example : (Ratelimiter.default [] 100 1024).countedAs 3395 = some 3 ∧
    (ratelimiterFromPb 1024 (ratelimiterToPb (.default [] 100 1024))).countedAs 3395 = some 3 ∧
    (ratelimiterFromPb 0 (ratelimiterToPb (.default [] 100 1024))).countedAs 3395 = none ∧
    (ratelimiterFromPb 1048576 (ratelimiterToPb (.default [] 100 1024))).countedAs 3395 = some 0 ∧
    (Ratelimiter.default [] 100 1024).passesAfter 3395 130 = some 97 := by decide

/-! ### Round 5: the optional parts of the wire schedule -/

/-- **backend_schedule_total.** For EVERY wire schedule — absent, without `weekly_range`, with any
days absent, with absent bounds, with an unknown time zone — the repaired converter returns a value
or an error; it never panics. -/
theorem backend_schedule_total (x : Option WireSchedule) : backendSchedule x ≠ .panic := by
  cases x with
  | none => simp [backendSchedule]
  | some x =>
    obtain ⟨tz, weekly⟩ := x
    cases tz with
    | none => simp [backendSchedule]
    | some tz =>
      simp only [backendSchedule]
      cases weekConv (weekly.getD emptyWeek) <;> simp

/-- **backend_schedule_absent_week_spec.** A schedule without `weekly_range` is the schedule of the
default message (proto3): no day has a pause interval, the time zone is kept. -/
theorem backend_schedule_absent_week_spec (tz : Nat) :
    backendSchedule (some { tz := some tz, weekly := none }) =
      .ok (some { sun := none, mon := none, tue := none, wed := none, thu := none, fri := none,
                  sat := none, tz := tz }) ∧
    backendSchedule (some { tz := some tz, weekly := none }) =
      backendSchedule (some { tz := some tz, weekly := some emptyWeek }) := by
  constructor <;> rfl

/-- **backend_schedule_absent_week_counterexample.** The converter of the pinned tree panicked on
exactly that legal message … -/
theorem backend_schedule_absent_week_counterexample :
    backendScheduleOld (some { tz := some 0, weekly := none }) = .panic ∧
    backendSchedule (some { tz := some 0, weekly := none }) ≠ .panic := by
  constructor
  · rfl
  · exact backend_schedule_total _

/-- … and on nothing else: the repair changed no other answer. -/
theorem backend_schedule_old_agrees (x : Option WireSchedule)
    (h : ∀ y, x = some y → y.tz = none ∨ y.weekly ≠ none) :
    backendScheduleOld x = backendSchedule x := by
  cases x with
  | none => rfl
  | some y =>
    obtain ⟨tz, weekly⟩ := y
    cases tz with
    | none => rfl
    | some t =>
      cases weekly with
      | none => exact absurd rfl ((h _ rfl).resolve_left (by simp))
      | some w => rfl

/-- **backend_schedule_cache_roundtrip.** Whatever schedule the converter delivers is read back
from the file cache unchanged. -/
theorem backend_schedule_cache_roundtrip (x : Option WireSchedule) (s : Schedule)
    (_h : backendSchedule x = .ok (some s)) : scheduleFromPb (scheduleToPb s) = s := schedule_rt s

/-- Absent bounds: a day without `start` begins at midnight; a day with neither bound is the first
minute; an end before the start fails the schedule (the profile is skipped). -/
example : dayConv ⟨none, some 600⟩ = some ⟨0, 601⟩ ∧ dayConv ⟨none, none⟩ = some ⟨0, 1⟩ ∧
    dayConv ⟨some 1439, some 1439⟩ = some ⟨1439, 1440⟩ ∧ dayConv ⟨some 60, none⟩ = none ∧
    dayConv ⟨some 0, some 1440⟩ = none := by decide

example : backendSchedule (some { tz := some 1, weekly := some [none, some ⟨none, some 600⟩, none, none, none, none, some ⟨some 60, some 61⟩] }) =
    .ok (some { sun := none, mon := some ⟨0, 601⟩, tue := none, wed := none, thu := none, fri := none,
                sat := some ⟨60, 62⟩, tz := 1 }) := by decide

end Agd.ProfileCache

namespace Agd.ProfileDB
open Agd.ProfileCache in
/-- **absent_week_old_worker_dead.** Both halves together, on the pinned tree: the tick whose answer
holds a schedule without `weekly_range` panics, and from then on NOTHING the backend sends is ever
applied (`later` arbitrary) — the look-ups answer from the data before that tick for ever; with the
repaired converter the same tick is an ordinary event of the history. -/
theorem absent_week_old_worker_dead (pre : List Ev) (e : Ev) (later : List Ev) :
    let bad : Option WireSchedule := some { tz := some 0, weekly := none }
    runEv (pre ++ workerEvs (tickOf (decide (backendScheduleOld bad = .panic)) e :: later.map Tick.ev)) = runEv pre ∧
    runEv (pre ++ workerEvs (tickOf (decide (backendSchedule bad = .panic)) e :: later.map Tick.ev)) =
      runEv (pre ++ e :: later) := by
  constructor
  · have := worker_panic_stops_sync pre [] later
    simpa [tickOf, backendScheduleOld] using this
  · have h : ∀ l : List Ev, workerEvs (l.map Tick.ev) = l := by
      intro l
      induction l with
      | nil => simp [workerEvs]
      | cons a l ih => simp [workerEvs, ih]
    simp [tickOf, backendSchedule, emptyWeek, weekConv, workerEvs, h]
end Agd.ProfileDB

#print axioms Agd.ProfileDB.lookup_refines_spec
#print axioms Agd.ProfileDB.lookup_unowned_not_found
#print axioms Agd.ProfileDB.exOps_resp
#print axioms Agd.ProfileDB.exOps_wf
#print axioms Agd.ProfileDB.exRestartOps_wf
#print axioms Agd.ProfileDB.cleanup_overtaken_counterexample
#print axioms Agd.ProfileDB.humanid_moved_counterexample
#print axioms Agd.ProfileDB.lookups_congr
#print axioms Agd.ProfileDB.findByDev_ok_maps
#print axioms Agd.ProfileDB.lookupKey_ok_findByDev
#print axioms Agd.ProfileDB.lookupHuman_ok_lookupKey
#print axioms Agd.ProfileDB.no_ok_of_empty
#print axioms Agd.ProfileDB.restart_equivalent
#print axioms Agd.ProfileDB.backend_response_shape
#print axioms Agd.ProfileDB.backend_response_wf
#print axioms Agd.ProfileDB.store_failure_spec
#print axioms Agd.ProfileDB.exStoreFailOps_wf
#print axioms Agd.ProfileDB.request_time_no_gap
#print axioms Agd.ProfileDB.lookups_track_backend
#print axioms Agd.ProfileDB.version_mismatch_ignored
#print axioms Agd.ProfileDB.backend_timeout_spec
#print axioms Agd.ProfileDB.backend_timeout_zero_counterexample
#print axioms Agd.ProfileDB.start_initial_refresh_spec
#print axioms Agd.ProfileDB.start_timeout_zero_old_never_syncs
#print axioms Agd.ProfileDB.needs_full_sync_spec
#print axioms Agd.ProfileCache.addr_codec_roundtrip
#print axioms Agd.ProfileCache.addr_codec_injective
#print axioms Agd.ProfileCache.addr_decode_canonical
#print axioms Agd.ProfileCache.filecache_roundtrip
#print axioms Agd.ProfileCache.filecache_auth_counterexample
#print axioms Agd.ProfileCache.backend_values_canon
#print axioms Agd.ProfileCache.backend_cache_roundtrip
#print axioms Agd.ProfileCache.backendRate_estIs
#print axioms Agd.ProfileCache.restored_limiter_counts_alike
#print axioms Agd.ProfileCache.estimate_wiring_necessary
#print axioms Agd.ProfileCache.backend_schedule_total
#print axioms Agd.ProfileCache.backend_schedule_absent_week_spec
#print axioms Agd.ProfileCache.backend_schedule_absent_week_counterexample
#print axioms Agd.ProfileCache.backend_schedule_old_agrees
#print axioms Agd.ProfileCache.backend_schedule_cache_roundtrip
#print axioms Agd.ProfileDB.worker_panic_stops_sync
#print axioms Agd.ProfileDB.worker_without_panic_applies_all
#print axioms Agd.ProfileDB.absent_week_old_worker_dead
#print axioms Agd.ProfileCache.load_decision_spec
#print axioms Agd.ProfileCache.store_kill_old_or_new
#print axioms Agd.Tie.TrC14.translation_complete
#print axioms Agd.Tie.TrC14.attached_iff
#print axioms Agd.Tie.TrC14.linkedIP_cleanup_revalidates
#print axioms Agd.Tie.TrC14.dedicatedIP_cleanup_revalidates
#print axioms Agd.Tie.TrC14.device_cleanup_revalidates
#print axioms Agd.Tie.TrC14.humanID_cleanup_revalidates
#print axioms Agd.Tie.TrC14.humanID_cleanup_no_device
#print axioms Agd.Tie.TrC14.ctx_zero_timeout_has_no_deadline
#print axioms Agd.Tie.TrC14.ctx_matches_model
#print axioms Agd.Tie.TrC14.initProfDB_spec
#print axioms Agd.Tie.TrC14.needsFullSync_tr
#print axioms Agd.Tie.TrC14.loadFileCache_spec
