import Agd.Lemmas.ProfileDB
import Agd.Lemmas.ProfileCache
import Agd.Tie.C14
/-!
# C14 — profile look-ups always reflect the latest synchronised data, also after restart

Property theorems only.  Specification (`Latest`, `OwnerDev`, `OwnerKey`, `HistWF`) and helper
lemmas live in `Agd/Lemmas/ProfileDB.lean` and `Agd/Lemmas/ProfileCache.lean`.
-/
namespace Agd.ProfileDB

/-- **lookup_refines_spec.** After ANY well-formed history of full and partial synchronisations,
look-ups and clean-up goroutine executions — the clean-ups scheduled at arbitrary later points,
before or after any number of later synchronisations — each of the four look-ups returns
`(p, d)` exactly when `d` is the current device owning the key and `p` the current profile
containing it. -/
theorem lookup_refines_spec (ops : List Op) (h : HistWF ops) :
    (∀ id p d, (findByDev (run ops) id).1 = .ok p d ↔ OwnerDev (latest ops) id p d) ∧
    (∀ ip p d, (lookupKey (run ops) (.linked ip)).1 = .ok p d ↔ OwnerKey (latest ops) (.linked ip) p d) ∧
    (∀ ip p d, (lookupKey (run ops) (.ded ip)).1 = .ok p d ↔ OwnerKey (latest ops) (.ded ip) p d) ∧
    (∀ pid hid p d, (lookupHuman (run ops) pid hid).1 = .ok p d ↔
      OwnerKey (latest ops) (.human hid pid) p d) := by
  have hI := inv_run ops h
  exact ⟨fun id p d => lookupDev_spec hI id p d, fun ip p d => lookupKey_spec hI _ p d,
    fun ip p d => lookupKey_spec hI _ p d, fun pid hid p d => lookupHuman_spec hI pid hid p d⟩

/-- Not-found: a result that is not `ok`. -/
def Res.notFound : Res → Prop
  | .ok _ _ => False
  | _ => True

/-- **lookup_unowned_not_found.** Keys that no current device owns are answered not-found. -/
theorem lookup_unowned_not_found (ops : List Op) (h : HistWF ops) :
    (∀ id, (∀ p d, ¬ OwnerDev (latest ops) id p d) → (findByDev (run ops) id).1.notFound) ∧
    (∀ k, (∀ p d, ¬ OwnerKey (latest ops) k p d) → (lookupKey (run ops) k).1.notFound) ∧
    (∀ pid hid, (∀ p d, ¬ OwnerKey (latest ops) (.human hid pid) p d) →
      (lookupHuman (run ops) pid hid).1.notFound) := by
  have hI := inv_run ops h
  refine ⟨?_, ?_, ?_⟩
  · intro id hno
    cases hr : (findByDev (run ops) id).1 with
    | ok p d => exact (hno p d ((lookupDev_spec hI id p d).mp hr)).elim
    | devNF => trivial
    | profNF => trivial
  · intro k hno
    cases hr : (lookupKey (run ops) k).1 with
    | ok p d => exact (hno p d ((lookupKey_spec hI k p d).mp hr)).elim
    | devNF => trivial
    | profNF => trivial
  · intro pid hid hno
    cases hr : (lookupHuman (run ops) pid hid).1 with
    | ok p d => exact (hno p d ((lookupHuman_spec hI pid hid p d).mp hr)).elim
    | devNF => trivial
    | profNF => trivial

/-! Non-vacuity: a history in which device 1 gives up linked IP 7, a look-up hits the stale entry
and starts a clean-up, device 2 then receives IP 7, and the clean-up runs only afterwards. -/

def exP (tag : Nat) : Profile := { id := 1, devIds := [1, 2], auto := false, deleted := false, tag := tag }
def exD (id linked : Nat) : Device := { id := id, linked := linked, dedicated := [], human := 0, tag := linked }

def exOps : List Op :=
  [.sync true [exP 1] [exD 1 7, exD 2 0], .sync false [exP 2] [exD 1 8, exD 2 0], .byKey (.linked 7),
   .sync false [exP 3] [exD 1 8, exD 2 7], .run 0]

example : (run exOps).pending = [] ∧ ((run (exOps.take 3)).pending = [.key (.linked 7)]) ∧
    (lookupKey (run exOps) (.linked 7)).1 = .ok (exP 3) (exD 2 7) := by decide

/-- Every response of the example history is well formed. -/
theorem exOps_resp : ∀ full ps ds, Op.sync full ps ds ∈ exOps → RespWF ps ds := by
  intro full ps ds hm
  simp only [exOps, List.mem_cons, List.mem_nil_iff, or_false, Op.sync.injEq, reduceCtorEq, false_or, or_false] at hm
  rcases hm with ⟨_, rfl, rfl⟩ | ⟨_, rfl, rfl⟩ | ⟨_, rfl, rfl⟩ <;>
    exact { nodupP := by decide, nodupD := by decide, listed := by decide, owned := by decide }

macro "ex_uniq" t:term "," f:term : tactic => `(tactic| (
  apply uniq_small _ $t $f
  · intro k p h
    simp [exOps, latest, latestStep, Latest.apply, Latest.overlay, Latest.empty, putMany, putAll, put, profItems, exP] at h
    repeat' split at h
    all_goals first | (cases h; rfl) | (obtain ⟨_, h⟩ := h; subst h; rfl) | (simp at h) | omega
  · intro k d h
    simp [exOps, latest, latestStep, Latest.apply, Latest.overlay, Latest.empty, putMany, putAll, put, devItems, exD] at h
    repeat' split at h
    all_goals first | (cases h; simp) | (obtain ⟨_, h⟩ := h; subst h; simp) | (simp at h) | omega))

/-- The example history is well formed. -/
theorem exOps_wf : HistWF exOps := by
  refine ⟨exOps_resp, ?_⟩
  intro pre hpre
  have : pre = exOps.take pre.length := List.prefix_iff_eq_take.mp hpre
  rw [this]
  have hcases : ∀ n, Uniq (latest (exOps.take n)) := by
    intro n
    have hn : n = 0 ∨ n = 1 ∨ n = 2 ∨ n = 3 ∨ n = 4 ∨ 5 ≤ n := by omega
    rcases hn with rfl | rfl | rfl | rfl | rfl | h
    · exact ⟨by intro id p p' h; simp [latest, Latest.empty] at h, by intro k p d p' d' h; simp [OwnerKey, OwnerDev, latest, Latest.empty] at h⟩
    · ex_uniq (exP 1), (fun _ => 1)
    · ex_uniq (exP 2), (fun _ => 1)
    · ex_uniq (exP 2), (fun _ => 1)
    · ex_uniq (exP 3), (fun ip => if ip = 7 then 2 else 1)
    · have : exOps.take n = exOps := List.take_of_length_le (by simpa [exOps] using h)
      rw [this]
      ex_uniq (exP 3), (fun ip => if ip = 7 then 2 else 1)
  exact hcases _

example : HistWF exOps ∧ (lookupKey (run exOps) (.linked 7)).1 = .ok (exP 3) (exD 2 7) :=
  ⟨exOps_wf, by decide⟩

/-! ### The defects of the pinned tree (now repaired) are real violations of the statement -/

/-- **cleanup_overtaken_counterexample.** With the unconditional `delete` of the pinned tree, the
history above ends with device 2 owning linked IP 7 in the latest data while the look-up answers
not-found: the clean-up started for device 1's stale entry removed device 2's fresh one. -/
theorem cleanup_overtaken_counterexample :
    let s := run (exOps.take 4)
    let s' := applyCleanupOld { s with pending := [] } (.key (.linked 7))
    s.pending = [.key (.linked 7)] ∧
    OwnerKey (latest exOps) (.linked 7) (exP 3) (exD 2 7) ∧
    (lookupKey s' (.linked 7)).1 = .devNF := by
  refine ⟨by decide, ⟨by decide, by decide, by decide, by decide⟩, by decide⟩

def exMoveOps : List Op :=
  [.sync true [{ id := 1, devIds := [1], auto := false, deleted := false, tag := 1 },
               { id := 2, devIds := [], auto := false, deleted := false, tag := 2 }]
              [{ id := 1, linked := 0, dedicated := [], human := 5, tag := 1 }],
   .sync false [{ id := 2, devIds := [1], auto := false, deleted := false, tag := 3 },
                { id := 1, devIds := [], auto := false, deleted := false, tag := 4 }]
               [{ id := 1, linked := 0, dedicated := [], human := 5, tag := 2 }]]

/-- **humanid_moved_counterexample.** `ProfileByHumanID` of the pinned tree, asked for human id 5
of profile 1 after the device moved to profile 2, returned profile 2 and its device, although no
device of profile 1 owns that id; the repaired look-up answers not-found. -/
theorem humanid_moved_counterexample :
    lookupHumanOld (run exMoveOps) 1 5 =
      .ok { id := 2, devIds := [1], auto := false, deleted := false, tag := 3 }
          { id := 1, linked := 0, dedicated := [], human := 5, tag := 2 } ∧
    (lookupHuman (run exMoveOps) 1 5).1 = .devNF ∧
    (lookupHuman (run exMoveOps) 2 5).1 =
      .ok { id := 2, devIds := [1], auto := false, deleted := false, tag := 3 }
          { id := 1, linked := 0, dedicated := [], human := 5, tag := 2 } := by
  refine ⟨by decide, by decide, by decide⟩

/-! ### Restart from the file cache -/

theorem lookups_congr {s₁ s₂ : St} (h1 : s₁.profiles = s₂.profiles) (h2 : s₁.devices = s₂.devices)
    (h3 : s₁.devIdx = s₂.devIdx) (h4 : s₁.idx = s₂.idx) :
    findByDev s₁ = findByDev s₂ ∧ lookupKey s₁ = lookupKey s₂ ∧ lookupHuman s₁ = lookupHuman s₂ := by
  have hf : findByDev s₁ = findByDev s₂ := by
    funext id; unfold findByDev; rw [h1, h2, h3]
  have hk : lookupKey s₁ = lookupKey s₂ := by
    funext k; unfold lookupKey; rw [h4, hf]
  refine ⟨hf, hk, ?_⟩
  funext pid hid; unfold lookupHuman; rw [h1, hk]

/-- **restart_equivalent.** Let `a` be the database right after the full synchronisation that wrote
the cache (whatever its earlier state `s` and whatever clean-ups were pending).  A database
started from that cache file answers every look-up exactly like `a`, provided the cache holds at
least one profile and one device (records pass the file unchanged by `filecache_roundtrip`). -/
theorem restart_equivalent (s : St) (ps : List Profile) (ds : List Device)
    (hp : ps ≠ []) (hd : ds ≠ []) :
    let a := applySync s true ps ds
    let r := loadCache fileCacheVersion a.cache
    findByDev r = findByDev a ∧ lookupKey r = lookupKey a ∧ lookupHuman r = lookupHuman a := by
  intro a r
  have hl : ¬ (ps.length = 0 ∨ ds.length = 0) := by
    intro h
    rcases h with h | h
    · exact hp (List.length_eq_zero_iff.mp h)
    · exact hd (List.length_eq_zero_iff.mp h)
  have hr : r = { setAll init ps ds with cache := some (ps, ds) } := by
    show loadCache fileCacheVersion (some (ps, ds)) = _
    unfold loadCache
    simp only []
    rw [if_neg (by simp), if_neg hl]
  rw [hr]
  exact lookups_congr rfl rfl rfl rfl

example : ([exP 1] : List Profile) ≠ [] ∧ ([exD 1 7] : List Device) ≠ [] ∧
    (lookupKey (loadCache fileCacheVersion (applySync init true [exP 1] [exD 1 7]).cache) (.linked 7)).1
      = .ok (exP 1) (exD 1 7) := by decide

/-- **version_mismatch_ignored.** A cache of another version, and a cache without profiles or
without devices, leave the started database empty: every look-up is not-found. -/
theorem version_mismatch_ignored (v : Nat) (c : Option (List Profile × List Device))
    (h : v ≠ fileCacheVersion ∨ ∀ pd, c = some pd → pd.1 = [] ∨ pd.2 = []) :
    let r := loadCache v c
    (∀ id, (findByDev r id).1 = .devNF) ∧ (∀ k, (lookupKey r k).1 = .devNF) ∧
    (∀ pid hid, (lookupHuman r pid hid).1 = .profNF) := by
  intro r
  have hmaps : r.profiles = init.profiles ∧ r.devIdx = init.devIdx ∧ r.idx = init.idx := by
    show (loadCache v c).profiles = _ ∧ (loadCache v c).devIdx = _ ∧ (loadCache v c).idx = _
    unfold loadCache
    cases c with
    | none => exact ⟨rfl, rfl, rfl⟩
    | some pd =>
      simp only []
      by_cases hv : v ≠ fileCacheVersion
      · rw [if_pos hv]; exact ⟨rfl, rfl, rfl⟩
      · rw [if_neg hv]
        have : pd.1.length = 0 ∨ pd.2.length = 0 := by
          rcases h with h | h
          · exact absurd h hv
          · rcases h pd rfl with h | h <;> simp [h]
        rw [if_pos this]; exact ⟨rfl, rfl, rfl⟩
  obtain ⟨h1, h3, h4⟩ := hmaps
  refine ⟨?_, ?_, ?_⟩
  · intro id; unfold findByDev; rw [h3]; rfl
  · intro k; unfold lookupKey; rw [h4]; rfl
  · intro pid hid; unfold lookupHuman; rw [h1]; rfl

example : (16 : Nat) ≠ fileCacheVersion := by decide

end Agd.ProfileDB

namespace Agd.ProfileCache

/-- Caches as the backend converter produces them (see `CanonAuth`). -/
def Canon (c : Cache) : Prop := ∀ d ∈ c.devices, CanonAuth d.auth

/-- **filecache_roundtrip.** Reading back what was written returns the cache unchanged — sync time,
version, and every field of every profile and device (all combinations of schedule / access /
blocking mode / rate limiter / authentication variants, any TTL, any 16-bit day interval). -/
theorem filecache_roundtrip (c : Cache) (h : Canon c) : fromPb (toPb c) = c := by
  obtain ⟨ss, sn, ps, ds, v⟩ := c
  simp only [fromPb, toPb, Cache.mk.injEq, true_and, and_true]
  exact ⟨list_rt profileToPb profileFromPb ps (fun p _ => profile_rt p),
    list_rt deviceToPb deviceFromPb ds (fun d hd => device_rt d (h d hd))⟩

def exAuthDevice : Device :=
  { auth := { enabled := true, dohOnly := true, pw := .allow }, id := 1, linked := 2, name := 3,
    human := 4, dedicated := [5], filtering := true }

example : Canon { syncSec := -5, syncNsec := 7, profiles := [], devices := [exAuthDevice], version := 15 } := by
  intro d hd
  simp at hd
  subst hd
  decide

/-- **filecache_auth_counterexample.** The reader of the pinned tree turned "authentication enabled,
no DoH password" (which the backend converter produces) into a nil authenticator; the repaired
reader returns the device unchanged. -/
theorem filecache_auth_counterexample :
    CanonAuth exAuthDevice.auth ∧
    deviceFromPbOld (deviceToPb exAuthDevice) ≠ exAuthDevice ∧
    (deviceFromPbOld (deviceToPb exAuthDevice)).auth.pw = .nilHash ∧
    deviceFromPb (deviceToPb exAuthDevice) = exAuthDevice := by
  refine ⟨by decide, by decide, by decide, by decide⟩

/-- **load_decision_spec.** The cache is used exactly when its version is current and it holds at
least one profile and one device. -/
theorem load_decision_spec (v np nd : Nat) :
    loadDecision v np nd = .loaded ↔ v = fileCacheVersion ∧ 0 < np ∧ 0 < nd := by
  unfold loadDecision
  by_cases hv : v = fileCacheVersion
  · by_cases h0 : np = 0 ∨ nd = 0
    · simp [hv, h0]; omega
    · simp [hv, h0]; omega
  · simp [hv]

/-- **store_kill_old_or_new.** Whatever chunks the content is written in and after however many
completed steps of `renameio.WriteFile` the process is killed, the cache file holds either exactly
the old content or exactly the new content (given that `rename(2)` is atomic). -/
theorem store_kill_old_or_new (old : Option (List Nat)) (chunks : List (List Nat)) (k : Nat) :
    (killedAfter { target := old, temp := none } chunks k).target = old ∨
    (killedAfter { target := old, temp := none } chunks k).target = some chunks.flatten := by
  have hops : storeOps chunks = (.createTemp :: (chunks.map FsOp.write ++ [.sync])) ++ [.rename] := by
    simp [storeOps]
  by_cases hk : k ≤ (FsOp.createTemp :: (chunks.map FsOp.write ++ [.sync])).length
  · left
    unfold killedAfter
    rw [hops, List.take_append_of_le_length hk]
    rw [fold_no_rename]
    intro o ho
    have := List.mem_of_mem_take ho
    simp only [List.mem_cons, List.mem_append, List.mem_map, List.mem_nil_iff, or_false] at this
    rcases this with rfl | ⟨c, _, rfl⟩ | rfl <;> simp
  · right
    unfold killedAfter
    have hlen : (storeOps chunks).length ≤ k := by
      rw [hops, List.length_append]; simp at hk ⊢; omega
    rw [List.take_of_length_le hlen, hops]
    simp only [List.foldl_append, List.foldl_cons, List.foldl_nil, fsStep]
    rw [fold_writes]
    simp

example : (killedAfter { target := some [9], temp := none } [[1, 2], [3]] 2).target = some [9] ∧
    (killedAfter { target := some [9], temp := none } [[1, 2], [3]] 5).target = some [1, 2, 3] := by
  decide

end Agd.ProfileCache

#print axioms Agd.ProfileDB.lookup_refines_spec
#print axioms Agd.ProfileDB.lookup_unowned_not_found
#print axioms Agd.ProfileDB.exOps_resp
#print axioms Agd.ProfileDB.exOps_wf
#print axioms Agd.ProfileDB.cleanup_overtaken_counterexample
#print axioms Agd.ProfileDB.humanid_moved_counterexample
#print axioms Agd.ProfileDB.lookups_congr
#print axioms Agd.ProfileDB.restart_equivalent
#print axioms Agd.ProfileDB.version_mismatch_ignored
#print axioms Agd.ProfileCache.filecache_roundtrip
#print axioms Agd.ProfileCache.filecache_auth_counterexample
#print axioms Agd.ProfileCache.load_decision_spec
#print axioms Agd.ProfileCache.store_kill_old_or_new
