import Agd.Tie.TrC13
import Agd.Lemmas.Refresh
import Agd.Tie.C13
/-!
# C13 — a failed or interrupted filter update never weakens or corrupts filtering

Property theorems only.  Helper lemmas live in `Agd/Lemmas/Refresh.lean`; the model is
`Agd/Model/Refresh.lean`.  `Faulty` covers every fault kind of the statement: connection error
and time-out before the header (`Resp.getErr`), non-200 status, truncated transfer and time-out
inside the body (`cut`), empty body, oversized body.
-/
namespace Agd.Refresh

/-- **failed_download_keeps_previous.** Whatever the fault, a failed download leaves the cache
file as it was, and the refreshable either reports an error or (cache still usable, so that no
download was needed) hands out the stored document. Holds for the index, rule lists, the service
index and hash lists alike: all use `Refreshable.Refresh`. -/
theorem failed_download_keeps_previous (E : Env) (max : Nat) (a : Bool) (d : Option Nat) (f : Bool)
    (r : Resp) (h : Faulty E max r) :
    (refresh E max a d f r).2 = d ∧
      ((refresh E max a d f r).1 = none ∨ ∃ c, d = some c ∧ (refresh E max a d f r).1 = some c) := by
  have hn := (fromURL_none_iff E max r).mpr h
  rcases refresh_cases E max a d f r with ⟨c, hd, _, hr⟩ | ⟨_, c, hu, _⟩ | ⟨_, _, hr⟩
  · rw [hr]; exact ⟨rfl, Or.inr ⟨c, hd, rfl⟩⟩
  · rw [hn] at hu; cases hu
  · rw [hr]; exact ⟨rfl, Or.inl rfl⟩

example : Faulty { len := fun _ => 10, idx := fun _ => none, svc := fun _ => some [], hashOk := fun _ => true }
    100 (.resp 404 7 false true) := by simp [Faulty]
example : Faulty { len := fun _ => 101, idx := fun _ => none, svc := fun _ => some [], hashOk := fun _ => true }
    100 (.resp 200 7 false true) := by simp [Faulty, limitHit]

/-- **download_old_or_new.** After any refresh the cache file holds the previous document or a
document the server offered completely (status 200, framing intact, non-empty, within the size
limit); the text handed out is the stored or such an offered document. -/
theorem download_old_or_new (E : Env) (max : Nat) (a : Bool) (d : Option Nat) (f : Bool) (r : Resp) :
    ((refresh E max a d f r).2 = d ∨ ∃ c, (refresh E max a d f r).2 = some c ∧ Offers E max r c) ∧
    (∀ c, (refresh E max a d f r).1 = some c → d = some c ∨ Offers E max r c) := by
  rcases refresh_cases E max a d f r with ⟨c, hd, _, hr⟩ | ⟨_, c, hu, hr⟩ | ⟨_, _, hr⟩
  · rw [hr]; exact ⟨Or.inl rfl, fun c' h => Or.inl (by cases h; exact hd)⟩
  · rw [hr]
    have := fromURL_some E max r c hu
    exact ⟨Or.inr ⟨c, rfl, this⟩, fun c' h => Or.inr (by cases h; exact this)⟩
  · rw [hr]; exact ⟨Or.inl rfl, fun c' h => by cases h⟩

/-- **index_fault_changes_nothing.** When the index has to be downloaded and the download fails
in any way, or what arrives is not an index document, `Default.refresh` reports an error and
leaves every rule list, the services and their cache files exactly as they were. -/
theorem index_fault_changes_nothing (E : Env) (cfg : Cfg) (s : St) (R : Round)
    (h : ∀ d, (refresh E cfg.idxMax R.acceptStale s.idxDisk R.idxFresh R.idxResp).1 = some d →
      E.idx d = none) :
    (refreshStorage E cfg s R).1.rl = s.rl ∧ (refreshStorage E cfg s R).1.rlDisk = s.rlDisk ∧
    (refreshStorage E cfg s R).1.svc = s.svc ∧ (refreshStorage E cfg s R).1.svcDisk = s.svcDisk ∧
    (refreshStorage E cfg s R).2 = false :=
  storage_noindex E cfg s R h

/-- The hypothesis of `index_fault_changes_nothing` holds for every faulty index download when
the cached index is not usable, and then the index file is untouched as well. -/
theorem index_fault_changes_nothing_of_faulty (E : Env) (cfg : Cfg) (s : St) (R : Round)
    (hc : fromFile E R.acceptStale R.idxFresh s.idxDisk = none) (hf : Faulty E cfg.idxMax R.idxResp) :
    (refreshStorage E cfg s R).1.rl = s.rl ∧ (refreshStorage E cfg s R).1.rlDisk = s.rlDisk ∧
    (refreshStorage E cfg s R).1.svc = s.svc ∧ (refreshStorage E cfg s R).1.svcDisk = s.svcDisk ∧
    (refreshStorage E cfg s R).1.idxDisk = s.idxDisk ∧ (refreshStorage E cfg s R).2 = false := by
  have hn := (fromURL_none_iff E cfg.idxMax R.idxResp).mpr hf
  have hr : refresh E cfg.idxMax R.acceptStale s.idxDisk R.idxFresh R.idxResp = (none, s.idxDisk) := by
    simp [refresh, hc, hn]
  have := storage_noindex E cfg s R (by intro d hd; rw [hr] at hd; cases hd)
  refine ⟨this.1, this.2.1, this.2.2.1, this.2.2.2.1, ?_, this.2.2.2.2⟩
  unfold refreshStorage
  simp [hr]

/-- **failed_list_keeps_previous.** In a round governed by the index document `es`: a rule list
named by an entry with a valid key, every download attempt for which fails (any fault kind, at
any position in the index, with any mixture of duplicates and invalid entries), keeps its cache
file and serves its previous document — or the stored one if the cache file was still usable so
that nothing had to be downloaded. -/
theorem failed_list_keeps_previous (E : Env) (cfg : Cfg) (s : St) (R : Round) (d : Nat)
    (es : List Entry) (hfix : cfg.keepInvalid = true)
    (hidx : (refresh E cfg.idxMax R.acceptStale s.idxDisk R.idxFresh R.idxResp).1 = some d)
    (hdoc : E.idx d = some es) (k : Nat)
    (hnamed : ∃ e ∈ es, e.key = k ∧ e.keyOk = true)
    (hf : ∀ e ∈ es, e.key = k → Faulty E cfg.rlMax (R.resp e.url)) :
    (refreshStorage E cfg s R).1.rlDisk k = s.rlDisk k ∧
    ((refreshStorage E cfg s R).1.rl k = s.rl k ∨
      ∃ c, (refreshStorage E cfg s R).1.rl k = some c ∧ s.rlDisk k = some c) := by
  have hl := storage_lists E cfg s R d es hidx hdoc
  have ha := addLoop_failed E cfg R s es k hf
  have hnew : (newLists E cfg R s es).disk k = s.rlDisk k ∧
      ((newLists E cfg R s es).new k = s.rl k ∨
        ∃ c, (newLists E cfg R s es).new k = some c ∧ s.rlDisk k = some c) := by
    obtain ⟨e, he, hek, hok⟩ := hnamed
    simp only [newLists, hfix, if_true]
    refine ⟨ha.1, ?_⟩
    have h3 := keepLoop_failed s es _ k ha.2
    rcases h3 with h | h | h
    · by_cases hs : (s.rl k).isSome
      · have := keepLoop_named s.rl es
          ((toInternal es).foldl (addRuleList E cfg R s.rl) ⟨fun _ => none, s.rlDisk⟩).new e he hok
          (by rw [hek]; exact hs)
        rw [hek, h] at this
        simp at this
      · left
        rw [h]
        cases hv : s.rl k with
        | none => rfl
        | some v => simp [hv] at hs
    · exact Or.inl h
    · exact Or.inr h
  rw [hl.1]
  refine ⟨hnew.1, ?_⟩
  rcases hl.2 with h | h
  · rw [h.1]; exact hnew.2
  · rw [h.1]; exact Or.inl rfl

/-- **every_list_old_or_new.** After any round, every rule list serves its previous document, the
document stored in its cache file, or one the server offered completely in this round — or it is
gone, which happens only in a round that returned no error and whose index names the list in no
entry with a valid key.  Every cache file holds its previous or a completely offered document. -/
theorem every_list_old_or_new (E : Env) (cfg : Cfg) (s : St) (R : Round) (hfix : cfg.keepInvalid = true)
    (k : Nat) :
    ((refreshStorage E cfg s R).1.rl k = s.rl k ∨
      (∃ c, (refreshStorage E cfg s R).1.rl k = some c ∧
        (s.rlDisk k = some c ∨ ∃ u, Offers E cfg.rlMax (R.resp u) c)) ∨
      ((refreshStorage E cfg s R).1.rl k = none ∧ (refreshStorage E cfg s R).2 = true ∧
        ∃ d es, (refresh E cfg.idxMax R.acceptStale s.idxDisk R.idxFresh R.idxResp).1 = some d ∧
          E.idx d = some es ∧ ∀ e ∈ es, e.keyOk = true → e.key ≠ k)) ∧
    ((refreshStorage E cfg s R).1.rlDisk k = s.rlDisk k ∨
      ∃ c u, (refreshStorage E cfg s R).1.rlDisk k = some c ∧ Offers E cfg.rlMax (R.resp u) c) := by
  cases h1 : (refresh E cfg.idxMax R.acceptStale s.idxDisk R.idxFresh R.idxResp).1 with
  | none =>
    have := storage_noindex E cfg s R (by intro d hd; rw [h1] at hd; cases hd)
    rw [this.1, this.2.1]
    exact ⟨Or.inl rfl, Or.inl rfl⟩
  | some d =>
    cases h2 : E.idx d with
    | none =>
      have := storage_noindex E cfg s R (by intro d' hd; rw [h1] at hd; cases hd; exact h2)
      rw [this.1, this.2.1]
      exact ⟨Or.inl rfl, Or.inl rfl⟩
    | some es =>
      have hl := storage_lists E cfg s R d es h1 h2
      have hok := newLists_ok E cfg R s es k
      constructor
      · rcases hl.2 with h | h
        · rw [h.1]
          rcases hok.1 with hn | hn | ⟨c, hc, hsrc⟩
          · by_cases hs : (s.rl k).isSome
            · right; right
              refine ⟨hn, h.2, d, es, rfl, h2, ?_⟩
              intro e he hk heq
              have := keepLoop_named s.rl es
                ((toInternal es).foldl (addRuleList E cfg R s.rl) ⟨fun _ => none, s.rlDisk⟩).new e he hk
                (by rw [heq]; exact hs)
              have hn' := hn
              simp only [newLists, hfix, if_true] at hn'
              rw [heq, hn'] at this
              simp at this
            · left
              rw [hn]
              cases hv : s.rl k with
              | none => rfl
              | some v => simp [hv] at hs
          · exact Or.inl hn
          · right; left
            refine ⟨c, hc, ?_⟩
            rcases hsrc with hd | ⟨e, _, _, hu⟩
            · exact Or.inl hd
            · exact Or.inr ⟨e.url, fromURL_some E cfg.rlMax _ c hu⟩
        · rw [h.1]; exact Or.inl rfl
      · rw [hl.1]
        rcases hok.2 with hd | ⟨c, hc, e, _, _, hu⟩
        · exact Or.inl hd
        · exact Or.inr ⟨c, e.url, hc, fromURL_some E cfg.rlMax _ c hu⟩

/-- **named_list_never_dropped** (the repaired behaviour).  A list that is being served and that
the governing index names in an entry with a valid key — even one whose download URL is invalid —
is still served after the round. -/
theorem named_list_never_dropped (E : Env) (cfg : Cfg) (s : St) (R : Round) (d : Nat)
    (es : List Entry) (hfix : cfg.keepInvalid = true)
    (hidx : (refresh E cfg.idxMax R.acceptStale s.idxDisk R.idxFresh R.idxResp).1 = some d)
    (hdoc : E.idx d = some es) (e : Entry) (he : e ∈ es) (hk : e.keyOk = true)
    (hs : (s.rl e.key).isSome) : ((refreshStorage E cfg s R).1.rl e.key).isSome := by
  have hl := storage_lists E cfg s R d es hidx hdoc
  rcases hl.2 with h | h
  · rw [h.1]
    simp only [newLists, hfix, if_true]
    exact keepLoop_named s.rl es _ e he hk hs
  · rw [h.1]; exact hs

/-- The witness of the finding: one served list (key 7, content 5), an index document (content 1)
whose only entry names key 7 with an invalid download URL. -/
def cexEnv : Env :=
  { len := fun _ => 10, idx := fun c => if c = 1 then some [⟨7, true, false, 0⟩] else none,
    svc := fun _ => some [], hashOk := fun _ => true }
def cexCfg (fixed : Bool) : Cfg :=
  { idxMax := 100, rlMax := 100, svcMax := 100, svcEnabled := false, keepInvalid := fixed, svcNilCheck := true }
def cexSt : St := { St.empty with rl := fun k => if k = 7 then some 5 else none }
def cexRound : Round :=
  { acceptStale := false, idxFresh := false, idxResp := .resp 200 1 false true, fresh := fun _ => false,
    resp := fun _ => .getErr, svcFresh := false, svcResp := .getErr }

/-- **invalid_entry_drops_list_counterexample.** On the tree as found (`keepInvalid = false`) the
statement of `named_list_never_dropped` is false: an index entry with a valid key and an invalid
URL removes a served list.  Reproduced on the real code by the harness (signature
`list-dropped:invalid-index-entry`), repaired by the `fix:` commit. -/
theorem invalid_entry_drops_list_counterexample :
    ¬ (∀ (E : Env) (cfg : Cfg) (s : St) (R : Round) (d : Nat) (es : List Entry),
        cfg.keepInvalid = false →
        (refresh E cfg.idxMax R.acceptStale s.idxDisk R.idxFresh R.idxResp).1 = some d →
        E.idx d = some es → ∀ e ∈ es, e.keyOk = true → (s.rl e.key).isSome →
        ((refreshStorage E cfg s R).1.rl e.key).isSome) := by
  intro h
  have := h cexEnv (cexCfg false) cexSt cexRound 1 [⟨7, true, false, 0⟩] rfl (by decide) (by decide)
    ⟨7, true, false, 0⟩ (by simp) rfl (by decide)
  revert this
  decide

example : ((refreshStorage cexEnv (cexCfg true) cexSt cexRound).1.rl 7) = some 5 := by decide



/-- **index_order_irrelevant.** `loadIndex` sorts the index entries stably by key before the loops
of `Default.refresh` walk them; the model walks the document order.  For every rank function that
gives the entries of one valid key the same rank (as the comparison of their key strings does),
sorting changes nothing in what `addRuleList` and `keepInvalidRuleLists` produce: no entry's
treatment depends on which other entries — invalid keys, invalid URLs, nulls, other lists — sort
before or after it.  Together with `named_list_never_dropped`, `failed_list_keeps_previous` and
`valid_entries_applied` this is the statement's "the valid entries of a partially invalid index
are still applied [and the others keep their previous content]" for every arrangement of several
invalid entries; a loop that leaves early at an invalid entry (see `keepUntilInvalidKey` below)
does not have this property. -/
theorem index_order_irrelevant (E : Env) (cfg : Cfg) (R : Round) (s : St) (es : List Entry)
    (r : Entry → Nat)
    (hr : ∀ a b, a.keyOk = true → b.keyOk = true → a.key = b.key → r a = r b) :
    newLists E cfg R s (isort r es) = newLists E cfg R s es := by
  apply newLists_reorder
  apply reorder_isort
  intro a b hne
  by_cases h1 : a.key = b.key
  · by_cases h2 : a.keyOk = true
    · by_cases h3 : b.keyOk = true
      · exact absurd (hr a b h2 h3 h1) hne
      · exact Or.inr (Or.inr (by simpa using h3))
    · exact Or.inr (Or.inl (by simpa using h2))
  · exact Or.inl h1

/-- The same for a whole round: an environment whose index documents are read in sorted order
gives the same state and the same return value. -/
theorem round_order_irrelevant (E : Env) (cfg : Cfg) (s : St) (R : Round) (r : Entry → Nat)
    (hr : ∀ a b, a.keyOk = true → b.keyOk = true → a.key = b.key → r a = r b) :
    refreshStorage { E with idx := fun c => (E.idx c).map (isort r) } cfg s R =
      refreshStorage E cfg s R := by
  have hE : ∀ max a d f x, refresh { E with idx := fun c => (E.idx c).map (isort r) } max a d f x =
      refresh E max a d f x := fun _ _ _ _ _ => rfl
  have hN : ∀ es, newLists { E with idx := fun c => (E.idx c).map (isort r) } cfg R s es =
      newLists E cfg R s es := fun _ => rfl
  have hS : ∀ c, svcResult { E with idx := fun c => (E.idx c).map (isort r) } cfg c =
      svcResult E cfg c := fun _ => rfl
  unfold refreshStorage
  simp only [hE, hS]
  cases h1 : (refresh E cfg.idxMax R.acceptStale s.idxDisk R.idxFresh R.idxResp).1 with
  | none => rfl
  | some d =>
    cases h2 : E.idx d with
    | none => simp [h2]
    | some es => simp [h2, hN, index_order_irrelevant E cfg R s es r hr]

/-- Non-vacuity: a rank by key (invalid keys first) satisfies the hypothesis, and the sort really
moves entries. -/
example : isort (fun e => if e.keyOk then e.key + 1 else 0)
    [⟨7, true, false, 0⟩, ⟨0, false, true, 3⟩, ⟨4, true, true, 4⟩, ⟨7, true, true, 5⟩] =
    [⟨0, false, true, 3⟩, ⟨4, true, true, 4⟩, ⟨7, true, false, 0⟩, ⟨7, true, true, 5⟩] := by decide
example : ∀ a b : Entry, a.keyOk = true → b.keyOk = true → a.key = b.key →
    (fun e : Entry => if e.keyOk then e.key + 1 else 0) a =
      (fun e : Entry => if e.keyOk then e.key + 1 else 0) b := by
  intro a b ha hb h; simp [ha, hb, h]

/-- A loop over the sorted entries that LEAVES at the first entry without a valid key instead of
skipping it (a `break` for the `continue` in `keepInvalidRuleLists`). -/
def keepUntilInvalidKey (old : Nat → Option Nat) : (Nat → Option Nat) → List Entry → Nat → Option Nat
  | new, [] => new
  | new, e :: es => if e.keyOk then keepUntilInvalidKey old (keepPrev old new e) es else new

/-- **early_exit_drops_list_counterexample.** Such a loop is order dependent and drops a served
list: with an invalid-key entry sorted before the entry of list 7 whose URL is invalid, list 7 is
not kept, while the loop of the model (and of the code) keeps it.  The harness produces this
arrangement — invalid-key entries at every sort position next to every set of lists with an
invalid URL — and reports it under `list-dropped:invalid-index-entry`. -/
theorem early_exit_drops_list_counterexample :
    keepUntilInvalidKey cexSt.rl (fun _ => none) [⟨0, false, true, 3⟩, ⟨7, true, false, 0⟩] 7 = none ∧
    keepUntilInvalidKey cexSt.rl (fun _ => none) [⟨7, true, false, 0⟩, ⟨0, false, true, 3⟩] 7 = some 5 ∧
    [⟨0, false, true, 3⟩, ⟨7, true, false, 0⟩].foldl (keepPrev cexSt.rl) (fun _ => none) 7 = some 5 := by
  decide


/-! ## Blocked services: the service index is a list too -/

/-- What `Default.refresh` does with the blocked services, by cases on the two downloads. -/
theorem storage_svc_cases (E : Env) (cfg : Cfg) (s : St) (R : Round) :
    ((refreshStorage E cfg s R).1.svc = s.svc ∧ (refreshStorage E cfg s R).1.svcDisk = s.svcDisk ∧
      (cfg.svcEnabled = false ∨ ∀ d, (refresh E cfg.idxMax R.acceptStale s.idxDisk R.idxFresh R.idxResp).1 = some d →
        E.idx d = none)) ∨
    (cfg.svcEnabled = true ∧
      (refreshStorage E cfg s R).1.svcDisk = (refresh E cfg.svcMax R.acceptStale s.svcDisk R.svcFresh R.svcResp).2 ∧
      (((refresh E cfg.svcMax R.acceptStale s.svcDisk R.svcFresh R.svcResp).1 = none ∧
          (refreshStorage E cfg s R).1.svc = s.svc ∧ (refreshStorage E cfg s R).1.rl = s.rl ∧
          (refreshStorage E cfg s R).2 = false) ∨
       (∃ c, (refresh E cfg.svcMax R.acceptStale s.svcDisk R.svcFresh R.svcResp).1 = some c ∧
          svcResult E cfg c ≠ .ok ∧
          (refreshStorage E cfg s R).1.svc = s.svc ∧ (refreshStorage E cfg s R).1.rl = s.rl ∧
          (refreshStorage E cfg s R).2 = false) ∨
       (∃ c, (refresh E cfg.svcMax R.acceptStale s.svcDisk R.svcFresh R.svcResp).1 = some c ∧
          svcResult E cfg c = .ok ∧
          (refreshStorage E cfg s R).1.svc = some c ∧ (refreshStorage E cfg s R).2 = true))) := by
  unfold refreshStorage
  cases h1 : (refresh E cfg.idxMax R.acceptStale s.idxDisk R.idxFresh R.idxResp).1 with
  | none => left; simp [h1]
  | some d =>
    cases h2 : E.idx d with
    | none => left; simp [h1, h2]
    | some es =>
      cases h3 : cfg.svcEnabled with
      | false => left; simp [h1, h2, h3]
      | true =>
        right
        cases h4 : (refresh E cfg.svcMax R.acceptStale s.svcDisk R.svcFresh R.svcResp).1 with
        | none => simp [h1, h2, h3, h4]
        | some c =>
          by_cases h5 : svcResult E cfg c = .ok
          · simp [h1, h2, h3, h4, h5]
          · simp [h1, h2, h3, h4, h5]

/-- **svc_failed_keeps_previous.** When the blocked-service index has to be downloaded and the
download fails in any way, the services in use and `services.json` stay exactly as they were; if
the round got that far (services enabled, index obtained and decoded) it reports the error and the
rule lists in use stay as well — their freshly downloaded files are kept for the next round. -/
theorem svc_failed_keeps_previous (E : Env) (cfg : Cfg) (s : St) (R : Round)
    (hc : fromFile E R.acceptStale R.svcFresh s.svcDisk = none) (hf : Faulty E cfg.svcMax R.svcResp) :
    (refreshStorage E cfg s R).1.svc = s.svc ∧ (refreshStorage E cfg s R).1.svcDisk = s.svcDisk ∧
    (cfg.svcEnabled = true → ∀ d es,
      (refresh E cfg.idxMax R.acceptStale s.idxDisk R.idxFresh R.idxResp).1 = some d → E.idx d = some es →
      (refreshStorage E cfg s R).2 = false ∧ (refreshStorage E cfg s R).1.rl = s.rl) := by
  have hn := (fromURL_none_iff E cfg.svcMax R.svcResp).mpr hf
  have hr : refresh E cfg.svcMax R.acceptStale s.svcDisk R.svcFresh R.svcResp = (none, s.svcDisk) := by
    simp [refresh, hc, hn]
  rcases storage_svc_cases E cfg s R with ⟨h1, h2, h3⟩ | ⟨he, hd, h⟩
  · refine ⟨h1, h2, ?_⟩
    intro hen d es hd hdoc
    rcases h3 with h3 | h3
    · rw [hen] at h3; cases h3
    · rw [h3 d hd] at hdoc; cases hdoc
  · rw [hr] at hd h
    rcases h with ⟨_, h1, h2, h3⟩ | ⟨c, hc', _⟩ | ⟨c, hc', _⟩
    · exact ⟨h1, hd, fun _ _ _ _ _ => ⟨h3, h2⟩⟩
    · cases hc'
    · cases hc'

example : Faulty cexEnv 100 (.resp 200 7 true false) := by simp [Faulty]

/-- **svc_invalid_entries_keep_previous** (the repaired behaviour).  A service index that was
obtained completely but contains an element that does not convert — a `null`, an invalid id — is
refused as a whole: the refresh returns an error (it does not panic), and the services and the rule
lists in use stay as they were. -/
theorem svc_invalid_entries_keep_previous (E : Env) (cfg : Cfg) (s : St) (R : Round)
    (hfix : cfg.svcNilCheck = true) (c : Nat) (es : List SvcEntry)
    (hsvc : (refresh E cfg.svcMax R.acceptStale s.svcDisk R.svcFresh R.svcResp).1 = some c)
    (hdoc : E.svc c = some es) (hbad : ∃ e ∈ es, e ≠ SvcEntry.ok) :
    refreshPanics E cfg s R = false ∧ (refreshStorage E cfg s R).1.svc = s.svc ∧
    (cfg.svcEnabled = true → ∀ d ies,
      (refresh E cfg.idxMax R.acceptStale s.idxDisk R.idxFresh R.idxResp).1 = some d → E.idx d = some ies →
      (refreshStorage E cfg s R).2 = false ∧ (refreshStorage E cfg s R).1.rl = s.rl) := by
  have hres : svcResult E cfg c = .err := by
    obtain ⟨e, he, hne⟩ := hbad
    have hall : es.all (· == SvcEntry.ok) = false := by
      rw [Bool.eq_false_iff]
      intro hall
      rw [List.all_eq_true] at hall
      have := hall e he
      simp at this
      exact hne this
    simp [svcResult, hdoc, svcConvert, hfix, hall]
  refine ⟨?_, ?_, ?_⟩
  · unfold refreshPanics
    cases h1 : (refresh E cfg.idxMax R.acceptStale s.idxDisk R.idxFresh R.idxResp).1 with
    | none => simp [h1]
    | some d =>
      cases h2 : E.idx d with
      | none => simp [h1, h2]
      | some _ => simp [h1, h2, hsvc, hres]
  · rcases storage_svc_cases E cfg s R with ⟨h1, _, _⟩ | ⟨_, _, h⟩
    · exact h1
    · rcases h with ⟨_, h1, _⟩ | ⟨c', _, _, h1, _⟩ | ⟨c', hc', hok, _⟩
      · exact h1
      · exact h1
      · rw [hsvc] at hc'; cases hc'; rw [hres] at hok; cases hok
  · intro hen d ies hd hdoc'
    rcases storage_svc_cases E cfg s R with ⟨_, _, h3⟩ | ⟨_, _, h⟩
    · rcases h3 with h3 | h3
      · rw [hen] at h3; cases h3
      · rw [h3 d hd] at hdoc'; cases hdoc'
    · rcases h with ⟨hn, _⟩ | ⟨c', _, _, _, h2, h3⟩ | ⟨c', hc', hok, _⟩
      · rw [hsvc] at hn; cases hn
      · exact ⟨h3, h2⟩
      · rw [hsvc] at hc'; cases hc'; rw [hres] at hok; cases hok

/-- **refresh_never_panics** (the repaired behaviour): with the nil check no service index makes
`Default.refresh` panic. -/
theorem refresh_never_panics (E : Env) (cfg : Cfg) (s : St) (R : Round) (hfix : cfg.svcNilCheck = true) :
    refreshPanics E cfg s R = false := by
  have hc : ∀ c, svcResult E cfg c ≠ .panic := by
    intro c
    unfold svcResult
    cases E.svc c with
    | none => simp
    | some es =>
      simp only [svcConvert, hfix]
      split
      · rename_i h; simp at h
      · split <;> simp
  unfold refreshPanics
  cases h1 : (refresh E cfg.idxMax R.acceptStale s.idxDisk R.idxFresh R.idxResp).1 with
  | none => simp [h1]
  | some d =>
    cases h2 : E.idx d with
    | none => simp [h1, h2]
    | some _ =>
      cases h3 : (refresh E cfg.svcMax R.acceptStale s.svcDisk R.svcFresh R.svcResp).1 with
      | none => simp [h1, h2, h3]
      | some c => simp [h1, h2, h3, hc c]

/-- The witness of the second finding: a service index (content 2) `[svc, null]`. -/
def nullEnv : Env :=
  { len := fun _ => 10, idx := fun c => if c = 1 then some [] else none,
    svc := fun c => if c = 2 then some [.ok, .null] else none, hashOk := fun _ => true }
def nullCfg (fixed : Bool) : Cfg :=
  { idxMax := 100, rlMax := 100, svcMax := 100, svcEnabled := true, keepInvalid := true, svcNilCheck := fixed }
def nullRound (initial : Bool) : Round :=
  { acceptStale := initial, idxFresh := false, idxResp := .resp 200 1 false true, fresh := fun _ => false,
    resp := fun _ => .getErr, svcFresh := false, svcResp := .resp 200 2 false true }

/-- **null_service_entry_panics_counterexample.** On the tree as found (`svcNilCheck = false`)
`refresh_never_panics` is false: a `null` element in the blocked-service index is dereferenced.
The document has been stored before it is decoded, so the process that is started next
(`RefreshInitial`, whatever the server offers then) reads it from `services.json` and panics
again.  Reproduced on the real code by the harness (signature
`panic-in-refresh:null-service-entry`), repaired by the second `fix:` commit. -/
theorem null_service_entry_panics_counterexample :
    ¬ (∀ (E : Env) (cfg : Cfg) (s : St) (R : Round), cfg.svcNilCheck = false →
        refreshPanics E cfg s R = false) ∧
    (let s1 := (refreshStorage nullEnv (nullCfg false) St.empty (nullRound false)).1
     s1.svcDisk = some 2 ∧
     refreshPanics nullEnv (nullCfg false) (restart s1)
       { nullRound true with svcResp := .getErr } = true) := by
  constructor
  · intro h
    have := h nullEnv (nullCfg false) St.empty (nullRound false) rfl
    revert this
    decide
  · decide

/-- Non-vacuity of the hypotheses of `svc_invalid_entries_keep_previous`, `svc_failed_keeps_previous`
and `valid_service_index_applied`. -/
example : (refresh nullEnv (nullCfg true).svcMax false St.empty.svcDisk false (nullRound false).svcResp).1 =
    some 2 := by decide
example : nullEnv.svc 2 = some [.ok, .null] ∧ ∃ e ∈ [SvcEntry.ok, SvcEntry.null], e ≠ SvcEntry.ok :=
  ⟨rfl, .null, by simp, by decide⟩
example : fromFile nullEnv false false St.empty.svcDisk = none := by decide
example : svcResult { nullEnv with svc := fun c => if c = 2 then some [.ok, .ok] else none } (nullCfg true) 2 =
    .ok := by decide
example : (refreshStorage { nullEnv with svc := fun c => if c = 2 then some [.ok, .ok] else none }
    (nullCfg true) St.empty (nullRound false)).1.svc = some 2 := by decide
example : refreshPanics nullEnv (nullCfg true) St.empty (nullRound false) = false := by decide
example : (refreshStorage nullEnv (nullCfg true) St.empty (nullRound false)).2 = false := by decide

/-- **svc_old_or_new.** After any round the blocked services in use are the previous ones, or come
from a document — the stored one or one the server offered completely in this round — that decoded
and converted as a whole; `services.json` and `filters.json` hold their previous or a completely
offered document. -/
theorem svc_old_or_new (E : Env) (cfg : Cfg) (s : St) (R : Round) :
    ((refreshStorage E cfg s R).1.svc = s.svc ∨
      ∃ c, (refreshStorage E cfg s R).1.svc = some c ∧ svcResult E cfg c = .ok ∧
        (s.svcDisk = some c ∨ Offers E cfg.svcMax R.svcResp c)) ∧
    ((refreshStorage E cfg s R).1.svcDisk = s.svcDisk ∨
      ∃ c, (refreshStorage E cfg s R).1.svcDisk = some c ∧ Offers E cfg.svcMax R.svcResp c) ∧
    ((refreshStorage E cfg s R).1.idxDisk = s.idxDisk ∨
      ∃ c, (refreshStorage E cfg s R).1.idxDisk = some c ∧ Offers E cfg.idxMax R.idxResp c) := by
  have hidx : (refreshStorage E cfg s R).1.idxDisk =
      (refresh E cfg.idxMax R.acceptStale s.idxDisk R.idxFresh R.idxResp).2 := by
    unfold refreshStorage
    cases h1 : (refresh E cfg.idxMax R.acceptStale s.idxDisk R.idxFresh R.idxResp).1 with
    | none => simp [h1]
    | some d =>
      cases h2 : E.idx d with
      | none => simp [h1, h2]
      | some es =>
        cases h3 : cfg.svcEnabled with
        | false => simp [h1, h2, h3]
        | true =>
          cases h4 : (refresh E cfg.svcMax R.acceptStale s.svcDisk R.svcFresh R.svcResp).1 with
          | none => simp [h1, h2, h3, h4]
          | some c => by_cases h5 : svcResult E cfg c = .ok <;> simp [h1, h2, h3, h4, h5]
  have hdl := download_old_or_new E cfg.svcMax R.acceptStale s.svcDisk R.svcFresh R.svcResp
  refine ⟨?_, ?_, ?_⟩
  · rcases storage_svc_cases E cfg s R with ⟨h1, _, _⟩ | ⟨_, _, h⟩
    · exact Or.inl h1
    · rcases h with ⟨_, h1, _⟩ | ⟨c, _, _, h1, _⟩ | ⟨c, hc, hok, h1, _⟩
      · exact Or.inl h1
      · exact Or.inl h1
      · exact Or.inr ⟨c, h1, hok, hdl.2 c hc⟩
  · rcases storage_svc_cases E cfg s R with ⟨_, h2, _⟩ | ⟨_, hd, _⟩
    · exact Or.inl h2
    · rw [hd]; exact hdl.1
  · rw [hidx]
    exact (download_old_or_new E cfg.idxMax R.acceptStale s.idxDisk R.idxFresh R.idxResp).1

/-- **valid_service_index_applied.** A round that obtained its index and a service index that
decodes and converts as a whole serves exactly that service index and returns no error. -/
theorem valid_service_index_applied (E : Env) (cfg : Cfg) (s : St) (R : Round) (d c : Nat)
    (es : List Entry) (hen : cfg.svcEnabled = true)
    (hidx : (refresh E cfg.idxMax R.acceptStale s.idxDisk R.idxFresh R.idxResp).1 = some d)
    (hdoc : E.idx d = some es)
    (hsvc : (refresh E cfg.svcMax R.acceptStale s.svcDisk R.svcFresh R.svcResp).1 = some c)
    (hok : svcResult E cfg c = .ok) :
    (refreshStorage E cfg s R).1.svc = some c ∧ (refreshStorage E cfg s R).2 = true := by
  unfold refreshStorage
  simp [hidx, hdoc, hen, hsvc, hok]

/-- **hash_failed_keeps_previous.** A hash list whose download fails (cache not usable) keeps what
it serves and its cache file, and `refresh` reports the error. -/
theorem hash_failed_keeps_previous (E : Env) (max : Nat) (a : Bool) (s : HSt) (f : Bool) (r : Resp)
    (hc : fromFile E a f s.disk = none) (h : Faulty E max r) :
    refreshHash E max a s f r = (s, false) := by
  have hn := (fromURL_none_iff E max r).mpr h
  simp [refreshHash, refresh, hc, hn]

/-- **hash_old_or_new.** A hash filter serves its previous list, or a stored or completely offered
list that `Storage.Reset` accepted; its cache file is the previous or a completely offered one. -/
theorem hash_old_or_new (E : Env) (max : Nat) (a : Bool) (s : HSt) (f : Bool) (r : Resp) :
    ((refreshHash E max a s f r).1.mem = s.mem ∨
      ∃ c, (refreshHash E max a s f r).1.mem = some c ∧ E.hashOk c = true ∧ (s.disk = some c ∨ Offers E max r c)) ∧
    ((refreshHash E max a s f r).1.disk = s.disk ∨
      ∃ c, (refreshHash E max a s f r).1.disk = some c ∧ Offers E max r c) := by
  unfold refreshHash
  rcases refresh_cases E max a s.disk f r with ⟨c, hd, _, hr⟩ | ⟨_, c, hu, hr⟩ | ⟨_, _, hr⟩
  · simp only [hr]
    split
    · exact ⟨Or.inr ⟨c, rfl, by assumption, Or.inl hd⟩, Or.inl rfl⟩
    · exact ⟨Or.inl rfl, Or.inl rfl⟩
  · simp only [hr]
    have ho := fromURL_some E max r c hu
    split
    · exact ⟨Or.inr ⟨c, rfl, by assumption, Or.inr ho⟩, Or.inr ⟨c, rfl, ho⟩⟩
    · exact ⟨Or.inl rfl, Or.inr ⟨c, rfl, ho⟩⟩
  · simp [hr]

/-- **disk_always_complete.** Kill points: `refreshFromURL` is the step sequence create-temp,
write*, then rename + chtimes on success or clean-up on error.  After ANY prefix of it (a process
killed between any two steps) the cache path holds exactly what it held before, or — only when the
download succeeded — the complete new document.  `rename(2)` is one step (assumed atomic). -/
theorem disk_always_complete {α : Type} (fs : Fs α) (chunks : List (List α)) (ok : Bool) (n : Nat) :
    (fsExec fs ((fsTrace chunks ok).take n)).path = fs.path ∨
    (ok = true ∧ (fsExec fs ((fsTrace chunks ok).take n)).path = some chunks.flatten) := by
  cases n with
  | zero => left; simp [fsExec]
  | succ m =>
    simp only [fsTrace, List.take_succ_cons, fsExec, List.foldl_cons]
    rw [List.take_append]
    rw [List.foldl_append]
    have hw := fsExec_writes (fsStep fs .createTemp) [] (chunks.take m) (by simp [fsStep])
    rw [← List.map_take]
    simp only [fsExec] at hw
    generalize hg : List.foldl fsStep (fsStep fs FsStep.createTemp) (List.map FsStep.write (List.take m chunks)) = g at hw ⊢
    have hp : g.path = fs.path := by rw [hw.1]; simp [fsStep]
    by_cases hm : m ≤ chunks.length
    · have : m - (List.map (FsStep.write (α := α)) chunks).length = 0 := by simp; omega
      rw [this]
      left
      simp [hp]
    · have hall : chunks.take m = chunks := List.take_of_length_le (by omega)
      rw [hall] at hw
      cases ok with
      | false =>
        left
        generalize (m - (List.map (FsStep.write (α := α)) chunks).length) = j
        match j with
        | 0 => simp [hp]
        | j + 1 => simp [fsStep, hp]
      | true =>
        generalize (m - (List.map (FsStep.write (α := α)) chunks).length) = j
        match j with
        | 0 => left; simp [hp]
        | 1 => right; simp [fsStep, hw.2]
        | j + 2 => right; simp [fsStep, hw.2]


example : (fsExec ({ path := some [1, 2], tmp := none } : Fs Nat)
    ((fsTrace [[7], [8], [9]] true).take 3)).path = some [1, 2] := by decide
example : (fsExec ({ path := some [1, 2], tmp := none } : Fs Nat)
    ((fsTrace [[7], [8], [9]] true).take 5)).path = some [7, 8, 9] := by decide

/-- **restart_uses_stored_document.** A process restarted after a kill (`RefreshInitial`,
`acceptStale = true`) that finds a non-empty cache file uses it whatever the server does, and leaves
it alone: with `disk_always_complete`, it restarts with a complete list. -/
theorem restart_uses_stored_document (E : Env) (max : Nat) (c : Nat) (f : Bool) (r : Resp)
    (hl : E.len c ≠ 0) : refresh E max true (some c) f r = (some c, some c) := by
  simp [refresh, fromFile, hl]

/-- **valid_entries_applied.** In a round that returns no error, governed by the index document
`es` (which may contain any number of invalid, null or duplicate entries): a key whose valid
entries all carry the URL `u` serves the stored document if its cache file is usable, else the
document downloaded from `u` if that download succeeds, else its previous list; the cache file
follows. -/
theorem valid_entries_applied (E : Env) (cfg : Cfg) (s : St) (R : Round) (d : Nat)
    (es : List Entry) (hfix : cfg.keepInvalid = true)
    (hidx : (refresh E cfg.idxMax R.acceptStale s.idxDisk R.idxFresh R.idxResp).1 = some d)
    (hdoc : E.idx d = some es) (hok : (refreshStorage E cfg s R).2 = true) (k u : Nat)
    (hu : ∀ e ∈ es, e.key = k → e.keyOk = true → e.urlOk = true → e.url = u)
    (hex : ∃ e ∈ es, e.key = k ∧ e.keyOk = true ∧ e.urlOk = true) :
    (refreshStorage E cfg s R).1.rl k = (target E cfg R s k u).1 ∧
    (refreshStorage E cfg s R).1.rlDisk k = (target E cfg R s k u).2 := by
  have hl := storage_lists E cfg s R d es hidx hdoc
  have hn := newLists_applied E cfg R s es k u hfix hu hex
  rw [hl.1]
  rcases hl.2 with h | h
  · rw [h.1]; exact hn
  · rw [hok] at h; cases h.2

/-- Reading of `valid_entries_applied` for the case the statement names: the cache is not usable
and the server offers `c` completely — then `c` is served and stored, next to whatever invalid
entries the index contains. -/
theorem valid_entry_downloaded (E : Env) (cfg : Cfg) (R : Round) (s : St) (k u c : Nat)
    (hc : fromFile E R.acceptStale (R.fresh k) (s.rlDisk k) = none)
    (ho : fromURL E cfg.rlMax (R.resp u) = some c) :
    target E cfg R s k u = (some c, some c) := by
  simp [target, refresh, hc, ho]

example : (refreshStorage
    { cexEnv with idx := fun c => if c = 1 then some [⟨0, false, true, 3⟩, ⟨7, true, true, 4⟩, ⟨8, true, false, 0⟩] else none }
    (cexCfg true) cexSt
    { cexRound with resp := fun u => if u = 4 then .resp 200 9 false true else .getErr }).1.rl 7 = some 9 := by
  decide

/-- **never_serves_incomplete.** Over every history of rounds (any mixture of successful and
faulty ones, any index documents), every document that a rule list serves or that lies in a
rule-list cache file is one that was there initially or that the server offered completely
(status 200, framing intact, non-empty, within the size limit) in some round of the history: a
truncated, empty or oversized transfer never becomes visible. -/
theorem never_serves_incomplete (E : Env) (cfg : Cfg) (hfix : cfg.keepInvalid = true)
    (rs : List Round) (init : Nat → Prop) (s : St)
    (h0 : ∀ k c, (s.rl k = some c ∨ s.rlDisk k = some c) → init c) (k c : Nat)
    (h : (run E cfg s rs).rl k = some c ∨ (run E cfg s rs).rlDisk k = some c) :
    init c ∨ ∃ R ∈ rs, ∃ u, Offers E cfg.rlMax (R.resp u) c := by
  induction rs generalizing s init with
  | nil => exact Or.inl (h0 k c h)
  | cons R rs ih =>
    have hstep : ∀ k c, ((refreshStorage E cfg s R).1.rl k = some c ∨
        (refreshStorage E cfg s R).1.rlDisk k = some c) →
        (init c ∨ ∃ u, Offers E cfg.rlMax (R.resp u) c) := by
      intro k c hc
      have hr := every_list_old_or_new E cfg s R hfix k
      rcases hc with hc | hc
      · rcases hr.1 with h1 | ⟨c', h1, h2⟩ | ⟨h1, _⟩
        · exact Or.inl (h0 k c (Or.inl (by rw [← h1]; exact hc)))
        · rw [h1] at hc; cases hc
          rcases h2 with h2 | h2
          · exact Or.inl (h0 k c (Or.inr h2))
          · exact Or.inr h2
        · rw [h1] at hc; cases hc
      · rcases hr.2 with h1 | ⟨c', u, h1, h2⟩
        · exact Or.inl (h0 k c (Or.inr (by rw [← h1]; exact hc)))
        · rw [h1] at hc; cases hc
          exact Or.inr ⟨u, h2⟩
    have := ih (fun c => init c ∨ ∃ u, Offers E cfg.rlMax (R.resp u) c)
      (refreshStorage E cfg s R).1 hstep (by simpa [run] using h)
    rcases this with (h1 | ⟨u, h1⟩) | ⟨R', hR', u, h1⟩
    · exact Or.inl h1
    · exact Or.inr ⟨R, by simp, u, h1⟩
    · exact Or.inr ⟨R', by simp [hR'], u, h1⟩


/-! ## Every document of every kind, over every history -/

/-- `c` is in use or lies in a cache file of the storage: a rule list, a rule-list file, the index
file, the services, the service file. -/
def Visible (s : St) (c : Nat) : Prop :=
  (∃ k, s.rl k = some c ∨ s.rlDisk k = some c) ∨ s.idxDisk = some c ∨ s.svc = some c ∨
    s.svcDisk = some c

/-- Some server offered `c` completely in round `R`, within the size limit of its kind. -/
def OfferedIn (E : Env) (cfg : Cfg) (R : Round) (c : Nat) : Prop :=
  (∃ u, Offers E cfg.rlMax (R.resp u) c) ∨ Offers E cfg.idxMax R.idxResp c ∨
    Offers E cfg.svcMax R.svcResp c

theorem visible_step (E : Env) (cfg : Cfg) (hfix : cfg.keepInvalid = true) (s : St) (R : Round)
    (c : Nat) (h : Visible (refreshStorage E cfg s R).1 c) : Visible s c ∨ OfferedIn E cfg R c := by
  have hs := svc_old_or_new E cfg s R
  rcases h with ⟨k, h⟩ | h | h | h
  · have hr := every_list_old_or_new E cfg s R hfix k
    rcases h with h | h
    · rcases hr.1 with h1 | ⟨c', h1, h2⟩ | ⟨h1, _⟩
      · exact Or.inl (Or.inl ⟨k, Or.inl (by rw [← h1]; exact h)⟩)
      · rw [h1] at h; cases h
        rcases h2 with h2 | h2
        · exact Or.inl (Or.inl ⟨k, Or.inr h2⟩)
        · exact Or.inr (Or.inl h2)
      · rw [h1] at h; cases h
    · rcases hr.2 with h1 | ⟨c', u, h1, h2⟩
      · exact Or.inl (Or.inl ⟨k, Or.inr (by rw [← h1]; exact h)⟩)
      · rw [h1] at h; cases h
        exact Or.inr (Or.inl ⟨u, h2⟩)
  · rcases hs.2.2 with h1 | ⟨c', h1, h2⟩
    · exact Or.inl (Or.inr (Or.inl (by rw [← h1]; exact h)))
    · rw [h1] at h; cases h
      exact Or.inr (Or.inr (Or.inl h2))
  · rcases hs.1 with h1 | ⟨c', h1, _, h2⟩
    · exact Or.inl (Or.inr (Or.inr (Or.inl (by rw [← h1]; exact h))))
    · rw [h1] at h; cases h
      rcases h2 with h2 | h2
      · exact Or.inl (Or.inr (Or.inr (Or.inr h2)))
      · exact Or.inr (Or.inr (Or.inr h2))
  · rcases hs.2.1 with h1 | ⟨c', h1, h2⟩
    · exact Or.inl (Or.inr (Or.inr (Or.inr (by rw [← h1]; exact h))))
    · rw [h1] at h; cases h
      exact Or.inr (Or.inr (Or.inr h2))

/-- **never_visible_incomplete.** The independent specification of the whole property for the
storage: over every history of rounds — any mixture of healthy and faulty downloads of the index,
of every rule list and of the service index, any index documents, any restarts in between
(`acceptStale` is a field of each round) — every document that is served by a rule list or by the
blocked services, or that lies in `filters.json`, `services.json` or a rule-list file, was there
initially or was offered completely (status 200, framing intact, non-empty, within the size limit
of its kind) by a server in some round of the history.  Nothing truncated, empty, oversized, or
sent with an error status ever becomes visible anywhere. -/
theorem never_visible_incomplete (E : Env) (cfg : Cfg) (hfix : cfg.keepInvalid = true)
    (rs : List Round) (init : Nat → Prop) (s : St) (h0 : ∀ c, Visible s c → init c) (c : Nat)
    (h : Visible (run E cfg s rs) c) : init c ∨ ∃ R ∈ rs, OfferedIn E cfg R c := by
  induction rs generalizing s init with
  | nil => exact Or.inl (h0 c h)
  | cons R rs ih =>
    have hstep : ∀ c, Visible (refreshStorage E cfg s R).1 c → (init c ∨ OfferedIn E cfg R c) := by
      intro c hc
      rcases visible_step E cfg hfix s R c hc with h1 | h1
      · exact Or.inl (h0 c h1)
      · exact Or.inr h1
    have := ih (fun c => init c ∨ OfferedIn E cfg R c) (refreshStorage E cfg s R).1 hstep
      (by simpa [run] using h)
    rcases this with (h1 | h1) | ⟨R', hR', h1⟩
    · exact Or.inl h1
    · exact Or.inr ⟨R, by simp, h1⟩
    · exact Or.inr ⟨R', by simp [hR'], h1⟩

/-- The same with a process restart (memory lost, files kept) between any two rounds. -/
theorem restart_visible (s : St) (c : Nat) (h : Visible (restart s) c) : Visible s c := by
  rcases h with ⟨k, h | h⟩ | h | h | h
  · simp [restart] at h
  · exact Or.inl ⟨k, Or.inr h⟩
  · exact Or.inr (Or.inl h)
  · simp [restart] at h
  · exact Or.inr (Or.inr (Or.inr h))

example : Visible (run cexEnv (cexCfg true) cexSt [cexRound]) 5 := by
  refine Or.inl ⟨7, Or.inl ?_⟩
  decide

/-- A history of hash-filter refreshes: (`acceptStale`, cache file fresh, server behaviour). -/
def runHash (E : Env) (max : Nat) (s : HSt) (rs : List (Bool × Bool × Resp)) : HSt :=
  rs.foldl (fun s x => (refreshHash E max x.1 s x.2.1 x.2.2).1) s

/-- **hash_never_incomplete.** Over every history of refreshes of a hash-prefix filter, what it
serves and what its cache file holds was there initially or was offered completely in some
round. -/
theorem hash_never_incomplete (E : Env) (max : Nat) (rs : List (Bool × Bool × Resp))
    (init : Nat → Prop) (s : HSt) (h0 : ∀ c, (s.mem = some c ∨ s.disk = some c) → init c) (c : Nat)
    (h : (runHash E max s rs).mem = some c ∨ (runHash E max s rs).disk = some c) :
    init c ∨ ∃ x ∈ rs, Offers E max x.2.2 c := by
  induction rs generalizing s init with
  | nil => exact Or.inl (h0 c h)
  | cons x rs ih =>
    have hstep : ∀ c, ((refreshHash E max x.1 s x.2.1 x.2.2).1.mem = some c ∨
        (refreshHash E max x.1 s x.2.1 x.2.2).1.disk = some c) →
        (init c ∨ Offers E max x.2.2 c) := by
      intro c hc
      have hr := hash_old_or_new E max x.1 s x.2.1 x.2.2
      rcases hc with hc | hc
      · rcases hr.1 with h1 | ⟨c', h1, _, h2⟩
        · exact Or.inl (h0 c (Or.inl (by rw [← h1]; exact hc)))
        · rw [h1] at hc; cases hc
          rcases h2 with h2 | h2
          · exact Or.inl (h0 c (Or.inr h2))
          · exact Or.inr h2
      · rcases hr.2 with h1 | ⟨c', h1, h2⟩
        · exact Or.inl (h0 c (Or.inr (by rw [← h1]; exact hc)))
        · rw [h1] at hc; cases hc
          exact Or.inr h2
    have := ih (fun c => init c ∨ Offers E max x.2.2 c) (refreshHash E max x.1 s x.2.1 x.2.2).1 hstep
      (by simpa [runHash] using h)
    rcases this with (h1 | h1) | ⟨x', hx', h1⟩
    · exact Or.inl h1
    · exact Or.inr ⟨x, by simp, h1⟩
    · exact Or.inr ⟨x', by simp [hx'], h1⟩

/-! ## Kill points, tied to the verdict of the download -/

/-- **kill_point_file.** `disk_always_complete` with the branch taken by the deferred clean-up
tied to what `refreshFromURL` decided: for any response `r`, any way the received bytes were split
into writes, and any kill point `n`, the cache path holds what it held before, or the bytes of a
document `c` that the server OFFERED completely (so never after a cut, oversized, empty or non-200
transfer).  `bytes` gives the bytes of a content; `hch` says that when the download succeeded the
writes were the bytes of the document. -/
theorem kill_point_file {α : Type} (E : Env) (max : Nat) (r : Resp) (bytes : Nat → List α)
    (fs : Fs α) (chunks : List (List α))
    (hch : ∀ c, fromURL E max r = some c → chunks.flatten = bytes c) (n : Nat) :
    (fsExec fs ((fsTrace chunks (fromURL E max r).isSome).take n)).path = fs.path ∨
    ∃ c, Offers E max r c ∧
      (fsExec fs ((fsTrace chunks (fromURL E max r).isSome).take n)).path = some (bytes c) := by
  rcases disk_always_complete fs chunks (fromURL E max r).isSome n with h | ⟨hok, h⟩
  · exact Or.inl h
  · cases hu : fromURL E max r with
    | none => rw [hu] at hok; cases hok
    | some c =>
      right
      refine ⟨c, fromURL_some E max r c hu, ?_⟩
      rw [hu] at h
      rw [h, hch c hu]

example : (fromURL cexEnv 100 (.resp 200 7 true false)).isSome = false := by decide

/-- **kill_between_lists.** A process killed after `Default.refresh` has handled any number `m` of
the index entries (in whatever order `es` lists them — in particular the sorted one): every
rule-list cache file holds its previous document or one that a server offered completely in this
round.  Together with `kill_point_file` for the download in flight this covers every kill point
of a round. -/
theorem kill_between_lists (E : Env) (cfg : Cfg) (R : Round) (s : St) (es : List Entry) (m k : Nat) :
    ((toInternal (es.take m)).foldl (addRuleList E cfg R s.rl) ⟨fun _ => none, s.rlDisk⟩).disk k =
        s.rlDisk k ∨
    ∃ c u, ((toInternal (es.take m)).foldl (addRuleList E cfg R s.rl) ⟨fun _ => none, s.rlDisk⟩).disk k =
        some c ∧ Offers E cfg.rlMax (R.resp u) c := by
  rcases (addLoop_ok E cfg R s (es.take m) k).2 with h | ⟨c, h, e, _, _, hu⟩
  · exact Or.inl h
  · exact Or.inr ⟨c, e.url, h, fromURL_some E cfg.rlMax _ c hu⟩


/-! ## A round interrupted by the cancellation of its context -/

theorem take_filter_prefix {α : Type} (p : α → Bool) (l : List α) (m : Nat) :
    ∃ m', (l.filter p).take m = (l.take m').filter p := by
  induction l generalizing m with
  | nil => exact ⟨0, by simp⟩
  | cons x xs ih =>
    by_cases hp : p x = true
    · cases m with
      | zero => exact ⟨0, by simp⟩
      | succ n =>
        obtain ⟨n', hn⟩ := ih n
        exact ⟨n' + 1, by simp [List.filter_cons, hp, hn]⟩
    · obtain ⟨n', hn⟩ := ih m
      exact ⟨n' + 1, by simp [List.filter_cons, hp, hn]⟩

theorem addUntilCancel_prefix (E : Env) (cfg : Cfg) (R : Round) (old : Nat → Option Nat) (u : Nat)
    (l : List Entry) (a : Acc) :
    ∃ m, (addUntilCancel E cfg R old u a l).1 = (l.take m).foldl (addRuleList E cfg R old) a := by
  induction l generalizing a with
  | nil => exact ⟨0, by simp [addUntilCancel]⟩
  | cons e es ih =>
    unfold addUntilCancel
    split
    · rename_i hdup
      obtain ⟨m, hm⟩ := ih a
      refine ⟨m + 1, ?_⟩
      rw [hm]
      simp [List.take_succ_cons, List.foldl_cons, addRuleList, hdup]
    · split
      · exact ⟨0, by simp⟩
      · obtain ⟨m, hm⟩ := ih (addRuleList E cfg R old a e)
        exact ⟨m + 1, by rw [hm]; simp [List.take_succ_cons, List.foldl_cons]⟩

/-- **cancelled_round_safe.** A round whose context is cancelled while a rule list is being
downloaded (the deadline of the refresh worker expires, the service shuts down) either was not
affected at all, or: it reports an error, every rule list and the blocked services stay in use
exactly as they were, `services.json` is untouched, and every rule-list file holds its previous
document or one that a server offered completely before the interruption. -/
theorem cancelled_round_safe (E : Env) (cfg : Cfg) (s : St) (R : Round) (u : Nat) :
    refreshStorageCancel E cfg s R u = refreshStorage E cfg s R ∨
    ((refreshStorageCancel E cfg s R u).2 = false ∧ (refreshStorageCancel E cfg s R u).1.rl = s.rl ∧
      (refreshStorageCancel E cfg s R u).1.svc = s.svc ∧
      (refreshStorageCancel E cfg s R u).1.svcDisk = s.svcDisk ∧
      ∀ k, (refreshStorageCancel E cfg s R u).1.rlDisk k = s.rlDisk k ∨
        ∃ c u', (refreshStorageCancel E cfg s R u).1.rlDisk k = some c ∧
          Offers E cfg.rlMax (R.resp u') c) := by
  unfold refreshStorageCancel
  cases h1 : (refresh E cfg.idxMax R.acceptStale s.idxDisk R.idxFresh R.idxResp).1 with
  | none => right; simp [h1]
  | some d =>
    cases h2 : E.idx d with
    | none => right; simp [h1, h2]
    | some es =>
      cases h3 : (addUntilCancel E cfg R s.rl u ⟨fun _ => none, s.rlDisk⟩ (toInternal es)).2 with
      | false => left; simp [h1, h2, h3]
      | true =>
        right
        simp only [h1, h2, h3, if_true]
        refine ⟨trivial, trivial, trivial, trivial, ?_⟩
        intro k
        obtain ⟨m, hm⟩ := addUntilCancel_prefix E cfg R s.rl u (toInternal es) ⟨fun _ => none, s.rlDisk⟩
        obtain ⟨m', hm'⟩ := take_filter_prefix (fun e : Entry => e.keyOk && e.urlOk) es m
        simp only [hm]
        have : (toInternal es).take m = toInternal (es.take m') := hm'
        rw [this]
        exact kill_between_lists E cfg R s es m' k

/-- Non-vacuity: a round that is really cut short.  Lists 4 and 7 are named (in key order), the
request for the URL of list 7 cancels the context: list 4 has been stored, nothing is swapped. -/
example : (refreshStorageCancel
    { cexEnv with idx := fun c => if c = 1 then some [⟨4, true, true, 4⟩, ⟨7, true, true, 5⟩] else none }
    (cexCfg true) cexSt
    { cexRound with resp := fun u => if u = 4 then .resp 200 9 false true else .getErr } 5).2 = false := by
  decide
example : (refreshStorageCancel
    { cexEnv with idx := fun c => if c = 1 then some [⟨4, true, true, 4⟩, ⟨7, true, true, 5⟩] else none }
    (cexCfg true) cexSt
    { cexRound with resp := fun u => if u = 4 then .resp 200 9 false true else .getErr } 5).1.rlDisk 4 =
      some 9 := by
  decide

/-! ## The decoded index: `NewID`, `validate`, `compare`, the sort, and the names of the cache files -/

/-- **raw_sort_irrelevant.** `loadIndex` as it is — `slices.SortStableFunc` with
`indexRespFilter.compare` (nil entries last, keys by `cmp.Compare` on the strings), then `validate`
/ `NewID` / `ParseHTTPURL` per entry — yields for the loops of `Default.refresh` exactly what the
document order yields: for every decoded document, whatever keys (valid, invalid, reserved,
duplicated), URLs and `null`s it holds.  (`index_order_irrelevant` said this for an abstract rank;
here the comparison is the code's.) -/
theorem raw_sort_irrelevant (E : Env) (cfg : Cfg) (R : Round) (s : St) (fx : Bool)
    (num : List Nat → Nat) (es : List RawEntry) (hinj : KeysInj num es) :
    newLists E cfg R s (loadRaw fx num es) = newLists E cfg R s (es.map (classify fx num)) :=
  newLists_reorder E cfg R s (reorder_sortRaw fx num es hinj)

/-- **raw_round_order_irrelevant.** The same for a whole round, and hence (by `run`) for every
history: an environment whose index documents go through `loadIndex`'s sort and one whose documents
are read in document order give the same state and the same return value.  All theorems above, which
are stated for arbitrary `Env.idx`, therefore hold for the decoded documents as the code reads them. -/
theorem raw_round_order_irrelevant (E : Env) (cfg : Cfg) (s : St) (R : Round) (fx : Bool)
    (num : List Nat → Nat) (raw : Nat → Option (List RawEntry))
    (hinj : ∀ c es, raw c = some es → KeysInj num es) :
    refreshStorage { E with idx := fun c => (raw c).map (loadRaw fx num) } cfg s R =
      refreshStorage { E with idx := fun c => (raw c).map (List.map (classify fx num)) } cfg s R := by
  have hE : ∀ (f g : Nat → Option (List Entry)) max a d fr x,
      refresh { E with idx := f } max a d fr x = refresh { E with idx := g } max a d fr x :=
    fun _ _ _ _ _ _ _ => rfl
  have hN : ∀ (f g : Nat → Option (List Entry)) es,
      newLists { E with idx := f } cfg R s es = newLists { E with idx := g } cfg R s es :=
    fun _ _ _ => rfl
  have hS : ∀ (f g : Nat → Option (List Entry)) c,
      svcResult { E with idx := f } cfg c = svcResult { E with idx := g } cfg c := fun _ _ _ => rfl
  unfold refreshStorage
  simp only [hE _ (fun c => (raw c).map (List.map (classify fx num))),
    hS _ (fun c => (raw c).map (List.map (classify fx num)))]
  cases h1 : (refresh { E with idx := fun c => (raw c).map (List.map (classify fx num)) } cfg.idxMax
      R.acceptStale s.idxDisk R.idxFresh R.idxResp).1 with
  | none => rfl
  | some d =>
    cases h2 : raw d with
    | none => simp [h2]
    | some es =>
      have hr := raw_sort_irrelevant { E with idx := fun c => (raw c).map (List.map (classify fx num)) }
        cfg R s fx num es (hinj d es h2)
      simp [h2, hN _ (fun c => (raw c).map (List.map (classify fx num))), hr]

/-- **sort_raw_spec.** The sort is a sort: its result is ordered by `compare` and is a permutation
of the document (entries that compare equal keep their document order by construction: `insertRaw`
moves an entry only in front of strictly greater ones). -/
theorem sort_raw_spec (es : List RawEntry) : RawSorted (sortRaw es) ∧ (sortRaw es).Perm es :=
  ⟨sortRaw_sorted es, sortRaw_perm es⟩

def rawDoc : List RawEntry :=
  [⟨false, bytes "listb", false, true, 2, false⟩, ⟨true, [], true, false, 0, false⟩,
   ⟨false, bytes "bad key", false, true, 3, false⟩, ⟨false, bytes "lista", true, false, 0, false⟩,
   ⟨false, bytes "services.json", false, true, 4, false⟩, ⟨false, bytes "lista", false, true, 1, false⟩]

/-- Non-vacuity: the sort moves entries (the `null` last, `bad key` first), keeps the two `lista`
entries in document order, and numbering keys by their bytes as base-256 digits is faithful here. -/
example : (sortRaw rawDoc).map (·.key) =
    [bytes "bad key", bytes "lista", bytes "lista", bytes "listb", bytes "services.json", []] := by
  decide
example : ((sortRaw rawDoc).map (·.urlEmpty)) = [false, true, false, false, false, true] := by decide
example : KeysInj (fun k => k.foldl (fun a b => a * 256 + b) 0) rawDoc := by
  unfold KeysInj rawDoc; decide

/-- **id_valid_iff.** `filter.NewID` accepts exactly the keys of 1 to 128 bytes that are all
printable, non-blank ASCII other than a slash. -/
theorem id_valid_iff (k : List Nat) :
    idValid k = true ↔ 1 ≤ k.length ∧ k.length ≤ 128 ∧ ∀ b ∈ k, 0x21 ≤ b ∧ b ≤ 0x7e ∧ b ≠ 0x2f := by
  simp [idValid, idByteOk, List.all_eq_true, and_assoc]

example : idValid (List.replicate 128 0x7e) = true := by simp [idValid, idByteOk]
example : idValid (List.replicate 129 0x7e) = false := by simp [idValid]
example : idValid [] = false ∧ idValid [0x20] = false ∧ idValid [0x7f] = false ∧
    idValid [0x21] = true ∧ idValid (bytes "a/b") = false ∧ idValid (bytes "services.json") = true := by
  decide

/-- **accepted_key_names_private_file** (the repaired behaviour).  An entry that `toInternal` lets
through names a cache file of its own: a single path component that is neither the directory, its
parent, an index file nor the file of a safe-search or hash-prefix filter. -/
theorem accepted_key_names_private_file (num : List Nat → Nat) (e : RawEntry)
    (hk : (classify true num e).keyOk = true) (hu : (classify true num e).urlOk = true) :
    ruleListFile e.key ∉ reservedNames ∧ ruleListFile e.key ≠ indexFile ∧
      ruleListFile e.key ≠ servicesFile ∧ e.key ≠ [] ∧ 0x2f ∉ e.key := by
  simp [classify] at hk hu
  have hres : e.key ∉ reservedNames := by simpa using hu.2
  have hv := (id_valid_iff e.key).mp hk.2
  refine ⟨hres, ?_, ?_, ?_, ?_⟩
  · intro h; apply hres; rw [show e.key = indexFile from h]; decide
  · intro h; apply hres; rw [show e.key = servicesFile from h]; decide
  · intro h; rw [h] at hv; simp at hv
  · intro h; exact (hv.2.2 _ h).2.2 rfl

/-- **rule_lists_never_touch_reserved_files** (the repaired behaviour).  Whatever the index
document holds and whatever the downloads yield, the rule-list downloads of a round leave the index
files and the files of the safe-search and hash-prefix filters alone — which is what lets `St` keep
`filters.json`, `services.json` and the rule-list files in separate slots. -/
theorem rule_lists_never_touch_reserved_files (got : RawEntry → Option Nat) (d : Dir)
    (es : List RawEntry) (n : List Nat) (hn : n ∈ reservedNames) :
    writeLists true got d es n = d n := by
  unfold writeLists
  apply foldl_inv (fun d' : Dir => d' n = d n)
  · rfl
  · intro d' e _ hd'
    by_cases hv : ((classify true (fun _ => 0) e).keyOk && (classify true (fun _ => 0) e).urlOk) = true
    · simp only [hv, if_true]
      cases hg : got e with
      | none => exact hd'
      | some x =>
        simp only [Dir.write]
        have hne : n ≠ ruleListFile e.key := by
          intro h
          simp only [Bool.and_eq_true] at hv
          exact (accepted_key_names_private_file (fun _ => 0) e hv.1 hv.2).1 (h ▸ hn)
        simp [hne, hd']
    · simp only [hv]
      exact hd'

/-- **reserved_key_overwrites_services_counterexample.** On the tree as found
(`rejectReserved = false`) `validate` lets an entry with the key `services.json` through — it is a
valid ID —, and the download of "its" rule list replaces the blocked-service index in the cache
directory by the rule list; on the repaired tree the file stays. -/
theorem reserved_key_overwrites_services_counterexample :
    let e : RawEntry := ⟨false, bytes "services.json", false, true, 4, false⟩
    let d : Dir := fun n => if n = servicesFile then some 2 else none
    (classify false (fun _ => 0) e).keyOk = true ∧ (classify false (fun _ => 0) e).urlOk = true ∧
      writeLists false (fun _ => some 9) d [e] servicesFile = some 9 ∧
      writeLists true (fun _ => some 9) d [e] servicesFile = some 2 := by
  decide

/-- **foreign_services_file_stops_every_start.** … and with a file in `services.json` that is not a
service index (here: the rule list written there), every start fails whatever the servers do — no
list at all is served — until someone removes the file.  (The harness shows both steps on the real
code under `cache-file-overwritten-by-other-list` / `restart-fails-on-complete-cache`.) -/
theorem foreign_services_file_stops_every_start (E : Env) (cfg : Cfg) (s : St) (R : Round) (c : Nat)
    (hen : cfg.svcEnabled = true) (hacc : R.acceptStale = true) (hd : s.svcDisk = some c)
    (hlen : E.len c ≠ 0) (hsvc : E.svc c = none) :
    (refreshStorage E cfg (restart s) R).2 = false ∧
      ∀ k, (refreshStorage E cfg (restart s) R).1.rl k = none := by
  have hff : fromFile E true R.svcFresh (some c) = some c := by simp [fromFile, hlen]
  have hsr : refresh E cfg.svcMax true (some c) R.svcFresh R.svcResp = (some c, some c) := by
    simp [refresh, hff]
  have hres : svcResult E cfg c ≠ .ok := by simp [svcResult, hsvc]
  unfold refreshStorage
  simp only [restart, hacc, hd, hen]
  cases h1 : (refresh E cfg.idxMax true s.idxDisk R.idxFresh R.idxResp).1 with
  | none => simp
  | some dd =>
    cases h2 : E.idx dd with
    | none => simp [h2]
    | some es => simp [h2, hsr, hres]

example : (refreshStorage nullEnv (nullCfg true) (restart { St.empty with svcDisk := some 9 })
    (nullRound true)).2 = false := by decide

/-! ## The safe-search filters and the whole of `Default.refresh` -/

/-- **ss_failed_keeps_previous.** A safe-search filter whose download fails in any way (and whose
cache file is not usable) keeps what it serves and its cache file. -/
theorem ss_failed_keeps_previous (E : Env) (max : Nat) (a : Bool) (s : HSt) (f : Bool) (r : Resp)
    (hc : fromFile E a f s.disk = none) (hf : fromURL E max r = none) :
    refreshRL E max a s f r = (s, false) := by
  simp [refreshRL, refresh, hc, hf]

/-- **ss_old_or_new.** After any refresh a safe-search filter serves its previous document, the
stored one, or the one the server offered completely; its cache file holds the previous or that
offered document. -/
theorem ss_old_or_new (E : Env) (max : Nat) (a : Bool) (s : HSt) (f : Bool) (r : Resp) :
    ((refreshRL E max a s f r).1.mem = s.mem ∨
      ∃ c, (refreshRL E max a s f r).1.mem = some c ∧ (s.disk = some c ∨ Offers E max r c)) ∧
    ((refreshRL E max a s f r).1.disk = s.disk ∨
      ∃ c, (refreshRL E max a s f r).1.disk = some c ∧ Offers E max r c) := by
  unfold refreshRL
  rcases refresh_cases E max a s.disk f r with ⟨c, hd, _, hr⟩ | ⟨_, c, hu, hr⟩ | ⟨_, _, hr⟩
  · simp only [hr]; exact ⟨Or.inr ⟨c, rfl, Or.inl hd⟩, by simp⟩
  · simp only [hr]
    have ho := fromURL_some E max r c hu
    exact ⟨Or.inr ⟨c, rfl, Or.inr ho⟩, Or.inr ⟨c, rfl, ho⟩⟩
  · simp [hr]

/-- **full_round_frame.** The whole round with the safe-search filters leaves the storage either
exactly as `refreshStorage` leaves it, or — when a safe-search refresh failed — as `refreshStorage`
leaves it except that every rule list still serves its previous document.  Hence every per-round
theorem above about files, services and "previous or new" carries over to the whole round. -/
theorem full_round_frame (E : Env) (cfg : Cfg) (s : St) (ss : SSt) (R : Round) (SR : SRound) :
    ((refreshFull E cfg s ss R SR).1.1 = (refreshStorage E cfg s R).1 ∧
      ((refreshFull E cfg s ss R SR).2 = false → (refreshStorage E cfg s R).2 = false)) ∨
    ((refreshFull E cfg s ss R SR).2 = false ∧
      (refreshFull E cfg s ss R SR).1.1 = { (refreshStorage E cfg s R).1 with rl := s.rl }) := by
  unfold refreshFull
  by_cases h1 : (refreshStorage E cfg s R).2 = true
  · by_cases h2 : (ssPart E SR R.acceptStale ss).2 = true
    · simp [h1, h2]
    · simp [h1, h2]
  · simp [h1]

/-- A round of `refreshStorage` that reports an error has swapped no rule list. -/
theorem storage_error_keeps_rule_lists (E : Env) (cfg : Cfg) (s : St) (R : Round)
    (h : (refreshStorage E cfg s R).2 = false) : (refreshStorage E cfg s R).1.rl = s.rl := by
  cases h1 : (refresh E cfg.idxMax R.acceptStale s.idxDisk R.idxFresh R.idxResp).1 with
  | none => unfold refreshStorage; simp [h1]
  | some d =>
    cases h2 : E.idx d with
    | none => unfold refreshStorage; simp [h1, h2]
    | some es =>
      rcases (storage_lists E cfg s R d es h1 h2).2 with ⟨_, h3⟩ | ⟨h3, _⟩
      · rw [h] at h3; cases h3
      · exact h3

/-- **full_error_keeps_rule_lists.** When the whole round reports an error, no rule list has
changed what it serves — also when the error comes from a safe-search download after every rule
list and the services were downloaded successfully. -/
theorem full_error_keeps_rule_lists (E : Env) (cfg : Cfg) (s : St) (ss : SSt) (R : Round)
    (SR : SRound) (h : (refreshFull E cfg s ss R SR).2 = false) :
    (refreshFull E cfg s ss R SR).1.1.rl = s.rl := by
  rcases full_round_frame E cfg s ss R SR with ⟨h1, h2⟩ | ⟨_, h1⟩
  · rw [h1]; exact storage_error_keeps_rule_lists E cfg s R (h2 h)
  · rw [h1]

/-- **full_visible_step.** Whatever is visible in the storage after a whole round was visible
before or was offered completely in the round. -/
theorem full_visible_step (E : Env) (cfg : Cfg) (hfix : cfg.keepInvalid = true) (s : St) (ss : SSt)
    (R : Round) (SR : SRound) (c : Nat) (h : Visible (refreshFull E cfg s ss R SR).1.1 c) :
    Visible s c ∨ OfferedIn E cfg R c := by
  rcases full_round_frame E cfg s ss R SR with ⟨h1, _⟩ | ⟨_, h1⟩
  · rw [h1] at h; exact visible_step E cfg hfix s R c h
  · rw [h1] at h
    rcases h with ⟨k, h | h⟩ | h | h | h
    · exact Or.inl (Or.inl ⟨k, Or.inl h⟩)
    · exact visible_step E cfg hfix s R c (Or.inl ⟨k, Or.inr h⟩)
    · exact visible_step E cfg hfix s R c (Or.inr (Or.inl h))
    · exact visible_step E cfg hfix s R c (Or.inr (Or.inr (Or.inl h)))
    · exact visible_step E cfg hfix s R c (Or.inr (Or.inr (Or.inr h)))

/-- Non-vacuity: the index names key 7 with a healthy URL offering 9, the general safe-search
download fails: the round reports an error, key 7 still serves 5 although its file already holds 9;
with a healthy safe-search download the same round serves 9. -/
def ssEnv : Env :=
  { cexEnv with idx := fun c => if c = 1 then some [⟨7, true, true, 4⟩] else none }
def ssRound : Round := { cexRound with resp := fun u => if u = 4 then .resp 200 9 false true else .getErr }
def ssS : SSt := { gen := { mem := some 3, disk := some 3 }, yt := { mem := none, disk := none } }
def ssSR (r : Resp) : SRound :=
  { max := 100, genOn := true, genFresh := false, genResp := r, ytOn := false, ytFresh := false,
    ytResp := .getErr }
example : (refreshFull ssEnv (cexCfg true) cexSt ssS ssRound (ssSR (.resp 503 8 false true))).2 = false ∧
    (refreshFull ssEnv (cexCfg true) cexSt ssS ssRound (ssSR (.resp 503 8 false true))).1.1.rl 7 = some 5 ∧
    (refreshFull ssEnv (cexCfg true) cexSt ssS ssRound (ssSR (.resp 503 8 false true))).1.1.rlDisk 7 = some 9 ∧
    (refreshFull ssEnv (cexCfg true) cexSt ssS ssRound (ssSR (.resp 503 8 false true))).1.2.gen.mem = some 3 := by
  decide
example : (refreshFull ssEnv (cexCfg true) cexSt ssS ssRound (ssSR (.resp 200 8 false true))).2 = true ∧
    (refreshFull ssEnv (cexCfg true) cexSt ssS ssRound (ssSR (.resp 200 8 false true))).1.1.rl 7 = some 9 ∧
    (refreshFull ssEnv (cexCfg true) cexSt ssS ssRound (ssSR (.resp 200 8 false true))).1.2.gen.mem = some 8 := by
  decide

/-! ## Index elements of the wrong JSON type (fourth finding) -/

/-- What an index content means, given the elements of its `filters` array as `encoding/json` sees
them (`raw c = none`: not a JSON object with such an array at all): decoded (`decodeDoc`), sorted and
validated (`loadRaw`). -/
def idxOfRaw (cfg : Cfg) (num : List Nat → Nat) (raw : Nat → Option (List RawEntry)) (c : Nat) :
    Option (List Entry) :=
  ((raw c).bind (decodeDoc cfg.lenientDecode)).map (loadRaw cfg.rejectReserved num)

/-- **mistyped_entries_never_refuse_index.** On the repaired tree every JSON document whose `filters`
is an array is an index, whatever its elements are — objects, `null`s, strings, arrays, numbers,
objects whose `filterKey` or `downloadUrl` has the wrong type: decoding yields all elements, each
reduced to what is left of it. -/
theorem mistyped_entries_never_refuse_index (cfg : Cfg) (num : List Nat → Nat)
    (raw : Nat → Option (List RawEntry)) (c : Nat) (es : List RawEntry)
    (hfix : cfg.lenientDecode = true) (hraw : raw c = some es) :
    idxOfRaw cfg num raw c = some (loadRaw cfg.rejectReserved num es) := by
  simp [idxOfRaw, hraw, decodeDoc, hfix]

/-- **valid_entries_applied_next_to_mistyped.** `valid_entries_applied` for the documents as the
code reads them: in a round that returns no error and is governed by a document with the decoded
elements `raw` — any number of them of the wrong JSON type — a key whose valid entries all carry the
URL `u` serves its stored, else the downloaded, else its previous document; and a served list whose
only entry is a broken one keeps its list (`named_list_never_dropped` applies to
`loadRaw … raw` as it stands). -/
theorem valid_entries_applied_next_to_mistyped (E : Env) (cfg : Cfg) (s : St) (R : Round) (d : Nat)
    (num : List Nat → Nat) (raw : Nat → Option (List RawEntry)) (es : List RawEntry)
    (hE : E.idx = idxOfRaw cfg num raw)
    (hfix : cfg.keepInvalid = true) (hlen : cfg.lenientDecode = true)
    (hidx : (refresh E cfg.idxMax R.acceptStale s.idxDisk R.idxFresh R.idxResp).1 = some d)
    (hraw : raw d = some es) (hok : (refreshStorage E cfg s R).2 = true) (k u : Nat)
    (hu : ∀ e ∈ loadRaw cfg.rejectReserved num es, e.key = k → e.keyOk = true → e.urlOk = true →
      e.url = u)
    (hex : ∃ e ∈ loadRaw cfg.rejectReserved num es, e.key = k ∧ e.keyOk = true ∧ e.urlOk = true) :
    (refreshStorage E cfg s R).1.rl k = (target E cfg R s k u).1 ∧
    (refreshStorage E cfg s R).1.rlDisk k = (target E cfg R s k u).2 :=
  valid_entries_applied E cfg s R d _ hfix hidx
    (by rw [hE]; exact mistyped_entries_never_refuse_index cfg num raw d es hlen hraw) hok k u hu hex

/-- The witness of the fourth finding: the index (content 1) names `lista` with a healthy URL and has
one more element whose `filterKey` is a number; URL 1 offers content 9 completely. -/
def typDoc : List RawEntry :=
  [⟨false, bytes "lista", false, true, 1, false⟩, ⟨false, [], false, true, 2, true⟩]
def typNum (k : List Nat) : Nat := if k = bytes "lista" then 7 else 0
def typCfg (fixed : Bool) : Cfg :=
  { idxMax := 100, rlMax := 100, svcMax := 100, svcEnabled := false, keepInvalid := true,
    svcNilCheck := true, lenientDecode := fixed }
def typEnv (fixed : Bool) : Env :=
  { len := fun _ => 10, idx := idxOfRaw (typCfg fixed) typNum (fun c => if c = 1 then some typDoc else none),
    svc := fun _ => some [], hashOk := fun _ => true }
def typRound (initial : Bool) : Round :=
  { acceptStale := initial, idxFresh := false, idxResp := .resp 200 1 false true, fresh := fun _ => false,
    resp := fun u => if u = 1 then .resp 200 9 false true else .getErr, svcFresh := false,
    svcResp := .getErr }

/-- **mistyped_entry_refuses_index_counterexample.** On the tree as found (`lenientDecode = false`)
"the valid entries of a partially invalid index are still applied" is false: one element of the
wrong JSON type makes `Decode` fail, so the round returns an error and the healthy new document of
`lista` (content 9) is not applied although its server offers it — the served list stays at 5 for as
long as the index contains that element; the index itself has been stored (`filters.json` = 1)
before it was decoded, so a restart (`RefreshInitial` on the stored file) fails too and serves no
list at all.  On the repaired tree the same round succeeds, serves 9, and the restart comes up.
Reproduced on the real code by the harness (signature `index-refused:mistyped-entry`,
`restart-fails-on-complete-cache`), repaired by the fourth `fix:` commit. -/
theorem mistyped_entry_refuses_index_counterexample :
    ((refreshStorage (typEnv false) (typCfg false) cexSt (typRound false)).2 = false ∧
      (refreshStorage (typEnv false) (typCfg false) cexSt (typRound false)).1.rl 7 = some 5 ∧
      (refreshStorage (typEnv false) (typCfg false) cexSt (typRound false)).1.idxDisk = some 1 ∧
      (refreshStorage (typEnv false) (typCfg false)
        (restart (refreshStorage (typEnv false) (typCfg false) cexSt (typRound false)).1)
        (typRound true)).2 = false) ∧
    ((refreshStorage (typEnv true) (typCfg true) cexSt (typRound false)).2 = true ∧
      (refreshStorage (typEnv true) (typCfg true) cexSt (typRound false)).1.rl 7 = some 9 ∧
      (refreshStorage (typEnv true) (typCfg true)
        (restart (refreshStorage (typEnv true) (typCfg true) cexSt (typRound false)).1)
        (typRound true)).1.rl 7 = some 9) := by
  decide

/-- Non-vacuity of `valid_entries_applied_next_to_mistyped`: `typDoc` has a valid entry for key 7
with URL 1 next to the mistyped element. -/
example : ∃ e ∈ loadRaw true typNum typDoc, e.key = 7 ∧ e.keyOk = true ∧ e.urlOk = true :=
  ⟨⟨7, true, true, 1⟩, by decide, rfl, rfl, rfl⟩
example : idxOfRaw (typCfg false) typNum (fun c => if c = 1 then some typDoc else none) 1 = none := by
  decide

/-! ## Fifth deepening: failing file-system calls, simultaneous refreshes -/

/-- **fs_fault_keeps_cache_file.** The download may be perfectly healthy: when the file system
fails — the temporary file cannot be created, a `Write` into it stores only a part and fails (full
disk, quota, `EFBIG`), or `Sync` / `Close` / `rename(2)` inside `CloseAtomicallyReplace` fails —
then after ANY prefix of the resulting step sequence (so also for a process killed on the way) the
cache path holds exactly what it held before. -/
theorem fs_fault_keeps_cache_file {α : Type} (fs : Fs α) (chunks : List (List α)) (ok : Bool)
    (f : FsFault) (hf : f = .createFails ∨ (∃ i j, f = .writeFails i j) ∨ f = .replaceFails)
    (n : Nat) :
    (fsExec fs ((fsTraceF chunks ok f).take n)).path = fs.path := by
  have hno : FsStep.rename ∉ fsTraceF chunks ok f := by
    rcases hf with h | ⟨i, j, h⟩ | h <;> subst h
    · simp [fsTraceF]
    · simp only [fsTraceF, List.mem_cons, List.mem_append, reduceCtorEq, false_or, or_false,
        List.not_mem_nil]
      intro hm
      rcases List.mem_map.mp hm with ⟨c, _, hc⟩
      cases hc
    · cases ok <;> simp [fsTraceF]
  have hs := RenSafe_of_no_rename ((fsTraceF chunks ok f).take n) fs.tmp
    (fun hm => hno (List.mem_of_mem_take hm))
  rcases fs_safe _ _ fs hs with h | ⟨x, hx, _⟩
  · exact h
  · exact hx.elim

/-- **disk_complete_under_fs_faults.** `disk_always_complete` for every behaviour of the file
system: whatever fails and wherever the process is killed, the cache path holds what it held, or —
only when the download succeeded — the complete new document. -/
theorem disk_complete_under_fs_faults {α : Type} (fs : Fs α) (chunks : List (List α)) (ok : Bool)
    (f : FsFault) (n : Nat) :
    (fsExec fs ((fsTraceF chunks ok f).take n)).path = fs.path ∨
    (ok = true ∧ (fsExec fs ((fsTraceF chunks ok f).take n)).path = some chunks.flatten) := by
  have hs := RenSafe_prefix _ fs.tmp ((fsTraceF chunks ok f).take n) ((fsTraceF chunks ok f).drop n)
    (by rw [List.take_append_drop]; exact fsTraceF_safe chunks ok f fs.tmp)
  rcases fs_safe _ _ fs hs with h | ⟨x, ⟨hok, hx⟩, h⟩
  · exact Or.inl h
  · exact Or.inr ⟨hok, by rw [h, hx]⟩

/-- **concurrent_writers_disk_complete.** Any number of `refreshFromURL` calls for the same cache
path at the same time (the periodic worker and the debug API; writer `w` receives the chunks
`chunks w`, its download ends with the verdict `ok w`, its file system calls fail as `fault w`
says), every one with a temporary file of its own, under ANY schedule and cut off at ANY point
(`tr` is a schedule whose projection to each writer is a prefix of that writer's step sequence):
the cache path holds what it held before, or the complete document of a writer whose download
succeeded — never a mixture, never a part. -/
theorem concurrent_writers_disk_complete {α : Type} (fs : MFs α) (chunks : Nat → List (List α))
    (ok : Nat → Bool) (fault : Nat → FsFault) (tr : List (Nat × FsStep α))
    (hproj : ∀ w, proj w tr <+: fsTraceF (chunks w) (ok w) (fault w)) :
    (mfsExec fs tr).path = fs.path ∨
    ∃ w, ok w = true ∧ (mfsExec fs tr).path = some (chunks w).flatten := by
  have hs : ∀ w, RenSafe (fun x => ∃ v, ok v = true ∧ x = (chunks v).flatten) (fs.tmp w) (proj w tr) := by
    intro w
    obtain ⟨q, hq⟩ := hproj w
    apply RenSafe_mono (fun x => ok w = true ∧ x = (chunks w).flatten)
    · intro x hx; exact ⟨w, hx⟩
    · apply RenSafe_prefix _ _ _ q
      rw [hq]
      exact fsTraceF_safe (chunks w) (ok w) (fault w) (fs.tmp w)
  rcases mfs_safe _ tr fs hs with h | ⟨x, ⟨v, hv, hx⟩, h⟩
  · exact Or.inl h
  · exact Or.inr ⟨v, hv, by rw [h, hx]⟩

/-- **concurrent_kill_point_file.** The same with the branch of every writer tied to what
`refreshFromURL` decided about its response: the cache path holds what it held or the bytes of a
document that a server OFFERED completely to one of the writers. -/
theorem concurrent_kill_point_file {α : Type} (E : Env) (max : Nat) (r : Nat → Resp)
    (bytes : Nat → List α) (fs : MFs α) (chunks : Nat → List (List α)) (fault : Nat → FsFault)
    (tr : List (Nat × FsStep α))
    (hch : ∀ w c, fromURL E max (r w) = some c → (chunks w).flatten = bytes c)
    (hproj : ∀ w, proj w tr <+: fsTraceF (chunks w) (fromURL E max (r w)).isSome (fault w)) :
    (mfsExec fs tr).path = fs.path ∨
    ∃ w c, Offers E max (r w) c ∧ (mfsExec fs tr).path = some (bytes c) := by
  rcases concurrent_writers_disk_complete fs chunks (fun w => (fromURL E max (r w)).isSome) fault tr hproj
    with h | ⟨w, hok, h⟩
  · exact Or.inl h
  · cases hu : fromURL E max (r w) with
    | none => simp [hu] at hok
    | some c =>
      exact Or.inr ⟨w, c, fromURL_some E max (r w) c hu, by rw [h, hch w c hu]⟩

/-- Two writers, interleaved; the second to rename wins, with its complete document. -/
def twoWriters : List (Nat × FsStep Nat) :=
  [(0, .createTemp), (1, .createTemp), (0, .write [1]), (1, .write [3]), (0, .write [2]),
   (1, .write [4]), (1, .rename), (0, .rename), (1, .chtimes)]

example : ∀ w, proj w twoWriters <+:
    fsTraceF ((fun w => if w = 0 then [[1], [2]] else if w = 1 then [[3], [4]] else []) w)
      ((fun w => decide (w ≤ 1)) w) ((fun _ => FsFault.none) w) := by
  intro w
  match w with
  | 0 => exact ⟨[.chtimes], rfl⟩
  | 1 => exact ⟨[], rfl⟩
  | (n + 2) => exact ⟨_, by simp [proj, twoWriters]; rfl⟩

example : (mfsExec ⟨some [9], fun _ => none⟩ twoWriters).path = some [1, 2] := by decide
example : (mfsExec ⟨some [9], fun _ => none⟩ (twoWriters.take 7)).path = some [3, 4] := by decide
example : (mfsExec ⟨some [9], fun _ => none⟩ (twoWriters.take 6)).path = some [9] := by decide

/-- **shared_temp_name_mixes_documents_counterexample.** Why the temporary file must be the
writer's own (`renameio.TempFile`: `O_EXCL`, random name): were it a fixed name next to the cache
path, two simultaneous refreshes would write into the same file — modelled by giving both the
writer number 0 — and the cache file would end up as a mixture of the two documents `[1, 2]` and
`[3, 4]`, equal to neither and not what it held before. -/
theorem shared_temp_name_mixes_documents_counterexample :
    let tr : List (Nat × FsStep Nat) :=
      [(0, .createTemp), (0, .write [1]), (0, .createTemp), (0, .write [3]), (0, .write [2]), (0, .rename)]
    (mfsExec ⟨some [9], fun _ => none⟩ tr).path = some [3, 2] ∧
    ¬ ((mfsExec ⟨some [9], fun _ => none⟩ tr).path = some [9] ∨
       (mfsExec ⟨some [9], fun _ => none⟩ tr).path = some [1, 2] ∨
       (mfsExec ⟨some [9], fun _ => none⟩ tr).path = some [3, 4]) := by
  decide

example : (fsExec ⟨some [9], none⟩ ((fsTraceF [[1, 2], [3]] true (.writeFails 1 0)).take 3)).tmp = some [1, 2] := by decide
example : (fsExec (α := Nat) ⟨some [9], none⟩ (fsTraceF [[1, 2], [3]] true (.writeFails 1 0))) = ⟨some [9], none⟩ := rfl
example : (fsExec (α := Nat) ⟨some [9], none⟩ (fsTraceF [[1, 2], [3]] true .replaceFails)) = ⟨some [9], some [1, 2, 3]⟩ := rfl

/-! ## Fifth deepening: all histories of whole rounds (with the safe-search filters) -/

/-- A history of whole rounds (`Default.refresh` with the safe-search filters). -/
def runFull (E : Env) (cfg : Cfg) (p : St × SSt) (rs : List (Round × SRound)) : St × SSt :=
  rs.foldl (fun p r => (refreshFull E cfg p.1 p.2 r.1 r.2).1) p

/-- The documents the two safe-search filters show: served or lying in their cache files. -/
def SsVisible (ss : SSt) (c : Nat) : Prop :=
  ss.gen.mem = some c ∨ ss.gen.disk = some c ∨ ss.yt.mem = some c ∨ ss.yt.disk = some c

/-- A safe-search server offered `c` completely in the round. -/
def SsOfferedIn (E : Env) (SR : SRound) (c : Nat) : Prop :=
  Offers E SR.max SR.genResp c ∨ Offers E SR.max SR.ytResp c

theorem rl_visible_step (E : Env) (max : Nat) (a : Bool) (s : HSt) (f : Bool) (r : Resp) (c : Nat)
    (h : (refreshRL E max a s f r).1.mem = some c ∨ (refreshRL E max a s f r).1.disk = some c) :
    (s.mem = some c ∨ s.disk = some c) ∨ Offers E max r c := by
  have ho := ss_old_or_new E max a s f r
  rcases h with h | h
  · rcases ho.1 with h1 | ⟨d, h1, h2⟩
    · rw [h1] at h; exact Or.inl (Or.inl h)
    · rw [h1] at h; cases h
      rcases h2 with h2 | h2
      · exact Or.inl (Or.inr h2)
      · exact Or.inr h2
  · rcases ho.2 with h1 | ⟨d, h1, h2⟩
    · rw [h1] at h; exact Or.inl (Or.inr h)
    · rw [h1] at h; cases h; exact Or.inr h2

theorem ss_visible_step (E : Env) (SR : SRound) (a : Bool) (ss : SSt) (c : Nat)
    (h : SsVisible (ssPart E SR a ss).1 c) : SsVisible ss c ∨ SsOfferedIn E SR c := by
  unfold ssPart at h
  have hg : ∀ g : HSt × Bool, g = (if SR.genOn then refreshRL E SR.max a ss.gen SR.genFresh SR.genResp
      else (ss.gen, true)) → (g.1.mem = some c ∨ g.1.disk = some c) →
      (ss.gen.mem = some c ∨ ss.gen.disk = some c) ∨ Offers E SR.max SR.genResp c := by
    intro g hg hv
    by_cases hon : SR.genOn = true
    · rw [if_pos hon] at hg; subst hg
      exact rl_visible_step E SR.max a ss.gen SR.genFresh SR.genResp c hv
    · rw [if_neg hon] at hg; subst hg; exact Or.inl hv
  have hy : ∀ y : HSt × Bool, y = (if SR.ytOn then refreshRL E SR.max a ss.yt SR.ytFresh SR.ytResp
      else (ss.yt, true)) → (y.1.mem = some c ∨ y.1.disk = some c) →
      (ss.yt.mem = some c ∨ ss.yt.disk = some c) ∨ Offers E SR.max SR.ytResp c := by
    intro y hy hv
    by_cases hon : SR.ytOn = true
    · rw [if_pos hon] at hy; subst hy
      exact rl_visible_step E SR.max a ss.yt SR.ytFresh SR.ytResp c hv
    · rw [if_neg hon] at hy; subst hy; exact Or.inl hv
  generalize hgd : (if SR.genOn = true then refreshRL E SR.max a ss.gen SR.genFresh SR.genResp
      else (ss.gen, true)) = g at h
  generalize hyd : (if SR.ytOn = true then refreshRL E SR.max a ss.yt SR.ytFresh SR.ytResp
      else (ss.yt, true)) = y at h
  have hG := hg g hgd.symm
  have hY := hy y hyd.symm
  by_cases hg2 : g.2 = true
  · simp only [hg2, if_true] at h
    rcases h with h | h | h | h
    · rcases hG (Or.inl h) with (h1 | h1) | h1
      · exact Or.inl (Or.inl h1)
      · exact Or.inl (Or.inr (Or.inl h1))
      · exact Or.inr (Or.inl h1)
    · rcases hG (Or.inr h) with (h1 | h1) | h1
      · exact Or.inl (Or.inl h1)
      · exact Or.inl (Or.inr (Or.inl h1))
      · exact Or.inr (Or.inl h1)
    · rcases hY (Or.inl h) with (h1 | h1) | h1
      · exact Or.inl (Or.inr (Or.inr (Or.inl h1)))
      · exact Or.inl (Or.inr (Or.inr (Or.inr h1)))
      · exact Or.inr (Or.inr h1)
    · rcases hY (Or.inr h) with (h1 | h1) | h1
      · exact Or.inl (Or.inr (Or.inr (Or.inl h1)))
      · exact Or.inl (Or.inr (Or.inr (Or.inr h1)))
      · exact Or.inr (Or.inr h1)
  · simp only [hg2] at h
    rcases h with h | h | h | h
    · rcases hG (Or.inl h) with (h1 | h1) | h1
      · exact Or.inl (Or.inl h1)
      · exact Or.inl (Or.inr (Or.inl h1))
      · exact Or.inr (Or.inl h1)
    · rcases hG (Or.inr h) with (h1 | h1) | h1
      · exact Or.inl (Or.inl h1)
      · exact Or.inl (Or.inr (Or.inl h1))
      · exact Or.inr (Or.inl h1)
    · exact Or.inl (Or.inr (Or.inr (Or.inl h)))
    · exact Or.inl (Or.inr (Or.inr (Or.inr h)))

theorem full_ss_visible_step (E : Env) (cfg : Cfg) (s : St) (ss : SSt) (R : Round) (SR : SRound)
    (c : Nat) (h : SsVisible (refreshFull E cfg s ss R SR).1.2 c) :
    SsVisible ss c ∨ SsOfferedIn E SR c := by
  unfold refreshFull at h
  simp only [] at h
  split at h
  · split at h
    · exact ss_visible_step E SR R.acceptStale ss c h
    · exact ss_visible_step E SR R.acceptStale ss c h
  · exact Or.inl h

/-- **never_visible_incomplete_full.** The independent specification over every history of WHOLE
rounds (index, rule lists, services, both safe-search filters; any faults anywhere; restarts in
between): every document that a rule list, the services or a safe-search filter serves, or that
lies in any of their cache files, was there initially or was offered completely by a server in
some round of the history. -/
theorem never_visible_incomplete_full (E : Env) (cfg : Cfg) (hfix : cfg.keepInvalid = true)
    (rs : List (Round × SRound)) (init : Nat → Prop) (p : St × SSt)
    (h0 : ∀ c, Visible p.1 c ∨ SsVisible p.2 c → init c) (c : Nat)
    (h : Visible (runFull E cfg p rs).1 c ∨ SsVisible (runFull E cfg p rs).2 c) :
    init c ∨ ∃ r ∈ rs, OfferedIn E cfg r.1 c ∨ SsOfferedIn E r.2 c := by
  induction rs generalizing p init with
  | nil => exact Or.inl (h0 c h)
  | cons r rs ih =>
    have hstep : ∀ c, Visible (refreshFull E cfg p.1 p.2 r.1 r.2).1.1 c ∨
        SsVisible (refreshFull E cfg p.1 p.2 r.1 r.2).1.2 c →
        (init c ∨ (OfferedIn E cfg r.1 c ∨ SsOfferedIn E r.2 c)) := by
      intro c hc
      rcases hc with hc | hc
      · rcases full_visible_step E cfg hfix p.1 p.2 r.1 r.2 c hc with h1 | h1
        · exact Or.inl (h0 c (Or.inl h1))
        · exact Or.inr (Or.inl h1)
      · rcases full_ss_visible_step E cfg p.1 p.2 r.1 r.2 c hc with h1 | h1
        · exact Or.inl (h0 c (Or.inr h1))
        · exact Or.inr (Or.inr h1)
    have := ih (fun c => init c ∨ (OfferedIn E cfg r.1 c ∨ SsOfferedIn E r.2 c))
      (refreshFull E cfg p.1 p.2 r.1 r.2).1 hstep (by simpa [runFull] using h)
    rcases this with (h1 | h1) | ⟨r', hr', h1⟩
    · exact Or.inl h1
    · exact Or.inr ⟨r, by simp, h1⟩
    · exact Or.inr ⟨r', by simp [hr'], h1⟩

example : SsVisible (runFull ssEnv (cexCfg true) (cexSt, ssS) [(ssRound, ssSR (.resp 200 8 false true))]).2 8 :=
  Or.inl (by decide)
example : (runFull ssEnv (cexCfg true) (cexSt, ssS)
    [(ssRound, ssSR (.resp 503 8 false true)), (ssRound, ssSR (.resp 200 8 false true))]).1.rl 7 = some 9 := by
  decide


end Agd.Refresh

#print axioms Agd.Refresh.failed_download_keeps_previous
#print axioms Agd.Refresh.download_old_or_new
#print axioms Agd.Refresh.index_fault_changes_nothing
#print axioms Agd.Refresh.index_fault_changes_nothing_of_faulty
#print axioms Agd.Refresh.failed_list_keeps_previous
#print axioms Agd.Refresh.every_list_old_or_new
#print axioms Agd.Refresh.named_list_never_dropped
#print axioms Agd.Refresh.invalid_entry_drops_list_counterexample
#print axioms Agd.Refresh.index_order_irrelevant
#print axioms Agd.Refresh.round_order_irrelevant
#print axioms Agd.Refresh.early_exit_drops_list_counterexample
#print axioms Agd.Refresh.storage_svc_cases
#print axioms Agd.Refresh.svc_failed_keeps_previous
#print axioms Agd.Refresh.svc_invalid_entries_keep_previous
#print axioms Agd.Refresh.refresh_never_panics
#print axioms Agd.Refresh.null_service_entry_panics_counterexample
#print axioms Agd.Refresh.svc_old_or_new
#print axioms Agd.Refresh.valid_service_index_applied
#print axioms Agd.Refresh.hash_failed_keeps_previous
#print axioms Agd.Refresh.hash_old_or_new
#print axioms Agd.Refresh.disk_always_complete
#print axioms Agd.Refresh.restart_uses_stored_document
#print axioms Agd.Refresh.valid_entries_applied
#print axioms Agd.Refresh.valid_entry_downloaded
#print axioms Agd.Refresh.never_serves_incomplete
#print axioms Agd.Refresh.visible_step
#print axioms Agd.Refresh.never_visible_incomplete
#print axioms Agd.Refresh.restart_visible
#print axioms Agd.Refresh.hash_never_incomplete
#print axioms Agd.Refresh.kill_point_file
#print axioms Agd.Refresh.kill_between_lists
#print axioms Agd.Refresh.take_filter_prefix
#print axioms Agd.Refresh.addUntilCancel_prefix
#print axioms Agd.Refresh.cancelled_round_safe
#print axioms Agd.Refresh.raw_sort_irrelevant
#print axioms Agd.Refresh.raw_round_order_irrelevant
#print axioms Agd.Refresh.sort_raw_spec
#print axioms Agd.Refresh.id_valid_iff
#print axioms Agd.Refresh.accepted_key_names_private_file
#print axioms Agd.Refresh.rule_lists_never_touch_reserved_files
#print axioms Agd.Refresh.reserved_key_overwrites_services_counterexample
#print axioms Agd.Refresh.foreign_services_file_stops_every_start
#print axioms Agd.Refresh.ss_failed_keeps_previous
#print axioms Agd.Refresh.ss_old_or_new
#print axioms Agd.Refresh.full_round_frame
#print axioms Agd.Refresh.storage_error_keeps_rule_lists
#print axioms Agd.Refresh.full_error_keeps_rule_lists
#print axioms Agd.Refresh.full_visible_step
#print axioms Agd.Refresh.mistyped_entries_never_refuse_index
#print axioms Agd.Refresh.valid_entries_applied_next_to_mistyped
#print axioms Agd.Refresh.mistyped_entry_refuses_index_counterexample
#print axioms Agd.Refresh.fs_fault_keeps_cache_file
#print axioms Agd.Refresh.disk_complete_under_fs_faults
#print axioms Agd.Refresh.concurrent_writers_disk_complete
#print axioms Agd.Refresh.concurrent_kill_point_file
#print axioms Agd.Refresh.shared_temp_name_mixes_documents_counterexample
#print axioms Agd.Refresh.rl_visible_step
#print axioms Agd.Refresh.ss_visible_step
#print axioms Agd.Refresh.full_ss_visible_step
#print axioms Agd.Refresh.never_visible_incomplete_full
#print axioms Agd.Tie.TrC13.translation_complete
#print axioms Agd.Tie.TrC13.cleanup_or_replace
#print axioms Agd.Tie.TrC13.replace_only_after_complete_download
#print axioms Agd.Tie.TrC13.empty_body_rejected
#print axioms Agd.Tie.TrC13.url_only_when_cache_is_stale
#print axioms Agd.Tie.TrC13.file_missing_is_empty_success
#print axioms Agd.Tie.TrC13.file_closed_exactly_once
#print axioms Agd.Tie.TrC13.file_text_only_from_complete_fresh_read
#print axioms Agd.Tie.TrC13.stale_cache_not_read
#print axioms Agd.Tie.TrC13.refresh_dispatch
#print axioms Agd.Tie.TrC13.file_url_reads_only_that_file
#print axioms Agd.Tie.TrC13.cache_read_first_with_callers_staleness
#print axioms Agd.Tie.TrC13.stale_cache_goes_to_url
#print axioms Agd.Tie.TrC13.fresh_cache_never_downloads
#print axioms Agd.Tie.TrC13.cache_error_stops_refresh
#print axioms Agd.Tie.TrC13.fromFile_tr
#print axioms Agd.Tie.TrC13.url_consulted_iff_model_cache_miss
#print axioms Agd.Tie.TrC13.fromURL_tr
