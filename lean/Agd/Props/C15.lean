import Agd.Tie.TrC15
import Agd.Lemmas.Record
import Agd.Tie.C15
/-!
# C15 — only opted-in profiles are logged, and each log line is one intact record

Property theorems only.  Helper lemmas live in `Agd/Lemmas/Record.lean`.  The model (`serve`,
`encodeLine`, `FS`) is a pure function of the single request resp. entry, so "describes its own
request" is a statement about which inputs the entry's fields are copied from.
-/
namespace Agd.Record

/-- **logged_only_if_opted_in.** Whatever the device result, access settings, limiter verdicts,
filter results, responses and failures are: a log entry exists only if the query was attributed to a
profile (`DeviceResultOK`) whose query logging is enabled, the entry carries that profile's and
device's IDs, and it contains a client address only if that profile has IP logging enabled. -/
theorem logged_only_if_opted_in (q : Req) (e : Entry) (h : (serve q).log = some e) :
    ∃ p d, q.dev = .ok p d ∧ p.qlog = true ∧ (e.ip ≠ none → p.iplog = true) ∧ e.prof = p.id ∧ e.dev = d := by
  obtain ⟨p, d, h1, h2, h3, h4, h5, _⟩ := serve_log_inv q e h
  exact ⟨p, d, h1, h2, h3, h4, h5⟩

def exProf : Prof := ⟨[112], true, false⟩
def exReq : Req :=
  { port0 := false, dev := .ok exProf [100], globBlockIP := false, globBlockHost := false, profBlock := false, badECS := false,
    rlDrop := false, profRl := 0, special := false, debug := false, adWanted := false, ctxErr := false, upErr := false,
    writeErr := false, reqRes := ⟨.blocked, [108], [109]⟩, respRes := FRes.nil, blockErr := false, name := [97, 46],
    qtype := 1, proto := 8, remoteIP := [49], reqId := [117], startMs := 5, elapsedMs := 0, loc := some ([82, 85], 7),
    orig := ⟨0, false, .addr⟩, blockedResp := ⟨0, false, .unspec⟩, modResp := ⟨0, false, .none⟩, geoCtry := [85, 83] }

/-- Non-vacuity: an opted-in profile is logged (without address, IP logging being off), and with
IP logging on the address is there. -/
example : ((serve exReq).log.map (·.ip)) = some none ∧ ((serve exReq).log.map (·.rcode)) = some 0 ∧
    ((serve { exReq with dev := .ok ⟨[112], true, true⟩ [100] }).log.map (·.ip)) = some (some [49]) := by
  decide

/-- **billing_only_if_profile.** A billing record exists only for a query attributed to a profile,
and it names that query's device and protocol. -/
theorem billing_only_if_profile (q : Req) (b : Bill) (h : (serve q).bill = some b) :
    ∃ p d, q.dev = .ok p d ∧ b.dev = d ∧ b.proto = q.proto := by
  obtain ⟨p, d, h1, h2, h3, _⟩ := serve_bill_inv q b h
  exact ⟨p, d, h1, h2, h3⟩

example : ((serve exReq).bill.map (·.dev)) = some [100] ∧
    (serve { exReq with dev := .ok ⟨[112], false, false⟩ [100] }).bill.isSome = true ∧
    (serve { exReq with dev := .ok ⟨[112], false, false⟩ [100] }).log = none := by decide

/-- The query was not attributed (anonymous, authentication failure, unknown dedicated address,
lookup error) or it was dropped (spoofed port, rate limiter) or access-blocked (globally by address
or by name, or by the profile's access settings, or by the profile's own or the global rate limiter on
plain DNS), or it carried a malformed ECS option and was answered FORMERR. -/
def NotServedForProfile (q : Req) : Prop :=
  q.dev.data = none ∨ q.port0 = true ∨ q.globBlockIP = true ∨ q.globBlockHost = true ∨ q.profBlock = true ∨
    rlDropEff q = true ∨ q.badECS = true

/-- **anonymous_dropped_blocked_never_logged.** Such queries produce neither a log entry nor a
billing record. -/
theorem anonymous_dropped_blocked_never_logged (q : Req) (h : NotServedForProfile q) :
    (serve q).log = none ∧ (serve q).bill = none := by
  constructor
  · cases hl : (serve q).log with
    | none => rfl
    | some e =>
      obtain ⟨p, d, h1, _, _, _, _, h6, h7, h8, h9, hbe, h10, _⟩ := serve_log_inv q e hl
      unfold NotServedForProfile at h
      simp_all [DevRes.data]
  · cases hb : (serve q).bill with
    | none => rfl
    | some b =>
      obtain ⟨p, d, h1, _, _, h6, h7, h8, h9, hbe, h10⟩ := serve_bill_inv q b hb
      unfold NotServedForProfile at h
      simp_all [DevRes.data]

example : NotServedForProfile { exReq with dev := .authFail } ∧ NotServedForProfile { exReq with rlDrop := true } ∧
    NotServedForProfile { exReq with profBlock := true } ∧ (serve { exReq with profBlock := true }).resp = none := by
  refine ⟨by simp [NotServedForProfile, DevRes.data], ?_, by simp [NotServedForProfile], by decide⟩
  unfold NotServedForProfile
  exact Or.inr (Or.inr (Or.inr (Or.inr (Or.inr (Or.inl (by decide))))))

/-- A response code that fits a DNS message: 4 header bits and 8 extended bits in the OPT record
(`miekg/dns` refuses to pack anything larger). -/
def WireRcode (rc : Nat) : Prop := rc ≤ 4095

/-- `uint16(resp.Rcode)` is the identity on every RCODE a message can carry, the extended ones
(BADVERS 16 … BADCOOKIE 23 … 4095) included. -/
theorem rcode16_wire (rc : Nat) (h : WireRcode rc) : rcode16 rc = rc := by
  unfold WireRcode at h; unfold rcode16; omega

/-- **entry_describes_request.** The entry's name, type, protocol, request ID and time are the
request's own; its verdicts are the results the filter returned for this request (no response
verdict after a CNAME rewrite); its response code is that of the response computed for this
request (through the `uint16` conversion of the code: exactly that code whenever it fits a DNS
message, extended RCODEs included), which is also the code of whatever response the client's writer
received; a logged address is the request's remote address.  Debug (CHAOS) queries and queries whose
processing failed are not logged. -/
theorem entry_describes_request (q : Req) (e : Entry) (h : (serve q).log = some e) :
    e.name = q.name ∧ e.qtype = q.qtype ∧ e.proto = q.proto ∧ e.reqId = q.reqId ∧ e.timeMs = q.startMs ∧
    e.reqRes = q.reqRes ∧ e.respRes = respResOf q ∧ e.rcode = rcode16 (filteredResp q).rcode ∧
    (WireRcode (filteredResp q).rcode → e.rcode = (filteredResp q).rcode) ∧
    (∀ a, e.ip = some a → a = q.remoteIP) ∧
    (∀ r, (serve q).resp = some r → rcode16 r.rcode = e.rcode ∧ (WireRcode r.rcode → r.rcode = e.rcode)) ∧
    q.debug = false ∧ q.ctxErr = false ∧ q.upErr = false ∧ q.special = false := by
  obtain ⟨p, d, hd, hq, _, _, _, h6, h7, h8, h9, hbe, h10, h11, h12, h13, h14, h15, h16, h17, h18, h19, h20, h21, h22, h23⟩ :=
    serve_log_inv q e h
  refine ⟨h15, h16, h17, h21, h22, h18, h19, h20, ?_, h23, ?_, h12, h13, h14, h11⟩
  · intro hw; rw [h20, rcode16_wire _ hw]
  intro r hr
  rw [h20]
  simp only [serve, h6, h7, h8, h9, hbe, h10, h11, hd, initialmw, mainmw, h12, h13, h14, record, DevRes.data, hq] at hr
  split at hr
  · simp at hr
  · simp at hr
    rw [← hr.2]
    exact ⟨rfl, fun hw => (rcode16_wire _ hw).symm⟩

/-- Non-vacuity of the response-code clause at the points a four-bit reading of the RCODE gets wrong:
an upstream answer with BADCOOKIE (23) resp. the largest extended code is logged with exactly that code;
only a code no message can carry is cut to 16 bits. -/
example : (serve { exReq with reqRes := FRes.nil, orig := ⟨23, false, .none⟩ }).log.map (·.rcode) = some 23 ∧
    (serve { exReq with reqRes := FRes.nil, orig := ⟨4095, false, .none⟩ }).log.map (·.rcode) = some 4095 ∧
    (serve { exReq with reqRes := FRes.nil, orig := ⟨65539, false, .none⟩ }).log.map (·.rcode) = some 3 ∧
    WireRcode 23 := by
  refine ⟨by decide, by decide, by decide, by unfold WireRcode; omega⟩

example : (serve exReq).log.map (fun e => (e.name, e.qtype, e.proto, e.rcode, (resultData e.reqRes e.respRes).1)) =
    some ([97, 46], 1, 8, 0, 2) := by decide

/-- **result_code_table.** The `f`, `l`, `m` properties follow doc/querylog.md: 2/4/6 with the
request rule when the request matched; otherwise 3/5/6 with the response rule; 1 and no rule when
nothing matched. -/
theorem result_code_table (req resp : FRes) :
    (req.kind = .blocked → resultData req resp = (2, req.list, req.rule)) ∧
    (req.kind = .allowed → resultData req resp = (4, req.list, req.rule)) ∧
    (req.kind = .modResp ∨ req.kind = .modReq → resultData req resp = (6, req.list, req.rule)) ∧
    (req.kind = .none → resp.kind = .blocked → resultData req resp = (3, resp.list, resp.rule)) ∧
    (req.kind = .none → resp.kind = .allowed → resultData req resp = (5, resp.list, resp.rule)) ∧
    (req.kind = .none → resp.kind = .none → resultData req resp = (1, [], [])) := by
  refine ⟨?_, ?_, ?_, ?_, ?_, ?_⟩
  · intro h; simp [resultData, toResultCode, h]
  · intro h; simp [resultData, toResultCode, h]
  · intro h; rcases h with h | h <;> simp [resultData, toResultCode, h]
  · intro h h'; simp [resultData, toResultCode, h, h']
  · intro h h'; simp [resultData, toResultCode, h, h']
  · intro h h'; simp [resultData, toResultCode, h, h']

example : resultData FRes.nil ⟨.blocked, [108], [109]⟩ = (3, [108], [109]) := by decide

/-- **line_is_one_line.** For every entry, whatever bytes its strings contain (quotes, line
feeds, invalid UTF-8, ...), the encoded record is `{ … }` followed by exactly one line feed, and
no byte before that line feed is a control character (< 0x20): the record is exactly one line. -/
theorem line_is_one_line (e : Entry) (rn : Nat) :
    ∃ body, encodeLine e rn = body ++ [10] ∧ (∀ c ∈ body, 32 ≤ c) ∧ body.head? = some 123 ∧
      body.getLast? = some 125 := by
  refine ⟨renderObj (fieldsOf e rn), rfl, renderObj_ge _ (fieldsOf_keys e rn), ?_, ?_⟩
  · simp [renderObj]
  · have hl : ∀ (l : Str) (a : Nat), (l ++ [a]).getLast? = some a := by intro l a; simp
    exact hl (123 :: renderFields (fieldsOf e rn)) 125

def exEntry : Entry :=
  { ip := some [49], reqRes := FRes.nil, respRes := FRes.nil, timeMs := -5, reqId := [117], prof := [34, 10, 255],
    dev := [100], cc := [], rc := [], name := [97, 10, 226, 128, 168], elapsedMs := -1, asn := 0, qtype := 1,
    rcode := 0, proto := 8, dnssec := false }

example : esc [34, 10, 255] = [92, 34, 92, 110, 92, 117, 102, 102, 102, 100] := by
  simp [esc, escAscii, badSeq]

/-- **esc_no_control_bytes.** The JSON string escaper never emits a byte below 0x20 — in
particular no line feed or carriage return — for any input byte string. -/
theorem esc_no_control_bytes (s : Str) : ∀ c ∈ esc s, 32 ≤ c := esc_ge s

/-- **file_is_lines.** For every set of concurrent `Write` calls and EVERY schedule of their steps
(pool hand-outs included; `sync.Pool` may hand out any pooled buffer or allocate; any `Write` may fail
at `os.OpenFile` and return its buffer without having written), with the append
of one buffer atomic: the file is the concatenation of the complete records of exactly the writers
that have performed their append, each once, in append order; nothing else is ever in the file. -/
theorem file_is_lines (J : Jobs) (ops : List (Nat × Option Nat)) :
    let s := FS.run J {} ops
    s.file = (s.order.map (lineOf J)).flatten ∧ s.order.Nodup ∧ (∀ i, i ∈ s.order ↔ (s.pc i = 4 ∨ s.pc i = 5)) ∧
      (∀ i ∈ s.order, ∃ job, J i = some job ∧ lineOf J i = encodeLine job.1 job.2) := by
  intro s
  have h := inv_run J ops {} (inv_init J)
  refine ⟨h.file, h.ordND, h.ord, ?_⟩
  intro i hi
  have h4 := (h.ord i).mp hi
  have hs := h.started i (by rcases h4 with h4 | h4 <;> rw [h4] <;> decide)
  cases hj : J i with
  | none => simp [hj] at hs
  | some job => exact ⟨job, rfl, lineOf_some J i job hj⟩

/-- Non-vacuity: two writers interleaved step by step, the second reusing nothing, the first one's
buffer being reused by a third call. -/
example :
    let J : Jobs := fun i => if i < 3 then some (exEntry, i) else none
    let s := FS.run J {} [(0, none), (1, none), (0, none), (1, none), (1, none), (0, none), (1, none), (0, none),
      (0, none), (2, some 0), (2, none), (2, none), (2, none), (1, none), (2, none)]
    s.order = [1, 0, 2] ∧ s.nbufs = 2 ∧ s.pc 2 = 5 ∧ s.hold 2 = 0 := by
  decide

/-- **failed_writes_leave_nothing.** Under every schedule: a `Write` that failed to open the file
(states 6, 7) or whose `write(2)` failed after the record had been encoded into the pooled buffer
(states 8, 9: no space left; round 4) has no record in the file — and never will (`order` only grows by appends) — while every
`Write` that returned successfully (state 5) has its record there, once; the buffers the failed calls
return to the pool do not damage later records (`file_is_lines` holds for the same runs). -/
theorem failed_writes_leave_nothing (J : Jobs) (ops : List (Nat × Option Nat)) :
    let s := FS.run J {} ops
    (∀ i, s.pc i = 6 ∨ s.pc i = 7 ∨ s.pc i = 8 ∨ s.pc i = 9 → i ∉ s.order) ∧ (∀ i, s.pc i = 5 → i ∈ s.order) ∧
      s.order.Nodup ∧ s.file = (s.order.map (lineOf J)).flatten := by
  intro s
  obtain ⟨hf, hnd, hord, _⟩ := file_is_lines J ops
  refine ⟨?_, ?_, hnd, hf⟩
  · intro i hi hm
    have h45 := (hord i).mp hm
    rcases hi with hi | hi | hi | hi <;> rcases h45 with h45 | h45 <;> rw [hi] at h45 <;> cases h45
  · intro i hi
    exact (hord i).mpr (Or.inr hi)

/-- Non-vacuity: writer 0 fails to open the file and returns its buffer; writer 1 gets that very
buffer and writes; writer 2 fails while 1 is between encoding and appending.  The file is exactly
writer 1's record (`order = [1]` and `file_is_lines`). -/
example :
    let J : Jobs := fun i => if i < 3 then some (exEntry, i) else none
    let s := FS.run J {} [(0, none), (0, none), (0, some 0), (0, none), (1, some 0), (1, none), (1, none),
      (2, none), (2, none), (2, some 1), (1, none), (2, none), (1, none)]
    s.pc 0 = 7 ∧ s.pc 2 = 7 ∧ s.pc 1 = 5 ∧ s.hold 1 = 0 ∧ s.hold 2 = 1 ∧ s.nbufs = 2 ∧ s.order = [1] := by
  decide

/-- **file_splits_into_records.** Splitting the file at line feeds gives back exactly the record
bodies, one per appended request, followed by the empty remainder: no partial or merged lines. -/
theorem file_splits_into_records (J : Jobs) (ops : List (Nat × Option Nat)) :
    let s := FS.run J {} ops
    splitLines s.file = s.order.map (fun i => (lineOf J i).dropLast) ++ [[]] := by
  intro s
  obtain ⟨hf, _, _, hjobs⟩ := file_is_lines J ops
  show splitLines s.file = _
  rw [show s.file = (s.order.map (lineOf J)).flatten from hf]
  have key : ∀ l : List Nat, (∀ i ∈ l, ∃ job, J i = some job ∧ lineOf J i = encodeLine job.1 job.2) →
      splitLines ((l.map (lineOf J)).flatten) = l.map (fun i => (lineOf J i).dropLast) ++ [[]] := by
    intro l
    induction l with
    | nil => intro _; simp [splitLines]
    | cons i r ih =>
      intro hl
      obtain ⟨job, _, hline⟩ := hl i (by simp)
      obtain ⟨body, hb, hge, _, _⟩ := line_is_one_line job.1 job.2
      have hne : ∀ c ∈ body, c ≠ 10 := fun c hc => by have := hge c hc; omega
      simp only [List.map_cons, List.flatten_cons, List.cons_append]
      rw [hline, hb, List.append_assoc]
      simp only [List.singleton_append]
      rw [splitLines_line body _ hne, ih (fun x hx => hl x (List.mem_cons_of_mem _ hx))]
      simp
  exact key _ hjobs

/-- **line_integrity.** (full; replaces the former `_partial`.)  An independent strict reader of
one-line flat JSON objects (`lexLine`: strings end at the first unescaped quote, only legal escapes,
no raw control bytes, members separated by commas, one closing brace, one line feed, nothing after
it) accepts every encoded record, for every entry and all byte strings in it, and reads back
exactly the members that were encoded, in order: nothing a name, rule or ID contains can end a
string early, forge a member or split the record. -/
theorem line_integrity (e : Entry) (rn : Nat) :
    lexLine (encodeLine e rn) = some ((fieldsOf e rn).map tokOf) :=
  lexLine_render (fieldsOf e rn) (fieldsOf_ne e rn) (fieldsOf_clean e rn)

/-- Non-vacuity: a hostile name that tries to close the string and forge an `ip` member is read
back as one `n` member; the reader rejects the same text when it is not escaped. -/
example : lexLine (encodeLine { exEntry with ip := none, name := [34, 44, 34, 105, 112, 34, 58, 34, 54] } 7) =
      some ((fieldsOf { exEntry with ip := none, name := [34, 44, 34, 105, 112, 34, 58, 34, 54] } 7).map tokOf) ∧
    lexLine [123, 34, 110, 34, 58, 34, 10, 34, 125, 10] = none ∧
    lexLine [123, 34, 110, 34, 58, 34, 97, 34, 125, 10] = some [([110], .str [97])] := by
  refine ⟨line_integrity _ _, by decide, by decide⟩

/-- **line_ip_member_iff.** What a reader of the line sees: it has an `ip` member exactly when the
entry carries a client address, and then its value is that address. -/
theorem line_ip_member_iff (e : Entry) (rn : Nat) (toks : List (Str × Tok))
    (h : lexLine (encodeLine e rn) = some toks) :
    (∀ t, ([105, 112], t) ∈ toks ↔ ∃ a, e.ip = some a ∧ t = .str (esc a)) := by
  rw [line_integrity] at h
  simp only [Option.some.injEq] at h
  subst h
  intro t
  cases hip : e.ip with
  | none =>
    simp [fieldsOf, hip, optStr, optNum, tokOf]
    repeat' split
    all_goals simp
  | some a =>
    simp [fieldsOf, hip, optStr, optNum, tokOf]
    intro h
    rcases h with ⟨x, ⟨_, rfl⟩, hk, _⟩ | ⟨x, ⟨_, rfl⟩, hk, _⟩ | ⟨x, ⟨_, rfl⟩, hk, _⟩ | ⟨x, ⟨_, rfl⟩, hk, _⟩ |
      ⟨x, ⟨_, rfl⟩, hk, _⟩
    all_goals simp at hk

/-- **line_describes_request.** The line a reader sees carries this entry's name, type, response
code, documented result code, protocol, profile and device under the documented keys (and list
and rule when there is a verdict with texts). -/
theorem line_describes_request (e : Entry) (rn : Nat) (toks : List (Str × Tok))
    (h : lexLine (encodeLine e rn) = some toks) :
    ([110], Tok.str (esc e.name)) ∈ toks ∧ ([113], Tok.num (intDigits e.qtype)) ∈ toks ∧
    ([114], Tok.num (intDigits e.rcode)) ∈ toks ∧
    ([102], Tok.num (intDigits (resultData e.reqRes e.respRes).1)) ∈ toks ∧
    ([112], Tok.num (intDigits e.proto)) ∈ toks ∧ ([98], Tok.str (esc e.prof)) ∈ toks ∧
    ([105], Tok.str (esc e.dev)) ∈ toks ∧
    ((resultData e.reqRes e.respRes).2.2 ≠ [] → ([109], Tok.str (esc (resultData e.reqRes e.respRes).2.2)) ∈ toks) ∧
    ((resultData e.reqRes e.respRes).2.1 ≠ [] → ([108], Tok.str (esc (resultData e.reqRes e.respRes).2.1)) ∈ toks) := by
  rw [line_integrity] at h
  simp only [Option.some.injEq] at h
  subst h
  simp [fieldsOf, optStr, optNum, tokOf]
  constructor <;> intro h <;> simp [h]

/-- **served_line_privacy.** End to end on the model: when a query is logged for a profile with IP
logging off, a reader of the resulting line finds no `ip` member at all, whatever the random number
and the bytes of the other fields are. -/
theorem served_line_privacy (q : Req) (e : Entry) (rn : Nat) (p : Prof) (d : Str)
    (hl : (serve q).log = some e) (hd : q.dev = .ok p d) (hoff : p.iplog = false)
    (toks : List (Str × Tok)) (h : lexLine (encodeLine e rn) = some toks) :
    ∀ t, ([105, 112], t) ∉ toks := by
  obtain ⟨p', d', hd', _, hip, _⟩ := logged_only_if_opted_in q e hl
  rw [hd] at hd'
  cases hd'
  intro t ht
  obtain ⟨a, ha, _⟩ := (line_ip_member_iff e rn toks h t).mp ht
  have := hip (by simp [ha])
  simp [hoff] at this

example : ∃ toks, lexLine (encodeLine ((serve exReq).log.getD exEntry) 3) = some toks ∧ ∀ t, ([105, 112], t) ∉ toks :=
  ⟨_, line_integrity _ _, served_line_privacy exReq _ 3 exProf [100] (by decide) rfl rfl _ (line_integrity _ _)⟩

/-- **first_address_record_decides.** `ipFromAnswer` against a declarative reading of "the first IP
address of the answer": records of other types before the first A / AAAA / HTTPS record are skipped,
and nothing after that record matters — not even a later record with a usable address when the first
one has none. -/
theorem first_address_record_decides (pre post : List RR) (r : RR) (hpre : ∀ x ∈ pre, x = RR.other)
    (hr : r ≠ RR.other) : ipFromAnswer (pre ++ r :: post) = ipFromAnswer [r] := by
  induction pre with
  | nil => cases r <;> simp_all [ipFromAnswer]
  | cons x t ih =>
    have hx : x = RR.other := hpre x (by simp)
    subst hx
    simpa [ipFromAnswer] using ih (fun y hy => hpre y (List.mem_cons_of_mem _ hy))

/-- **no_address_record_no_ip.** An answer section without A, AAAA and HTTPS records has no address. -/
theorem no_address_record_no_ip (ans : List RR) (h : ∀ x ∈ ans, x = RR.other) : ipFromAnswer ans = IPKind.none := by
  induction ans with
  | nil => rfl
  | cons x t ih =>
    have hx : x = RR.other := h x (by simp)
    subst hx
    simpa [ipFromAnswer] using ih (fun y hy => h y (List.mem_cons_of_mem _ hy))

/-- **https_first_hint_decides.** Within an HTTPS record the first `ipv4hint`/`ipv6hint` with at
least one address decides, by its first address; parameters before it (other keys, empty hints) and
everything after it are irrelevant. -/
theorem https_first_hint_decides (pre post : List KV) (kv : KV) (h : IPVal) (t : List IPVal)
    (hpre : ∀ x ∈ pre, x = KV.other ∨ x = KV.hint4 [] ∨ x = KV.hint6 [])
    (hkv : kv = KV.hint4 (h :: t) ∨ kv = KV.hint6 (h :: t)) :
    ipFromKVs (pre ++ kv :: post) = ipOfVal h := by
  induction pre with
  | nil => rcases hkv with rfl | rfl <;> simp [ipFromKVs]
  | cons x r ih =>
    have ih' := ih (fun y hy => hpre y (List.mem_cons_of_mem _ hy))
    rcases hpre x (by simp) with rfl | rfl | rfl <;> simpa [ipFromKVs] using ih'

example : ipFromAnswer [.other, .https [.other, .hint4 [], .hint6 [.unspec, .addr], .hint4 [.addr]], .a .addr] = .unspec ∧
    ipFromAnswer [.other, .a .bad, .aaaa .addr] = .none ∧ ipFromAnswer [.https [], .a .addr] = .none ∧
    ipFromAnswer [.other, .other, .aaaa .addr] = .addr := by decide

/-- Queries that reach the main middleware's recording step. -/
def Served (q : Req) : Prop :=
  q.port0 = false ∧ q.globBlockIP = false ∧ q.globBlockHost = false ∧ q.profBlock = false ∧ q.badECS = false ∧
    rlDropEff q = false ∧ q.special = false ∧ q.ctxErr = false ∧ q.upErr = false ∧ q.debug = false

/-- **bill_iff.** Exact characterisation (a reference monitor, not a restatement of `record`): a
billing record exists if and only if the query is attributed to a profile and was served. -/
theorem bill_iff (q : Req) :
    (serve q).bill.isSome = true ↔ ∃ p d, q.dev = .ok p d ∧ Served q := by
  constructor
  · intro h
    cases hb : (serve q).bill with
    | none => simp [hb] at h
    | some b =>
      obtain ⟨p, d, h1, _, _, h6, h7, h8, h9, hbe, h10⟩ := serve_bill_inv q b hb
      refine ⟨p, d, h1, h6, h7, h8, h9, hbe, h10, ?_⟩
      simp only [serve, h6, h7, h8, h9, hbe, h10, h1] at hb
      by_cases hs : q.special = true
      · simp [hs] at hb
      · simp only [hs, initialmw, mainmw] at hb
        by_cases he : q.ctxErr = true ∨ q.upErr = true
        · simp [he] at hb
        · by_cases hdg : q.debug = true
          · simp [he, hdg] at hb
          · simp_all
  · rintro ⟨p, d, hd, h1, h2, h3, h4, h5, h6, h7, h8, h9, h10⟩
    simp only [serve, hd, h1, h2, h3, h4, h5, h6, h7, h8, h9, h10, initialmw, mainmw, record, DevRes.data]
    by_cases hq : p.qlog = true <;> simp [hq]

/-- **log_iff.** A log entry exists if and only if the query is attributed to a profile with query
logging enabled and was served (not dropped, blocked, malformed, special, failed or debug). -/
theorem log_iff (q : Req) :
    (serve q).log.isSome = true ↔ ∃ p d, q.dev = .ok p d ∧ p.qlog = true ∧ Served q := by
  constructor
  · intro h
    cases hl : (serve q).log with
    | none => simp [hl] at h
    | some e =>
      obtain ⟨p, d, hd, hq, _, _, _, h6, h7, h8, h9, hbe, h10, h11, h12, h13, h14, _⟩ := serve_log_inv q e hl
      exact ⟨p, d, hd, hq, h6, h7, h8, h9, hbe, h10, h11, h13, h14, h12⟩
  · rintro ⟨p, d, hd, hq, h1, h2, h3, h4, h5, h6, h7, h8, h9, h10⟩
    simp [serve, hd, h1, h2, h3, h4, h5, h6, h7, h8, h9, h10, initialmw, mainmw, record, DevRes.data, hq]

example : Served exReq ∧ (serve exReq).log.isSome = true ∧ ¬ Served { exReq with profRl := 2 } := by
  refine ⟨⟨rfl, rfl, rfl, rfl, rfl, by decide, rfl, rfl, rfl, rfl⟩, by decide, ?_⟩
  intro h
  exact absurd h.2.2.2.2.2.1 (by decide)

/-- **unidentified_never_logged.** Through the device finder: whatever the profile database
answers, a query on a protocol that cannot carry a device ID (DNSCrypt), for a deleted profile, or
from a device that fails authentication produces neither a log entry nor a billing record. -/
theorem unidentified_never_logged (q : Req) (l : Lookup) (hdev : q.dev = findDevice (supportsDeviceID q.proto) l)
    (h : supportsDeviceID q.proto = false ∨ (∃ p d a, l = .found p d true a) ∨ (∃ p d x, l = .found p d x false)) :
    (serve q).log = none ∧ (serve q).bill = none := by
  apply anonymous_dropped_blocked_never_logged
  left
  rw [hdev]
  rcases h with h | ⟨p, d, a, rfl⟩ | ⟨p, d, x, rfl⟩
  · simp [findDevice, h, DevRes.data]
  · simp only [findDevice]; split <;> simp [DevRes.data]
  · simp only [findDevice]; split
    · simp [DevRes.data]
    · cases x <;> simp [DevRes.data]

example : findDevice (supportsDeviceID 9) (.found exProf [100] false true) = .anon ∧
    findDevice (supportsDeviceID 3) (.found exProf [100] false true) = .ok exProf [100] ∧
    findDevice (supportsDeviceID 8) (.found exProf [100] true true) = .anon := by decide

/-! ## Where the switches come from (backend message, cache file) -/

/-- **switches_survive_provenance.** Whether the profile database has the profile from a synchronisation
with the backend or from the cache file written by an earlier one: the profile's query-log switch,
IP-log switch, deletion mark and ID are those of the backend's message. -/
theorem switches_survive_provenance (src : Source) (w : WireProf) :
    (profFrom src w).prof.qlog = w.qlog ∧ (profFrom src w).prof.iplog = w.iplog ∧
      (profFrom src w).deleted = w.deleted ∧ (profFrom src w).prof.id = w.id := by
  cases src <;> simp [profFrom, profOfBackend, cacheOfProf, profOfCache]

/-- **cache_file_roundtrip.** Writing a profile to the cache file and reading it back changes none of
the fields the request path reads. -/
theorem cache_file_roundtrip (p : DBProf) : profOfCache (cacheOfProf p) = p := by
  cases p with
  | mk pr d => cases pr; rfl

/-- **logged_only_if_backend_opted_in.** The property in terms of what the *backend said*: for every
request whose device the profile database finds — whatever the source of the database's profile — a
log entry exists only if the backend's message for that profile enables query logging and does not mark
it deleted; the entry has a client address only if the message enables IP logging; and it names the
message's profile and the found device. -/
theorem logged_only_if_backend_opted_in (q : Req) (src : Source) (w : WireProf) (dev : Str) (authOK : Bool)
    (hdev : q.dev = findDevice (supportsDeviceID q.proto) (lookupFrom src w dev authOK))
    (e : Entry) (h : (serve q).log = some e) :
    w.qlog = true ∧ w.deleted = false ∧ (e.ip ≠ none → w.iplog = true) ∧ e.prof = w.id ∧ e.dev = dev := by
  obtain ⟨p, d, hd, hq, hip, hprof, hd'⟩ := logged_only_if_opted_in q e h
  obtain ⟨s1, s2, s3, s4⟩ := switches_survive_provenance src w
  rw [hdev] at hd
  simp only [findDevice, lookupFrom] at hd
  by_cases hs : supportsDeviceID q.proto = true
  · by_cases hdel : (profFrom src w).deleted = true
    · simp [hs, hdel] at hd
    · by_cases ha : authOK = true
      · simp [hs, hdel, ha] at hd
        obtain ⟨hp, hdd⟩ := hd
        subst hp hdd
        refine ⟨by rw [← s1]; exact hq, ?_, fun hne => by rw [← s2]; exact hip hne, by rw [hprof, s4], hd'⟩
        rw [← s3]; simpa using hdel
      · simp [hs, hdel, ha] at hd
  · simp [hs] at hd

/-- **backend_iplog_off_line_has_no_ip.** End to end from the backend's message to the bytes of the log
file: if the message disables IP logging, the line of a logged query of that profile has no `ip` member
for any reader, from either source of the profile. -/
theorem backend_iplog_off_line_has_no_ip (q : Req) (src : Source) (w : WireProf) (dev : Str) (authOK : Bool)
    (hdev : q.dev = findDevice (supportsDeviceID q.proto) (lookupFrom src w dev authOK)) (hoff : w.iplog = false)
    (e : Entry) (rn : Nat) (hl : (serve q).log = some e)
    (toks : List (Str × Tok)) (h : lexLine (encodeLine e rn) = some toks) :
    ∀ t, ([105, 112], t) ∉ toks := by
  obtain ⟨_, _, hip, _⟩ := logged_only_if_backend_opted_in q src w dev authOK hdev e hl
  intro t ht
  obtain ⟨a, ha, _⟩ := (line_ip_member_iff e rn toks h t).mp ht
  have := hip (by simp [ha])
  simp [hoff] at this

def exWire : WireProf := ⟨[112], true, false, false⟩

/-- Non-vacuity: the message "query log on, IP log off" read back from the cache file yields a logged
query without address; with IP logging on the address is there; a deleted profile is not logged. -/
example :
    let q (w : WireProf) : Req := { exReq with dev := findDevice (supportsDeviceID 8) (lookupFrom .cacheFile w [100] true) }
    ((serve (q exWire)).log.map (·.ip)) = some none ∧
      ((serve (q { exWire with iplog := true })).log.map (·.ip)) = some (some [49]) ∧
      (serve (q { exWire with deleted := true })).log = none ∧
      (serve (q { exWire with qlog := false, iplog := true })).log = none := by decide

/-- **file_lines_all_read.** Concurrency and integrity together: under every schedule, every record
in the file (one per appended request, in append order, `file_is_lines`) is accepted by the
independent reader and reads back as that request's own members. -/
theorem file_lines_all_read (J : Jobs) (ops : List (Nat × Option Nat)) :
    let s := FS.run J {} ops
    s.file = (s.order.map (lineOf J)).flatten ∧
      ∀ i ∈ s.order, ∃ job, J i = some job ∧ lexLine (lineOf J i) = some ((fieldsOf job.1 job.2).map tokOf) := by
  intro s
  obtain ⟨hf, _, _, hjobs⟩ := file_is_lines J ops
  refine ⟨hf, ?_⟩
  intro i hi
  obtain ⟨job, hj, hline⟩ := hjobs i hi
  exact ⟨job, hj, by rw [hline]; exact line_integrity _ _⟩



/-- Non-vacuity for the write failure (round 4): writer 0 encodes its record and the `write(2)` fails
(state 8); the buffer it returns to the pool (state 9) still holds the whole unwritten record; writer
1 is handed that very buffer, and the file is exactly writer 1's record: the `Reset` after
`Pool.Get` is what keeps the failed record out (it is a no-op in every run without such a failure). -/
example :
    let J : Jobs := fun i => if i < 2 then some (exEntry, i) else none
    let s9 := FS.run J {} [(0, none), (0, none), (0, none), (0, some 0), (0, none)]
    let s := FS.run J s9 [(1, some 0), (1, none), (1, none), (1, none), (1, none)]
    s9.pc 0 = 9 ∧ (s9.bufs 0).ent = some (exEntry, 0) ∧ s9.free = [0] ∧ s9.order = [] ∧
      s.hold 1 = 0 ∧ s.pc 1 = 5 ∧ s.order = [1] := by
  decide

/-- The buffer a failed write returns to the pool is dirty: it holds the complete unwritten record. -/
example :
    let J : Jobs := fun i => if i < 2 then some (exEntry, i) else none
    ((FS.run J {} [(0, none), (0, none), (0, none), (0, some 0), (0, none)]).bufs 0).bytes = lineOf J 0 := by
  rfl

/-! ## Production wiring (round 4) -/

/-- The declarative reading of the configuration documentation: which profile and device a request to
server `sv` of group `g` belongs to.  Only a group with `profiles_enabled`; on an encrypted server by
the device ID in the first label of a TLS server name directly under one of the group's own
`device_id_wildcards`; on a plain-DNS server with `linked_ip_enabled` by the linked address; the
profile must not be deleted and the device's authentication must accept the request. -/
def Identified (g : WGroup) (sv : WServer) (id : Ident) (p : Prof) (d : Str) : Prop :=
  g.profilesEnabled = true ∧
    (((sv.proto = 3 ∨ sv.proto = 4 ∨ sv.proto = 5) ∧ (∃ lab dom, id.sni = some (lab, dom) ∧ dom ∈ g.domains) ∧
        id.byID = .found p d false true) ∨
     (sv.proto = 8 ∧ sv.linkedIP = true ∧ id.byLinked = .found p d false true))

/-- **wired_identified_iff.** The device result the handler of (`g`, `sv`) works with is `OK p d`
exactly for the requests the documentation attributes to `p`, `d` — for every content of the shared
profile database. -/
theorem wired_identified_iff (g : WGroup) (sv : WServer) (id : Ident) (p : Prof) (d : Str) :
    wiredDev g sv id = .ok p d ↔ Identified g sv id p d := by
  unfold wiredDev wiredLookup
  cases hpe : g.profilesEnabled
  · simp [Identified, hpe]
  · have hsome := wiredDevID_isSome g sv id
    cases hdev : wiredDevID g sv id with
    | some lab =>
      have h := hsome.mp (by simp [hdev])
      have hne : sv.proto ≠ 8 := by rcases h.1 with h | h | h <;> omega
      have hsup : supportsDeviceID sv.proto = true := by
        rcases h.1 with h | h | h <;> simp [supportsDeviceID, h]
      simp only [not_true_eq_false, ↓reduceIte, findDevice_ok_iff, hsup, true_and]
      constructor
      · intro hb; exact ⟨hpe, Or.inl ⟨h.1, h.2, hb⟩⟩
      · rintro ⟨_, hh | hh⟩
        · exact hh.2.2
        · exact absurd hh.1 hne
    | none =>
      have hno : ¬ ((sv.proto = 3 ∨ sv.proto = 4 ∨ sv.proto = 5) ∧ ∃ lab dom, id.sni = some (lab, dom) ∧ dom ∈ g.domains) := by
        intro hh; have := hsome.mpr hh; simp [hdev] at this
      simp only [not_true_eq_false, ↓reduceIte]
      by_cases h8 : sv.proto = 8 ∧ sv.linkedIP = true
      · have hsup : supportsDeviceID sv.proto = true := by simp [supportsDeviceID, h8.1]
        rw [if_pos h8]
        simp only [findDevice_ok_iff, hsup, true_and]
        constructor
        · intro hb; exact ⟨hpe, Or.inr ⟨h8.1, h8.2, hb⟩⟩
        · rintro ⟨_, hh | hh⟩
          · exact absurd ⟨hh.1, hh.2.1⟩ hno
          · exact hh.2.2
      · rw [if_neg h8]
        simp only [findDevice_ok_iff]
        constructor
        · rintro ⟨_, hb⟩; cases hb
        · rintro ⟨_, hh | hh⟩
          · exact absurd ⟨hh.1, hh.2.1⟩ hno
          · exact absurd ⟨hh.1, hh.2.1⟩ h8
def exGroup : WGroup := ⟨true, [[100, 49]]⟩
def exIdent : Ident := { sni := some ([100], [100, 49]), byID := .found exProf [100] false true }

example : Identified exGroup ⟨5, false⟩ exIdent exProf [100] ∧
    wiredDev ⟨false, [[100, 49]]⟩ ⟨5, false⟩ exIdent = .anon ∧
    wiredDev ⟨true, [[100, 50]]⟩ ⟨5, false⟩ exIdent = .anon := by
  refine ⟨⟨rfl, Or.inl ⟨by decide, ⟨[100], [100, 49], rfl, by decide⟩, rfl⟩⟩, by decide, by decide⟩

/-- **wired_line_iff.** (reference monitor for the whole configured service.)  A request to server
`sv` of server group `g` adds a record to the file at `QUERYLOG_PATH` if and only if
`query_log.file.enabled` is set, the documentation attributes the request to a profile with query
logging enabled, and the request was served.  Whatever the other groups' settings are and whatever the
shared profile database holds. -/
theorem wired_line_iff (fe : Bool) (g : WGroup) (sv : WServer) (id : Ident) (q : Req) (rn : Nat) :
    wiredFile fe g sv id q rn ≠ [] ↔
      fe = true ∧ ∃ p d, Identified g sv id p d ∧ p.qlog = true ∧ Served (wiredReq g sv id q) := by
  have hne : ∀ e : Entry, encodeLine e rn ≠ [] := by intro e; simp [encodeLine]
  unfold wiredFile wiredServe
  cases fe
  · simp
  · simp only [↓reduceIte, true_and]
    have hl := log_iff (wiredReq g sv id q)
    cases hlog : (serve (wiredReq g sv id q)).log with
    | none =>
      simp only [ne_eq, not_true_eq_false, false_iff]
      rintro ⟨p, d, hid, hq, hs⟩
      have : (serve (wiredReq g sv id q)).log.isSome = true :=
        hl.mpr ⟨p, d, by simpa [wiredReq] using (wired_identified_iff g sv id p d).mpr hid, hq, hs⟩
      simp [hlog] at this
    | some e =>
      simp only [ne_eq, hne e, not_false_eq_true, true_iff]
      obtain ⟨p, d, hd, hq, hs⟩ := hl.mp (by simp [hlog])
      exact ⟨p, d, (wired_identified_iff g sv id p d).mp (by simpa [wiredReq] using hd), hq, hs⟩

example : wiredFile true exGroup ⟨5, false⟩ exIdent exReq 7 ≠ [] ∧ wiredFile false exGroup ⟨5, false⟩ exIdent exReq 7 = [] := by
  decide

/-- **wired_profiles_disabled_never_recorded.** A server group without `profiles_enabled` never
produces a log record or a billing record — also when the profile database (shared with the other
groups) knows the device ID in the server name or the client's address. -/
theorem wired_profiles_disabled_never_recorded (fe : Bool) (g : WGroup) (sv : WServer) (id : Ident) (q : Req) (rn : Nat)
    (h : g.profilesEnabled = false) :
    (wiredServe g sv id q).log = none ∧ (wiredServe g sv id q).bill = none ∧ wiredFile fe g sv id q rn = [] := by
  have hd : (wiredReq g sv id q).dev.data = none := by simp [wiredReq, wiredDev, wiredLookup, h, DevRes.data]
  obtain ⟨h1, h2⟩ := anonymous_dropped_blocked_never_logged (wiredReq g sv id q) (Or.inl hd)
  refine ⟨h1, h2, ?_⟩
  unfold wiredFile wiredServe
  cases fe <;> simp [h1]

/-- **wired_foreign_domain_not_attributed.** A TLS server name under a device domain of *another*
server group does not attribute the request here: no record, no bill. -/
theorem wired_foreign_domain_not_attributed (g : WGroup) (sv : WServer) (id : Ident) (q : Req) (lab dom : Str)
    (hs : id.sni = some (lab, dom)) (hd : dom ∉ g.domains) (hp : sv.proto ≠ 8) :
    (wiredServe g sv id q).log = none ∧ (wiredServe g sv id q).bill = none := by
  have hdev : (wiredReq g sv id q).dev.data = none := by
    simp only [wiredReq, wiredDev, wiredLookup, wiredDevID, hs, hd, and_false, ↓reduceIte, hp, false_and]
    cases g.profilesEnabled <;> simp [findDevice, DevRes.data]
  exact anonymous_dropped_blocked_never_logged (wiredReq g sv id q) (Or.inl hdev)

example : (wiredServe ⟨true, [[100, 50]]⟩ ⟨5, false⟩ exIdent exReq).bill = none := by decide

/-- **wired_file_disabled_no_line.** With `query_log.file.enabled: false` nothing is written, for
every request; billing is unaffected. -/
theorem wired_file_disabled_no_line (g : WGroup) (sv : WServer) (id : Ident) (q : Req) (rn : Nat) :
    wiredFile false g sv id q rn = [] := by simp [wiredFile]

/-- **wired_line_protocol.** The `p` member of a record is the number doc/querylog.md gives for
the configured protocol of the server that received the request (`dns` 8, `dnscrypt` 9, `https` 3,
`quic` 4, `tls` 5), and name, type, ID and time are the request's. -/
theorem wired_line_describes_request (g : WGroup) (k : Nat) (linked : Bool) (id : Ident) (q : Req) (e : Entry)
    (h : (wiredServe g ⟨protoOfYAML k, linked⟩ id q).log = some e) :
    e.proto = protoOfYAML k ∧ e.name = q.name ∧ e.qtype = q.qtype ∧ e.reqId = q.reqId ∧ e.timeMs = q.startMs ∧
      (∀ a, e.ip = some a → a = q.remoteIP) := by
  obtain ⟨h1, h2, h3, h4, h5, _, _, _, _, h10, _⟩ := entry_describes_request _ e h
  exact ⟨h3, h1, h2, h4, h5, h10⟩

example : protoOfYAML 4 = 5 ∧ protoOfYAML 0 = 8 ∧ protoOfYAML 2 = 3 ∧ protoOfYAML 3 = 4 ∧ protoOfYAML 1 = 9 := by decide

end Agd.Record

#print axioms Agd.Record.logged_only_if_opted_in
#print axioms Agd.Record.billing_only_if_profile
#print axioms Agd.Record.anonymous_dropped_blocked_never_logged
#print axioms Agd.Record.entry_describes_request
#print axioms Agd.Record.rcode16_wire
#print axioms Agd.Record.result_code_table
#print axioms Agd.Record.line_is_one_line
#print axioms Agd.Record.esc_no_control_bytes
#print axioms Agd.Record.file_is_lines
#print axioms Agd.Record.file_splits_into_records
#print axioms Agd.Record.failed_writes_leave_nothing
#print axioms Agd.Record.line_integrity
#print axioms Agd.Record.line_ip_member_iff
#print axioms Agd.Record.line_describes_request
#print axioms Agd.Record.served_line_privacy
#print axioms Agd.Record.bill_iff
#print axioms Agd.Record.log_iff
#print axioms Agd.Record.unidentified_never_logged
#print axioms Agd.Record.file_lines_all_read
#print axioms Agd.Record.switches_survive_provenance
#print axioms Agd.Record.cache_file_roundtrip
#print axioms Agd.Record.logged_only_if_backend_opted_in
#print axioms Agd.Record.backend_iplog_off_line_has_no_ip
#print axioms Agd.Record.first_address_record_decides
#print axioms Agd.Record.no_address_record_no_ip
#print axioms Agd.Record.https_first_hint_decides
#print axioms Agd.Record.wired_identified_iff
#print axioms Agd.Record.wired_line_iff
#print axioms Agd.Record.wired_profiles_disabled_never_recorded
#print axioms Agd.Record.wired_foreign_domain_not_attributed
#print axioms Agd.Record.wired_file_disabled_no_line
#print axioms Agd.Record.wired_line_describes_request
#print axioms Agd.Tie.TrC15.translation_complete
#print axioms Agd.Tie.TrC15.convertElapsed_tr
#print axioms Agd.Tie.TrC15.toResultCode_tr
#print axioms Agd.Tie.TrC15.toResultCode_total_iff
#print axioms Agd.Tie.TrC15.resultData_tr
#print axioms Agd.Tie.TrC15.mw_resultData_tr
#print axioms Agd.Tie.TrC15.mw_resultData_total_iff
#print axioms Agd.Tie.TrC15.filteringData_picks
#print axioms Agd.Tie.TrC15.filteringData_blocked_tr
#print axioms Agd.Tie.TrC15.responseData_nil
#print axioms Agd.Tie.TrC15.responseData_some
#print axioms Agd.Tie.TrC15.responseData_rcode_tr
#print axioms Agd.Tie.TrC15.ipFromHTTPSRRKV_spec
#print axioms Agd.Tie.TrC15.ipFromHTTPSRRKV_tr
#print axioms Agd.Tie.TrC15.responseCountry_na
#print axioms Agd.Tie.TrC15.responseCountry_geo
#print axioms Agd.Tie.TrC15.anonymous_only_rulestat
#print axioms Agd.Tie.TrC15.attributed_spec
#print axioms Agd.Tie.TrC15.never_panics_iff
#print axioms Agd.Tie.TrC15.anonymous_never_billed_or_logged
#print axioms Agd.Tie.TrC15.billed_once_before_log
#print axioms Agd.Tie.TrC15.logged_iff_qlog
#print axioms Agd.Tie.TrC15.entry_ip_only_if_iplog
#print axioms Agd.Tie.TrC15.entry_describes_request
#print axioms Agd.Tie.TrC15.record_tr
#print axioms Agd.Tie.TrC15.fcProfileToInternal_switches
#print axioms Agd.Tie.TrC15.fcProfileToInternal_tr
#print axioms Agd.Tie.TrC15.bpProfileToInternal_switches
#print axioms Agd.Tie.TrC15.bpProfileToInternal_tr
#print axioms Agd.Tie.TrC15.httpsScan
#print axioms Agd.Tie.TrC15.scanSt_find
#print axioms Agd.Tie.TrC15.ipFromHTTPSRR_first_scan
#print axioms Agd.Tie.TrC15.ipFromHTTPSRR_first
#print axioms Agd.Tie.TrC15.answerScan
#print axioms Agd.Tie.TrC15.ipFromAnswer_first
#print axioms Agd.Tie.TrC15.convOut_kind
#print axioms Agd.Tie.TrC15.scanSt_model
#print axioms Agd.Tie.TrC15.ipFromHTTPSRR_tr
#print axioms Agd.Tie.TrC15.ipFromAnswer_tr
#print axioms Agd.Tie.TrC15.faithfulEx
