import Agd.Lemmas.Record
import Agd.Tie.C15
/-!
# C15 — only opted-in profiles are logged, and each log line is one intact record

Property theorems only.  Helper lemmas live in `Agd/Lemmas/Record.lean`.  The model (`serve`,
`encodeLine`, `FS`) is a pure function of the single request resp. entry, so "describes its own
request" is a statement about which inputs the entry's fields are copied from.
-/
namespace Agd.Record

/-- **logged_only_if_opted_in.** Whatever the device result, access settings, limiter verdicts,
filter results, responses and failures are: a log entry exists only if the query was attributed to a
profile (`DeviceResultOK`) whose query logging is enabled, the entry carries that profile's and
device's IDs, and it contains a client address only if that profile has IP logging enabled. -/
theorem logged_only_if_opted_in (q : Req) (e : Entry) (h : (serve q).log = some e) :
    ∃ p d, q.dev = .ok p d ∧ p.qlog = true ∧ (e.ip ≠ none → p.iplog = true) ∧ e.prof = p.id ∧ e.dev = d := by
  obtain ⟨p, d, h1, h2, h3, h4, h5, _⟩ := serve_log_inv q e h
  exact ⟨p, d, h1, h2, h3, h4, h5⟩

def exProf : Prof := ⟨[112], true, false⟩
def exReq : Req :=
  { port0 := false, dev := .ok exProf [100], globBlockIP := false, globBlockHost := false, profBlock := false,
    rlDrop := false, special := false, debug := false, adWanted := false, ctxErr := false, upErr := false,
    writeErr := false, reqRes := ⟨.blocked, [108], [109]⟩, respRes := FRes.nil, blockErr := false, name := [97, 46],
    qtype := 1, proto := 8, remoteIP := [49], reqId := [117], startMs := 5, elapsedMs := 0, loc := some ([82, 85], 7),
    orig := ⟨0, false, .addr⟩, blockedResp := ⟨0, false, .unspec⟩, modResp := ⟨0, false, .none⟩, geoCtry := [85, 83] }

/-- Non-vacuity: an opted-in profile is logged (without address, IP logging being off), and with
IP logging on the address is there. -/
example : ((serve exReq).log.map (·.ip)) = some none ∧ ((serve exReq).log.map (·.rcode)) = some 0 ∧
    ((serve { exReq with dev := .ok ⟨[112], true, true⟩ [100] }).log.map (·.ip)) = some (some [49]) := by
  decide

/-- **billing_only_if_profile.** A billing record exists only for a query attributed to a profile,
and it names that query's device and protocol. -/
theorem billing_only_if_profile (q : Req) (b : Bill) (h : (serve q).bill = some b) :
    ∃ p d, q.dev = .ok p d ∧ b.dev = d ∧ b.proto = q.proto := by
  obtain ⟨p, d, h1, h2, h3, _⟩ := serve_bill_inv q b h
  exact ⟨p, d, h1, h2, h3⟩

example : ((serve exReq).bill.map (·.dev)) = some [100] ∧
    (serve { exReq with dev := .ok ⟨[112], false, false⟩ [100] }).bill.isSome = true ∧
    (serve { exReq with dev := .ok ⟨[112], false, false⟩ [100] }).log = none := by decide

/-- The query was not attributed (anonymous, authentication failure, unknown dedicated address,
lookup error) or it was dropped (spoofed port, rate limiter) or access-blocked (globally by address
or by name, or by the profile's access settings). -/
def NotServedForProfile (q : Req) : Prop :=
  q.dev.data = none ∨ q.port0 = true ∨ q.globBlockIP = true ∨ q.globBlockHost = true ∨ q.profBlock = true ∨
    q.rlDrop = true

/-- **anonymous_dropped_blocked_never_logged.** Such queries produce neither a log entry nor a
billing record. -/
theorem anonymous_dropped_blocked_never_logged (q : Req) (h : NotServedForProfile q) :
    (serve q).log = none ∧ (serve q).bill = none := by
  constructor
  · cases hl : (serve q).log with
    | none => rfl
    | some e =>
      obtain ⟨p, d, h1, _, _, _, _, h6, h7, h8, h9, h10, _⟩ := serve_log_inv q e hl
      unfold NotServedForProfile at h
      simp_all [DevRes.data]
  · cases hb : (serve q).bill with
    | none => rfl
    | some b =>
      obtain ⟨p, d, h1, _, _, h6, h7, h8, h9, h10⟩ := serve_bill_inv q b hb
      unfold NotServedForProfile at h
      simp_all [DevRes.data]

example : NotServedForProfile { exReq with dev := .authFail } ∧ NotServedForProfile { exReq with rlDrop := true } ∧
    NotServedForProfile { exReq with profBlock := true } ∧ (serve { exReq with profBlock := true }).resp = none := by
  refine ⟨by simp [NotServedForProfile, DevRes.data], by simp [NotServedForProfile], by simp [NotServedForProfile], by decide⟩

/-- **entry_describes_request.** The entry's name, type, protocol, request ID and time are the
request's own; its verdicts are the results the filter returned for this request (no response
verdict after a CNAME rewrite); its response code is that of the response computed for this
request, which is also the code of whatever response the client's writer received; a logged
address is the request's remote address.  Debug (CHAOS) queries and queries whose processing
failed are not logged. -/
theorem entry_describes_request (q : Req) (e : Entry) (h : (serve q).log = some e) :
    e.name = q.name ∧ e.qtype = q.qtype ∧ e.proto = q.proto ∧ e.reqId = q.reqId ∧ e.timeMs = q.startMs ∧
    e.reqRes = q.reqRes ∧ e.respRes = respResOf q ∧ e.rcode = (filteredResp q).rcode ∧
    (∀ a, e.ip = some a → a = q.remoteIP) ∧
    (∀ r, (serve q).resp = some r → r.rcode = e.rcode) ∧
    q.debug = false ∧ q.ctxErr = false ∧ q.upErr = false ∧ q.special = false := by
  obtain ⟨p, d, hd, hq, _, _, _, h6, h7, h8, h9, h10, h11, h12, h13, h14, h15, h16, h17, h18, h19, h20, h21, h22, h23⟩ :=
    serve_log_inv q e h
  refine ⟨h15, h16, h17, h21, h22, h18, h19, h20, h23, ?_, h12, h13, h14, h11⟩
  intro r hr
  rw [h20]
  simp only [serve, h6, h7, h8, h9, h10, h11, hd, initialmw, mainmw, h12, h13, h14, record, DevRes.data, hq] at hr
  split at hr
  · simp at hr
  · simp at hr
    rw [← hr.2]

example : (serve exReq).log.map (fun e => (e.name, e.qtype, e.proto, e.rcode, (resultData e.reqRes e.respRes).1)) =
    some ([97, 46], 1, 8, 0, 2) := by decide

/-- **result_code_table.** The `f`, `l`, `m` properties follow doc/querylog.md: 2/4/6 with the
request rule when the request matched; otherwise 3/5/6 with the response rule; 1 and no rule when
nothing matched. -/
theorem result_code_table (req resp : FRes) :
    (req.kind = .blocked → resultData req resp = (2, req.list, req.rule)) ∧
    (req.kind = .allowed → resultData req resp = (4, req.list, req.rule)) ∧
    (req.kind = .modResp ∨ req.kind = .modReq → resultData req resp = (6, req.list, req.rule)) ∧
    (req.kind = .none → resp.kind = .blocked → resultData req resp = (3, resp.list, resp.rule)) ∧
    (req.kind = .none → resp.kind = .allowed → resultData req resp = (5, resp.list, resp.rule)) ∧
    (req.kind = .none → resp.kind = .none → resultData req resp = (1, [], [])) := by
  refine ⟨?_, ?_, ?_, ?_, ?_, ?_⟩
  · intro h; simp [resultData, toResultCode, h]
  · intro h; simp [resultData, toResultCode, h]
  · intro h; rcases h with h | h <;> simp [resultData, toResultCode, h]
  · intro h h'; simp [resultData, toResultCode, h, h']
  · intro h h'; simp [resultData, toResultCode, h, h']
  · intro h h'; simp [resultData, toResultCode, h, h']

example : resultData FRes.nil ⟨.blocked, [108], [109]⟩ = (3, [108], [109]) := by decide

/-- **line_integrity_partial.** For every entry, whatever bytes its strings contain (quotes, line
feeds, invalid UTF-8, ...), the encoded record is `{ … }` followed by exactly one line feed, and
no byte before that line feed is a control character (< 0x20): the record is exactly one line.
PARTIAL: that the text between the braces is a well-formed JSON object (every quote and backslash
inside a string escaped) is checked by decoding every real and model line in the harness, not
proved. -/
theorem line_integrity_partial (e : Entry) (rn : Nat) :
    ∃ body, encodeLine e rn = body ++ [10] ∧ (∀ c ∈ body, 32 ≤ c) ∧ body.head? = some 123 ∧
      body.getLast? = some 125 := by
  refine ⟨renderObj (fieldsOf e rn), rfl, renderObj_ge _ (fieldsOf_keys e rn), ?_, ?_⟩
  · simp [renderObj]
  · have hl : ∀ (l : Str) (a : Nat), (l ++ [a]).getLast? = some a := by intro l a; simp
    exact hl (123 :: renderFields (fieldsOf e rn)) 125

def exEntry : Entry :=
  { ip := some [49], reqRes := FRes.nil, respRes := FRes.nil, timeMs := -5, reqId := [117], prof := [34, 10, 255],
    dev := [100], cc := [], rc := [], name := [97, 10, 226, 128, 168], elapsedMs := -1, asn := 0, qtype := 1,
    rcode := 0, proto := 8, dnssec := false }

example : esc [34, 10, 255] = [92, 34, 92, 110, 92, 117, 102, 102, 102, 100] := by
  simp [esc, escAscii, badSeq]

/-- **esc_no_control_bytes.** The JSON string escaper never emits a byte below 0x20 — in
particular no line feed or carriage return — for any input byte string. -/
theorem esc_no_control_bytes (s : Str) : ∀ c ∈ esc s, 32 ≤ c := esc_ge s

/-- **file_is_lines.** For every set of concurrent `Write` calls and EVERY schedule of their steps
(pool hand-outs included; `sync.Pool` may hand out any pooled buffer or allocate), with the append
of one buffer atomic: the file is the concatenation of the complete records of exactly the writers
that have performed their append, each once, in append order; nothing else is ever in the file. -/
theorem file_is_lines (J : Jobs) (ops : List (Nat × Option Nat)) :
    let s := FS.run J {} ops
    s.file = (s.order.map (lineOf J)).flatten ∧ s.order.Nodup ∧ (∀ i, i ∈ s.order ↔ 4 ≤ s.pc i) ∧
      (∀ i ∈ s.order, ∃ job, J i = some job ∧ lineOf J i = encodeLine job.1 job.2) := by
  intro s
  have h := inv_run J ops {} (inv_init J)
  refine ⟨h.file, h.ordND, h.ord, ?_⟩
  intro i hi
  have h4 := (h.ord i).mp hi
  have hs := h.started i (by omega)
  cases hj : J i with
  | none => simp [hj] at hs
  | some job => exact ⟨job, rfl, lineOf_some J i job hj⟩

/-- Non-vacuity: two writers interleaved step by step, the second reusing nothing, the first one's
buffer being reused by a third call. -/
example :
    let J : Jobs := fun i => if i < 3 then some (exEntry, i) else none
    let s := FS.run J {} [(0, none), (1, none), (0, none), (1, none), (1, none), (0, none), (1, none), (0, none),
      (0, none), (2, some 0), (2, none), (2, none), (2, none), (1, none), (2, none)]
    s.order = [1, 0, 2] ∧ s.nbufs = 2 ∧ s.pc 2 = 5 ∧ s.hold 2 = 0 := by
  decide

/-- **file_splits_into_records.** Splitting the file at line feeds gives back exactly the record
bodies, one per appended request, followed by the empty remainder: no partial or merged lines. -/
theorem file_splits_into_records (J : Jobs) (ops : List (Nat × Option Nat)) :
    let s := FS.run J {} ops
    splitLines s.file = s.order.map (fun i => (lineOf J i).dropLast) ++ [[]] := by
  intro s
  obtain ⟨hf, _, _, hjobs⟩ := file_is_lines J ops
  show splitLines s.file = _
  rw [show s.file = (s.order.map (lineOf J)).flatten from hf]
  have key : ∀ l : List Nat, (∀ i ∈ l, ∃ job, J i = some job ∧ lineOf J i = encodeLine job.1 job.2) →
      splitLines ((l.map (lineOf J)).flatten) = l.map (fun i => (lineOf J i).dropLast) ++ [[]] := by
    intro l
    induction l with
    | nil => intro _; simp [splitLines]
    | cons i r ih =>
      intro hl
      obtain ⟨job, _, hline⟩ := hl i (by simp)
      obtain ⟨body, hb, hge, _, _⟩ := line_integrity_partial job.1 job.2
      have hne : ∀ c ∈ body, c ≠ 10 := fun c hc => by have := hge c hc; omega
      simp only [List.map_cons, List.flatten_cons, List.cons_append]
      rw [hline, hb, List.append_assoc]
      simp only [List.singleton_append]
      rw [splitLines_line body _ hne, ih (fun x hx => hl x (List.mem_cons_of_mem _ hx))]
      simp
  exact key _ hjobs

end Agd.Record

#print axioms Agd.Record.logged_only_if_opted_in
#print axioms Agd.Record.billing_only_if_profile
#print axioms Agd.Record.anonymous_dropped_blocked_never_logged
#print axioms Agd.Record.entry_describes_request
#print axioms Agd.Record.result_code_table
#print axioms Agd.Record.line_integrity_partial
#print axioms Agd.Record.esc_no_control_bytes
#print axioms Agd.Record.file_is_lines
#print axioms Agd.Record.file_splits_into_records
