import Agd.Tie.TrC09
import Agd.Lemmas.Ratelimit
import Agd.Lemmas.RatelimitHist
import Agd.Lemmas.RatelimitFront
import Agd.Lemmas.RatelimitConc
import Agd.Tie.C09
/-!
# C09 — rate limiting is an exact per-subnet sliding window with backoff and allowlist

Property theorems only.  Helper lemmas live in `Agd/Lemmas/Ratelimit.lean`.
-/
namespace Agd.Ratelimit

/-- **counter_exact.** For non-decreasing positive timestamps, `RequestCounter.Add`
reports "above" exactly when at least `num` earlier events lie in the closed window
`[ts - ivl, ts]` — the sliding-window-log specification: no early drop, no late pass,
equal stamps and the closed boundary included. -/
theorem counter_exact (c : Counter) (ts : Int)
    (hivl : 0 ≤ c.ivl) (hd : Desc (ts :: c.hist)) (hpos : ∀ x ∈ c.hist, 0 < x) (hts : 0 < ts) :
    (c.add ts).2 = aboveSpec c.num c.ivl c.hist ts ∧ (c.add ts).1.hist = ts :: c.hist := by
  exact ⟨above_eq_spec c.num c.ivl c.hist ts hivl hd hpos hts, rfl⟩

example : Desc (5 :: [5, 3, 1]) ∧ (∀ x ∈ [5, 3, 1], (0:Int) < x) ∧
    (({ num := 2, ivl := 2, hist := [5, 3, 1] } : Counter).add 5).2 = true := by
  refine ⟨by simp [Desc], by decide, by decide⟩

/-- **ring_refines_history.** The concrete ring buffer of `num + 1` slots (golibs `RingBuffer`, as
used by `RequestCounter`) gives, for every stamp sequence, the verdicts of the history model that
`counter_exact` is stated about. -/
theorem ring_refines_history (num : Nat) (ivl : Int) (tss : List Int) :
    ringRun ivl (Ring.new (num + 1)) tss = ctrRun (Counter.new num ivl) tss := by
  have key : ∀ (tss : List Int) (r : Ring) (c : Counter), RingInv (num + 1) r c.hist → c.num = num →
      c.ivl = ivl → ringRun ivl r tss = ctrRun c tss := by
    intro tss
    induction tss with
    | nil => intro _ _ _ _ _; rfl
    | cons t ts ih =>
      intro r c hi hn hv
      have h := ringAdd_eq_above num ivl r c.hist t hi
      simp only [ringRun, ctrRun]
      have h2 : (c.add t).2 = above num ivl c.hist t := by simp [Counter.add, hn, hv]
      rw [h.1, h2]
      congr 1
      exact ih _ _ (by simpa [Counter.add] using h.2) (by simpa [Counter.add] using hn)
        (by simpa [Counter.add] using hv)
  exact key tss _ _ (ringInv_new num) rfl rfl

example : ringRun 10 (Ring.new 3) [1, 2, 3, 20, 21, 22] = [false, false, true, false, false, true] := by
  decide

/-- **backoff_refines_epoch_log.** For ALL `Period`/`Duration` values (cache entries may expire) and
every history of events with positive non-decreasing times, the real limiter's verdicts are exactly
those of the epoch window-log specification `especRun`: a query is dropped iff ANY-refusal applies, or
its bucket's hit epoch is alive (`Duration` after its first hit) and has reached `count` hits
(backoff), or at least `limit` earlier counted events of the bucket's current counter epoch lie in the
closed window, where the counter epoch (the log) is wiped `Period` after its *creation*, used or not;
allowlisted clients pass untouched.  Unconditional; the reset `Period` after creation (known finding
`reqcounter-expires-period-after-creation`) is part of this specification. -/
theorem backoff_refines_epoch_log (c : Cfg) (h4 : 0 ≤ c.v4ivl) (h6 : 0 ≤ c.v6ivl) (evs : List Ev)
    (hch : Chain 0 evs) :
    run c St.empty evs = especRun c ESpec.empty evs := by
  have key : ∀ (evs : List Ev) (s : St) (sp : ESpec) (T : Int), (∀ k, ESimK c s sp k) →
      ETimeInv sp T → Chain T evs → run c s evs = especRun c sp evs := by
    intro evs
    induction evs with
    | nil => intro _ _ _ _ _ _; rfl
    | cons e r ih =>
      intro s sp T hs ht hc
      obtain ⟨hpos, hT, hrest⟩ := hc
      have := esim_step c s sp e T h4 h6 hs ht hpos hT
      simp only [run, especRun]
      rw [this.1, ih _ _ _ this.2.1 this.2.2 hrest]
  apply key evs St.empty ESpec.empty 0 _ _ hch
  · intro k; simp [ESimK, St.empty, ESpec.empty]
  · intro k; simp [ESpec.empty, Desc]

/-- **epoch_log_exact_when_resets_quiet.** If every reset of a bucket's log along the history is quiet
(each discarded stamp had already left the window), the epoch specification gives the verdicts of the
reset-free one, `{ c with period := 0 }` — the exact per-subnet sliding window with backoff.  Times
need only be non-decreasing. -/
theorem epoch_log_exact_when_resets_quiet (c : Cfg) (evs : List Ev) (hch : Chain 0 evs)
    (hq : QuietResets c ESpec.empty evs) :
    especRun c ESpec.empty evs = especRun { c with period := 0 } ESpec.empty evs := by
  have key : ∀ (evs : List Ev) (sp sp0 : ESpec) (T : Int), (∀ k, QSimK c sp sp0 T k) →
      Chain T evs → quietResets c sp evs = true →
      especRun c sp evs = especRun { c with period := 0 } sp0 evs := by
    intro evs
    induction evs with
    | nil => intro _ _ _ _ _ _; rfl
    | cons e r ih =>
      intro sp sp0 T hs hc hq
      obtain ⟨_, hT, hrest⟩ := hc
      simp only [quietResets, Bool.and_eq_true] at hq
      have := qsim_step c sp sp0 e T hs hT hq.1
      simp only [especRun]
      rw [this.1, ih _ _ _ this.2 hrest hq.2]
  apply key evs ESpec.empty ESpec.empty 0 _ hch hq
  intro k; simp [QSimK, QRel, ESpec.empty]

/-- **quietResets_of_no_period.** With a non-positive `Period` no reset ever happens, so every history
has quiet resets. -/
theorem quietResets_of_no_period (c : Cfg) (hp : c.period ≤ 0) (sp : ESpec) (evs : List Ev) :
    QuietResets c sp evs := by
  unfold QuietResets
  induction evs generalizing sp with
  | nil => rfl
  | cons e r ih => simp only [quietResets, quietStep_of_no_period c hp, ih, Bool.and_self]

/-- **backoff_is_window_log_partial.** For every history of events with positive non-decreasing
times in which every reset of a `reqCounters` entry is quiet, the real limiter's verdicts are exactly
those of the reset-free window-log specification: a query is dropped iff ANY-refusal applies, or its
bucket's hit epoch is alive and has reached `count` hits (backoff, lasting `Duration` after the first
hit), or at least `limit` earlier counted events of its bucket lie in the closed window; allowlisted
clients pass untouched.
PARTIAL: histories with a non-quiet reset are excluded, and `backoff_reset_counterexample` shows the
exclusion is necessary (known finding `reqcounter-expires-period-after-creation`). -/
theorem backoff_is_window_log_partial (c : Cfg) (h4 : 0 ≤ c.v4ivl) (h6 : 0 ≤ c.v6ivl) (evs : List Ev)
    (hch : Chain 0 evs) (hq : QuietResets c ESpec.empty evs) :
    run c St.empty evs = especRun { c with period := 0 } ESpec.empty evs := by
  rw [backoff_refines_epoch_log c h4 h6 evs hch, epoch_log_exact_when_resets_quiet c evs hch hq]

/-- **epoch_log_is_pure_window_when_no_expiry.** With non-positive `Period` and `Duration` epochs never
die and the epoch specification is the plain window-log specification, for every history. -/
theorem epoch_log_is_pure_window_when_no_expiry (c : Cfg) (hp : c.period ≤ 0) (hdur : c.duration ≤ 0)
    (evs : List Ev) :
    especRun c ESpec.empty evs = specRun c Spec.empty evs := by
  have key : ∀ (evs : List Ev) (esp : ESpec) (sp : Spec), (∀ k, PureK esp sp k) →
      especRun c esp evs = specRun c sp evs := by
    intro evs
    induction evs with
    | nil => intro _ _ _; rfl
    | cons e r ih =>
      intro esp sp hs
      have := pure_step c esp sp e hp hdur hs
      simp only [especRun, specRun]
      rw [this.1, ih _ _ this.2]
  apply key
  intro k; simp [PureK, ESpec.empty, Spec.empty]

/-- **backoff_is_window_log_noexpiry.** With cache entries that never expire (non-positive `Period`
and `Duration`) the real limiter's verdicts are those of the plain window-log specification `specRun`
(stamps and a hit count per bucket, no epochs).  Corollary of `backoff_refines_epoch_log`. -/
theorem backoff_is_window_log_noexpiry (c : Cfg) (hp : c.period ≤ 0) (hdur : c.duration ≤ 0)
    (h4 : 0 ≤ c.v4ivl) (h6 : 0 ≤ c.v6ivl) (evs : List Ev) (hch : Chain 0 evs) :
    run c St.empty evs = specRun c Spec.empty evs := by
  rw [backoff_refines_epoch_log c h4 h6 evs hch, epoch_log_is_pure_window_when_no_expiry c hp hdur evs]

/-- Non-vacuity: a concrete history (limit 1 per 10 ns in a /24, backoff after 2 hits) meets the
hypotheses and exercises pass, window drop and backoff drop. -/
def exCfg2 : Cfg :=
  { count := 2, period := 0, duration := 0, est := 1, v4count := 1, v4ivl := 10, v4len := 24,
    v6count := 1, v6ivl := 10, v6len := 48, refuseAny := false, allow := [] }
def exEvs : List Ev :=
  [⟨1, ⟨true, 167772161⟩, 1⟩, ⟨2, ⟨true, 167772162⟩, 1⟩, ⟨3, ⟨true, 167772163⟩, 1⟩, ⟨100, ⟨true, 167772161⟩, 1⟩]
example : exCfg2.period ≤ 0 ∧ exCfg2.duration ≤ 0 ∧ 0 ≤ exCfg2.v4ivl ∧ 0 ≤ exCfg2.v6ivl ∧
    Chain 0 exEvs ∧ specRun exCfg2 Spec.empty exEvs = [.pass, .drop, .drop, .drop] := by
  refine ⟨by decide, by decide, by decide, by decide, by simp [Chain, exEvs], by decide⟩

/-- Non-vacuity of `backoff_is_window_log_partial` with a POSITIVE `Period` (5): limit 1 per 2 ns.  The
log born at 1 is wiped by the event at 10 (> 1 + 5); the discarded stamps 2 and 1 are more than 2
old, so the reset is quiet, and the exact window gives pass, drop, pass, drop. -/
def exCfg5 : Cfg :=
  { count := 1000, period := 5, duration := 0, est := 1, v4count := 1, v4ivl := 2, v4len := 24,
    v6count := 1, v6ivl := 2, v6len := 48, refuseAny := false, allow := [] }
def exEvs5 : List Ev :=
  [⟨1, ⟨true, 167772161⟩, 1⟩, ⟨2, ⟨true, 167772162⟩, 1⟩, ⟨10, ⟨true, 167772163⟩, 1⟩, ⟨11, ⟨true, 167772161⟩, 1⟩]
example : 0 ≤ exCfg5.v4ivl ∧ 0 ≤ exCfg5.v6ivl ∧ Chain 0 exEvs5 ∧ QuietResets exCfg5 ESpec.empty exEvs5 ∧
    ((especStep exCfg5 (especStep exCfg5 ESpec.empty ⟨1, ⟨true, 167772161⟩, 1⟩).1 ⟨2, ⟨true, 167772162⟩, 1⟩).1
      (evKey exCfg5 ⟨10, ⟨true, 167772163⟩, 1⟩)).resetsAt exCfg5.period 10 = true ∧
    especRun { exCfg5 with period := 0 } ESpec.empty exEvs5 = [.pass, .drop, .pass, .drop] ∧
    run exCfg5 St.empty exEvs5 = [.pass, .drop, .pass, .drop] := by
  refine ⟨by decide, by decide, by simp [Chain, exEvs5], by decide, by decide, by decide, by decide⟩

example : exCfg5.period > 0 ∧ ¬ QuietResets { exCfg5 with v4ivl := 100 } ESpec.empty exEvs5 := by decide

def exCfg3 : Cfg :=
  { count := 1000, period := 300, duration := 3600000, est := 100000, v4count := 2, v4ivl := 10000,
    v4len := 24, v6count := 2, v6ivl := 10000, v6len := 48, refuseAny := false, allow := [] }
def exEvs3 : List Ev :=
  [⟨1, ⟨true, 3221225985⟩, 1⟩, ⟨2, ⟨true, 3221225985⟩, 1⟩, ⟨3, ⟨true, 3221225985⟩, 1⟩,
   ⟨4, ⟨true, 3221225985⟩, 1⟩, ⟨404, ⟨true, 3221225985⟩, 1⟩]

/-- Non-vacuity of `backoff_refines_epoch_log` with a positive `Period` (300) and `Duration`: the
history of `backoff_reset_counterexample` meets the hypotheses, and the epoch specification gives the
real limiter's verdicts, including the fifth query passing after the log was wiped at 1 + 300. -/
example : Chain 0 exEvs3 ∧ 0 ≤ exCfg3.v4ivl ∧ 0 ≤ exCfg3.v6ivl ∧
    especRun exCfg3 ESpec.empty exEvs3 = [.pass, .pass, .drop, .drop, .pass] := by
  refine ⟨by simp [Chain, exEvs3], by decide, by decide, by decide⟩

/-- The history of `backoff_reset_counterexample` is excluded by `backoff_is_window_log_partial`: its
reset at 404 discards stamps that are still inside the 10 s window. -/
example : ¬ QuietResets exCfg3 ESpec.empty exEvs3 ∧
    especRun { exCfg3 with period := 0 } ESpec.empty exEvs3 = [.pass, .pass, .drop, .drop, .drop] ∧
    run exCfg3 St.empty exEvs3 = [.pass, .pass, .drop, .drop, .pass] := by decide

/-- A small positive `Duration` (5): limit 1 per 1 ns, backoff after 1 hit.  The second query is over
the limit (first hit at 2, hit epoch alive until 2 + 5); the third, at 5, has an empty window but is
dropped by backoff; the fourth, at 8, finds the hit epoch dead and an empty window and passes. -/
def exCfg4 : Cfg :=
  { count := 1, period := 0, duration := 5, est := 1, v4count := 1, v4ivl := 1, v4len := 24,
    v6count := 1, v6ivl := 1, v6len := 48, refuseAny := false, allow := [] }
def exEvs4 : List Ev :=
  [⟨1, ⟨true, 167772161⟩, 1⟩, ⟨2, ⟨true, 167772162⟩, 1⟩, ⟨5, ⟨true, 167772163⟩, 1⟩, ⟨8, ⟨true, 167772161⟩, 1⟩]
example : Chain 0 exEvs4 ∧ especRun exCfg4 ESpec.empty exEvs4 = [.pass, .drop, .drop, .pass] ∧
    run exCfg4 St.empty exEvs4 = [.pass, .drop, .drop, .pass] := by
  refine ⟨by simp [Chain, exEvs4], by decide, by decide⟩

/-- **backoff_reset_counterexample.** With a positive `Period` the exact-window claim is false for
the code as written: limit 2 per 10 s, period 300 ms — the fifth query, 0.4 s after four others,
passes although four events lie in its window (times in ms).  Replayed on the real limiter by the
harness (known finding `reqcounter-expires-period-after-creation`). -/
theorem backoff_reset_counterexample :
    run exCfg3 St.empty exEvs3 = [.pass, .pass, .drop, .drop, .pass] ∧
      specRun exCfg3 Spec.empty exEvs3 = [.pass, .pass, .drop, .drop, .drop] := by
  decide

/-- **large_response_weight.** Counting a response of `len` bytes is exactly the same as `⌊len / est⌋`
further query events of the same client (one per loop iteration), so the window-log theorem covers
response weighting: a large response consumes that many units of the subnet's budget. -/
theorem large_response_weight (c : Cfg) (s : St) (now tick : Int) (a : Addr) (q : Nat) (len : Nat) :
    countResponses c s (loopTimes now tick (respWeight c.est len)) a q =
      runState c s ((loopTimes now tick (len / c.est)).map (fun t => ⟨t, a, q⟩)) := by
  unfold countResponses respWeight
  generalize loopTimes now tick (len / c.est) = ts
  induction ts generalizing s with
  | nil => rfl
  | cons t r ih => simp only [List.foldl, List.map, runState]; exact ih _

example : (loopTimes 100 2 (respWeight 100 350)).length = 3 := by decide

/-- **profile_limit_replaces_global.** For a request attributed to a profile whose limiter covers the
client (no subnets configured, or the address inside one of them), on a rate-limited protocol: the
global limiter's state is untouched and the request is dropped iff the profile's own one-second
counter says so. -/
theorem profile_limit_replaces_global (c : Cfg) (g : St) (p : ProfLim) (now tick : Int) (a : Addr)
    (q : Nat) (rl : Option Nat)
    (hcov : p.subnets.isEmpty = true ∨ p.subnets.any (fun s => s.contains a) = true) :
    (serve c true { glob := g, prof := some p } now tick a q rl).1.glob = g ∧
    ((serve c true { glob := g, prof := some p } now tick a q rl).2 = .dropped ↔
      (p.ctr.add now).2 = true) := by
  have hchk : p.check now a =
      ({ p with ctr := (p.ctr.add now).1 }, if (p.ctr.add now).2 then .drop else .pass) := by
    unfold ProfLim.check
    rcases hcov with h | h <;> simp [h]
  unfold serve
  simp only [Bool.not_true, Bool.false_eq_true, if_false, hchk]
  cases hab : (p.ctr.add now).2 <;> cases rl <;> simp

/-- **profile_limit_uses_global_outside_subnets.** Outside the profile's configured subnets the profile
limiter is neither consulted nor charged: the outcome is the global limiter's. -/
theorem profile_outside_subnets_uses_global (c : Cfg) (g : St) (p : ProfLim) (now tick : Int)
    (a : Addr) (q : Nat) (rl : Option Nat)
    (hne : p.subnets.isEmpty = false) (hout : p.subnets.any (fun s => s.contains a) = false) :
    (serve c true { glob := g, prof := some p } now tick a q rl).1.prof = some p ∧
    (serve c true { glob := g, prof := some p } now tick a q rl).2 =
      (serve c true { glob := g, prof := none } now tick a q rl).2 := by
  have hchk : p.check now a = (p, .useGlobal) := by
    unfold ProfLim.check; simp [hne, hout]
  unfold serve
  simp only [Bool.not_true, Bool.false_eq_true, if_false, hchk]
  rcases h : isRateLimited c g now a q with ⟨g', v⟩
  cases v <;> cases rl <;> simp

/-- **profile_limiter_is_window_log.** A profile's own limiter (a fresh one-second counter of `rps`
requests), over every history of requests with positive non-decreasing times, gives exactly the
window-log specification's verdicts: a client outside the profile's configured subnets is handed to
the global limiter and is not counted; any other request is dropped iff at least `rps` earlier
counted requests of the profile lie within the closed last second, and is counted either way. -/
theorem profile_limiter_is_window_log (rps : Nat) (p : ProfLim) (evs : List (Int × Addr))
    (hfresh : p.ctr = Counter.new rps 1000000000) (hch : TChain 0 evs) :
    profRun p evs = profSpecRun rps p.subnets [] evs := by
  have := profRun_sim rps evs p 0 (by rw [hfresh]; rfl) (by rw [hfresh]; rfl) (by rw [hfresh]; trivial)
    (by rw [hfresh]; intro x hx; cases hx) hch
  rw [this, hfresh]; rfl

/-- Non-vacuity: 2 rps, subnet 10.0.0.0/8; a client outside the subnet is not counted. -/
def exProf : ProfLim :=
  { subnets := [⟨true, 167772160, 8⟩], ctr := Counter.new 2 1000000000, est := 1 }
def exProfEvs : List (Int × Addr) :=
  [(1, ⟨true, 167772161⟩), (2, ⟨true, 3221225985⟩), (3, ⟨true, 167772162⟩), (4, ⟨true, 167772163⟩),
   (2000000000, ⟨true, 167772161⟩)]
example : exProf.ctr = Counter.new 2 1000000000 ∧ TChain 0 exProfEvs ∧
    profSpecRun 2 exProf.subnets [] exProfEvs = [.pass, .useGlobal, .pass, .drop, .pass] := by
  refine ⟨rfl, by simp [TChain, exProfEvs], by decide⟩

/-- **other_protocols_never_limited.** On a protocol that is not rate limited the middleware serves
the request and touches neither limiter. -/
theorem other_protocols_never_limited (c : Cfg) (m : MwSt) (now tick : Int) (a : Addr) (q : Nat)
    (rl : Option Nat) : serve c false m now tick a q rl = (m, .servedNoCount) := by
  simp [serve]

/-- **global_path_exact.** Without a profile limiter, on a rate-limited protocol: the request is
dropped iff the global limiter says drop; an allowlisted request is served with no state change and
its response is not weighed; a passed request's response of `len` bytes is weighed into the limiter. -/
theorem global_path_exact (c : Cfg) (g : St) (now tick : Int) (a : Addr) (q : Nat) (rl : Option Nat) :
    ((serve c true { glob := g, prof := none } now tick a q rl).2 = .dropped ↔
      (isRateLimited c g now a q).2 = .drop) ∧
    ((isRateLimited c g now a q).2 = .allowlisted →
      serve c true { glob := g, prof := none } now tick a q rl = ({ glob := g, prof := none }, .servedNoCount)) ∧
    (∀ len, (isRateLimited c g now a q).2 = .pass → rl = some len →
      (serve c true { glob := g, prof := none } now tick a q rl).1.glob =
        countResponses c (isRateLimited c g now a q).1 (loopTimes now tick (respWeight c.est len)) a q ∧
      (serve c true { glob := g, prof := none } now tick a q rl).2 = .servedCounted) := by
  have hst := allowlisted_verdict_state c g now a q
  unfold serve serveGlobal
  simp only [Bool.not_true, Bool.false_eq_true, if_false]
  rcases h : isRateLimited c g now a q with ⟨g', v⟩
  rw [h] at hst
  cases v
  · simp
  · have : g' = g := hst rfl
    subst this
    simp
  · cases rl <;> simp

example : (isRateLimited exCfg2 St.empty 1 ⟨true, 167772161⟩ 1).2 = .pass ∧
    (isRateLimited { exCfg2 with allow := [⟨true, 167772160, 8⟩] } St.empty 1 ⟨true, 167772161⟩ 1).2 = .allowlisted := by
  decide

/-- **lib_middleware_exact.** The library middleware: a protocol outside the configured list is served
unlimited; a remote address without a port is dropped before the limiter is consulted (state
untouched); otherwise the outcome is exactly the global flow. -/
theorem lib_middleware_exact (c : Cfg) (g : St) (now tick : Int) (a : Addr) (q : Nat) (rl : Option Nat)
    (pz : Bool) :
    serveLib c false pz g now tick a q rl = (g, .servedNoCount) ∧
    serveLib c true true g now tick a q rl = (g, .dropped) ∧
    serveLib c true false g now tick a q rl = serveGlobal c g now tick a q rl := by
  simp [serveLib]

/-- **refuse_any_all.** With ANY refusal configured every ANY query is dropped, allowlisted or not. -/
theorem refuse_any_all (c : Cfg) (s : St) (now : Int) (a : Addr) (h : c.refuseAny = true) :
    (isRateLimited c s now a qtypeANY).2 = .drop := by
  simp [isRateLimited, h]

/-- **allowlisted_never_dropped.** An allowlisted client is never dropped by the limiter and leaves
no trace in its state, unless the query is an ANY query and refusal is configured. -/
theorem allowlisted_never_dropped (c : Cfg) (s : St) (now : Int) (a : Addr) (q : Nat)
    (hal : allowed c a = true) (hq : ¬ (c.refuseAny = true ∧ q = qtypeANY)) :
    isRateLimited c s now a q = (s, .allowlisted) := by
  unfold isRateLimited
  have : (c.refuseAny && q == qtypeANY) = false := by
    cases hr : c.refuseAny <;> simp_all
  simp [this, hal]

def exCfg : Cfg :=
  { count := 1, period := 0, duration := 0, est := 1, v4count := 1, v4ivl := 1, v4len := 24,
    v6count := 1, v6ivl := 1, v6len := 48, refuseAny := true,
    allow := [{ is4 := true, val := 167772160, bits := 8 }] }

example : allowed exCfg { is4 := true, val := 167838211 } = true ∧
    ¬ (exCfg.refuseAny = true ∧ 1 = qtypeANY) := by decide

/-- **allowlist_flat.** The limiter's allowlist test over the flattened list is `DynamicAllowlist.IsAllowed`. -/
theorem allowlist_flat (c : Cfg) (l : Allowlist) (a : Addr) :
    allowed { c with allow := l.flat } a = l.isAllowed a := by
  simp [allowed, Allowlist.flat, Allowlist.isAllowed, List.any_append]

/-- **allowlist_update_replaces_dynamic.** After `Update nets` a client is allowlisted iff it is in a
persistent network or in one of `nets`: the previous dynamic networks are forgotten, the persistent
ones cannot be removed. -/
theorem allowlist_update_replaces_dynamic (l : Allowlist) (nets : List Prefix) (a : Addr) :
    (l.update nets).isAllowed a =
      (l.persistent.any (fun p => p.contains a) || nets.any (fun p => p.contains a)) := by
  simp [Allowlist.update, Allowlist.isAllowed]

/-- **allowlist_only_matters_for_its_clients.** Replacing the allowlist changes nothing for a client
whose membership did not change: same verdict, same new limiter state, whatever the state was.  So an
allowlist update never touches limiter state and changes the verdict only of clients whose membership
changed. -/
theorem allowlist_only_matters_for_its_clients (c : Cfg) (al' : List Prefix) (s : St) (now : Int)
    (a : Addr) (q : Nat) (h : allowed c a = allowed { c with allow := al' } a) :
    isRateLimited c s now a q = isRateLimited { c with allow := al' } s now a q := by
  unfold isRateLimited
  rw [← h]
  rfl

example : allowed exCfg ⟨true, 3221225985⟩ =
    allowed { exCfg with allow := [⟨true, 167772160, 8⟩, ⟨true, 2886729728, 12⟩] } ⟨true, 3221225985⟩ := by
  decide

/-- **backoff_refines_epoch_log_dynamic_allowlist.** `backoff_refines_epoch_log` for histories in which
the allowlist changes between events (`DynamicAllowlist.Update`): every event is judged under the
allowlist current at its time, on both sides; limiter state and specification state never depend on
the allowlist. -/
theorem backoff_refines_epoch_log_dynamic_allowlist (c : Cfg) (h4 : 0 ≤ c.v4ivl) (h6 : 0 ≤ c.v6ivl)
    (evs : List (List Prefix × Ev)) (hch : Chain 0 (evs.map (·.2))) :
    runA c St.empty evs = especRunA c ESpec.empty evs := by
  have key : ∀ (evs : List (List Prefix × Ev)) (s : St) (sp : ESpec) (T : Int), (∀ k, ESimK c s sp k) →
      ETimeInv sp T → Chain T (evs.map (·.2)) → runA c s evs = especRunA c sp evs := by
    intro evs
    induction evs with
    | nil => intro _ _ _ _ _ _; rfl
    | cons ae r ih =>
      intro s sp T hs ht hc
      obtain ⟨al, e⟩ := ae
      obtain ⟨hpos, hT, hrest⟩ := hc
      have := esim_step { c with allow := al } s sp e T h4 h6
        (fun k => (esimK_allow c al s sp k).mpr (hs k)) ht hpos hT
      simp only [runA, especRunA]
      rw [this.1, ih _ _ _ (fun k => (esimK_allow c al _ _ k).mp (this.2.1 k)) this.2.2 hrest]
  apply key evs St.empty ESpec.empty 0 _ _ hch
  · intro k; simp [ESimK, St.empty, ESpec.empty]
  · intro k; simp [ESpec.empty, Desc]

/-- Non-vacuity: the same client is allowlisted, then (after an update removing its network) counted
and limited, then allowlisted again. -/
def exEvsA : List (List Prefix × Ev) :=
  [([⟨true, 167772160, 8⟩], ⟨1, ⟨true, 167772161⟩, 1⟩), ([], ⟨2, ⟨true, 167772161⟩, 1⟩),
   ([], ⟨3, ⟨true, 167772161⟩, 1⟩), ([⟨true, 167772160, 8⟩], ⟨4, ⟨true, 167772161⟩, 1⟩)]
example : Chain 0 (exEvsA.map (·.2)) ∧
    especRunA exCfg5 ESpec.empty exEvsA = [.allowlisted, .pass, .drop, .allowlisted] := by
  refine ⟨by simp [Chain, exEvsA], by decide⟩

/-- **subnet_isolation.** Non-interference between buckets: the verdicts a subnet's events get inside
an arbitrary history equal the verdicts they get when every event of every other subnet is removed.
A flooding subnet cannot change what any other subnet experiences. -/
theorem subnet_isolation (c : Cfg) (k : Key) (evs : List Ev) :
    ∀ s₁ s₂, Agree k s₁ s₂ →
      runK c k s₁ evs = run c s₂ (evs.filter (fun e => decide (evKey c e = k))) := by
  induction evs with
  | nil => intro _ _ _; rfl
  | cons e r ih =>
    intro s₁ s₂ hag
    by_cases hk : evKey c e = k
    · subst hk
      have := local_step c s₁ s₂ e.now e.addr e.qtype hag
      simp only [runK, List.filter, decide_true, run, if_true]
      rw [this.1, ih _ _ this.2]
    · have hf := frame c s₁ e.now e.addr e.qtype k hk
      simp only [runK, hk, List.filter, decide_false, if_false]
      exact ih _ _ ⟨hf.1.trans hag.1, hf.2.trans hag.2⟩

/-- **subnet_isolation_dynamic_allowlist.** `subnet_isolation` for histories in which the allowlist
changes between events: the verdicts a subnet's events get inside an arbitrary history equal those
they get when every event of every other subnet is removed. -/
theorem subnet_isolation_dynamic_allowlist (c : Cfg) (k : Key) (evs : List (List Prefix × Ev)) :
    ∀ s₁ s₂, Agree k s₁ s₂ →
      runKA c k s₁ evs = runA c s₂ (evs.filter (fun ae => decide (evKey c ae.2 = k))) := by
  induction evs with
  | nil => intro _ _ _; rfl
  | cons ae r ih =>
    intro s₁ s₂ hag
    obtain ⟨al, e⟩ := ae
    by_cases hk : evKey c e = k
    · subst hk
      have := local_step { c with allow := al } s₁ s₂ e.now e.addr e.qtype hag
      simp only [runKA, List.filter, decide_true, runA, if_true]
      rw [this.1, ih _ _ this.2]
    · have hf := frame { c with allow := al } s₁ e.now e.addr e.qtype k hk
      simp only [runKA, hk, List.filter, decide_false, if_false]
      exact ih _ _ ⟨hf.1.trans hag.1, hf.2.trans hag.2⟩

example : runKA exCfg5 (evKey exCfg5 ⟨1, ⟨true, 167772161⟩, 1⟩) St.empty
      (exEvsA ++ [([], ⟨5, ⟨true, 3221225985⟩, 1⟩)]) = [.allowlisted, .pass, .drop, .allowlisted] := by
  decide

/-- **subnetKey_eq_iff_same_leading_bits.** Two addresses of one family fall into the same bucket
exactly when their leading `bits` bits (the family's configured subnet length) agree: the bucket key
is the address masked to its subnet. -/
theorem subnetKey_eq_iff_same_leading_bits (a b : Addr) (v4len v6len : Nat) (hf : a.is4 = b.is4)
    (ha : a.val < 2 ^ width a.is4) (hb : b.val < 2 ^ width b.is4)
    (hbits : (if a.is4 then v4len else v6len) ≤ width a.is4) :
    subnetKey a v4len v6len = subnetKey b v4len v6len ↔
      ∀ i, i < (if a.is4 then v4len else v6len) →
        a.val.testBit (width a.is4 - 1 - i) = b.val.testBit (width a.is4 - 1 - i) := by
  rw [← hf] at hb
  rw [← shiftRight_eq_iff_leading_bits _ _ _ _ hbits ha hb]
  simp [subnetKey, ← hf]

example : subnetKey ⟨true, 167772161⟩ 24 48 = subnetKey ⟨true, 167772414⟩ 24 48 ∧
    subnetKey ⟨true, 167772161⟩ 24 48 ≠ subnetKey ⟨true, 167772417⟩ 24 48 ∧
    (167772161 : Nat) < 2 ^ width true ∧ 24 ≤ width true := by decide

/-- **prefix_contains_iff_same_leading_bits.** A network contains an address exactly when its length
fits the family (otherwise it is the invalid network, which contains nothing — backend CIDR ranges are
converted unchecked), the family is the same and the leading `bits` bits agree.  No hypothesis on the
length any more. -/
theorem prefix_contains_iff_same_leading_bits (p : Prefix) (a : Addr)
    (ha : a.val < 2 ^ width a.is4) (hp : p.val < 2 ^ width a.is4) :
    p.contains a = true ↔ p.bits ≤ width a.is4 ∧ p.is4 = a.is4 ∧
      ∀ i, i < p.bits → a.val.testBit (width a.is4 - 1 - i) = p.val.testBit (width a.is4 - 1 - i) := by
  by_cases hbits : p.bits ≤ width a.is4
  · rw [← shiftRight_eq_iff_leading_bits _ _ _ _ hbits ha hp]
    simp [Prefix.contains, hbits]
  · simp [Prefix.contains, hbits]

/-- An over-long network contains nothing, not even its own address. -/
example : (⟨true, 167772161, 40⟩ : Prefix).contains ⟨true, 167772161⟩ = false := by decide

example : (⟨true, 167772160, 8⟩ : Prefix).contains ⟨true, 167838211⟩ = true ∧
    (167838211 : Nat) < 2 ^ width true ∧ (167772160 : Nat) < 2 ^ width true ∧ 8 ≤ width true := by decide

/-! ## Whole request histories through the middleware -/

/-- **mw_history_is_window_log.** ONE theorem over whole request histories through
`serveWithRatelimiting`, response weighting interleaved: for every configuration, every set of
profiles with their own limits (fresh counters), and every history of requests (any mix of
protocols, clients, profiles, query types and response sizes) whose clock readings are positive and
non-decreasing — including the readings of each `CountResponses` loop, `tick ≥ 0` apart — what the
clients observe (`dropped` / served) is exactly what the declarative specification `mwSpecRun` says:
a request on a non-limited protocol is served and counts nowhere; a request of a profile whose own
limit covers the client is dropped iff `rps` earlier counted stamps of that profile (queries and
response units) lie in the closed last second, and touches the global limiter not at all; every
other request is one event of the per-subnet epoch window-log specification (`especStep`: ANY
refusal, allowlist, backoff, window), and when it passes, its response is ⌊len / est⌋ further events
of the same subnet, which later requests of that subnet find in their window. -/
theorem mw_history_is_window_log (c : Cfg) (h4 : 0 ≤ c.v4ivl) (h6 : 0 ≤ c.v6ivl)
    (profs : Nat → Option PSpec) (hfresh : ∀ id p, profs id = some p → p.log = [])
    (reqs : List MReq) (hch : MChain 0 reqs) :
    mwRun c (HSt.init profs) reqs = mwSpecRun c { glob := ESpec.empty, profs := profs } reqs :=
  mw_history_refines_spec c h4 h6 profs hfresh reqs hch

/-- Non-vacuity: limit 2 per 1000 in a /24, response estimate 100, ANY refusal, 192.0.2.0/24
allowlisted, profile 7 with 1 rps.  Profile client passes, is dropped by its profile; a global client
is served a 250-byte response (weight 2) and its next request is dropped because of it; DoT is not
limited; an allowlisted client is served; profile 9 has no limit of its own. -/
example : MChain 0 exReqs ∧ (∀ id p, exProfs id = some p → p.log = []) ∧ 0 ≤ exCfgH.v4ivl ∧ 0 ≤ exCfgH.v6ivl ∧
    mwRun exCfgH (HSt.init exProfs) exReqs =
      [.servedCounted, .dropped, .servedCounted, .dropped, .servedNoCount, .servedNoCount, .servedCounted] := by
  refine ⟨exReqs_chain, exProfs_fresh, by decide, by decide, ?_⟩
  rw [mw_history_is_window_log exCfgH (by decide) (by decide) exProfs exProfs_fresh exReqs exReqs_chain]
  decide

/-! ## The allowlist refresh path -/

/-- **host_prefix_contains_iff.** The network built from a consul record contains exactly that host. -/
theorem host_prefix_contains_iff (a b : Addr) : (hostPrefix b).contains a = true ↔ a = b := by
  cases a with
  | mk ai av =>
    cases b with
    | mk bi bv =>
      simp only [hostPrefix, Prefix.contains, Bool.and_eq_true, beq_iff_eq, Addr.mk.injEq]
      constructor
      · rintro ⟨⟨_, h1⟩, h2⟩
        subst h1
        simp at h2
        exact ⟨rfl, h2⟩
      · rintro ⟨h1, h2⟩
        subst h1
        subst h2
        simp

/-- **consul_refresh_exact.** After a successful refresh a client is allowlisted iff it lies in a
persistent network or IS one of the hosts in the decoded records (no neighbour of a host, no host of
an earlier refresh); a failed refresh leaves the allowlist exactly as it was. -/
theorem consul_refresh_exact (l : Allowlist) (addrs : List Addr) (a : Addr) :
    (l.consulRefresh (some addrs)).isAllowed a =
      (l.persistent.any (fun p => p.contains a) || decide (a ∈ addrs)) ∧
    l.consulRefresh none = l := by
  refine ⟨?_, rfl⟩
  have h : (addrs.map hostPrefix).any (fun p => p.contains a) = decide (a ∈ addrs) := by
    induction addrs with
    | nil => simp
    | cons b r ih =>
      simp only [List.map, List.any_cons, ih, List.mem_cons]
      by_cases hb : a = b
      · simp [hb, (host_prefix_contains_iff b b).mpr rfl]
      · have : (hostPrefix b).contains a = false := by
          cases hc : (hostPrefix b).contains a
          · rfl
          · exact absurd ((host_prefix_contains_iff a b).mp hc) hb
        simp [this, hb]
  simp [Allowlist.consulRefresh, Allowlist.update, Allowlist.isAllowed, h]

example : ((({ persistent := [⟨true, 167772160, 8⟩], dynamic := [] } : Allowlist).consulRefresh
      (some [⟨true, 3221225985⟩])).isAllowed ⟨true, 3221225985⟩) = true := by decide
example : ((({ persistent := [], dynamic := [] } : Allowlist).consulRefresh
      (some [⟨true, 3221225985⟩])).isAllowed ⟨true, 3221225986⟩) = false := by decide

/-- **refreshed_history_refines_epoch_log.** End to end: the limiter and its allowlist object driven
by any sequence of queries and consul refreshes (successful or failed) give, for positive
non-decreasing query times, exactly the verdicts of the epoch window-log specification in which every
query is judged under the networks allowlisted at its moment — persistent ones plus the hosts of the
last successful refresh.  Refreshes never touch limiter state. -/
theorem refreshed_history_refines_epoch_log (c : Cfg) (h4 : 0 ≤ c.v4ivl) (h6 : 0 ≤ c.v6ivl)
    (l : Allowlist) (ops : List Op) (hch : Chain 0 ((annotOps l ops).map (·.2))) :
    runOps c St.empty l ops = especRunA c ESpec.empty (annotOps l ops) := by
  have key : ∀ (ops : List Op) (s : St) (l : Allowlist), runOps c s l ops = runA c s (annotOps l ops) := by
    intro ops
    induction ops with
    | nil => intro _ _; rfl
    | cons o r ih =>
      intro s l
      cases o with
      | ev e => simp only [runOps, annotOps, runA]; rw [ih]
      | refresh resp => simp only [runOps, annotOps]; rw [ih]
  rw [key, backoff_refines_epoch_log_dynamic_allowlist c h4 h6 _ hch]

/-- Non-vacuity: limit 1 per 2 ns; the client is counted, then a refresh allowlists it, a failed
refresh changes nothing, a refresh without it makes it countable again. -/
def exOps : List Op :=
  [.ev ⟨1, ⟨true, 167772161⟩, 1⟩, .ev ⟨2, ⟨true, 167772161⟩, 1⟩, .refresh (some [⟨true, 167772161⟩]),
   .ev ⟨3, ⟨true, 167772161⟩, 1⟩, .refresh none, .ev ⟨4, ⟨true, 167772161⟩, 1⟩, .refresh (some []),
   .ev ⟨4, ⟨true, 167772161⟩, 1⟩]
example : Chain 0 ((annotOps ⟨[], []⟩ exOps).map (·.2)) ∧
    runOps exCfg5 St.empty ⟨[], []⟩ exOps = [.pass, .drop, .allowlisted, .allowlisted, .drop] := by
  refine ⟨by simp [Chain, exOps, annotOps], by decide⟩

/-! ## Goroutines -/

open Conc in
/-- **concurrent_adds_are_sequential.** `RequestCounter.Add` under its mutex, called from any number
of goroutines under ANY scheduler: once all calls have returned, the results are exactly those of the
sequential ring-buffer run (hence, by `ring_refines_history`, of the history model) over the stamps in
the order in which the goroutines entered the critical section, and that order is a permutation of
the goroutines. -/
theorem concurrent_adds_are_sequential (num : Nat) (ivl : Int) (stamps : List Int) (sched : List Nat)
    (hdone : allDone (Conc.run true ivl (init (num + 1) stamps) sched) = true) :
    (Conc.run true ivl (init (num + 1) stamps) sched).order.Perm (List.range stamps.length) ∧
    (Conc.run true ivl (init (num + 1) stamps) sched).order.map (resultOf (Conc.run true ivl (init (num + 1) stamps) sched)) =
      (ctrRun (Counter.new num ivl)
        ((Conc.run true ivl (init (num + 1) stamps) sched).order.map (stampOf stamps))).map some := by
  have h := mutex_linearizable (num + 1) ivl stamps sched hdone
  refine ⟨h.1, ?_⟩
  rw [← ring_refines_history]
  exact h.2

open Conc in
example : allDone (Conc.run true 100 (init 2 [5, 6, 7]) [1, 0, 1, 2, 1, 0, 2, 0, 0, 2, 2, 2]) = true ∧
    (Conc.run true 100 (init 2 [5, 6, 7]) [1, 0, 1, 2, 1, 0, 2, 0, 0, 2, 2, 2]).order = [1, 0, 2] := by decide

open Conc in
/-- **unlocked_add_counterexample.** Without the mutex the claim is false: two goroutines interleaving
`Push`/`Current` on a fresh counter of limit 1 both report "above", which no sequential order does. -/
theorem unlocked_add_counterexample :
    (Conc.run false 100 (init 2 [5, 6]) [0, 0, 1, 1, 0, 1]).ths.map Th.result = [some true, some true] ∧
    ringRun 100 (Ring.new 2) [5, 6] = [false, true] ∧ ringRun 100 (Ring.new 2) [6, 5] = [false, true] :=
  racy_add_counterexample

open Conc in
/-- **warm_bucket_concurrent_is_sequential.** `hasHitRateLimit` from any number of goroutines on a
subnet whose counter already exists: the results are those of the sequential history model over the
stamps in the order in which the goroutines performed their `Add`. -/
theorem warm_bucket_concurrent_is_sequential (num : Nat) (ivl : Int) (stamps : List Int) (sched : List Nat)
    (hdone : gAllDone (grun num ivl (ginit true stamps) sched) = true) :
    (addOrder num ivl (ginit true stamps) sched).Perm (List.range stamps.length) ∧
    (addOrder num ivl (ginit true stamps) sched).map
        (fun i => (gresults (grun num ivl (ginit true stamps) sched)).getD i none) =
      (ctrRun (Counter.new num ivl) ((addOrder num ivl (ginit true stamps) sched).map (stampOf stamps))).map some :=
  warm_slot_linearizable num ivl stamps sched hdone

open Conc in
example : gAllDone (grun 1 100 (ginit true [5, 6, 7]) [1, 0, 2, 0, 1, 2]) = true ∧
    addOrder 1 100 (ginit true [5, 6, 7]) [1, 0, 2, 0, 1, 2] = [0, 1, 2] := by decide

open Conc in
/-- **cold_bucket_creation_race_counterexample.** The get-or-create of a subnet's counter is NOT
atomic: when two goroutines bring a subnet's very first two queries at once, both can miss, both
create a counter, and both pass with limit 1 — every sequential order drops the second.  (Observed on
the real code about once in 2000 eight-goroutine first contacts; outside the statement's quantifier,
which speaks of event sequences; see `props/C09.json` assumptions.) -/
theorem cold_bucket_creation_race_counterexample :
    gresults (grun 1 100 (ginit false [5, 6]) [0, 1, 0, 1, 0, 1]) = [some false, some false] ∧
    gresults (grun 1 100 (ginit false [5, 6]) [0, 0, 0, 1, 1, 1]) = [some false, some true] ∧
    gresults (grun 1 100 (ginit false [5, 6]) [1, 1, 1, 0, 0, 0]) = [some true, some false] :=
  creation_race_counterexample

open Conc in
/-- **counter_exact_up_to_skew.** Goroutines read `time.Now()` before they take the mutex, so stamps
can enter the ring out of order by some skew `δ` (`AlmostDesc δ`: a stamp pushed earlier exceeds one
pushed later by at most `δ`).  The verdict is then sandwiched between the window-log specifications
for the intervals `ivl - δ` and `ivl + δ`: no drop with fewer than `num` events in the wider window,
no pass with `num` events in the narrower one.  With `δ = 0` this is `counter_exact`. -/
theorem counter_exact_up_to_skew (num : Nat) (ivl δ : Int) (hist : List Int) (ts : Int) (hδ : 0 ≤ δ)
    (hivl : 0 ≤ ivl) (hd : AlmostDesc δ (ts :: hist)) (hpos : ∀ x ∈ hist, 0 < x) (hts : 0 < ts) :
    (aboveSpec num (ivl - δ) hist ts = true → above num ivl hist ts = true) ∧
    (above num ivl hist ts = true → aboveSpec num (ivl + δ) hist ts = true) :=
  counter_skew_sandwich num ivl δ hist ts hδ hivl hd hpos hts

open Conc in
example : AlmostDesc 2 ((10 : Int) :: [11, 9, 10]) ∧ (∀ x ∈ [11, 9, 10], (0 : Int) < x) ∧
    above 2 3 [11, 9, 10] 10 = true := by
  refine ⟨by simp [AlmostDesc], by decide, by decide⟩

/-! ## Round 3: zoned clients, ANY refusal and the profile limit -/

/-- **allowlist_ignores_zone.** As the code is now, whether a client is allowlisted depends on its
address only, never on the zone it arrived with: the zoned test is the zone-free `isAllowed` that all
limiter theorems above are stated over. -/
theorem allowlist_ignores_zone (l : Allowlist) (z : ZAddr) : l.isAllowedZ z = l.isAllowed z.addr := by
  simp [Allowlist.isAllowedZ, Allowlist.isAllowedPreFix, Allowlist.isAllowed, Prefix.containsZ, ZAddr.strip]

/-- **profile_subnets_ignore_zone.** The same for the subnets of a profile's own limit. -/
theorem profile_subnets_ignore_zone (p : ProfLim) (z : ZAddr) :
    p.coversZ z = (p.subnets.isEmpty || p.subnets.any (fun s => s.contains z.addr)) := by
  simp [ProfLim.coversZ, ProfLim.coversPreFix, Prefix.containsZ, ZAddr.strip]

/-- fe80::/10 allowlisted, client fe80::1%eth0. -/
def exZonedAl : Allowlist := { persistent := [⟨false, 0xfe80 <<< 112, 10⟩], dynamic := [] }
def exZoned : ZAddr := { addr := ⟨false, 0xfe80 <<< 112 + 1⟩, zoned := true }

example : exZonedAl.isAllowedZ exZoned = true ∧ exZonedAl.isAllowed exZoned.addr = true := by decide

/-- **zoned_allowlisted_prefix_counterexample.** The finding repaired by the `fix:` commit: before it, a
client inside an allowlisted network was not recognised when its address carried a zone (and was then
rate limited like anybody else). -/
theorem zoned_allowlisted_prefix_counterexample :
    ¬ ∀ (l : Allowlist) (z : ZAddr), l.isAllowedPreFix z = l.isAllowed z.addr := by
  intro h
  have := h exZonedAl exZoned
  revert this
  decide

/-- The same defect in the profile limiter's subnet test. -/
theorem zoned_profile_subnet_prefix_counterexample :
    ¬ ∀ (p : ProfLim) (z : ZAddr),
      p.coversPreFix z = (p.subnets.isEmpty || p.subnets.any (fun s => s.contains z.addr)) := by
  intro h
  have := h ⟨exZonedAl.persistent, Counter.new 1 1, 1⟩ exZoned
  revert this
  decide

/-- **refuse_any_unless_profile_limit_partial.** Through the middleware, on a rate-limited protocol and
with ANY refusal configured, an ANY query is dropped for every client — allowlisted or not, with or
without a profile — EXCEPT when the client's profile has its own limit that covers the client and is
not exhausted (`check = pass`).  Partial: the statement says "for everyone"; see the counter-example. -/
theorem refuse_any_unless_profile_limit_partial (c : Cfg) (m : MwSt) (now tick : Int) (a : Addr)
    (rl : Option Nat) (h : c.refuseAny = true)
    (hp : ∀ p, m.prof = some p → (p.check now a).2 ≠ .pass) :
    (serve c true m now tick a qtypeANY rl).2 = .dropped := by
  have hany : ∀ g, isRateLimited c g now a qtypeANY = (g, .drop) := by
    intro g; simp [isRateLimited, h]
  unfold serve
  simp only [Bool.not_true, Bool.false_eq_true, if_false]
  cases hm : m.prof with
  | none => simp [serveGlobal, hany]
  | some p =>
    have hp' := hp p hm
    rcases hc : p.check now a with ⟨p', res⟩
    rw [hc] at hp'
    cases res
    · exact absurd rfl hp'
    · simp [hc]
    · simp [hc, serveGlobal, hany]

example : (∀ p, (⟨St.empty, none⟩ : MwSt).prof = some p → (p.check 1 ⟨true, 1⟩).2 ≠ .pass) := by
  intro p hp; cases hp

/-- ANY refusal on, no allowlist; a profile with 5 rps and no subnets of its own. -/
def exCfgAny : Cfg :=
  { count := 1, period := 0, duration := 0, est := 100, v4count := 1, v4ivl := 1000, v4len := 24,
    v6count := 1, v6ivl := 1000, v6len := 48, refuseAny := true, allow := [] }

/-- **profile_any_not_refused_counterexample.** As stated ("ANY queries are dropped for everyone when
refusal is configured") the property does not hold for a client whose profile has its own limit: the
profile limiter never looks at the query type and a passed request does not reach the global limiter,
which alone knows about ANY refusal.  Known finding `refuse-any-bypassed-by-profile-limit`. -/
theorem profile_any_not_refused_counterexample :
    ¬ ∀ (c : Cfg) (m : MwSt) (now tick : Int) (a : Addr) (rl : Option Nat), c.refuseAny = true →
      (serve c true m now tick a qtypeANY rl).2 = .dropped := by
  intro h
  have := h exCfgAny ⟨St.empty, some ⟨[], Counter.new 5 1000000000, 100⟩⟩ 1 1 ⟨true, 1⟩ none rfl
  revert this
  decide

/-! ## Round 5: the allowlist seen through the middleware -/

/-- **allowlisted_served_unless_profile_limit_partial.** Through the middleware, on a rate-limited
protocol, an allowlisted client (no ANY refusal in play) is never dropped — whatever the state of the
global limiter, also when its subnet is over the limit or in backoff — and leaves the global limiter
untouched, EXCEPT when the client's profile has its own limit that covers the client and is exhausted
(`check = drop`).  Partial: the statement's two clauses ("allowlisted clients are never dropped", "a
profile's own limit applies instead of the global one") overlap for such a client; the code lets the
profile's limit win (see the counter-example to the literal reading below). -/
theorem allowlisted_served_unless_profile_limit_partial (c : Cfg) (m : MwSt) (now tick : Int)
    (a : Addr) (q : Nat) (rl : Option Nat) (hal : allowed c a = true)
    (hq : ¬ (c.refuseAny = true ∧ q = qtypeANY))
    (hp : ∀ p, m.prof = some p → (p.check now a).2 ≠ .drop) :
    (serve c true m now tick a q rl).2 ≠ .dropped ∧ (serve c true m now tick a q rl).1.glob = m.glob := by
  have hg : ∀ g, isRateLimited c g now a q = (g, .allowlisted) :=
    fun g => allowlisted_never_dropped c g now a q hal hq
  unfold serve
  simp only [Bool.not_true, Bool.false_eq_true, if_false]
  cases hm : m.prof with
  | none => simp [serveGlobal, hg]
  | some p =>
    have hp' := hp p hm
    rcases hc : p.check now a with ⟨p', res⟩
    rw [hc] at hp'
    cases res
    · cases rl <;> simp [hc]
    · exact absurd rfl hp'
    · simp [hc, serveGlobal, hg]

example : allowed exCfg { is4 := true, val := 167838211 } = true ∧
    ¬ (exCfg.refuseAny = true ∧ 1 = qtypeANY) ∧
    (∀ p, (⟨St.empty, some ⟨[], Counter.new 5 1000000000, 100⟩⟩ : MwSt).prof = some p →
      (p.check 1 { is4 := true, val := 167838211 }).2 ≠ .drop) := by
  refine ⟨by decide, by decide, ?_⟩
  intro p hp
  cases hp
  decide

/-- **allowlisted_profile_client_dropped_counterexample.** Read literally ("allowlisted clients are
otherwise never dropped by the limiter") the clause does not hold through the middleware: an allowlisted
client whose profile has its own limit of 0 (or any exhausted limit) covering it is dropped, because the
profile's limiter is asked first and the allowlist lives in the global limiter only.  The code resolves
the overlap of the two clauses in favour of "a profile's own limit applies instead of the global one". -/
theorem allowlisted_profile_client_dropped_counterexample :
    ¬ ∀ (c : Cfg) (m : MwSt) (now tick : Int) (a : Addr) (q : Nat) (rl : Option Nat),
      allowed c a = true → ¬ (c.refuseAny = true ∧ q = qtypeANY) →
      (serve c true m now tick a q rl).2 ≠ .dropped := by
  intro h
  have := h exCfg ⟨St.empty, some ⟨[], Counter.new 0 1000000000, 100⟩⟩ 1 1
    { is4 := true, val := 167838211 } 1 none (by decide) (by decide)
  revert this
  decide

/-- **allowlisted_clients_are_transparent.** Over ANY request history through the middleware, from any
state (no clock discipline needed): every request of an allowlisted client without a profile over plain
DNS (ANY under refusal excepted) is served, and deleting all those requests from the history changes
nothing for anybody else — the effects at the remaining positions are exactly the effects of the history
without them.  Allowlisted traffic neither is dropped nor uses up anyone's window, backoff or profile
limit, however much of it there is. -/
theorem allowlisted_clients_are_transparent (c : Cfg) :
    ∀ (reqs : List MReq) (h : HSt),
      mwRun c h (reqs.filter (fun r => !transparent c r)) =
        ((reqs.zip (mwRun c h reqs)).filter (fun p => !transparent c p.1)).map (·.2) ∧
      ∀ p ∈ reqs.zip (mwRun c h reqs), transparent c p.1 = true → p.2 = .servedNoCount := by
  intro reqs
  induction reqs with
  | nil => intro h; simp [mwRun]
  | cons r rest ih =>
    intro h
    by_cases ht : transparent c r = true
    · have hs := mwStep_transparent c h r ht
      have ih' := ih h
      simp only [mwRun, hs, List.zip_cons_cons, List.filter_cons, ht, Bool.not_true,
        Bool.false_eq_true, if_false]
      refine ⟨ih'.1, ?_⟩
      intro p hp
      rcases List.mem_cons.mp hp with rfl | hp
      · intro _; rfl
      · exact ih'.2 p hp
    · have ht' : transparent c r = false := by simpa using ht
      have ih' := ih (mwStep c h r).1
      simp only [mwRun, List.zip_cons_cons, List.filter_cons, ht', Bool.not_false, if_true,
        List.map_cons]
      refine ⟨by rw [ih'.1], ?_⟩
      intro p hp
      rcases List.mem_cons.mp hp with rfl | hp
      · intro h2; simp [ht'] at h2
      · exact ih'.2 p hp

example : exReqs.any (transparent exCfgH) = true ∧ exReqs.any (fun r => !transparent exCfgH r) = true := by
  decide

/-- **burst_passes_exactly_limit.** Magnitudes: on the real ring buffer of `num + 1` slots, of `n` events
at one instant `t` (a burst inside one window, any window length) the `i`-th is reported "above" iff
`num ≤ i` — exactly the first `num` pass, however large `num` and `n` are, and the number that pass is
`min n num`.  This is the oracle of the `big` campaign (limits of 255 … 131073) as a theorem. -/
theorem burst_passes_exactly_limit (num : Nat) (ivl t : Int) (n : Nat) (ht : 0 < t) (hivl : 0 ≤ ivl) :
    ringRun ivl (Ring.new (num + 1)) (List.replicate n t) = (List.range n).map (fun i => decide (num ≤ i)) ∧
    ((ringRun ivl (Ring.new (num + 1)) (List.replicate n t)).filter (fun b => !b)).length = min n num := by
  have h : ringRun ivl (Ring.new (num + 1)) (List.replicate n t) =
      (List.range n).map (fun i => decide (num ≤ i)) := by
    rw [ring_refines_history]
    have := ctrRun_burst num ivl t ht hivl n 0
    simpa [Counter.new, List.range_eq_range'] using this
  refine ⟨h, ?_⟩
  rw [h, List.filter_map, List.length_map]
  exact count_below num n

example : ringRun 1000000000 (Ring.new (65537 + 1)) (List.replicate 3 5) = [false, false, false] ∧
    (0 : Int) < 5 ∧ (0 : Int) ≤ 1000000000 := by
  refine ⟨?_, by decide, by decide⟩
  rw [(burst_passes_exactly_limit 65537 1000000000 5 3 (by decide) (by decide)).1]
  decide

/-! ## Round 4: the answers `Wrap` gives in front of the limiter -/

/-- **early_answers_are_rate_limited.** Whole histories through the repaired `ratelimitmw.Middleware.Wrap`
(`frontRun`): requests of all six classes — spoofed (port 0), access-blocked, unknown dedicated address,
device-finder error (answered SERVFAIL by the server), malformed ECS option (answered FORMERR by the
middleware), ordinary — in any mix, with any profiles, protocols, clients, query types and response sizes.
What each client receives (`silent`, the upstream's answer, FORMERR, SERVFAIL) is exactly what the
declarative specification says: the first three classes are silent and leave no trace; every other
request is ONE request of the window-log specification `mwSpecStep` — dropped without any response iff
the specification drops it, and otherwise answered by whoever answers that class, the FORMERR weighed
⌊len / est⌋ like any response.  In particular no class of request obtains responses beyond the limit. -/
theorem early_answers_are_rate_limited (c : Cfg) (h4 : 0 ≤ c.v4ivl) (h6 : 0 ≤ c.v6ivl)
    (profs : Nat → Option PSpec) (hfresh : ∀ id p, profs id = some p → p.log = [])
    (fs : List FReq) (hch : FChain 0 fs) :
    frontRun c (HSt.init profs) fs = frontSpecRun c { glob := ESpec.empty, profs := profs } fs :=
  front_run_sim c h4 h6 fs _ _ 0 (hsim_init c profs hfresh) hch

/-- Non-vacuity: the hypotheses hold for that history, and only the first FORMERR and the first
SERVFAIL are sent; the ordinary query of the first client is dropped because of the FORMERR it got. -/
example : FChain 0 exFront ∧ 0 ≤ exCfgFront.v4ivl ∧ 0 ≤ exCfgFront.v6ivl ∧
    frontRun exCfgFront (HSt.init (fun _ => none)) exFront =
      [.formerr, .silent, .silent, .servfail, .silent, .silent, .silent, .upstream] := by
  refine ⟨exFront_chain, by decide, by decide, ?_⟩
  rw [early_answers_are_rate_limited exCfgFront (by decide) (by decide) (fun _ => none)
    (fun _ _ h => by cases h) exFront exFront_chain]
  decide

/-- **early_answer_unthrottled_counterexample.** The code as found (`frontStepOld`: SERVFAIL for a
device-finder error and FORMERR for a malformed ECS option are given before the limiter is asked)
does not satisfy the specification: with a limit of one query per window, every one of three
malformed-ECS queries and both malformed-device-id queries is answered.  Repaired by the `fix:`
commit "ratelimitmw: rate limit the responses to device errors and malformed ecs options". -/
theorem early_answer_unthrottled_counterexample :
    ¬ ∀ (c : Cfg) (fs : List FReq), 0 ≤ c.v4ivl → 0 ≤ c.v6ivl → FChain 0 fs →
      frontRunOld c (HSt.init (fun _ => none)) fs =
        frontSpecRun c { glob := ESpec.empty, profs := fun _ => none } fs := by
  intro h
  have := h exCfgFront exFront (by decide) (by decide) exFront_chain
  revert this
  decide

end Agd.Ratelimit

#print axioms Agd.Ratelimit.mw_history_is_window_log
#print axioms Agd.Ratelimit.early_answers_are_rate_limited
#print axioms Agd.Ratelimit.early_answer_unthrottled_counterexample
#print axioms Agd.Ratelimit.host_prefix_contains_iff
#print axioms Agd.Ratelimit.consul_refresh_exact
#print axioms Agd.Ratelimit.refreshed_history_refines_epoch_log
#print axioms Agd.Ratelimit.concurrent_adds_are_sequential
#print axioms Agd.Ratelimit.unlocked_add_counterexample
#print axioms Agd.Ratelimit.warm_bucket_concurrent_is_sequential
#print axioms Agd.Ratelimit.cold_bucket_creation_race_counterexample
#print axioms Agd.Ratelimit.counter_exact_up_to_skew
#print axioms Agd.Ratelimit.counter_exact
#print axioms Agd.Ratelimit.ring_refines_history
#print axioms Agd.Ratelimit.backoff_refines_epoch_log
#print axioms Agd.Ratelimit.epoch_log_exact_when_resets_quiet
#print axioms Agd.Ratelimit.quietResets_of_no_period
#print axioms Agd.Ratelimit.backoff_is_window_log_partial
#print axioms Agd.Ratelimit.epoch_log_is_pure_window_when_no_expiry
#print axioms Agd.Ratelimit.backoff_is_window_log_noexpiry
#print axioms Agd.Ratelimit.backoff_reset_counterexample
#print axioms Agd.Ratelimit.large_response_weight
#print axioms Agd.Ratelimit.profile_limit_replaces_global
#print axioms Agd.Ratelimit.profile_outside_subnets_uses_global
#print axioms Agd.Ratelimit.profile_limiter_is_window_log
#print axioms Agd.Ratelimit.other_protocols_never_limited
#print axioms Agd.Ratelimit.global_path_exact
#print axioms Agd.Ratelimit.lib_middleware_exact
#print axioms Agd.Ratelimit.refuse_any_all
#print axioms Agd.Ratelimit.allowlisted_never_dropped
#print axioms Agd.Ratelimit.allowlist_flat
#print axioms Agd.Ratelimit.allowlist_update_replaces_dynamic
#print axioms Agd.Ratelimit.allowlist_only_matters_for_its_clients
#print axioms Agd.Ratelimit.backoff_refines_epoch_log_dynamic_allowlist
#print axioms Agd.Ratelimit.subnet_isolation
#print axioms Agd.Ratelimit.subnet_isolation_dynamic_allowlist
#print axioms Agd.Ratelimit.subnetKey_eq_iff_same_leading_bits
#print axioms Agd.Ratelimit.prefix_contains_iff_same_leading_bits
#print axioms Agd.Ratelimit.allowlist_ignores_zone
#print axioms Agd.Ratelimit.profile_subnets_ignore_zone
#print axioms Agd.Ratelimit.zoned_allowlisted_prefix_counterexample
#print axioms Agd.Ratelimit.zoned_profile_subnet_prefix_counterexample
#print axioms Agd.Ratelimit.refuse_any_unless_profile_limit_partial
#print axioms Agd.Ratelimit.profile_any_not_refused_counterexample
#print axioms Agd.Ratelimit.allowlisted_served_unless_profile_limit_partial
#print axioms Agd.Ratelimit.allowlisted_profile_client_dropped_counterexample
#print axioms Agd.Ratelimit.burst_passes_exactly_limit
#print axioms Agd.Ratelimit.allowlisted_clients_are_transparent
#print axioms Agd.Tie.TrC09.translation_complete
#print axioms Agd.Tie.TrC09.backoff_drops_without_counting
#print axioms Agd.Tie.TrC09.allowlisted_passes_uncounted
#print axioms Agd.Tie.TrC09.refuse_any_for_everyone
#print axioms Agd.Tie.TrC09.counted_with_family_limits
#print axioms Agd.Tie.TrC09.counter_add
#print axioms Agd.Tie.TrC09.counter_add_is_ringAdd
#print axioms Agd.Tie.TrC09.isBackoff_tr
#print axioms Agd.Tie.TrC09.isBackoff_lookup
#print axioms Agd.Tie.TrC09.isRateLimited_tr
#print axioms Agd.Tie.TrC09.isRateLimited_counts_with_model_limits
#print axioms Agd.Tie.TrC09.hasHit_is_counter_verdict
#print axioms Agd.Tie.TrC09.hasHit_incBackoff_iff_above
#print axioms Agd.Tie.TrC09.hasHit_counter_creation
#print axioms Agd.Tie.TrC09.incBackoff_effects
#print axioms Agd.Tie.TrC09.subnetKey_family_len
#print axioms Agd.Tie.TrC09.subnetKey_no_panic_iff
#print axioms Agd.Tie.TrC09.flatten_replicate_singleton
#print axioms Agd.Tie.TrC09.wrap64_of_nat
#print axioms Agd.Tie.TrC09.countResponses_weight
#print axioms Agd.Tie.TrC09.countResponses_panics_iff
#print axioms Agd.Tie.TrC09.validateAddr_ok_iff
#print axioms Agd.Tie.TrC09.isEnabledForProto_tr
#print axioms Agd.Tie.TrC09.lib_other_proto_passthrough
#print axioms Agd.Tie.TrC09.lib_port_zero_dropped
#print axioms Agd.Tie.TrC09.lib_drop_no_response
#print axioms Agd.Tie.TrC09.lib_allowlisted_served_uncounted
#print axioms Agd.Tie.TrC09.lib_pass_counted_then_written
#print axioms Agd.Tie.TrC09.lib_write_only_after_pass
#print axioms Agd.Tie.TrC09.lib_effect_is_model
#print axioms Agd.Tie.TrC09.mw_other_proto_passthrough
#print axioms Agd.Tie.TrC09.mw_profile_first_global_iff
#print axioms Agd.Tie.TrC09.prof_none_uses_global
#print axioms Agd.Tie.TrC09.prof_drop_no_response
#print axioms Agd.Tie.TrC09.prof_useGlobal_defers
#print axioms Agd.Tie.TrC09.prof_pass_counts_on_profile_limiter
#print axioms Agd.Tie.TrC09.prof_no_panic_iff
#print axioms Agd.Tie.TrC09.prof_handoff_is_clean
#print axioms Agd.Tie.TrC09.globalRatelimiter_always_useGlobal
#print axioms Agd.Tie.TrC09.profile_check_tr
#print axioms Agd.Tie.TrC09.profile_check_counts_iff
#print axioms Agd.Tie.TrC09.profile_countResponses_weight
#print axioms Agd.Tie.TrC09.glob_drop_no_response
#print axioms Agd.Tie.TrC09.glob_allowlisted_served_uncounted
#print axioms Agd.Tie.TrC09.glob_pass_counted_then_written
