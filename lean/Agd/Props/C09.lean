import Agd.Lemmas.Ratelimit
import Agd.Tie.C09
/-!
# C09 — rate limiting is an exact per-subnet sliding window with backoff and allowlist

Property theorems only.  Helper lemmas live in `Agd/Lemmas/Ratelimit.lean`.
-/
namespace Agd.Ratelimit

/-- **counter_exact.** For non-decreasing positive timestamps, `RequestCounter.Add`
reports "above" exactly when at least `num` earlier events lie in the closed window
`[ts - ivl, ts]` — the sliding-window-log specification: no early drop, no late pass,
equal stamps and the closed boundary included. -/
theorem counter_exact (c : Counter) (ts : Int)
    (hivl : 0 ≤ c.ivl) (hd : Desc (ts :: c.hist)) (hpos : ∀ x ∈ c.hist, 0 < x) (hts : 0 < ts) :
    (c.add ts).2 = aboveSpec c.num c.ivl c.hist ts ∧ (c.add ts).1.hist = ts :: c.hist := by
  exact ⟨above_eq_spec c.num c.ivl c.hist ts hivl hd hpos hts, rfl⟩

example : Desc (5 :: [5, 3, 1]) ∧ (∀ x ∈ [5, 3, 1], (0:Int) < x) ∧
    (({ num := 2, ivl := 2, hist := [5, 3, 1] } : Counter).add 5).2 = true := by
  refine ⟨by simp [Desc], by decide, by decide⟩

/-- **ring_refines_history.** The concrete ring buffer of `num + 1` slots (golibs `RingBuffer`, as
used by `RequestCounter`) gives, for every stamp sequence, the verdicts of the history model that
`counter_exact` is stated about. -/
theorem ring_refines_history (num : Nat) (ivl : Int) (tss : List Int) :
    ringRun ivl (Ring.new (num + 1)) tss = ctrRun (Counter.new num ivl) tss := by
  have key : ∀ (tss : List Int) (r : Ring) (c : Counter), RingInv (num + 1) r c.hist → c.num = num →
      c.ivl = ivl → ringRun ivl r tss = ctrRun c tss := by
    intro tss
    induction tss with
    | nil => intro _ _ _ _ _; rfl
    | cons t ts ih =>
      intro r c hi hn hv
      have h := ringAdd_eq_above num ivl r c.hist t hi
      simp only [ringRun, ctrRun]
      have h2 : (c.add t).2 = above num ivl c.hist t := by simp [Counter.add, hn, hv]
      rw [h.1, h2]
      congr 1
      exact ih _ _ (by simpa [Counter.add] using h.2) (by simpa [Counter.add] using hn)
        (by simpa [Counter.add] using hv)
  exact key tss _ _ (ringInv_new num) rfl rfl

example : ringRun 10 (Ring.new 3) [1, 2, 3, 20, 21, 22] = [false, false, true, false, false, true] := by
  decide

/-- **backoff_is_window_log_partial.** With cache entries that never expire (non-positive `Period`
and `Duration`), for every history of events with positive non-decreasing times the real limiter's
verdicts are exactly those of the specification `specRun`: a query is dropped iff ANY-refusal applies,
or its bucket has already exceeded its limit `count` times (backoff), or at least `limit` earlier
counted events of its bucket lie in the closed window; allowlisted clients pass untouched.
PARTIAL: histories in which a `reqCounters`/`hitCounters` entry expires are not covered
(known finding `reqcounter-expires-period-after-creation`). -/
theorem backoff_is_window_log_partial (c : Cfg) (hp : c.period ≤ 0) (hdur : c.duration ≤ 0)
    (h4 : 0 ≤ c.v4ivl) (h6 : 0 ≤ c.v6ivl) (evs : List Ev) (hch : Chain 0 evs) :
    run c St.empty evs = specRun c Spec.empty evs := by
  have key : ∀ (evs : List Ev) (s : St) (sp : Spec) (T : Int), (∀ k, SimK c s sp k) → TimeInv sp T →
      Chain T evs → run c s evs = specRun c sp evs := by
    intro evs
    induction evs with
    | nil => intro _ _ _ _ _ _; rfl
    | cons e r ih =>
      intro s sp T hs ht hc
      obtain ⟨hpos, hT, hrest⟩ := hc
      have := sim_step c s sp e T hp hdur h4 h6 hs ht hpos hT
      simp only [run, specRun]
      rw [this.1, ih _ _ _ this.2.1 this.2.2 hrest]
  apply key evs St.empty Spec.empty 0 _ _ hch
  · intro k; simp [SimK, St.empty, Spec.empty]
  · intro k; simp [Spec.empty, Desc]

/-- Non-vacuity: a concrete history (limit 1 per 10 ns in a /24, backoff after 2 hits) meets the
hypotheses and exercises pass, window drop and backoff drop. -/
def exCfg2 : Cfg :=
  { count := 2, period := 0, duration := 0, est := 1, v4count := 1, v4ivl := 10, v4len := 24,
    v6count := 1, v6ivl := 10, v6len := 48, refuseAny := false, allow := [] }
def exEvs : List Ev :=
  [⟨1, ⟨true, 167772161⟩, 1⟩, ⟨2, ⟨true, 167772162⟩, 1⟩, ⟨3, ⟨true, 167772163⟩, 1⟩, ⟨100, ⟨true, 167772161⟩, 1⟩]
example : Chain 0 exEvs ∧ specRun exCfg2 Spec.empty exEvs = [.pass, .drop, .drop, .drop] := by
  refine ⟨by simp [Chain, exEvs], by decide⟩

def exCfg3 : Cfg :=
  { count := 1000, period := 300, duration := 3600000, est := 100000, v4count := 2, v4ivl := 10000,
    v4len := 24, v6count := 2, v6ivl := 10000, v6len := 48, refuseAny := false, allow := [] }
def exEvs3 : List Ev :=
  [⟨1, ⟨true, 3221225985⟩, 1⟩, ⟨2, ⟨true, 3221225985⟩, 1⟩, ⟨3, ⟨true, 3221225985⟩, 1⟩,
   ⟨4, ⟨true, 3221225985⟩, 1⟩, ⟨404, ⟨true, 3221225985⟩, 1⟩]

/-- **backoff_reset_counterexample.** With a positive `Period` the exact-window claim is false for
the code as written: limit 2 per 10 s, period 300 ms — the fifth query, 0.4 s after four others,
passes although four events lie in its window (times in ms).  Replayed on the real limiter by the
harness (known finding `reqcounter-expires-period-after-creation`). -/
theorem backoff_reset_counterexample :
    run exCfg3 St.empty exEvs3 = [.pass, .pass, .drop, .drop, .pass] ∧
      specRun exCfg3 Spec.empty exEvs3 = [.pass, .pass, .drop, .drop, .drop] := by
  decide

/-- **large_response_weight.** Counting a response of `len` bytes is exactly the same as `⌊len / est⌋`
further query events of the same client (one per loop iteration), so the window-log theorem covers
response weighting: a large response consumes that many units of the subnet's budget. -/
theorem large_response_weight (c : Cfg) (s : St) (now tick : Int) (a : Addr) (q : Nat) (len : Nat) :
    countResponses c s (loopTimes now tick (respWeight c.est len)) a q =
      runState c s ((loopTimes now tick (len / c.est)).map (fun t => ⟨t, a, q⟩)) := by
  unfold countResponses respWeight
  generalize loopTimes now tick (len / c.est) = ts
  induction ts generalizing s with
  | nil => rfl
  | cons t r ih => simp only [List.foldl, List.map, runState]; exact ih _

example : (loopTimes 100 2 (respWeight 100 350)).length = 3 := by decide

/-- **profile_limit_replaces_global.** For a request attributed to a profile whose limiter covers the
client (no subnets configured, or the address inside one of them), on a rate-limited protocol: the
global limiter's state is untouched and the request is dropped iff the profile's own one-second
counter says so. -/
theorem profile_limit_replaces_global (c : Cfg) (g : St) (p : ProfLim) (now tick : Int) (a : Addr)
    (q : Nat) (rl : Option Nat)
    (hcov : p.subnets.isEmpty = true ∨ p.subnets.any (fun s => s.contains a) = true) :
    (serve c true { glob := g, prof := some p } now tick a q rl).1.glob = g ∧
    ((serve c true { glob := g, prof := some p } now tick a q rl).2 = .dropped ↔
      (p.ctr.add now).2 = true) := by
  have hchk : p.check now a =
      ({ p with ctr := (p.ctr.add now).1 }, if (p.ctr.add now).2 then .drop else .pass) := by
    unfold ProfLim.check
    rcases hcov with h | h <;> simp [h]
  unfold serve
  simp only [Bool.not_true, Bool.false_eq_true, if_false, hchk]
  cases hab : (p.ctr.add now).2 <;> cases rl <;> simp

/-- **profile_limit_uses_global_outside_subnets.** Outside the profile's configured subnets the profile
limiter is neither consulted nor charged: the outcome is the global limiter's. -/
theorem profile_outside_subnets_uses_global (c : Cfg) (g : St) (p : ProfLim) (now tick : Int)
    (a : Addr) (q : Nat) (rl : Option Nat)
    (hne : p.subnets.isEmpty = false) (hout : p.subnets.any (fun s => s.contains a) = false) :
    (serve c true { glob := g, prof := some p } now tick a q rl).1.prof = some p ∧
    (serve c true { glob := g, prof := some p } now tick a q rl).2 =
      (serve c true { glob := g, prof := none } now tick a q rl).2 := by
  have hchk : p.check now a = (p, .useGlobal) := by
    unfold ProfLim.check; simp [hne, hout]
  unfold serve
  simp only [Bool.not_true, Bool.false_eq_true, if_false, hchk]
  rcases h : isRateLimited c g now a q with ⟨g', v⟩
  cases v <;> cases rl <;> simp

/-- **refuse_any_all.** With ANY refusal configured every ANY query is dropped, allowlisted or not. -/
theorem refuse_any_all (c : Cfg) (s : St) (now : Int) (a : Addr) (h : c.refuseAny = true) :
    (isRateLimited c s now a qtypeANY).2 = .drop := by
  simp [isRateLimited, h]

/-- **allowlisted_never_dropped.** An allowlisted client is never dropped by the limiter and leaves
no trace in its state, unless the query is an ANY query and refusal is configured. -/
theorem allowlisted_never_dropped (c : Cfg) (s : St) (now : Int) (a : Addr) (q : Nat)
    (hal : allowed c a = true) (hq : ¬ (c.refuseAny = true ∧ q = qtypeANY)) :
    isRateLimited c s now a q = (s, .allowlisted) := by
  unfold isRateLimited
  have : (c.refuseAny && q == qtypeANY) = false := by
    cases hr : c.refuseAny <;> simp_all
  simp [this, hal]

def exCfg : Cfg :=
  { count := 1, period := 0, duration := 0, est := 1, v4count := 1, v4ivl := 1, v4len := 24,
    v6count := 1, v6ivl := 1, v6len := 48, refuseAny := true,
    allow := [{ is4 := true, val := 167772160, bits := 8 }] }

example : allowed exCfg { is4 := true, val := 167838211 } = true ∧
    ¬ (exCfg.refuseAny = true ∧ 1 = qtypeANY) := by decide

/-- **subnet_isolation.** Non-interference between buckets: the verdicts a subnet's events get inside
an arbitrary history equal the verdicts they get when every event of every other subnet is removed.
A flooding subnet cannot change what any other subnet experiences. -/
theorem subnet_isolation (c : Cfg) (k : Key) (evs : List Ev) :
    ∀ s₁ s₂, Agree k s₁ s₂ →
      runK c k s₁ evs = run c s₂ (evs.filter (fun e => decide (evKey c e = k))) := by
  induction evs with
  | nil => intro _ _ _; rfl
  | cons e r ih =>
    intro s₁ s₂ hag
    by_cases hk : evKey c e = k
    · subst hk
      have := local_step c s₁ s₂ e.now e.addr e.qtype hag
      simp only [runK, List.filter, decide_true, run, if_true]
      rw [this.1, ih _ _ this.2]
    · have hf := frame c s₁ e.now e.addr e.qtype k hk
      simp only [runK, hk, List.filter, decide_false, if_false]
      exact ih _ _ ⟨hf.1.trans hag.1, hf.2.trans hag.2⟩

end Agd.Ratelimit

#print axioms Agd.Ratelimit.counter_exact
#print axioms Agd.Ratelimit.ring_refines_history
#print axioms Agd.Ratelimit.backoff_is_window_log_partial
#print axioms Agd.Ratelimit.backoff_reset_counterexample
#print axioms Agd.Ratelimit.large_response_weight
#print axioms Agd.Ratelimit.profile_limit_replaces_global
#print axioms Agd.Ratelimit.profile_outside_subnets_uses_global
#print axioms Agd.Ratelimit.refuse_any_all
#print axioms Agd.Ratelimit.allowlisted_never_dropped
#print axioms Agd.Ratelimit.subnet_isolation
