import Agd.Lemmas.Ratelimit
import Agd.Tie.C09
/-!
# C09 — rate limiting is an exact per-subnet sliding window with backoff and allowlist

Property theorems only.  Helper lemmas live in `Agd/Lemmas/Ratelimit.lean`.
-/
namespace Agd.Ratelimit

/-- **counter_exact.** For non-decreasing positive timestamps, `RequestCounter.Add`
reports "above" exactly when at least `num` earlier events lie in the closed window
`[ts - ivl, ts]` — the sliding-window-log specification: no early drop, no late pass,
equal stamps and the closed boundary included. -/
theorem counter_exact (c : Counter) (ts : Int)
    (hivl : 0 ≤ c.ivl) (hd : Desc (ts :: c.hist)) (hpos : ∀ x ∈ c.hist, 0 < x) (hts : 0 < ts) :
    (c.add ts).2 = aboveSpec c.num c.ivl c.hist ts ∧ (c.add ts).1.hist = ts :: c.hist := by
  exact ⟨above_eq_spec c.num c.ivl c.hist ts hivl hd hpos hts, rfl⟩

example : Desc (5 :: [5, 3, 1]) ∧ (∀ x ∈ [5, 3, 1], (0:Int) < x) ∧
    (({ num := 2, ivl := 2, hist := [5, 3, 1] } : Counter).add 5).2 = true := by
  refine ⟨by simp [Desc], by decide, by decide⟩

/-- **refuse_any_all.** With ANY refusal configured every ANY query is dropped, allowlisted or not. -/
theorem refuse_any_all (c : Cfg) (s : St) (now : Int) (a : Addr) (h : c.refuseAny = true) :
    (isRateLimited c s now a qtypeANY).2 = .drop := by
  simp [isRateLimited, h]

/-- **allowlisted_never_dropped.** An allowlisted client is never dropped by the limiter and leaves
no trace in its state, unless the query is an ANY query and refusal is configured. -/
theorem allowlisted_never_dropped (c : Cfg) (s : St) (now : Int) (a : Addr) (q : Nat)
    (hal : allowed c a = true) (hq : ¬ (c.refuseAny = true ∧ q = qtypeANY)) :
    isRateLimited c s now a q = (s, .allowlisted) := by
  unfold isRateLimited
  have : (c.refuseAny && q == qtypeANY) = false := by
    cases hr : c.refuseAny <;> simp_all
  simp [this, hal]

def exCfg : Cfg :=
  { count := 1, period := 0, duration := 0, est := 1, v4count := 1, v4ivl := 1, v4len := 24,
    v6count := 1, v6ivl := 1, v6len := 48, refuseAny := true,
    allow := [{ is4 := true, val := 167772160, bits := 8 }] }

example : allowed exCfg { is4 := true, val := 167838211 } = true ∧
    ¬ (exCfg.refuseAny = true ∧ 1 = qtypeANY) := by decide

/-- Two limiter states agree on bucket `k`. -/
def Agree (k : Key) (s₁ s₂ : St) : Prop := s₁.req k = s₂.req k ∧ s₁.hit k = s₂.hit k

/-- Frame: an event leaves every other bucket untouched. -/
theorem frame (c : Cfg) (s : St) (now : Int) (a : Addr) (q : Nat) (k : Key)
    (hk : subnetKey a c.v4len c.v6len ≠ k) :
    Agree k (isRateLimited c s now a q).1 s := by
  have hk' : ¬ (k = subnetKey a c.v4len c.v6len) := fun h => hk h.symm
  unfold isRateLimited
  split
  · exact ⟨rfl, rfl⟩
  split
  · exact ⟨rfl, rfl⟩
  split
  · exact ⟨rfl, rfl⟩
  simp only [hasHitRateLimit, incBackoff, Agree]
  split
  · split <;> simp [hk']
  · simp [hk']

/-- Determinacy: the verdict for an address and the new contents of its bucket depend only on the
old contents of that bucket. -/
theorem local_step (c : Cfg) (s₁ s₂ : St) (now : Int) (a : Addr) (q : Nat)
    (h : Agree (subnetKey a c.v4len c.v6len) s₁ s₂) :
    (isRateLimited c s₁ now a q).2 = (isRateLimited c s₂ now a q).2 ∧
    Agree (subnetKey a c.v4len c.v6len) (isRateLimited c s₁ now a q).1 (isRateLimited c s₂ now a q).1 := by
  obtain ⟨hr, hh⟩ := h
  have hb : isBackoff c s₁ (subnetKey a c.v4len c.v6len) now =
      isBackoff c s₂ (subnetKey a c.v4len c.v6len) now := by
    simp [isBackoff, Tbl.get, hh]
  have hc : ∀ n i, curCounter s₁ (subnetKey a c.v4len c.v6len) n i now =
      curCounter s₂ (subnetKey a c.v4len c.v6len) n i now := by
    intro n i; simp [curCounter, hr]
  have he : curExpiry c s₁ (subnetKey a c.v4len c.v6len) now =
      curExpiry c s₂ (subnetKey a c.v4len c.v6len) now := by
    simp [curExpiry, hr]
  unfold isRateLimited
  split
  · exact ⟨rfl, hr, hh⟩
  split
  · exact ⟨rfl, hr, hh⟩
  rw [hb]
  split
  · exact ⟨rfl, hr, hh⟩
  simp only [hasHitRateLimit, hc, he]
  refine ⟨rfl, ?_⟩
  split
  · simp only [incBackoff, Tbl.get, hh, Agree]
    split <;> simp
  · simp [Agree, hh]

/-- **subnet_isolation.** Non-interference between buckets: the verdicts a subnet's events get inside
an arbitrary history equal the verdicts they get when every event of every other subnet is removed.
A flooding subnet cannot change what any other subnet experiences. -/
theorem subnet_isolation (c : Cfg) (k : Key) (evs : List Ev) :
    ∀ s₁ s₂, Agree k s₁ s₂ →
      runK c k s₁ evs = run c s₂ (evs.filter (fun e => decide (evKey c e = k))) := by
  induction evs with
  | nil => intro _ _ _; rfl
  | cons e r ih =>
    intro s₁ s₂ hag
    by_cases hk : evKey c e = k
    · subst hk
      have := local_step c s₁ s₂ e.now e.addr e.qtype hag
      simp only [runK, List.filter, decide_true, run, if_true]
      rw [this.1, ih _ _ this.2]
    · have hf := frame c s₁ e.now e.addr e.qtype k hk
      simp only [runK, hk, List.filter, decide_false, if_false]
      exact ih _ _ ⟨hf.1.trans hag.1, hf.2.trans hag.2⟩

end Agd.Ratelimit

#print axioms Agd.Ratelimit.counter_exact
#print axioms Agd.Ratelimit.refuse_any_all
#print axioms Agd.Ratelimit.allowlisted_never_dropped
#print axioms Agd.Ratelimit.subnet_isolation
#print axioms Agd.Ratelimit.frame
#print axioms Agd.Ratelimit.local_step
