import Agd.Lemmas.Cache
import Agd.Tie.C04
/-!
# C04 — cached answers equal fresh answers and never outlive their TTL

Property theorems only; helper lemmas live in `Agd/Lemmas/Cache.lean`.  The model
(`Agd/Model/Cache.lean`) covers both the simple cache (`Simple.*`) and the ECS-aware cache
(`Ecs.*`).  Histories are arbitrary lists of events: queries at arbitrary times with arbitrary
answers of the next handler, and evictions of arbitrary keys (capacity eviction may strike anywhere).
-/
namespace Agd.Cache

/-! ## TTL bound -/

/-- **simple_ttl_bound.**  Whatever the cached message, the age and the request: every record the
simple cache serves is the stored record with its TTL replaced by one value `t`, and `t` is at most
the original TTL of *every* stored (non-OPT) record minus the age, rounded, floor zero — hence at
most the original TTL — and `t = 0` once the lowest TTL has run out. -/
theorem simple_ttl_bound (m : Msg) (age : Nat) (q : Req) :
    ∃ t, (Simple.hit m age q).answer = m.answer.map (setTTL t) ∧
      (Simple.hit m age q).ns = m.ns.map (setTTL t) ∧
      (Simple.hit m age q).extra = (m.extra.filter (fun x => x.typ ≠ typOPT)).map (setTTL t) ∧
      (∀ r ∈ allRRs m, r.typ ≠ typOPT → t ≤ leftRounded r.ttl age ∧ t ≤ r.ttl) ∧
      (findLowestTTL m * sec ≤ age → t = 0) := by
  refine ⟨simpleTTL (findLowestTTL m) age, rfl, rfl, rfl, ?_, ?_⟩
  · intro r hr hn
    rw [simpleTTL_eq]
    have := leftRounded_mono _ _ age (findLowest_le_mem m r hr hn)
    exact ⟨this, Nat.le_trans this (leftRounded_le _ _)⟩
  · intro h; rw [simpleTTL_eq]; exact leftRounded_expired _ _ h

/-- **ecs_ttl_bound.**  The same for the ECS-aware cache (which keeps OPT records with an EDE option). -/
theorem ecs_ttl_bound (m : Msg) (age : Nat) (q : Req) :
    ∃ t, (Ecs.hit m age q).answer = m.answer.map (setTTL t) ∧
      (Ecs.hit m age q).ns = m.ns.map (setTTL t) ∧
      (Ecs.hit m age q).extra = m.extra.map (setTTL t) ∧
      (∀ r ∈ allRRs m, r.typ ≠ typOPT → t ≤ leftRounded r.ttl age ∧ t ≤ r.ttl) ∧
      (findLowestTTL m * sec ≤ age → t = 0) := by
  refine ⟨ecsTTL (findLowestTTL m) age, rfl, rfl, rfl, ?_, ?_⟩
  · intro r hr hn
    rw [ecsTTL_eq]
    have := leftRounded_mono _ _ age (findLowest_le_mem m r hr hn)
    exact ⟨this, Nat.le_trans this (leftRounded_le _ _)⟩
  · intro h; rw [ecsTTL_eq]; exact leftRounded_expired _ _ h

def exMsg : Msg :=
  { rcode := 0, tc := false, aa := false, ad := false, ra := true, rd := true, cd := false, nq := 1,
    answer := [{ typ := 1, ttl := 2, soaMin := 0, data := 7 }, { typ := 1, ttl := 60, soaMin := 0, data := 8 }],
    ns := [], extra := [{ typ := 41, ttl := 32768, soaMin := 0, data := 0 }] }

def exReq : Req :=
  { name := "Ab.", qtype := 1, qclass := 1, do_ := true, ad := false, rd := true, cd := true,
    fam6 := false, declined := false, subnet := 1 }

/-- Non-vacuity: a two-record answer 1.6 s old is served with TTL 0 by the repaired code. -/
example : (Simple.hit exMsg 1600000000 exReq).answer =
    [{ typ := 1, ttl := 0, soaMin := 0, data := 7 }, { typ := 1, ttl := 0, soaMin := 0, data := 8 }] ∧
    (Simple.hit exMsg 400000000 exReq).answer =
    [{ typ := 1, ttl := 2, soaMin := 0, data := 7 }, { typ := 1, ttl := 2, soaMin := 0, data := 8 }] := by
  decide +kernel

/-- **simple_ttl_counterexample.**  The code before the fix (`simpleTTLOrig`: the lowest TTL is kept
when the rounded time left is not positive) violates the bound: lowest TTL 2 s, age 1.6 s, TTL 2
served where 0 is left.  Replayed on the unrepaired middleware by the harness
(signature `simple:ttl-exceeds-remaining`). -/
theorem simple_ttl_counterexample :
    ¬ (∀ low age, simpleTTLOrig low age ≤ leftRounded low age) := by
  intro h
  exact absurd (h 2 1600000000) (by decide)

/-! ## Histories and the store invariant -/

/-- One event of a history. -/
inductive Ev
  /-- a request at time `now`; `a` is what the next handler answers, `dep` whether that answer is
  ECS-dependent (ignored by the simple cache) -/
  | query (now : Nat) (q : Req) (a : Msg) (dep : Bool)
  /-- capacity eviction of a key -/
  | evict (k : Key)

def Simple.run (cfg : Cfg) : Store → List Ev → Store
  | s, [] => s
  | s, .query now q a _ :: evs => Simple.run cfg (Simple.step cfg s now q a).store evs
  | s, .evict k :: evs => Simple.run cfg (s.del k) evs

def Ecs.run (cfg : Cfg) : Store → List Ev → Store
  | s, [] => s
  | s, .query now q a dep :: evs => Ecs.run cfg (Ecs.step cfg s now q a dep).store evs
  | s, .evict k :: evs => Ecs.run cfg (s.del k) evs

/-- Every entry was produced by `set` from some message `a` handed to it for a question of type
`qt`, and lives exactly the lifetime `set` computed. -/
def Inv (cfg : Cfg) (s : Store) : Prop :=
  ∀ k e, s k = some e → ∃ qt a life,
    e.msg = (prepStore cfg qt a).1 ∧ (prepStore cfg qt a).2 = some life ∧ e.expAt = e.at_ + life

theorem inv_empty (cfg : Cfg) : Inv cfg Store.empty := by
  intro k e h; cases h

theorem inv_del (cfg : Cfg) (s : Store) (k : Key) (h : Inv cfg s) : Inv cfg (s.del k) := by
  intro k' e he
  by_cases hk : k' = k
  · subst hk; simp at he
  · rw [del_other s k k' hk] at he; exact h k' e he

theorem inv_put (cfg : Cfg) (s : Store) (k : Key) (qt : Nat) (a : Msg) (now life : Nat)
    (h : Inv cfg s) (hp : (prepStore cfg qt a).2 = some life) :
    Inv cfg (s.put k { msg := (prepStore cfg qt a).1, at_ := now, expAt := now + life }) := by
  intro k' e he
  by_cases hk : k' = k
  · subst hk
    rw [put_same] at he
    cases he
    exact ⟨qt, a, life, rfl, hp, rfl⟩
  · rw [put_other s k k' _ hk] at he; exact h k' e he

theorem Simple.inv_step (cfg : Cfg) (s : Store) (now : Nat) (q : Req) (a : Msg) (h : Inv cfg s) :
    Inv cfg (Simple.step cfg s now q a).store := by
  unfold Simple.step Simple.stepWith
  split
  · exact h
  · split
    · exact h
    · rename_i life hp; exact inv_put cfg s _ _ _ now life h hp

theorem Ecs.inv_step (cfg : Cfg) (s : Store) (now : Nat) (q : Req) (a : Msg) (dep : Bool) (h : Inv cfg s) :
    Inv cfg (Ecs.step cfg s now q a dep).store := by
  unfold Ecs.step
  split
  · exact h
  · split
    · exact h
    · rename_i life hp; exact inv_put cfg s _ _ _ now life h hp

theorem Simple.inv_run (cfg : Cfg) (s : Store) (evs : List Ev) (h : Inv cfg s) : Inv cfg (Simple.run cfg s evs) := by
  induction evs generalizing s with
  | nil => exact h
  | cons ev evs ih =>
    cases ev with
    | query now q a dep => exact ih _ (Simple.inv_step cfg s now q a h)
    | evict k => exact ih _ (inv_del cfg s k h)

theorem Ecs.inv_run (cfg : Cfg) (s : Store) (evs : List Ev) (h : Inv cfg s) : Inv cfg (Ecs.run cfg s evs) := by
  induction evs generalizing s with
  | nil => exact h
  | cons ev evs ih =>
    cases ev with
    | query now q a dep => exact ih _ (Ecs.inv_step cfg s now q a dep h)
    | evict k => exact ih _ (inv_del cfg s k h)

/-- What is known about an entry that is served at time `now`: it stems from a message `a` that was
complete and cacheable, its age is within its lifetime, the lifetime is the lowest TTL of `a` (raised
to the minimum TTL only when the override is on and `a` is not SERVFAIL; never above 30 s for
SERVFAIL), and without the override the age is within the original TTL of every record of `a`. -/
def ServedSound (cfg : Cfg) (now : Nat) (e : Entry) : Prop :=
  ∃ qt a life, e.msg = (prepStore cfg qt a).1 ∧
    now - e.at_ ≤ life ∧
    life ≤ max (findLowestTTL a * sec) cfg.minTTL ∧
    a.tc = false ∧ a.nq = 1 ∧ findLowestTTL a ≠ 0 ∧
    (a.rcode = rcSuccess ∨ a.rcode = rcNameError ∨ a.rcode = rcServFail) ∧
    (a.rcode = rcSuccess → (∃ r ∈ a.answer, r.typ = qt) ∨ (∃ r ∈ a.ns, r.typ = typSOA)) ∧
    (a.rcode = rcServFail → life ≤ servFailMaxTTL * sec ∧ e.msg = a) ∧
    (cfg.override = false → e.msg = a ∧ ∀ r ∈ allRRs a, r.typ ≠ typOPT → now - e.at_ ≤ r.ttl * sec)

theorem served_sound_of_inv (cfg : Cfg) (s : Store) (now : Nat) (k : Key) (e : Entry)
    (h : Inv cfg s) (hl : s.live now k = some e) : ServedSound cfg now e := by
  obtain ⟨hk, hexp⟩ := live_some s now k e hl
  obtain ⟨qt, a, life, hm, hp, he⟩ := h k e hk
  obtain ⟨h0, hc, hmax, hmin, hplain⟩ := prepStore_some cfg qt a life hp
  obtain ⟨htc, hnq, hrc, hne⟩ := cacheable_sound qt a hc
  have hage : now - e.at_ ≤ life := by omega
  refine ⟨qt, a, life, hm, hage, hmax, htc, hnq, h0, hrc, hne, ?_, ?_⟩
  · intro hs
    obtain ⟨hl2, hm2⟩ := hplain (Or.inr hs)
    refine ⟨?_, by rw [hm, hm2]⟩
    rw [hl2]
    exact Nat.mul_le_mul_right _ (findLowest_servfail_le a hs)
  · intro ho
    obtain ⟨hl2, hm2⟩ := hplain (Or.inl ho)
    refine ⟨by rw [hm, hm2], ?_⟩
    intro r hr hn
    have := findLowest_le_mem a r hr hn
    have := Nat.mul_le_mul_right sec this
    omega

/-- **simple_nothing_after_expiry_only_cacheable.**  After any history (any answers, any times, any
evictions) of the simple cache: a request is answered from the cache only by an entry that
`ServedSound` describes — within its lifetime, stored from a complete NOERROR/NODATA, NXDOMAIN or
SERVFAIL answer with a non-zero lowest TTL, SERVFAIL for 30 s at most, and (override off) within the
original TTL of every one of its records. -/
theorem simple_nothing_after_expiry_only_cacheable (cfg : Cfg) (evs : List Ev) (now : Nat) (q : Req) (a : Msg)
    (hhit : (Simple.step cfg (Simple.run cfg Store.empty evs) now q a).hit = true) :
    ∃ e, (Simple.run cfg Store.empty evs) (Simple.keyOfReq q) = some e ∧ now ≤ e.expAt ∧
      ServedSound cfg now e ∧
      (Simple.step cfg (Simple.run cfg Store.empty evs) now q a).resp = Simple.hit e.msg (now - e.at_) q := by
  have hinv := Simple.inv_run cfg Store.empty evs (inv_empty cfg)
  generalize Simple.run cfg Store.empty evs = s at *
  unfold Simple.step Simple.stepWith at hhit ⊢
  split at hhit
  · rename_i e hl
    obtain ⟨hk, hexp⟩ := live_some s now _ e hl
    refine ⟨e, hk, hexp, served_sound_of_inv cfg s now _ e hinv hl, ?_⟩
    simp [Simple.hit]
  · split at hhit <;> cases hhit

/-- **ecs_nothing_after_expiry_only_cacheable.**  The same for the ECS-aware cache, whichever of its
two caches the entry comes from. -/
theorem ecs_nothing_after_expiry_only_cacheable (cfg : Cfg) (evs : List Ev) (now : Nat) (q : Req) (a : Msg) (dep : Bool)
    (hhit : (Ecs.step cfg (Ecs.run cfg Store.empty evs) now q a dep).hit = true) :
    ∃ k e, (k = Ecs.keyNo q ∨ (k = Ecs.keyDep q ∧ q.declined = false)) ∧
      (Ecs.run cfg Store.empty evs) k = some e ∧ now ≤ e.expAt ∧ ServedSound cfg now e ∧
      (Ecs.step cfg (Ecs.run cfg Store.empty evs) now q a dep).resp = Ecs.hit e.msg (now - e.at_) q := by
  have hinv := Ecs.inv_run cfg Store.empty evs (inv_empty cfg)
  generalize Ecs.run cfg Store.empty evs = s at *
  unfold Ecs.step at hhit ⊢
  split at hhit
  · rename_i e hl
    unfold Ecs.lookup at hl
    split at hl
    · rename_i e' hl'
      cases hl
      obtain ⟨hk, hexp⟩ := live_some s now _ e hl'
      refine ⟨_, e, Or.inl rfl, hk, hexp, served_sound_of_inv cfg s now _ e hinv hl', ?_⟩
      simp
    · rename_i hno
      split at hl
      · cases hl
      · rename_i hd
        obtain ⟨hk, hexp⟩ := live_some s now _ e hl
        have hd' : q.declined = false := by cases hq : q.declined <;> simp_all
        refine ⟨_, e, Or.inr ⟨rfl, hd'⟩, hk, hexp, served_sound_of_inv cfg s now _ e hinv hl, ?_⟩
        simp
  · split at hhit <;> cases hhit

/-- Non-vacuity: a history with a miss, 1.6 s, a hit (TTL 0 left of 2), an eviction, and a miss again. -/
def exStore : Store := (Simple.step ⟨0, false⟩ Store.empty 0 exReq exMsg).store

example : (Simple.step ⟨0, false⟩ Store.empty 0 exReq exMsg).hit = false := by decide +kernel
example : (Simple.step ⟨0, false⟩ exStore 1600000000 exReq exMsg).hit = true := by decide +kernel
example : ((Simple.step ⟨0, false⟩ exStore 1600000000 exReq exMsg).resp.answer.map (·.ttl)) = [0, 0] := by
  decide +kernel
example : (Simple.step ⟨0, false⟩ exStore 2000000001 exReq exMsg).hit = false := by decide +kernel
example : (Simple.step ⟨0, false⟩ (exStore.del (Simple.keyOfReq exReq)) 1 exReq exMsg).hit = false := by
  decide +kernel
example : (Ecs.step ⟨0, false⟩ (Ecs.step ⟨0, false⟩ Store.empty 0 exReq exMsg true).store 1600000000 exReq exMsg true).hit
    = true := by decide +kernel

/-! ## Key separation -/

theorem Simple.key_eq_iff (q1 q2 : Req) :
    Simple.keyOfReq q1 = Simple.keyOfReq q2 ↔
      (q1.do_ = q2.do_ ∧ q1.qtype = q2.qtype ∧ q1.qclass = q2.qclass ∧ q1.name.toLower = q2.name.toLower) := by
  simp [Simple.keyOfReq]

theorem Ecs.keyNo_eq_iff (q1 q2 : Req) :
    Ecs.keyNo q1 = Ecs.keyNo q2 ↔
      (q1.name.toLower = q2.name.toLower ∧ q1.qtype = q2.qtype ∧ q1.qclass = q2.qclass ∧ q1.do_ = q2.do_ ∧
        q1.fam6 = q2.fam6 ∧ q1.declined = q2.declined) := by
  simp [Ecs.keyNo, Ecs.host]

theorem Ecs.keyDep_eq_iff (q1 q2 : Req) :
    Ecs.keyDep q1 = Ecs.keyDep q2 ↔
      (q1.name.toLower = q2.name.toLower ∧ q1.qtype = q2.qtype ∧ q1.qclass = q2.qclass ∧ q1.do_ = q2.do_ ∧
        q1.fam6 = q2.fam6 ∧ Ecs.effSubnet q1 = Ecs.effSubnet q2) := by
  simp [Ecs.keyDep, Ecs.host]

/-- The simple cache's answer depends on the store only through the live entry under the request's key. -/
theorem Simple.step_congr (cfg : Cfg) (s s' : Store) (now : Nat) (q : Req) (a : Msg)
    (h : s'.live now (Simple.keyOfReq q) = s.live now (Simple.keyOfReq q)) :
    (Simple.step cfg s' now q a).resp = (Simple.step cfg s now q a).resp ∧
    (Simple.step cfg s' now q a).hit = (Simple.step cfg s now q a).hit := by
  unfold Simple.step Simple.stepWith
  rw [h]
  split
  · exact ⟨rfl, rfl⟩
  · split <;> exact ⟨rfl, rfl⟩

/-- **simple_key_separation.**  For every store, times and answers: what request `q2` gets is not
influenced by an earlier request `q1` whose answer was stored under a different key — in particular
(see `Simple.key_eq_iff`) whenever `q1`'s answer echoes `q1`'s DO bit and the two requests differ in
qtype, qclass, DO or case-folded name. -/
theorem simple_key_separation (cfg : Cfg) (s : Store) (now1 now2 : Nat) (q1 q2 : Req) (a1 a2 : Msg)
    (hne : Simple.keyOfResp q1 (prepStore cfg q1.qtype a1).1 ≠ Simple.keyOfReq q2) :
    (Simple.step cfg (Simple.step cfg s now1 q1 a1).store now2 q2 a2).resp = (Simple.step cfg s now2 q2 a2).resp ∧
    (Simple.step cfg (Simple.step cfg s now1 q1 a1).store now2 q2 a2).hit = (Simple.step cfg s now2 q2 a2).hit := by
  apply Simple.step_congr
  unfold Simple.step Simple.stepWith
  split
  · rfl
  · split
    · rfl
    · exact live_put_other s now2 _ _ _ (fun h => hne h.symm)

/-- With an answer that echoes the DO bit the stored key is the request's key. -/
theorem Simple.keyOfResp_echo (cfg : Cfg) (q : Req) (a : Msg) (h : msgDO a = q.do_) :
    Simple.keyOfResp q (prepStore cfg q.qtype a).1 = Simple.keyOfReq q := by
  obtain ⟨ans, hs, _, _⟩ := prepStore_shape cfg q.qtype a
  have : msgDO (prepStore cfg q.qtype a).1 = msgDO a := by rw [hs]; rfl
  simp [Simple.keyOfResp, Simple.keyOfReq, this, h]

theorem Ecs.step_congr (cfg : Cfg) (s s' : Store) (now : Nat) (q : Req) (a : Msg) (dep : Bool)
    (h1 : s'.live now (Ecs.keyNo q) = s.live now (Ecs.keyNo q))
    (h2 : s'.live now (Ecs.keyDep q) = s.live now (Ecs.keyDep q)) :
    (Ecs.step cfg s' now q a dep).resp = (Ecs.step cfg s now q a dep).resp ∧
    (Ecs.step cfg s' now q a dep).hit = (Ecs.step cfg s now q a dep).hit := by
  have hl : Ecs.lookup s' now q = Ecs.lookup s now q := by unfold Ecs.lookup; rw [h1, h2]
  unfold Ecs.step
  rw [hl]
  split
  · exact ⟨rfl, rfl⟩
  · split <;> exact ⟨rfl, rfl⟩

/-- **ecs_key_separation.**  For the ECS-aware cache: `q2`'s answer is not influenced by an earlier
`q1` unless `q1`'s entry went under one of the two keys `q2` looks up, i.e. (by `Ecs.keyNo_eq_iff`,
`Ecs.keyDep_eq_iff`) unless name (case-folded), qtype, qclass, DO and family agree and additionally
the declined-ECS flag (answers that are not ECS-dependent) or the location's subnet (ECS-dependent
answers). -/
theorem ecs_key_separation (cfg : Cfg) (s : Store) (now1 now2 : Nat) (q1 q2 : Req) (a1 a2 : Msg) (d1 d2 : Bool)
    (hne1 : (if d1 then Ecs.keyDep q1 else Ecs.keyNo q1) ≠ Ecs.keyNo q2)
    (hne2 : (if d1 then Ecs.keyDep q1 else Ecs.keyNo q1) ≠ Ecs.keyDep q2) :
    (Ecs.step cfg (Ecs.step cfg s now1 q1 a1 d1).store now2 q2 a2 d2).resp = (Ecs.step cfg s now2 q2 a2 d2).resp ∧
    (Ecs.step cfg (Ecs.step cfg s now1 q1 a1 d1).store now2 q2 a2 d2).hit = (Ecs.step cfg s now2 q2 a2 d2).hit := by
  apply Ecs.step_congr
  · unfold Ecs.step
    split
    · rfl
    · split
      · rfl
      · exact live_put_other s now2 _ _ _ (fun h => hne1 h.symm)
  · unfold Ecs.step
    split
    · rfl
    · split
      · rfl
      · exact live_put_other s now2 _ _ _ (fun h => hne2 h.symm)

/-- Non-vacuity: the same name in another case hits; another qtype, class or DO setting does not. -/
example : (Simple.step ⟨0, false⟩ exStore 5 { exReq with name := "aB." } exMsg).hit = true := by
  decide +kernel
example : (Simple.step ⟨0, false⟩ exStore 5 { exReq with qtype := 28 } exMsg).hit = false := by decide +kernel
example : (Simple.step ⟨0, false⟩ exStore 5 { exReq with qclass := 3 } exMsg).hit = false := by decide +kernel
example : (Simple.step ⟨0, false⟩ exStore 5 { exReq with do_ := false } exMsg).hit = false := by decide +kernel
example : Simple.keyOfResp exReq (prepStore ⟨0, false⟩ exReq.qtype exMsg).1 ≠ Simple.keyOfReq { exReq with qtype := 28 } := by
  decide +kernel

/-! ## A cached answer equals a fresh one (simple cache) -/

/-- The next handler echoes RD and CD of the request (`SetReply`). -/
def echo (q : Req) (m : Msg) : Msg := { m with rd := q.rd, cd := q.cd }

/-- What the property compares: rcode, the flags the caches derive (TC, AD, RA, RD, CD) and the
records of the three sections without OPT pseudo-records and with TTLs masked. -/
def SameModTTL (x y : Msg) : Prop :=
  x.rcode = y.rcode ∧ x.tc = y.tc ∧ x.ad = y.ad ∧ x.ra = y.ra ∧ x.rd = y.rd ∧ x.cd = y.cd ∧
  strip x.answer = strip y.answer ∧ strip x.ns = strip y.ns ∧ strip x.extra = strip y.extra

/-- The upstream's answer is a function `up` of the cache key, i.e. of the question (name compared
case-insensitively, qtype, qclass) and the DO bit; the message handed to the middleware for `q` is
`echo q (up (keyOfReq q))`. -/
def Simple.answerFor (up : Key → Msg) (q : Req) : Msg := echo q (up (Simple.keyOfReq q))

/-- The answer's OPT echoes the DO bit the upstream acted on: either the request's own, or — for an
upstream that ignores EDNS for the question — none, in which case the answer is the one it gives
without DO. -/
def DOConsistent (up : Key → Msg) : Prop :=
  ∀ d qt qc n, up (.simple (msgDO (up (.simple d qt qc n))) qt qc n) = up (.simple d qt qc n)

def Simple.runUp (cfg : Cfg) (up : Key → Msg) : Store → List (Nat × Req ⊕ Key) → Store
  | s, [] => s
  | s, .inl (now, q) :: evs => Simple.runUp cfg up (Simple.step cfg s now q (Simple.answerFor up q)).store evs
  | s, .inr k :: evs => Simple.runUp cfg up (s.del k) evs

/-- Every entry under key `k` holds what `set` makes of the upstream's answer for `k`. -/
def InvUp (cfg : Cfg) (up : Key → Msg) (s : Store) : Prop :=
  ∀ k e, s k = some e → ∃ q0, Simple.keyOfReq q0 = k ∧
    e.msg = (prepStore cfg q0.qtype (echo q0 (up k))).1 ∧
    (prepStore cfg q0.qtype (echo q0 (up k))).2 ≠ none

theorem msgDO_prep_echo (cfg : Cfg) (qt : Nat) (q : Req) (m : Msg) :
    msgDO (prepStore cfg qt (echo q m)).1 = msgDO m := by
  obtain ⟨ans, hs, _, _⟩ := prepStore_shape cfg qt (echo q m)
  rw [hs]; rfl

theorem Simple.invUp_step (cfg : Cfg) (up : Key → Msg) (hdo : DOConsistent up) (s : Store) (now : Nat) (q : Req)
    (h : InvUp cfg up s) : InvUp cfg up (Simple.step cfg s now q (Simple.answerFor up q)).store := by
  unfold Simple.step Simple.stepWith
  split
  · exact h
  · split
    · exact h
    · rename_i life hp
      intro k' e he
      dsimp only at he
      by_cases hk : k' = Simple.keyOfResp q (prepStore cfg q.qtype (Simple.answerFor up q)).1
      · subst hk
        rw [put_same] at he
        cases he
        have hdo' : msgDO (prepStore cfg q.qtype (Simple.answerFor up q)).1 = msgDO (up (Simple.keyOfReq q)) :=
          msgDO_prep_echo cfg q.qtype q _
        have hup : up (Simple.keyOfResp q (prepStore cfg q.qtype (Simple.answerFor up q)).1) = up (Simple.keyOfReq q) := by
          unfold Simple.keyOfResp
          rw [hdo']
          exact hdo q.do_ q.qtype q.qclass q.name.toLower
        refine ⟨{ q with do_ := msgDO (prepStore cfg q.qtype (Simple.answerFor up q)).1 }, rfl, ?_, ?_⟩
        · show (prepStore cfg q.qtype (Simple.answerFor up q)).1 = _
          rw [hup]; rfl
        · show (prepStore cfg q.qtype (echo _ (up _))).2 ≠ none
          rw [hup]
          show (prepStore cfg q.qtype (Simple.answerFor up q)).2 ≠ none
          rw [hp]; simp
      · rw [put_other s _ k' _ hk] at he; exact h k' e he

theorem Simple.invUp_run (cfg : Cfg) (up : Key → Msg) (hdo : DOConsistent up) (s : Store)
    (evs : List (Nat × Req ⊕ Key)) (h : InvUp cfg up s) : InvUp cfg up (Simple.runUp cfg up s evs) := by
  induction evs generalizing s with
  | nil => exact h
  | cons ev evs ih =>
    cases ev with
    | inl p => exact ih _ (Simple.invUp_step cfg up hdo s p.1 p.2 h)
    | inr k =>
      apply ih
      intro k' e he
      by_cases hk : k' = k
      · subst hk; simp at he
      · rw [del_other s k k' hk] at he; exact h k' e he

theorem prepStore_echo_fields (cfg : Cfg) (qt : Nat) (q : Req) (m : Msg) :
    ∃ ans, (prepStore cfg qt (echo q m)).1 = { echo q m with answer := ans } ∧ strip ans = strip m.answer :=
  let ⟨ans, h1, h2, _⟩ := prepStore_shape cfg qt (echo q m)
  ⟨ans, h1, h2⟩

/-- `set` treats two echoes of the same upstream answer alike. -/
theorem prepStore_echo_indep (cfg : Cfg) (qt : Nat) (q q' : Req) (m : Msg) :
    (prepStore cfg qt (echo q m)).2 = (prepStore cfg qt (echo q' m)).2 ∧
    (prepStore cfg qt (echo q m)).1.answer = (prepStore cfg qt (echo q' m)).1.answer := by
  unfold prepStore
  have h1 : findLowestTTL (echo q m) = findLowestTTL (echo q' m) := rfl
  have h2 : isCacheable qt (echo q m) = isCacheable qt (echo q' m) := rfl
  have h3 : (echo q m).rcode = (echo q' m).rcode := rfl
  have h4 : (echo q m).answer = (echo q' m).answer := rfl
  rw [h1, h2, h3, h4]
  split
  · exact ⟨rfl, rfl⟩
  · split <;> exact ⟨rfl, rfl⟩

/-- **simple_hit_equals_fresh.**  For every upstream that is a function of question and DO bit
(`up`, with `DOConsistent`), every history of requests, clock readings and evictions, and every
further request `q` at any time: the response — from cache or not — has the same rcode, flags and
records (OPT and TTL values aside) as the response an empty cache would give to `q`. -/
theorem simple_hit_equals_fresh (cfg : Cfg) (up : Key → Msg) (hdo : DOConsistent up)
    (evs : List (Nat × Req ⊕ Key)) (now : Nat) (q : Req) :
    SameModTTL (Simple.step cfg (Simple.runUp cfg up Store.empty evs) now q (Simple.answerFor up q)).resp
      (Simple.step cfg Store.empty now q (Simple.answerFor up q)).resp := by
  have hinv := Simple.invUp_run cfg up hdo Store.empty evs (by intro k e h; cases h)
  generalize Simple.runUp cfg up Store.empty evs = s at *
  have hfresh : (Simple.step cfg Store.empty now q (Simple.answerFor up q)).resp =
      (prepStore cfg q.qtype (Simple.answerFor up q)).1 := by
    unfold Simple.step Simple.stepWith
    simp only [Store.live, Store.empty]
    split <;> rfl
  rw [hfresh]
  unfold Simple.step Simple.stepWith
  split
  · rename_i e hl
    obtain ⟨hk, _⟩ := live_some s now _ e hl
    obtain ⟨q0, hk0, hm, hstored⟩ := hinv _ e hk
    have hqt : q0.qtype = q.qtype := by
      have := (Simple.key_eq_iff q0 q).mp hk0; exact this.2.1
    obtain ⟨ans0, hs0, hst0⟩ := prepStore_echo_fields cfg q0.qtype q0 (up (Simple.keyOfReq q))
    obtain ⟨ans1, hs1, hst1⟩ := prepStore_echo_fields cfg q.qtype q (up (Simple.keyOfReq q))
    have hsame := prepStore_echo_indep cfg q.qtype q0 q (up (Simple.keyOfReq q))
    -- the stored answer was cacheable, hence complete
    have htc : (up (Simple.keyOfReq q)).tc = false := by
      cases hp : (prepStore cfg q0.qtype (echo q0 (up (Simple.keyOfReq q)))).2 with
      | none => exact absurd hp hstored
      | some life =>
        have := (prepStore_some cfg q0.qtype _ life hp).2.1
        exact (cacheable_sound q0.qtype _ this).1
    rw [hm, hs0]
    unfold Simple.answerFor
    rw [hs1]
    refine ⟨rfl, ?_, rfl, rfl, rfl, rfl, ?_, ?_, ?_⟩
    · show false = (up (Simple.keyOfReq q)).tc
      rw [htc]
    · show strip (ans0.map _) = strip ans1
      rw [strip_map_setTTL, hst0, hst1]
    · show strip ((echo q0 (up (Simple.keyOfReq q))).ns.map _) = strip (echo q (up (Simple.keyOfReq q))).ns
      rw [strip_map_setTTL]; rfl
    · show strip (((echo q0 (up (Simple.keyOfReq q))).extra.filter _).map _) = strip (echo q (up (Simple.keyOfReq q))).extra
      rw [strip_map_setTTL, strip_filter_nonOPT]; rfl
  · split <;> exact ⟨rfl, rfl, rfl, rfl, rfl, rfl, rfl, rfl, rfl⟩

/-- Non-vacuity of `DOConsistent`: an upstream that echoes DO, and one that ignores EDNS. -/
example : DOConsistent (fun k => match k with
    | .simple d _ _ _ => { exMsg with extra := [{ typ := 41, ttl := if d then 32768 else 0, soaMin := 0, data := 0 }] }
    | _ => exMsg) := by
  intro d qt qc n
  cases d <;> rfl

example : DOConsistent (fun _ => { exMsg with extra := [] }) := by
  intro d qt qc n; rfl

#print axioms simple_ttl_bound
#print axioms ecs_ttl_bound
#print axioms simple_ttl_counterexample
#print axioms inv_empty
#print axioms inv_del
#print axioms inv_put
#print axioms Simple.inv_step
#print axioms Ecs.inv_step
#print axioms Simple.inv_run
#print axioms Ecs.inv_run
#print axioms served_sound_of_inv
#print axioms simple_nothing_after_expiry_only_cacheable
#print axioms ecs_nothing_after_expiry_only_cacheable
#print axioms Simple.key_eq_iff
#print axioms Ecs.keyNo_eq_iff
#print axioms Ecs.keyDep_eq_iff
#print axioms Simple.step_congr
#print axioms simple_key_separation
#print axioms Simple.keyOfResp_echo
#print axioms Ecs.step_congr
#print axioms ecs_key_separation
#print axioms msgDO_prep_echo
#print axioms Simple.invUp_step
#print axioms Simple.invUp_run
#print axioms prepStore_echo_fields
#print axioms prepStore_echo_indep
#print axioms simple_hit_equals_fresh

end Agd.Cache
