import Agd.Tie.TrC04
import Agd.Lemmas.Cache
import Agd.Tie.C04
/-!
# C04 — cached answers equal fresh answers and never outlive their TTL

Property theorems only; helper lemmas live in `Agd/Lemmas/Cache.lean`.  The model
(`Agd/Model/Cache.lean`) covers both the simple cache (`Simple.*`) and the ECS-aware cache
(`Ecs.*`).  Histories are arbitrary lists of events: queries at arbitrary times with arbitrary
answers of the next handler, and evictions of arbitrary keys (capacity eviction may strike anywhere).
-/
namespace Agd.Cache

/-! ## TTL bound -/

/-- **simple_ttl_bound.**  Whatever the cached message, the age and the request: every record the
simple cache serves is the stored record with its TTL replaced by one value `t`, and `t` is at most
the original TTL of *every* stored (non-OPT) record minus the age, rounded, floor zero — hence at
most the original TTL — and `t = 0` once the lowest TTL has run out. -/
theorem simple_ttl_bound (m : Msg) (age : Nat) (q : Req) :
    ∃ t, (Simple.hit m age q).answer = m.answer.map (setTTL t) ∧
      (Simple.hit m age q).ns = m.ns.map (setTTL t) ∧
      (Simple.hit m age q).extra = (m.extra.filter (fun x => x.typ ≠ typOPT)).map (setTTL t) ∧
      (∀ r ∈ allRRs m, r.typ ≠ typOPT → t ≤ leftRounded r.ttl age ∧ t ≤ r.ttl) ∧
      (findLowestTTL m * sec ≤ age → t = 0) := by
  refine ⟨simpleTTL (findLowestTTL m) age, rfl, rfl, rfl, ?_, ?_⟩
  · intro r hr hn
    rw [simpleTTL_eq]
    have := leftRounded_mono _ _ age (findLowest_le_mem m r hr hn)
    exact ⟨this, Nat.le_trans this (leftRounded_le _ _)⟩
  · intro h; rw [simpleTTL_eq]; exact leftRounded_expired _ _ h

/-- **ecs_ttl_bound.**  The same for the ECS-aware cache (which keeps OPT records with an EDE option). -/
theorem ecs_ttl_bound (m : Msg) (age : Nat) (q : Req) :
    ∃ t, (Ecs.hit m age q).answer = m.answer.map (setTTL t) ∧
      (Ecs.hit m age q).ns = m.ns.map (setTTL t) ∧
      (Ecs.hit m age q).extra = m.extra.map (setTTL t) ∧
      (∀ r ∈ allRRs m, r.typ ≠ typOPT → t ≤ leftRounded r.ttl age ∧ t ≤ r.ttl) ∧
      (findLowestTTL m * sec ≤ age → t = 0) := by
  refine ⟨ecsTTL (findLowestTTL m) age, rfl, rfl, rfl, ?_, ?_⟩
  · intro r hr hn
    rw [ecsTTL_eq]
    have := leftRounded_mono _ _ age (findLowest_le_mem m r hr hn)
    exact ⟨this, Nat.le_trans this (leftRounded_le _ _)⟩
  · intro h; rw [ecsTTL_eq]; exact leftRounded_expired _ _ h

def exMsg : Msg :=
  { rcode := 0, tc := false, aa := false, ad := false, ra := true, rd := true, cd := false, nq := 1,
    answer := [{ typ := 1, ttl := 2, soaMin := 0, data := 7 }, { typ := 1, ttl := 60, soaMin := 0, data := 8 }],
    ns := [], extra := [{ typ := 41, ttl := 32768, soaMin := 0, data := 0 }] }

def exReq : Req :=
  { name := "Ab.", qtype := 1, qclass := 1, do_ := true, ad := false, rd := true, cd := true,
    fam6 := false, declined := false, subnet := 1, edns := true }

/-- Non-vacuity: a two-record answer 1.6 s old is served with TTL 0 by the repaired code. -/
example : (Simple.hit exMsg 1600000000 exReq).answer =
    [{ typ := 1, ttl := 0, soaMin := 0, data := 7 }, { typ := 1, ttl := 0, soaMin := 0, data := 8 }] ∧
    (Simple.hit exMsg 400000000 exReq).answer =
    [{ typ := 1, ttl := 2, soaMin := 0, data := 7 }, { typ := 1, ttl := 2, soaMin := 0, data := 8 }] := by
  decide +kernel

/-- **simple_ttl_counterexample.**  The code before the fix (`simpleTTLOrig`: the lowest TTL is kept
when the rounded time left is not positive) violates the bound: lowest TTL 2 s, age 1.6 s, TTL 2
served where 0 is left.  Replayed on the unrepaired middleware by the harness
(signature `simple:ttl-exceeds-remaining`). -/
theorem simple_ttl_counterexample :
    ¬ (∀ low age, simpleTTLOrig low age ≤ leftRounded low age) := by
  intro h
  exact absurd (h 2 1600000000) (by decide)

/-! ## Histories and the store invariant -/

/-- One event of a history. -/
inductive Ev
  /-- a request at time `now`; `a` is what the next handler answers, `dep` whether that answer is
  ECS-dependent (ignored by the simple cache) -/
  | query (now : Nat) (q : Req) (a : Msg) (dep : Bool)
  /-- capacity eviction of a key -/
  | evict (k : Key)

def Simple.run (cfg : Cfg) : Store → List Ev → Store
  | s, [] => s
  | s, .query now q a _ :: evs => Simple.run cfg (Simple.step cfg s now q a).store evs
  | s, .evict k :: evs => Simple.run cfg (s.del k) evs

def Ecs.run (cfg : Cfg) : Store → List Ev → Store
  | s, [] => s
  | s, .query now q a dep :: evs => Ecs.run cfg (Ecs.step cfg s now q a dep).store evs
  | s, .evict k :: evs => Ecs.run cfg (s.del k) evs

/-- Every entry was produced by `set` from some message `a` handed to it for a question of type
`qt`, and lives exactly the lifetime `set` computed. -/
def Inv (cfg : Cfg) (s : Store) : Prop :=
  ∀ k e, s k = some e → ∃ qt a life,
    e.msg = (prepStore cfg qt a).1 ∧ (prepStore cfg qt a).2 = some life ∧ e.expAt = e.at_ + life

theorem inv_empty (cfg : Cfg) : Inv cfg Store.empty := by
  intro k e h; cases h

theorem inv_del (cfg : Cfg) (s : Store) (k : Key) (h : Inv cfg s) : Inv cfg (s.del k) := by
  intro k' e he
  by_cases hk : k' = k
  · subst hk; simp at he
  · rw [del_other s k k' hk] at he; exact h k' e he

theorem inv_put (cfg : Cfg) (s : Store) (k : Key) (qt : Nat) (a : Msg) (now life : Nat)
    (h : Inv cfg s) (hp : (prepStore cfg qt a).2 = some life) :
    Inv cfg (s.put k { msg := (prepStore cfg qt a).1, at_ := now, expAt := now + life }) := by
  intro k' e he
  by_cases hk : k' = k
  · subst hk
    rw [put_same] at he
    cases he
    exact ⟨qt, a, life, rfl, hp, rfl⟩
  · rw [put_other s k k' _ hk] at he; exact h k' e he

theorem Simple.inv_step (cfg : Cfg) (s : Store) (now : Nat) (q : Req) (a : Msg) (h : Inv cfg s) :
    Inv cfg (Simple.step cfg s now q a).store := by
  unfold Simple.step Simple.stepWith
  split
  · exact h
  · split
    · exact h
    · rename_i life hp; exact inv_put cfg s _ _ _ now life h hp

theorem Ecs.inv_step (cfg : Cfg) (s : Store) (now : Nat) (q : Req) (a : Msg) (dep : Bool) (h : Inv cfg s) :
    Inv cfg (Ecs.step cfg s now q a dep).store := by
  unfold Ecs.step
  split
  · exact h
  · split
    · exact h
    · rename_i life hp; exact inv_put cfg s _ _ _ now life h hp

theorem Simple.inv_run (cfg : Cfg) (s : Store) (evs : List Ev) (h : Inv cfg s) : Inv cfg (Simple.run cfg s evs) := by
  induction evs generalizing s with
  | nil => exact h
  | cons ev evs ih =>
    cases ev with
    | query now q a dep => exact ih _ (Simple.inv_step cfg s now q a h)
    | evict k => exact ih _ (inv_del cfg s k h)

theorem Ecs.inv_run (cfg : Cfg) (s : Store) (evs : List Ev) (h : Inv cfg s) : Inv cfg (Ecs.run cfg s evs) := by
  induction evs generalizing s with
  | nil => exact h
  | cons ev evs ih =>
    cases ev with
    | query now q a dep => exact ih _ (Ecs.inv_step cfg s now q a dep h)
    | evict k => exact ih _ (inv_del cfg s k h)

/-- What is known about an entry that is served at time `now`: it stems from a message `a` that was
complete and cacheable, its age is within its lifetime, the lifetime is the lowest TTL of `a` (raised
to the minimum TTL only when the override is on and `a` is not SERVFAIL; never above 30 s for
SERVFAIL), and without the override the age is within the original TTL of every record of `a`. -/
def ServedSound (cfg : Cfg) (now : Nat) (e : Entry) : Prop :=
  ∃ qt a life, e.msg = (prepStore cfg qt a).1 ∧
    now - e.at_ ≤ life ∧
    life ≤ max (findLowestTTL a * sec) cfg.minTTL ∧
    a.tc = false ∧ a.nq = 1 ∧ findLowestTTL a ≠ 0 ∧
    (a.rcode = rcSuccess ∨ a.rcode = rcNameError ∨ a.rcode = rcServFail) ∧
    (a.rcode = rcSuccess → (∃ r ∈ a.answer, r.typ = qt) ∨ (∃ r ∈ a.ns, r.typ = typSOA)) ∧
    (a.rcode = rcServFail → life ≤ servFailMaxTTL * sec ∧ e.msg = a) ∧
    (cfg.override = false → e.msg = a ∧ ∀ r ∈ allRRs a, r.typ ≠ typOPT → now - e.at_ ≤ r.ttl * sec)

theorem served_sound_of_inv (cfg : Cfg) (s : Store) (now : Nat) (k : Key) (e : Entry)
    (h : Inv cfg s) (hl : s.live now k = some e) : ServedSound cfg now e := by
  obtain ⟨hk, hexp⟩ := live_some s now k e hl
  obtain ⟨qt, a, life, hm, hp, he⟩ := h k e hk
  obtain ⟨h0, hc, hmax, hmin, hplain⟩ := prepStore_some cfg qt a life hp
  obtain ⟨htc, hnq, hrc, hne⟩ := cacheable_sound qt a hc
  have hage : now - e.at_ ≤ life := by omega
  refine ⟨qt, a, life, hm, hage, hmax, htc, hnq, h0, hrc, hne, ?_, ?_⟩
  · intro hs
    obtain ⟨hl2, hm2⟩ := hplain (Or.inr hs)
    refine ⟨?_, by rw [hm, hm2]⟩
    rw [hl2]
    exact Nat.mul_le_mul_right _ (findLowest_servfail_le a hs)
  · intro ho
    obtain ⟨hl2, hm2⟩ := hplain (Or.inl ho)
    refine ⟨by rw [hm, hm2], ?_⟩
    intro r hr hn
    have := findLowest_le_mem a r hr hn
    have := Nat.mul_le_mul_right sec this
    omega

/-- **simple_nothing_after_expiry_only_cacheable.**  After any history (any answers, any times, any
evictions) of the simple cache: a request is answered from the cache only by an entry that
`ServedSound` describes — within its lifetime, stored from a complete NOERROR/NODATA, NXDOMAIN or
SERVFAIL answer with a non-zero lowest TTL, SERVFAIL for 30 s at most, and (override off) within the
original TTL of every one of its records. -/
theorem simple_nothing_after_expiry_only_cacheable (cfg : Cfg) (evs : List Ev) (now : Nat) (q : Req) (a : Msg)
    (hhit : (Simple.step cfg (Simple.run cfg Store.empty evs) now q a).hit = true) :
    ∃ e, (Simple.run cfg Store.empty evs) (Simple.keyOfReq q) = some e ∧ now ≤ e.expAt ∧
      ServedSound cfg now e ∧
      (Simple.step cfg (Simple.run cfg Store.empty evs) now q a).resp = Simple.hit e.msg (now - e.at_) q := by
  have hinv := Simple.inv_run cfg Store.empty evs (inv_empty cfg)
  generalize Simple.run cfg Store.empty evs = s at *
  unfold Simple.step Simple.stepWith at hhit ⊢
  split at hhit
  · rename_i e hl
    obtain ⟨hk, hexp⟩ := live_some s now _ e hl
    refine ⟨e, hk, hexp, served_sound_of_inv cfg s now _ e hinv hl, ?_⟩
    simp [Simple.hit]
  · split at hhit <;> cases hhit

/-- **ecs_nothing_after_expiry_only_cacheable.**  The same for the ECS-aware cache, whichever of its
two caches the entry comes from. -/
theorem ecs_nothing_after_expiry_only_cacheable (cfg : Cfg) (evs : List Ev) (now : Nat) (q : Req) (a : Msg) (dep : Bool)
    (hhit : (Ecs.step cfg (Ecs.run cfg Store.empty evs) now q a dep).hit = true) :
    ∃ k e, (k = Ecs.keyNo q ∨ (k = Ecs.keyDep q ∧ q.declined = false)) ∧
      (Ecs.run cfg Store.empty evs) k = some e ∧ now ≤ e.expAt ∧ ServedSound cfg now e ∧
      (Ecs.step cfg (Ecs.run cfg Store.empty evs) now q a dep).resp = Ecs.hit e.msg (now - e.at_) q := by
  have hinv := Ecs.inv_run cfg Store.empty evs (inv_empty cfg)
  generalize Ecs.run cfg Store.empty evs = s at *
  unfold Ecs.step at hhit ⊢
  split at hhit
  · rename_i e hl
    unfold Ecs.lookup at hl
    split at hl
    · rename_i e' hl'
      cases hl
      obtain ⟨hk, hexp⟩ := live_some s now _ e hl'
      refine ⟨_, e, Or.inl rfl, hk, hexp, served_sound_of_inv cfg s now _ e hinv hl', ?_⟩
      simp
    · rename_i hno
      split at hl
      · cases hl
      · rename_i hd
        obtain ⟨hk, hexp⟩ := live_some s now _ e hl
        have hd' : q.declined = false := by cases hq : q.declined <;> simp_all
        refine ⟨_, e, Or.inr ⟨rfl, hd'⟩, hk, hexp, served_sound_of_inv cfg s now _ e hinv hl, ?_⟩
        simp
  · split at hhit <;> cases hhit

/-- Non-vacuity: a history with a miss, 1.6 s, a hit (TTL 0 left of 2), an eviction, and a miss again. -/
def exStore : Store := (Simple.step ⟨0, false⟩ Store.empty 0 exReq exMsg).store

example : (Simple.step ⟨0, false⟩ Store.empty 0 exReq exMsg).hit = false := by decide +kernel
example : (Simple.step ⟨0, false⟩ exStore 1600000000 exReq exMsg).hit = true := by decide +kernel
example : ((Simple.step ⟨0, false⟩ exStore 1600000000 exReq exMsg).resp.answer.map (·.ttl)) = [0, 0] := by
  decide +kernel
example : (Simple.step ⟨0, false⟩ exStore 2000000001 exReq exMsg).hit = false := by decide +kernel
example : (Simple.step ⟨0, false⟩ (exStore.del (Simple.keyOfReq exReq)) 1 exReq exMsg).hit = false := by
  decide +kernel
example : (Ecs.step ⟨0, false⟩ (Ecs.step ⟨0, false⟩ Store.empty 0 exReq exMsg true).store 1600000000 exReq exMsg true).hit
    = true := by decide +kernel

/-! ## Key separation -/

theorem Simple.key_eq_iff (q1 q2 : Req) :
    Simple.keyOfReq q1 = Simple.keyOfReq q2 ↔
      (q1.do_ = q2.do_ ∧ q1.qtype = q2.qtype ∧ q1.qclass = q2.qclass ∧ q1.name.toLower = q2.name.toLower) := by
  simp [Simple.keyOfReq]

theorem Ecs.keyNo_eq_iff (q1 q2 : Req) :
    Ecs.keyNo q1 = Ecs.keyNo q2 ↔
      (q1.name.toLower = q2.name.toLower ∧ q1.qtype = q2.qtype ∧ q1.qclass = q2.qclass ∧ q1.do_ = q2.do_ ∧
        q1.fam6 = q2.fam6 ∧ q1.declined = q2.declined) := by
  simp [Ecs.keyNo, Ecs.host]

theorem Ecs.keyDep_eq_iff (q1 q2 : Req) :
    Ecs.keyDep q1 = Ecs.keyDep q2 ↔
      (q1.name.toLower = q2.name.toLower ∧ q1.qtype = q2.qtype ∧ q1.qclass = q2.qclass ∧ q1.do_ = q2.do_ ∧
        q1.fam6 = q2.fam6 ∧ Ecs.effSubnet q1 = Ecs.effSubnet q2) := by
  simp [Ecs.keyDep, Ecs.host]

/-- The simple cache's answer depends on the store only through the live entry under the request's key. -/
theorem Simple.step_congr (cfg : Cfg) (s s' : Store) (now : Nat) (q : Req) (a : Msg)
    (h : s'.live now (Simple.keyOfReq q) = s.live now (Simple.keyOfReq q)) :
    (Simple.step cfg s' now q a).resp = (Simple.step cfg s now q a).resp ∧
    (Simple.step cfg s' now q a).hit = (Simple.step cfg s now q a).hit := by
  unfold Simple.step Simple.stepWith
  rw [h]
  split
  · exact ⟨rfl, rfl⟩
  · split <;> exact ⟨rfl, rfl⟩

/-- **simple_key_separation.**  For every store, times and answers (whatever the answers look like,
with or without an OPT record): what request `q2` gets is not influenced by an earlier request `q1`
that differs from it in qtype, qclass, DO bit or case-folded name. -/
theorem simple_key_separation (cfg : Cfg) (s : Store) (now1 now2 : Nat) (q1 q2 : Req) (a1 a2 : Msg)
    (hne : ¬ (q1.do_ = q2.do_ ∧ q1.qtype = q2.qtype ∧ q1.qclass = q2.qclass ∧ q1.name.toLower = q2.name.toLower)) :
    (Simple.step cfg (Simple.step cfg s now1 q1 a1).store now2 q2 a2).resp = (Simple.step cfg s now2 q2 a2).resp ∧
    (Simple.step cfg (Simple.step cfg s now1 q1 a1).store now2 q2 a2).hit = (Simple.step cfg s now2 q2 a2).hit := by
  have hne' : Simple.keyOfReq q1 ≠ Simple.keyOfReq q2 := fun h => hne ((Simple.key_eq_iff q1 q2).mp h)
  apply Simple.step_congr
  unfold Simple.step Simple.stepWith
  split
  · rfl
  · split
    · rfl
    · exact live_put_other s now2 _ _ _ (fun h => hne' h.symm)

def sigRR : RR := { typ := 46, ttl := 60, soaMin := 0, data := 9 }
def upNoOpt (d : Bool) : Msg :=
  { rcode := 0, tc := false, aa := false, ad := false, ra := true, rd := true, cd := false, nq := 1,
    answer := { typ := 1, ttl := 60, soaMin := 0, data := 7 } :: (if d then [sigRR] else []), ns := [], extra := [] }
def reqDO (d : Bool) : Req :=
  { name := "a.example.", qtype := 1, qclass := 1, do_ := d, ad := false, rd := true, cd := false, fam6 := false,
    declined := false, subnet := 0, edns := d }

/-- **simple_respkey_counterexample.**  The code before the round-3 fix (`set` keyed the entry by the
*response*) violates the property against an upstream that is a function of question and DO bit but
answers without an OPT record: the answer to a DO=1 query (it carries an RRSIG) is served to the same
question asked with DO=0, whose fresh answer has no RRSIG; and an answer whose question section echoes
class IN for a class-CH query is served to the class-IN query. -/
theorem simple_respkey_counterexample :
    -- DO: served from cache, with the RRSIG of the DO=1 answer, although a fresh answer has none
    (Simple.stepOldKey ⟨0, false⟩ (Simple.stepOldKey ⟨0, false⟩ Store.empty 0 (reqDO true) (upNoOpt true) 1).store
        5 (reqDO false) (upNoOpt false) 1).hit = true ∧
    sigRR ∈ ((Simple.stepOldKey ⟨0, false⟩ (Simple.stepOldKey ⟨0, false⟩ Store.empty 0 (reqDO true) (upNoOpt true) 1).store
        5 (reqDO false) (upNoOpt false) 1).resp.answer.map (setTTL 60)) ∧
    sigRR ∉ (Simple.stepOldKey ⟨0, false⟩ Store.empty 5 (reqDO false) (upNoOpt false) 1).resp.answer ∧
    -- class: the entry of a class-3 query whose answer echoes class 1 is served to the class-1 query
    (Simple.stepOldKey ⟨0, false⟩ (Simple.stepOldKey ⟨0, false⟩ Store.empty 0 { reqDO false with qclass := 3 } (upNoOpt true) 1).store
        5 (reqDO false) (upNoOpt false) 1).hit = true ∧
    -- the code as it is now serves neither
    (Simple.step ⟨0, false⟩ (Simple.step ⟨0, false⟩ Store.empty 0 (reqDO true) (upNoOpt true)).store
        5 (reqDO false) (upNoOpt false)).hit = false ∧
    (Simple.step ⟨0, false⟩ (Simple.step ⟨0, false⟩ Store.empty 0 { reqDO false with qclass := 3 } (upNoOpt true)).store
        5 (reqDO false) (upNoOpt false)).hit = false := by
  decide +kernel

theorem Ecs.step_congr (cfg : Cfg) (s s' : Store) (now : Nat) (q : Req) (a : Msg) (dep : Bool)
    (h1 : s'.live now (Ecs.keyNo q) = s.live now (Ecs.keyNo q))
    (h2 : s'.live now (Ecs.keyDep q) = s.live now (Ecs.keyDep q)) :
    (Ecs.step cfg s' now q a dep).resp = (Ecs.step cfg s now q a dep).resp ∧
    (Ecs.step cfg s' now q a dep).hit = (Ecs.step cfg s now q a dep).hit := by
  have hl : Ecs.lookup s' now q = Ecs.lookup s now q := by unfold Ecs.lookup; rw [h1, h2]
  unfold Ecs.step
  rw [hl]
  split
  · exact ⟨rfl, rfl⟩
  · split <;> exact ⟨rfl, rfl⟩

/-- **ecs_key_separation.**  For the ECS-aware cache: `q2`'s answer is not influenced by an earlier
`q1` unless `q1`'s entry went under one of the two keys `q2` looks up, i.e. (by `Ecs.keyNo_eq_iff`,
`Ecs.keyDep_eq_iff`) unless name (case-folded), qtype, qclass, DO and family agree and additionally
the declined-ECS flag (answers that are not ECS-dependent) or the location's subnet (ECS-dependent
answers). -/
theorem ecs_key_separation (cfg : Cfg) (s : Store) (now1 now2 : Nat) (q1 q2 : Req) (a1 a2 : Msg) (d1 d2 : Bool)
    (hne1 : (if d1 then Ecs.keyDep q1 else Ecs.keyNo q1) ≠ Ecs.keyNo q2)
    (hne2 : (if d1 then Ecs.keyDep q1 else Ecs.keyNo q1) ≠ Ecs.keyDep q2) :
    (Ecs.step cfg (Ecs.step cfg s now1 q1 a1 d1).store now2 q2 a2 d2).resp = (Ecs.step cfg s now2 q2 a2 d2).resp ∧
    (Ecs.step cfg (Ecs.step cfg s now1 q1 a1 d1).store now2 q2 a2 d2).hit = (Ecs.step cfg s now2 q2 a2 d2).hit := by
  apply Ecs.step_congr
  · unfold Ecs.step
    split
    · rfl
    · split
      · rfl
      · exact live_put_other s now2 _ _ _ (fun h => hne1 h.symm)
  · unfold Ecs.step
    split
    · rfl
    · split
      · rfl
      · exact live_put_other s now2 _ _ _ (fun h => hne2 h.symm)

/-- Non-vacuity: the same name in another case hits; another qtype, class or DO setting does not. -/
example : (Simple.step ⟨0, false⟩ exStore 5 { exReq with name := "aB." } exMsg).hit = true := by
  decide +kernel
example : (Simple.step ⟨0, false⟩ exStore 5 { exReq with qtype := 28 } exMsg).hit = false := by decide +kernel
example : (Simple.step ⟨0, false⟩ exStore 5 { exReq with qclass := 3 } exMsg).hit = false := by decide +kernel
example : (Simple.step ⟨0, false⟩ exStore 5 { exReq with do_ := false } exMsg).hit = false := by decide +kernel
example : ¬ (exReq.do_ = ({ exReq with qtype := 28 } : Req).do_ ∧ exReq.qtype = ({ exReq with qtype := 28 } : Req).qtype ∧
    exReq.qclass = ({ exReq with qtype := 28 } : Req).qclass ∧ exReq.name.toLower = ({ exReq with qtype := 28 } : Req).name.toLower) := by
  decide +kernel

/-! ## A cached answer equals a fresh one (simple cache) -/

/-- The next handler echoes RD and CD of the request (`SetReply`). -/
def echo (q : Req) (m : Msg) : Msg := { m with rd := q.rd, cd := q.cd }

/-- What the property compares: rcode, the flags the caches derive (TC, AD, RA, RD, CD) and the
records of the three sections without OPT pseudo-records and with TTLs masked. -/
def SameModTTL (x y : Msg) : Prop :=
  x.rcode = y.rcode ∧ x.tc = y.tc ∧ x.ad = y.ad ∧ x.ra = y.ra ∧ x.rd = y.rd ∧ x.cd = y.cd ∧
  strip x.answer = strip y.answer ∧ strip x.ns = strip y.ns ∧ strip x.extra = strip y.extra

/-- The upstream's answer is a function `up` of the cache key, i.e. of the question (name compared
case-insensitively, qtype, qclass) and the DO bit; the message handed to the middleware for `q` is
`echo q (up (keyOfReq q))`. -/
def Simple.answerFor (up : Key → Msg) (q : Req) : Msg := echo q (up (Simple.keyOfReq q))

def Simple.runUp (cfg : Cfg) (up : Key → Msg) : Store → List (Nat × Req ⊕ Key) → Store
  | s, [] => s
  | s, .inl (now, q) :: evs => Simple.runUp cfg up (Simple.step cfg s now q (Simple.answerFor up q)).store evs
  | s, .inr k :: evs => Simple.runUp cfg up (s.del k) evs

/-- Every entry under key `k` holds what `set` makes of the upstream's answer for `k`. -/
def InvUp (cfg : Cfg) (up : Key → Msg) (s : Store) : Prop :=
  ∀ k e, s k = some e → ∃ q0, Simple.keyOfReq q0 = k ∧
    e.msg = (prepStore cfg q0.qtype (echo q0 (up k))).1 ∧
    (prepStore cfg q0.qtype (echo q0 (up k))).2 ≠ none

theorem Simple.invUp_step (cfg : Cfg) (up : Key → Msg) (s : Store) (now : Nat) (q : Req)
    (h : InvUp cfg up s) : InvUp cfg up (Simple.step cfg s now q (Simple.answerFor up q)).store := by
  unfold Simple.step Simple.stepWith
  split
  · exact h
  · split
    · exact h
    · rename_i life hp
      intro k' e he
      dsimp only at he
      by_cases hk : k' = Simple.keyOfReq q
      · subst hk
        rw [put_same] at he
        cases he
        refine ⟨q, rfl, rfl, ?_⟩
        show (prepStore cfg q.qtype (Simple.answerFor up q)).2 ≠ none
        rw [hp]; simp
      · rw [put_other s _ k' _ hk] at he; exact h k' e he

theorem Simple.invUp_run (cfg : Cfg) (up : Key → Msg) (s : Store)
    (evs : List (Nat × Req ⊕ Key)) (h : InvUp cfg up s) : InvUp cfg up (Simple.runUp cfg up s evs) := by
  induction evs generalizing s with
  | nil => exact h
  | cons ev evs ih =>
    cases ev with
    | inl p => exact ih _ (Simple.invUp_step cfg up s p.1 p.2 h)
    | inr k =>
      apply ih
      intro k' e he
      by_cases hk : k' = k
      · subst hk; simp at he
      · rw [del_other s k k' hk] at he; exact h k' e he

theorem prepStore_echo_fields (cfg : Cfg) (qt : Nat) (q : Req) (m : Msg) :
    ∃ ans, (prepStore cfg qt (echo q m)).1 = { echo q m with answer := ans } ∧ strip ans = strip m.answer :=
  let ⟨ans, h1, h2, _⟩ := prepStore_shape cfg qt (echo q m)
  ⟨ans, h1, h2⟩

/-- `set` treats two echoes of the same upstream answer alike. -/
theorem prepStore_echo_indep (cfg : Cfg) (qt : Nat) (q q' : Req) (m : Msg) :
    (prepStore cfg qt (echo q m)).2 = (prepStore cfg qt (echo q' m)).2 ∧
    (prepStore cfg qt (echo q m)).1.answer = (prepStore cfg qt (echo q' m)).1.answer := by
  unfold prepStore
  have h1 : findLowestTTL (echo q m) = findLowestTTL (echo q' m) := rfl
  have h2 : isCacheable qt (echo q m) = isCacheable qt (echo q' m) := rfl
  have h3 : (echo q m).rcode = (echo q' m).rcode := rfl
  have h4 : (echo q m).answer = (echo q' m).answer := rfl
  rw [h1, h2, h3, h4]
  split
  · exact ⟨rfl, rfl⟩
  · split <;> exact ⟨rfl, rfl⟩

/-- **simple_hit_equals_fresh.**  For every upstream that is a function of question and DO bit
(`up`, no further hypothesis: its answers may or may not carry an OPT record, echo the DO bit or
not), every history of requests, clock readings and evictions, and every
further request `q` at any time: the response — from cache or not — has the same rcode, flags and
records (OPT and TTL values aside) as the response an empty cache would give to `q`. -/
theorem simple_hit_equals_fresh (cfg : Cfg) (up : Key → Msg)
    (evs : List (Nat × Req ⊕ Key)) (now : Nat) (q : Req) :
    SameModTTL (Simple.step cfg (Simple.runUp cfg up Store.empty evs) now q (Simple.answerFor up q)).resp
      (Simple.step cfg Store.empty now q (Simple.answerFor up q)).resp := by
  have hinv := Simple.invUp_run cfg up Store.empty evs (by intro k e h; cases h)
  generalize Simple.runUp cfg up Store.empty evs = s at *
  have hfresh : (Simple.step cfg Store.empty now q (Simple.answerFor up q)).resp =
      (prepStore cfg q.qtype (Simple.answerFor up q)).1 := by
    unfold Simple.step Simple.stepWith
    simp only [Store.live, Store.empty]
    split <;> rfl
  rw [hfresh]
  unfold Simple.step Simple.stepWith
  split
  · rename_i e hl
    obtain ⟨hk, _⟩ := live_some s now _ e hl
    obtain ⟨q0, hk0, hm, hstored⟩ := hinv _ e hk
    have hqt : q0.qtype = q.qtype := by
      have := (Simple.key_eq_iff q0 q).mp hk0; exact this.2.1
    obtain ⟨ans0, hs0, hst0⟩ := prepStore_echo_fields cfg q0.qtype q0 (up (Simple.keyOfReq q))
    obtain ⟨ans1, hs1, hst1⟩ := prepStore_echo_fields cfg q.qtype q (up (Simple.keyOfReq q))
    have hsame := prepStore_echo_indep cfg q.qtype q0 q (up (Simple.keyOfReq q))
    -- the stored answer was cacheable, hence complete
    have htc : (up (Simple.keyOfReq q)).tc = false := by
      cases hp : (prepStore cfg q0.qtype (echo q0 (up (Simple.keyOfReq q)))).2 with
      | none => exact absurd hp hstored
      | some life =>
        have := (prepStore_some cfg q0.qtype _ life hp).2.1
        exact (cacheable_sound q0.qtype _ this).1
    rw [hm, hs0]
    unfold Simple.answerFor
    rw [hs1]
    refine ⟨rfl, ?_, rfl, rfl, rfl, rfl, ?_, ?_, ?_⟩
    · show false = (up (Simple.keyOfReq q)).tc
      rw [htc]
    · show strip (ans0.map _) = strip ans1
      rw [strip_map_setTTL, hst0, hst1]
    · show strip ((echo q0 (up (Simple.keyOfReq q))).ns.map _) = strip (echo q (up (Simple.keyOfReq q))).ns
      rw [strip_map_setTTL]; rfl
    · show strip (((echo q0 (up (Simple.keyOfReq q))).extra.filter _).map _) = strip (echo q (up (Simple.keyOfReq q))).extra
      rw [strip_map_setTTL, strip_filter_nonOPT]; rfl
  · split <;> exact ⟨rfl, rfl, rfl, rfl, rfl, rfl, rfl, rfl, rfl⟩

/-- Non-vacuity: an upstream whose answer depends on the DO bit but never carries an OPT record
(`upNoOpt`): the DO=0 client is not served the DO=1 client's answer, the DO=1 client is served its own. -/
def upNoOptKey : Key → Msg
  | .simple d _ _ _ => upNoOpt d
  | _ => upNoOpt false
example : (Simple.step ⟨0, false⟩ (Simple.runUp ⟨0, false⟩ upNoOptKey Store.empty [.inl (0, reqDO true)]) 5 (reqDO false)
    (Simple.answerFor upNoOptKey (reqDO false))).hit = false := by decide +kernel
example : (Simple.step ⟨0, false⟩ (Simple.runUp ⟨0, false⟩ upNoOptKey Store.empty [.inl (0, reqDO true)]) 5 (reqDO true)
    (Simple.answerFor upNoOptKey (reqDO true))).hit = true := by decide +kernel

/-! ## Provenance: what is served was stored for the same question by an earlier query of the history -/

/-- Every entry of the simple cache stems from a query event of the history processed so far: it holds
what `set` made of that query's answer, under the key of that query, stamped with that query's time. -/
def Simple.InvH (cfg : Cfg) (pre : List Ev) (s : Store) : Prop :=
  ∀ k e, s k = some e → ∃ now0 q0 a0 d0 life, Ev.query now0 q0 a0 d0 ∈ pre ∧
    k = Simple.keyOfReq q0 ∧
    e.msg = (prepStore cfg q0.qtype a0).1 ∧ (prepStore cfg q0.qtype a0).2 = some life ∧
    e.at_ = now0 ∧ e.expAt = now0 + life

theorem Simple.invH_mono (cfg : Cfg) (pre ext : List Ev) (s : Store) (h : Simple.InvH cfg pre s) :
    Simple.InvH cfg (pre ++ ext) s := by
  intro k e he
  obtain ⟨now0, q0, a0, d0, life, hm, rest⟩ := h k e he
  exact ⟨now0, q0, a0, d0, life, List.mem_append_left _ hm, rest⟩

theorem Simple.invH_run (cfg : Cfg) (pre evs : List Ev) (s : Store) (h : Simple.InvH cfg pre s) :
    Simple.InvH cfg (pre ++ evs) (Simple.run cfg s evs) := by
  induction evs generalizing pre s with
  | nil => simpa [Simple.run] using h
  | cons ev evs ih =>
    have happ : pre ++ ev :: evs = (pre ++ [ev]) ++ evs := by simp
    rw [happ]
    cases ev with
    | evict k =>
      apply ih
      intro k' e he
      by_cases hk : k' = k
      · subst hk; simp at he
      · rw [del_other s k k' hk] at he
        exact Simple.invH_mono cfg pre _ s h k' e he
    | query now q a dep =>
      apply ih
      show Simple.InvH cfg _ (Simple.step cfg s now q a).store
      unfold Simple.step Simple.stepWith
      split
      · exact Simple.invH_mono cfg pre _ s h
      · split
        · exact Simple.invH_mono cfg pre _ s h
        · rename_i life hp
          intro k' e he
          dsimp only at he
          by_cases hk : k' = Simple.keyOfReq q
          · subst hk
            rw [put_same] at he
            cases he
            exact ⟨now, q, a, dep, life, by simp, rfl, rfl, hp, rfl, rfl⟩
          · rw [put_other s _ k' _ hk] at he
            exact Simple.invH_mono cfg pre _ s h k' e he

/-- **simple_hit_provenance.**  After any history of the simple cache (any answers, times, evictions):
a request `q` answered from the cache at time `now` is answered with what `set` made of the answer
`a0` to an earlier query `q0` *of that history* with the same case-folded name, qtype, qclass and DO
bit; `a0` was complete and cacheable for the asked type `q.qtype` with a
non-zero lowest TTL; `now` is within the lifetime `set` computed at `q0`'s time `now0`; and the age
the TTLs are reduced by is exactly `now - now0`. -/
theorem simple_hit_provenance (cfg : Cfg) (evs : List Ev) (now : Nat) (q : Req) (a : Msg)
    (hhit : (Simple.step cfg (Simple.run cfg Store.empty evs) now q a).hit = true) :
    ∃ now0 q0 a0 d0 life, Ev.query now0 q0 a0 d0 ∈ evs ∧
      q0.name.toLower = q.name.toLower ∧ q0.qtype = q.qtype ∧ q0.qclass = q.qclass ∧
      q0.do_ = q.do_ ∧
      isCacheable q.qtype a0 = true ∧ findLowestTTL a0 ≠ 0 ∧
      (prepStore cfg q.qtype a0).2 = some life ∧ now ≤ now0 + life ∧
      (Simple.step cfg (Simple.run cfg Store.empty evs) now q a).resp =
        Simple.hit (prepStore cfg q.qtype a0).1 (now - now0) q := by
  have hinv := Simple.invH_run cfg [] evs Store.empty (by intro k e h; cases h)
  simp only [List.nil_append] at hinv
  generalize Simple.run cfg Store.empty evs = s at *
  unfold Simple.step Simple.stepWith at hhit ⊢
  split at hhit
  · rename_i e hl
    obtain ⟨hk, hexp⟩ := live_some s now _ e hl
    obtain ⟨now0, q0, a0, d0, life, hmem, hkey, hmsg, hp, hat, hex⟩ := hinv _ e hk
    have hkey' : Simple.keyOfReq q = Simple.keyOfReq q0 := hkey
    simp only [Simple.keyOfReq, Key.simple.injEq] at hkey'
    obtain ⟨hdo, hqt, hqc, hn⟩ := hkey'
    obtain ⟨h0, hc, _, _, _⟩ := prepStore_some cfg q0.qtype a0 life hp
    refine ⟨now0, q0, a0, d0, life, hmem, hn.symm, hqt.symm, hqc.symm, hdo.symm, ?_, h0, ?_, ?_, ?_⟩
    · rw [hqt]; exact hc
    · rw [hqt]; exact hp
    · omega
    · simp only [Simple.hit]; rw [hmsg, hat, hqt]
  · split at hhit <;> cases hhit


/-- What `set` stores is the message with the answer-section TTLs raised to `x`; `x = 0` (nothing
raised) unless the override is on and the message is not SERVFAIL. -/
theorem prepStore_stored_answer (cfg : Cfg) (qt : Nat) (m : Msg) (life : Nat)
    (h : (prepStore cfg qt m).2 = some life) :
    ∃ x, (prepStore cfg qt m).1 = { m with answer := m.answer.map (raiseTTL x) } ∧
      ((cfg.override = false ∨ m.rcode = rcServFail) → x = 0) := by
  have hid : m.answer.map (raiseTTL 0) = m.answer := by
    have : raiseTTL 0 = id := by funext r; simp [raiseTTL]
    rw [this, List.map_id]
  unfold prepStore at h ⊢
  split at h
  · cases h
  · rename_i hc
    split at h
    · rename_i ho
      rw [if_neg hc, if_pos ho]
      refine ⟨_, rfl, ?_⟩
      intro hor
      rcases hor with hf | hs
      · rw [ho.1] at hf; cases hf
      · exact absurd hs ho.2
    · rename_i ho
      rw [if_neg hc, if_neg ho]
      exact ⟨0, by rw [hid], fun _ => rfl⟩

theorem map_setTTL_raise (t x : Nat) (rs : List RR) : (rs.map (raiseTTL x)).map (setTTL t) = rs.map (setTTL t) := by
  rw [List.map_map]
  apply List.map_congr_left
  intro r _
  simp [setTTL, raiseTTL]

/-- **simple_served_ttl_end_to_end.**  The TTL clause against the *upstream's* records.  After any
history, a response served from cache consists of the records of the upstream answer `a0` given at
`now0` to an earlier query of the history for the same question (OPT dropped), all with one TTL `t`;
`t` is at most each authority/additional record's original TTL minus the time `now - now0` spent in
the cache, rounded, floor zero; for answer-section records the same holds with the original TTL
raised to the override value `x`, and `x = 0` — no exception at all — unless the minimum-TTL
override is on and the answer is not SERVFAIL. -/
theorem simple_served_ttl_end_to_end (cfg : Cfg) (evs : List Ev) (now : Nat) (q : Req) (a : Msg)
    (hhit : (Simple.step cfg (Simple.run cfg Store.empty evs) now q a).hit = true) :
    ∃ now0 q0 a0 d0 t x, Ev.query now0 q0 a0 d0 ∈ evs ∧
      q0.name.toLower = q.name.toLower ∧ q0.qtype = q.qtype ∧ q0.qclass = q.qclass ∧ q0.do_ = q.do_ ∧
      (Simple.step cfg (Simple.run cfg Store.empty evs) now q a).resp.answer = a0.answer.map (setTTL t) ∧
      (Simple.step cfg (Simple.run cfg Store.empty evs) now q a).resp.ns = a0.ns.map (setTTL t) ∧
      (Simple.step cfg (Simple.run cfg Store.empty evs) now q a).resp.extra =
        (a0.extra.filter (fun r => r.typ ≠ typOPT)).map (setTTL t) ∧
      (∀ r ∈ a0.answer, r.typ ≠ typOPT → t ≤ leftRounded (max r.ttl x) (now - now0)) ∧
      (∀ r ∈ a0.ns ++ a0.extra, r.typ ≠ typOPT → t ≤ leftRounded r.ttl (now - now0) ∧ t ≤ r.ttl) ∧
      ((cfg.override = false ∨ a0.rcode = rcServFail) → x = 0) := by
  obtain ⟨now0, q0, a0, d0, life, hmem, hn, hqt, hqc, hdo, _, _, hp, _, hresp⟩ :=
    simple_hit_provenance cfg evs now q a hhit
  obtain ⟨x, hst, hx⟩ := prepStore_stored_answer cfg q.qtype a0 life hp
  obtain ⟨t, ha, hns, hex, hb, _⟩ := simple_ttl_bound (prepStore cfg q.qtype a0).1 (now - now0) q
  rw [← hresp] at ha hns hex
  refine ⟨now0, q0, a0, d0, t, x, hmem, hn, hqt, hqc, hdo, ?_, ?_, ?_, ?_, ?_, hx⟩
  · rw [ha, hst]; exact map_setTTL_raise t x a0.answer
  · rw [hns, hst]
  · rw [hex, hst]
  · intro r hr hn'
    have hmem' : raiseTTL x r ∈ allRRs (prepStore cfg q.qtype a0).1 := by
      rw [hst]; unfold allRRs
      exact List.mem_append_left _ (List.mem_append_left _ (List.mem_map_of_mem hr))
    exact (hb _ hmem' hn').1
  · intro r hr hn'
    have hmem' : r ∈ allRRs (prepStore cfg q.qtype a0).1 := by
      rw [hst]; unfold allRRs
      rcases List.mem_append.mp hr with h1 | h1
      · exact List.mem_append_left _ (List.mem_append_right _ h1)
      · exact List.mem_append_right _ h1
    exact hb _ hmem' hn'



def Ecs.stored (cfg : Cfg) (q : Req) (a : Msg) : Msg × Option Nat := prepStore cfg q.qtype (Ecs.rmHop a q.qtype q.do_)

/-- Every entry of the ECS-aware cache stems from a query event of the history processed so far. -/
def Ecs.InvH (cfg : Cfg) (pre : List Ev) (s : Store) : Prop :=
  ∀ k e, s k = some e → ∃ now0 q0 a0 d0 life, Ev.query now0 q0 a0 d0 ∈ pre ∧
    k = (if d0 then Ecs.keyDep q0 else Ecs.keyNo q0) ∧
    e.msg = (Ecs.stored cfg q0 a0).1 ∧ (Ecs.stored cfg q0 a0).2 = some life ∧
    e.at_ = now0 ∧ e.expAt = now0 + life

theorem Ecs.invH_mono (cfg : Cfg) (pre ext : List Ev) (s : Store) (h : Ecs.InvH cfg pre s) :
    Ecs.InvH cfg (pre ++ ext) s := by
  intro k e he
  obtain ⟨now0, q0, a0, d0, life, hm, rest⟩ := h k e he
  exact ⟨now0, q0, a0, d0, life, List.mem_append_left _ hm, rest⟩

theorem Ecs.invH_run (cfg : Cfg) (pre evs : List Ev) (s : Store) (h : Ecs.InvH cfg pre s) :
    Ecs.InvH cfg (pre ++ evs) (Ecs.run cfg s evs) := by
  induction evs generalizing pre s with
  | nil => simpa [Ecs.run] using h
  | cons ev evs ih =>
    have happ : pre ++ ev :: evs = (pre ++ [ev]) ++ evs := by simp
    rw [happ]
    cases ev with
    | evict k =>
      apply ih
      intro k' e he
      by_cases hk : k' = k
      · subst hk; simp at he
      · rw [del_other s k k' hk] at he
        exact Ecs.invH_mono cfg pre _ s h k' e he
    | query now q a dep =>
      apply ih
      show Ecs.InvH cfg _ (Ecs.step cfg s now q a dep).store
      unfold Ecs.step
      split
      · exact Ecs.invH_mono cfg pre _ s h
      · split
        · exact Ecs.invH_mono cfg pre _ s h
        · rename_i life hp
          intro k' e he
          dsimp only at he
          by_cases hk : k' = (if dep then Ecs.keyDep q else Ecs.keyNo q)
          · subst hk
            rw [put_same] at he
            cases he
            exact ⟨now, q, a, dep, life, by simp, rfl, rfl, hp, rfl, rfl⟩
          · rw [put_other s _ k' _ hk] at he
            exact Ecs.invH_mono cfg pre _ s h k' e he

/-- The two ways a request can match an entry of the ECS-aware cache. -/
def Ecs.Matches (q0 : Req) (d0 : Bool) (q : Req) : Prop :=
  q0.name.toLower = q.name.toLower ∧ q0.qtype = q.qtype ∧ q0.qclass = q.qclass ∧ q0.do_ = q.do_ ∧
  q0.fam6 = q.fam6 ∧
  ((d0 = false ∧ q0.declined = q.declined) ∨
   (d0 = true ∧ q.declined = false ∧ Ecs.effSubnet q0 = Ecs.effSubnet q))

/-- **ecs_hit_provenance.**  After any history of the ECS-aware cache: a request answered from the
cache is answered with what `set` made of the (hop-by-hop-filtered) answer `a0` to an earlier query
`q0` of that history with the same case-folded name, qtype, qclass, DO bit and address family, and
either `a0` was not ECS-dependent and both clients agree on declining ECS, or it was ECS-dependent,
`q` does not decline ECS and both locations map to the same subnet.  The filtered `a0` was complete
and cacheable for the asked type with non-zero lowest TTL, `now` is within the lifetime computed at
`now0`, and the age is exactly `now - now0`. -/
theorem ecs_hit_provenance (cfg : Cfg) (evs : List Ev) (now : Nat) (q : Req) (a : Msg) (dep : Bool)
    (hhit : (Ecs.step cfg (Ecs.run cfg Store.empty evs) now q a dep).hit = true) :
    ∃ now0 q0 a0 d0 life, Ev.query now0 q0 a0 d0 ∈ evs ∧ Ecs.Matches q0 d0 q ∧
      isCacheable q.qtype (Ecs.rmHop a0 q.qtype q.do_) = true ∧
      findLowestTTL (Ecs.rmHop a0 q.qtype q.do_) ≠ 0 ∧
      (Ecs.stored cfg q0 a0).2 = some life ∧ now ≤ now0 + life ∧
      (Ecs.step cfg (Ecs.run cfg Store.empty evs) now q a dep).resp =
        Ecs.hit (Ecs.stored cfg q0 a0).1 (now - now0) q := by
  have hinv := Ecs.invH_run cfg [] evs Store.empty (by intro k e h; cases h)
  simp only [List.nil_append] at hinv
  generalize Ecs.run cfg Store.empty evs = s at *
  have key : ∀ k e, (k = Ecs.keyNo q ∨ (k = Ecs.keyDep q ∧ q.declined = false)) → s.live now k = some e →
      ∃ now0 q0 a0 d0 life, Ev.query now0 q0 a0 d0 ∈ evs ∧ Ecs.Matches q0 d0 q ∧
      isCacheable q.qtype (Ecs.rmHop a0 q.qtype q.do_) = true ∧
      findLowestTTL (Ecs.rmHop a0 q.qtype q.do_) ≠ 0 ∧
      (Ecs.stored cfg q0 a0).2 = some life ∧ now ≤ now0 + life ∧
      Ecs.hit e.msg (now - e.at_) q = Ecs.hit (Ecs.stored cfg q0 a0).1 (now - now0) q := by
    intro k e hk hl
    obtain ⟨hsk, hexp⟩ := live_some s now k e hl
    obtain ⟨now0, q0, a0, d0, life, hmem, hkey, hmsg, hp, hat, hex⟩ := hinv k e hsk
    obtain ⟨h0, hc, _, _, _⟩ := prepStore_some cfg q0.qtype _ life hp
    have hm : Ecs.Matches q0 d0 q := by
      rcases hk with hk | ⟨hk, hd⟩
      · rw [hk] at hkey
        cases d0 with
        | true => simp [Ecs.keyNo, Ecs.keyDep] at hkey
        | false =>
          have := (Ecs.keyNo_eq_iff q q0).mp (by simpa using hkey)
          exact ⟨this.1.symm, this.2.1.symm, this.2.2.1.symm, this.2.2.2.1.symm, this.2.2.2.2.1.symm,
            Or.inl ⟨rfl, this.2.2.2.2.2.symm⟩⟩
      · rw [hk] at hkey
        cases d0 with
        | false => simp [Ecs.keyNo, Ecs.keyDep] at hkey
        | true =>
          have := (Ecs.keyDep_eq_iff q q0).mp (by simpa using hkey)
          exact ⟨this.1.symm, this.2.1.symm, this.2.2.1.symm, this.2.2.2.1.symm, this.2.2.2.2.1.symm,
            Or.inr ⟨rfl, hd, this.2.2.2.2.2.symm⟩⟩
    refine ⟨now0, q0, a0, d0, life, hmem, hm, ?_, ?_, hp, by omega, by rw [hmsg, hat]⟩
    · rw [← hm.2.1, ← hm.2.2.2.1]; exact hc
    · rw [← hm.2.1, ← hm.2.2.2.1]; exact h0
  unfold Ecs.step at hhit ⊢
  split at hhit
  · rename_i e hl
    unfold Ecs.lookup at hl
    split at hl
    · rename_i e' hl'
      cases hl
      obtain ⟨now0, q0, a0, d0, life, h1, h2, h3, h4, h5, h6, h7⟩ := key _ e (Or.inl rfl) hl'
      exact ⟨now0, q0, a0, d0, life, h1, h2, h3, h4, h5, h6, by simpa using h7⟩
    · split at hl
      · cases hl
      · rename_i hd
        have hd' : q.declined = false := by cases hq : q.declined <;> simp_all
        obtain ⟨now0, q0, a0, d0, life, h1, h2, h3, h4, h5, h6, h7⟩ := key _ e (Or.inr ⟨rfl, hd'⟩) hl
        exact ⟨now0, q0, a0, d0, life, h1, h2, h3, h4, h5, h6, by simpa using h7⟩
  · split at hhit <;> cases hhit


/-! ## A cached answer equals a fresh one (ECS-aware cache) -/

/-- The upstream: its answer and `respIsECSDependent` (non-zero scope, name not in the fake list) as a
function of what the ECS middleware forwards: the question (host case-folded by the initial
middleware, qtype, qclass), the DO bit, and the subnet (family, prefix identity). -/
abbrev Ecs.Up := String → Nat → Nat → Bool → Bool → Nat → Msg × Bool

/-- The upstream's reaction to what the middleware forwards for `q`. -/
def Ecs.upAt (up : Ecs.Up) (q : Req) : Msg × Bool :=
  up (Ecs.host q) q.qtype q.qclass (Ecs.fwdDO q) q.fam6 (Ecs.effSubnet q)

def Ecs.answerFor (up : Ecs.Up) (q : Req) : Msg := echo q (Ecs.upAt up q).1
def Ecs.depFor (up : Ecs.Up) (q : Req) : Bool := (Ecs.upAt up q).2

/-- Scope-honest upstream: an answer marked as not ECS-dependent is the answer for every subnet. -/
def ScopeHonest (up : Ecs.Up) : Prop :=
  ∀ h qt qc d f s s', (up h qt qc d f s).2 = false → up h qt qc d f s' = up h qt qc d f s

/-- The DO bit only adds DNSSEC records: after the filtering the cache applies for a client without
DO, the answers with and without DO coincide, and so does their ECS-dependence. -/
def DOOnlyAdds (up : Ecs.Up) : Prop :=
  ∀ h qt qc f s, (up h qt qc true f s).2 = (up h qt qc false f s).2 ∧
    Ecs.rmHop (up h qt qc true f s).1 qt false = Ecs.rmHop (up h qt qc false f s).1 qt false

def Ecs.runUp (cfg : Cfg) (up : Ecs.Up) : Store → List (Nat × Req ⊕ Key) → Store
  | s, [] => s
  | s, .inl (now, q) :: evs =>
    Ecs.runUp cfg up (Ecs.step cfg s now q (Ecs.answerFor up q) (Ecs.depFor up q)).store evs
  | s, .inr k :: evs => Ecs.runUp cfg up (s.del k) evs

/-- The filtered upstream answer a request's response is built from. -/
def Ecs.core (up : Ecs.Up) (q : Req) : Msg := Ecs.rmHop (Ecs.upAt up q).1 q.qtype q.do_

theorem Ecs.rmHop_echo (q : Req) (m : Msg) (qt : Nat) (d : Bool) :
    Ecs.rmHop (echo q m) qt d = echo q (Ecs.rmHop m qt d) := rfl

def Ecs.InvUp (cfg : Cfg) (up : Ecs.Up) (s : Store) : Prop :=
  ∀ k e, s k = some e → ∃ q0, k = (if Ecs.depFor up q0 then Ecs.keyDep q0 else Ecs.keyNo q0) ∧
    e.msg = (prepStore cfg q0.qtype (echo q0 (Ecs.core up q0))).1 ∧
    (prepStore cfg q0.qtype (echo q0 (Ecs.core up q0))).2 ≠ none

theorem Ecs.invUp_run (cfg : Cfg) (up : Ecs.Up) (s : Store) (evs : List (Nat × Req ⊕ Key))
    (h : Ecs.InvUp cfg up s) : Ecs.InvUp cfg up (Ecs.runUp cfg up s evs) := by
  induction evs generalizing s with
  | nil => exact h
  | cons ev evs ih =>
    cases ev with
    | inr k =>
      apply ih
      intro k' e he
      by_cases hk : k' = k
      · subst hk; simp at he
      · rw [del_other s k k' hk] at he; exact h k' e he
    | inl p =>
      apply ih
      show Ecs.InvUp cfg up (Ecs.step cfg s p.1 p.2 (Ecs.answerFor up p.2) (Ecs.depFor up p.2)).store
      unfold Ecs.step
      split
      · exact h
      · split
        · exact h
        · rename_i life hp
          intro k' e he
          dsimp only at he
          by_cases hk : k' = (if Ecs.depFor up p.2 then Ecs.keyDep p.2 else Ecs.keyNo p.2)
          · subst hk
            rw [put_same] at he
            cases he
            refine ⟨p.2, rfl, rfl, ?_⟩
            show (prepStore cfg p.2.qtype (Ecs.rmHop (Ecs.answerFor up p.2) p.2.qtype p.2.do_)).2 ≠ none
            rw [hp]; simp
          · rw [put_other s _ k' _ hk] at he; exact h k' e he

/-- The heart of the matter: two requests that can share an entry are built from the same filtered
upstream answer. -/
theorem Ecs.core_eq_of_matches (up : Ecs.Up) (hs : ScopeHonest up) (hd : DOOnlyAdds up) (q0 q : Req)
    (hm : Ecs.Matches q0 (Ecs.depFor up q0) q) : Ecs.core up q0 = Ecs.core up q := by
  obtain ⟨hn, hqt, hqc, hdo, hf, hcase⟩ := hm
  have hh : Ecs.host q0 = Ecs.host q := hn
  -- for the DO bit `q0` forwarded, the answer for `q`'s subnet is the one `q0` got
  have hsub : up (Ecs.host q) q.qtype q.qclass (Ecs.fwdDO q0) q.fam6 (Ecs.effSubnet q) = Ecs.upAt up q0 := by
    unfold Ecs.upAt
    rw [hh, hqt, hqc, hf]
    rcases hcase with ⟨hdep, _⟩ | ⟨_, _, hsn⟩
    · apply hs
      have : (Ecs.upAt up q0).2 = false := hdep
      unfold Ecs.upAt at this
      rw [hh, hqt, hqc, hf] at this
      exact this
    · rw [hsn]
  unfold Ecs.core
  by_cases hfd : Ecs.fwdDO q = Ecs.fwdDO q0
  · have : Ecs.upAt up q = Ecs.upAt up q0 := by
      rw [← hsub]; unfold Ecs.upAt; rw [hfd]
    rw [this, hqt, hdo]
  · -- the DO bits forwarded differ, so neither client asked for DO
    have hq : q.do_ = false := by
      cases h : q.do_
      · rfl
      · have h0 : q0.do_ = true := by rw [hdo, h]
        simp [Ecs.fwdDO, h, h0] at hfd
    have hq0 : q0.do_ = false := by rw [hdo, hq]
    have hD := (hd (Ecs.host q) q.qtype q.qclass q.fam6 (Ecs.effSubnet q)).2
    rw [hq, hq0, hqt, ← hsub]
    unfold Ecs.upAt
    cases h1 : Ecs.fwdDO q <;> cases h2 : Ecs.fwdDO q0
    · exact absurd (h1.trans h2.symm) hfd
    · exact hD
    · exact hD.symm
    · exact absurd (h1.trans h2.symm) hfd


theorem Ecs.matches_of_key (q0 q : Req) (d0 : Bool) (k : Key)
    (hk : k = Ecs.keyNo q ∨ (k = Ecs.keyDep q ∧ q.declined = false))
    (hkey : k = (if d0 then Ecs.keyDep q0 else Ecs.keyNo q0)) : Ecs.Matches q0 d0 q := by
  rcases hk with hk | ⟨hk, hd⟩
  · rw [hk] at hkey
    cases d0 with
    | true => simp [Ecs.keyNo, Ecs.keyDep] at hkey
    | false =>
      have := (Ecs.keyNo_eq_iff q q0).mp (by simpa using hkey)
      exact ⟨this.1.symm, this.2.1.symm, this.2.2.1.symm, this.2.2.2.1.symm, this.2.2.2.2.1.symm,
        Or.inl ⟨rfl, this.2.2.2.2.2.symm⟩⟩
  · rw [hk] at hkey
    cases d0 with
    | false => simp [Ecs.keyNo, Ecs.keyDep] at hkey
    | true =>
      have := (Ecs.keyDep_eq_iff q q0).mp (by simpa using hkey)
      exact ⟨this.1.symm, this.2.1.symm, this.2.2.1.symm, this.2.2.2.1.symm, this.2.2.2.2.1.symm,
        Or.inr ⟨rfl, hd, this.2.2.2.2.2.symm⟩⟩

/-- **ecs_hit_equals_fresh.**  For every upstream that is a function of what the ECS middleware
forwards (question, DO bit, family and subnet of the client's location), is scope-honest and lets DO
only add DNSSEC records; every history of requests (any names, types, classes, DO/AD/CD/EDNS
settings, locations, declined ECS), clock readings and evictions; and every further request `q` at
any time: the response — from either cache or from upstream — has the same rcode, flags and records
(OPT and TTL values aside) as the response an empty cache gives to `q`. -/
theorem ecs_hit_equals_fresh (cfg : Cfg) (up : Ecs.Up) (hs : ScopeHonest up) (hd : DOOnlyAdds up)
    (evs : List (Nat × Req ⊕ Key)) (now : Nat) (q : Req) :
    SameModTTL
      (Ecs.step cfg (Ecs.runUp cfg up Store.empty evs) now q (Ecs.answerFor up q) (Ecs.depFor up q)).resp
      (Ecs.step cfg Store.empty now q (Ecs.answerFor up q) (Ecs.depFor up q)).resp := by
  have hinv := Ecs.invUp_run cfg up Store.empty evs (by intro k e h; cases h)
  generalize Ecs.runUp cfg up Store.empty evs = s at *
  have hfresh : (Ecs.step cfg Store.empty now q (Ecs.answerFor up q) (Ecs.depFor up q)).resp =
      Ecs.setAD (prepStore cfg q.qtype (echo q (Ecs.core up q))).1 q := by
    unfold Ecs.step Ecs.lookup
    simp only [Store.live, Store.empty]
    split
    · rename_i h; split at h <;> cases h
    · split <;> rfl
  rw [hfresh]
  have key : ∀ k e, (k = Ecs.keyNo q ∨ (k = Ecs.keyDep q ∧ q.declined = false)) → s.live now k = some e →
      SameModTTL (Ecs.hit e.msg (now - e.at_) q) (Ecs.setAD (prepStore cfg q.qtype (echo q (Ecs.core up q))).1 q) := by
    intro k e hk hl
    obtain ⟨hsk, _⟩ := live_some s now k e hl
    obtain ⟨q0, hkey, hmsg, _⟩ := hinv k e hsk
    have hm := Ecs.matches_of_key q0 q _ k hk hkey
    have hcore := Ecs.core_eq_of_matches up hs hd q0 q hm
    rw [hmsg, hcore, hm.2.1]
    obtain ⟨ans0, hs0, hst0⟩ := prepStore_echo_fields cfg q.qtype q0 (Ecs.core up q)
    obtain ⟨ans1, hs1, hst1⟩ := prepStore_echo_fields cfg q.qtype q (Ecs.core up q)
    rw [hs0, hs1]
    refine ⟨rfl, rfl, rfl, rfl, rfl, rfl, ?_, ?_, ?_⟩
    · show strip (ans0.map _) = strip ans1
      rw [strip_map_setTTL, hst0, hst1]
    · show strip ((echo q0 (Ecs.core up q)).ns.map _) = strip (echo q (Ecs.core up q)).ns
      rw [strip_map_setTTL]; rfl
    · show strip ((echo q0 (Ecs.core up q)).extra.map _) = strip (echo q (Ecs.core up q)).extra
      rw [strip_map_setTTL]; rfl
  unfold Ecs.step
  split
  · rename_i e hl
    unfold Ecs.lookup at hl
    split at hl
    · rename_i e' hl'
      cases hl
      exact key _ e (Or.inl rfl) hl'
    · split at hl
      · cases hl
      · rename_i hdd
        have hd' : q.declined = false := by cases hq : q.declined <;> simp_all
        exact key _ e (Or.inr ⟨rfl, hd'⟩) hl
  · split <;> exact ⟨rfl, rfl, rfl, rfl, rfl, rfl, rfl, rfl, rfl⟩

/-- Non-vacuity of the upstream hypotheses: an upstream that tailors AAAA answers to
the subnet (and marks them ECS-dependent), answers everything else uniformly, and adds an RRSIG to
the authority section when it sees DO. -/
def exUp : Ecs.Up := fun _ qt _ d _ s =>
  ({ exMsg with
      answer := [{ typ := qt, ttl := 60, soaMin := 0, data := if qt = 28 then s else 7 }],
      ns := if d then [{ typ := 46, ttl := 60, soaMin := 0, data := 9 }] else [],
      extra := [] },
   decide (qt = 28))

example : ScopeHonest exUp := by
  intro h qt qc d f s s' hdep
  have : qt ≠ 28 := by simpa [exUp] using hdep
  simp [exUp, this]

example : DOOnlyAdds exUp := by
  intro h qt qc f s
  refine ⟨rfl, ?_⟩
  have hsig : List.filter (Ecs.keepRR false 0) [({ typ := 46, ttl := 60, soaMin := 0, data := 9 } : RR)] = [] := by
    decide
  simp [exUp, Ecs.rmHop, hsig]

/-! ## The zero prefix: clients without a GeoIP subnet (known finding `ecs:locationless-fill-shared`) -/

/-- Scope honesty as far as RFC 7871 promises it: scope 0 in the answer to a query that carried a real
subnet says the answer is valid for every subnet.  Nothing follows from scope 0 in the answer to a
zero-prefix query (7.1.2: the server answers as if there were no option, with scope 0). -/
def ScopeHonestNZ (up : Ecs.Up) : Prop :=
  ∀ h qt qc d f s s', s ≠ 0 → (up h qt qc d f s).2 = false → up h qt qc d f s' = up h qt qc d f s

/-- The client declines ECS or its location has a GeoIP subnet. -/
def Located (q : Req) : Prop := q.declined = true ∨ q.subnet ≠ 0

def AllLocated : List (Nat × Req ⊕ Key) → Prop
  | [] => True
  | .inl p :: evs => Located p.2 ∧ AllLocated evs
  | .inr _ :: evs => AllLocated evs

theorem Ecs.core_eq_of_matches_located (up : Ecs.Up) (hs : ScopeHonestNZ up) (hd : DOOnlyAdds up) (q0 q : Req)
    (hl0 : Located q0) (hm : Ecs.Matches q0 (Ecs.depFor up q0) q) : Ecs.core up q0 = Ecs.core up q := by
  obtain ⟨hn, hqt, hqc, hdo, hf, hcase⟩ := hm
  have hh : Ecs.host q0 = Ecs.host q := hn
  have hsub : up (Ecs.host q) q.qtype q.qclass (Ecs.fwdDO q0) q.fam6 (Ecs.effSubnet q) = Ecs.upAt up q0 := by
    unfold Ecs.upAt
    rw [hh, hqt, hqc, hf]
    rcases hcase with ⟨hdep, hdecl⟩ | ⟨_, _, hsn⟩
    · by_cases hz : Ecs.effSubnet q0 = 0
      · -- `q0` is located, so it declined; then `q` declines as well and forwards the same zero prefix
        have hd0 : q0.declined = true := by
          rcases hl0 with h | h
          · exact h
          · unfold Ecs.effSubnet at hz
            cases hq : q0.declined
            · rw [hq] at hz; exact absurd hz h
            · rfl
        have : Ecs.effSubnet q = Ecs.effSubnet q0 := by
          unfold Ecs.effSubnet; rw [← hdecl, hd0]; rfl
        rw [this]
      · apply hs _ _ _ _ _ _ _ hz
        have : (Ecs.upAt up q0).2 = false := hdep
        unfold Ecs.upAt at this
        rw [hh, hqt, hqc, hf] at this
        exact this
    · rw [hsn]
  unfold Ecs.core
  by_cases hfd : Ecs.fwdDO q = Ecs.fwdDO q0
  · have : Ecs.upAt up q = Ecs.upAt up q0 := by
      rw [← hsub]; unfold Ecs.upAt; rw [hfd]
    rw [this, hqt, hdo]
  · have hq : q.do_ = false := by
      cases h : q.do_
      · rfl
      · have h0 : q0.do_ = true := by rw [hdo, h]
        simp [Ecs.fwdDO, h, h0] at hfd
    have hq0 : q0.do_ = false := by rw [hdo, hq]
    have hD := (hd (Ecs.host q) q.qtype q.qclass q.fam6 (Ecs.effSubnet q)).2
    rw [hq, hq0, hqt, ← hsub]
    unfold Ecs.upAt
    cases h1 : Ecs.fwdDO q <;> cases h2 : Ecs.fwdDO q0
    · exact absurd (h1.trans h2.symm) hfd
    · exact hD
    · exact hD.symm
    · exact absurd (h1.trans h2.symm) hfd

def Ecs.InvUpL (cfg : Cfg) (up : Ecs.Up) (s : Store) : Prop :=
  ∀ k e, s k = some e → ∃ q0, Located q0 ∧ k = (if Ecs.depFor up q0 then Ecs.keyDep q0 else Ecs.keyNo q0) ∧
    e.msg = (prepStore cfg q0.qtype (echo q0 (Ecs.core up q0))).1

theorem Ecs.invUpL_run (cfg : Cfg) (up : Ecs.Up) (s : Store) (evs : List (Nat × Req ⊕ Key)) (hl : AllLocated evs)
    (h : Ecs.InvUpL cfg up s) : Ecs.InvUpL cfg up (Ecs.runUp cfg up s evs) := by
  induction evs generalizing s with
  | nil => exact h
  | cons ev evs ih =>
    cases ev with
    | inr k =>
      apply ih _ hl
      intro k' e he
      by_cases hk : k' = k
      · subst hk; simp at he
      · rw [del_other s k k' hk] at he; exact h k' e he
    | inl p =>
      apply ih _ hl.2
      show Ecs.InvUpL cfg up (Ecs.step cfg s p.1 p.2 (Ecs.answerFor up p.2) (Ecs.depFor up p.2)).store
      unfold Ecs.step
      split
      · exact h
      · split
        · exact h
        · intro k' e he
          dsimp only at he
          by_cases hk : k' = (if Ecs.depFor up p.2 then Ecs.keyDep p.2 else Ecs.keyNo p.2)
          · subst hk
            rw [put_same] at he
            cases he
            exact ⟨p.2, hl.1, rfl, rfl⟩
          · rw [put_other s _ k' _ hk] at he; exact h k' e he

/-- **ecs_hit_equals_fresh_located.**  The cached-equals-fresh clause under the weaker, realistic scope
hypothesis `ScopeHonestNZ` (nothing assumed about answers to zero-prefix queries): it holds after every
history in which each client either declines ECS or has a GeoIP subnet, for every further request. -/
theorem ecs_hit_equals_fresh_located (cfg : Cfg) (up : Ecs.Up) (hs : ScopeHonestNZ up) (hd : DOOnlyAdds up)
    (evs : List (Nat × Req ⊕ Key)) (hl : AllLocated evs) (now : Nat) (q : Req) :
    SameModTTL
      (Ecs.step cfg (Ecs.runUp cfg up Store.empty evs) now q (Ecs.answerFor up q) (Ecs.depFor up q)).resp
      (Ecs.step cfg Store.empty now q (Ecs.answerFor up q) (Ecs.depFor up q)).resp := by
  have hinv := Ecs.invUpL_run cfg up Store.empty evs hl (by intro k e h; cases h)
  generalize Ecs.runUp cfg up Store.empty evs = s at *
  have hfresh : (Ecs.step cfg Store.empty now q (Ecs.answerFor up q) (Ecs.depFor up q)).resp =
      Ecs.setAD (prepStore cfg q.qtype (echo q (Ecs.core up q))).1 q := by
    unfold Ecs.step Ecs.lookup
    simp only [Store.live, Store.empty]
    split
    · rename_i h; split at h <;> cases h
    · split <;> rfl
  rw [hfresh]
  have key : ∀ k e, (k = Ecs.keyNo q ∨ (k = Ecs.keyDep q ∧ q.declined = false)) → s.live now k = some e →
      SameModTTL (Ecs.hit e.msg (now - e.at_) q) (Ecs.setAD (prepStore cfg q.qtype (echo q (Ecs.core up q))).1 q) := by
    intro k e hk hlv
    obtain ⟨hsk, _⟩ := live_some s now k e hlv
    obtain ⟨q0, hloc, hkey, hmsg⟩ := hinv k e hsk
    have hm := Ecs.matches_of_key q0 q _ k hk hkey
    have hcore := Ecs.core_eq_of_matches_located up hs hd q0 q hloc hm
    rw [hmsg, hcore, hm.2.1]
    obtain ⟨ans0, hs0, hst0⟩ := prepStore_echo_fields cfg q.qtype q0 (Ecs.core up q)
    obtain ⟨ans1, hs1, hst1⟩ := prepStore_echo_fields cfg q.qtype q (Ecs.core up q)
    rw [hs0, hs1]
    refine ⟨rfl, rfl, rfl, rfl, rfl, rfl, ?_, ?_, ?_⟩
    · show strip (ans0.map _) = strip ans1
      rw [strip_map_setTTL, hst0, hst1]
    · show strip ((echo q0 (Ecs.core up q)).ns.map _) = strip (echo q (Ecs.core up q)).ns
      rw [strip_map_setTTL]; rfl
    · show strip ((echo q0 (Ecs.core up q)).extra.map _) = strip (echo q (Ecs.core up q)).extra
      rw [strip_map_setTTL]; rfl
  unfold Ecs.step
  split
  · rename_i e hlk
    unfold Ecs.lookup at hlk
    split at hlk
    · rename_i e' hl'
      cases hlk
      exact key _ e (Or.inl rfl) hl'
    · split at hlk
      · cases hlk
      · rename_i hdd
        have hd' : q.declined = false := by cases hq : q.declined <;> simp_all
        exact key _ e (Or.inr ⟨rfl, hd'⟩) hlk
  · split <;> exact ⟨rfl, rfl, rfl, rfl, rfl, rfl, rfl, rfl, rfl⟩

/-- An upstream as RFC 7871 describes it: answers tailored to the subnet with a non-zero scope, and a
generic answer with scope 0 for the zero prefix. -/
def upZ : Ecs.Up := fun _ qt _ _ _ s =>
  ({ exMsg with answer := [{ typ := qt, ttl := 60, soaMin := 0, data := s }], ns := [], extra := [] }, decide (s ≠ 0))

example : ScopeHonestNZ upZ := by
  intro h qt qc d f s s' hz hdep
  simp [upZ, hz] at hdep

example : DOOnlyAdds upZ := by
  intro h qt qc f s
  exact ⟨rfl, rfl⟩

/-- **ecs_locationless_counterexample.**  The code as it is violates cached == fresh against `upZ`
(scope-honest wherever the protocol promises it): after one query of a client without a GeoIP subnet
that does not decline ECS (`subnet := 0`), a client of location 3 is served that client's generic
answer from the no-ECS cache, while its fresh answer is the one tailored to subnet 3.  A declining
client does no such harm. -/
theorem ecs_locationless_counterexample :
    (Ecs.step ⟨0, false⟩ (Ecs.runUp ⟨0, false⟩ upZ Store.empty [.inl (0, { exReq with subnet := 0 })]) 5
      { exReq with subnet := 3 } (Ecs.answerFor upZ { exReq with subnet := 3 }) (Ecs.depFor upZ { exReq with subnet := 3 })).hit = true ∧
    (Ecs.step ⟨0, false⟩ (Ecs.runUp ⟨0, false⟩ upZ Store.empty [.inl (0, { exReq with subnet := 0 })]) 5
      { exReq with subnet := 3 } (Ecs.answerFor upZ { exReq with subnet := 3 }) (Ecs.depFor upZ { exReq with subnet := 3 })).resp.answer.map (·.data) = [0] ∧
    (Ecs.step ⟨0, false⟩ Store.empty 5
      { exReq with subnet := 3 } (Ecs.answerFor upZ { exReq with subnet := 3 }) (Ecs.depFor upZ { exReq with subnet := 3 })).resp.answer.map (·.data) = [3] ∧
    (Ecs.step ⟨0, false⟩ (Ecs.runUp ⟨0, false⟩ upZ Store.empty [.inl (0, { exReq with subnet := 0, declined := true })]) 5
      { exReq with subnet := 3 } (Ecs.answerFor upZ { exReq with subnet := 3 }) (Ecs.depFor upZ { exReq with subnet := 3 })).hit = false := by
  decide +kernel

/-- Non-vacuity of `AllLocated`: a history with a declining and a located client. -/
example : AllLocated [.inl (0, { exReq with subnet := 0, declined := true }), .inr (Ecs.keyNo exReq), .inl (1, { exReq with subnet := 3 })] := by
  refine ⟨Or.inl rfl, Or.inr ?_, trivial⟩
  decide

/-- **ecs_served_ttl_end_to_end.**  The TTL clause against the upstream's records for the ECS-aware
cache: a response served from cache consists of the records of the hop-by-hop-filtered upstream answer
given at `now0` to an earlier matching query of the history, all with one TTL `t` that is at most each
record's original TTL (answer section: raised to the override value `x`, `x = 0` unless the override is
on and the answer is not SERVFAIL) minus the time `now - now0` spent in the cache, rounded, floor zero. -/
theorem ecs_served_ttl_end_to_end (cfg : Cfg) (evs : List Ev) (now : Nat) (q : Req) (a : Msg) (dep : Bool)
    (hhit : (Ecs.step cfg (Ecs.run cfg Store.empty evs) now q a dep).hit = true) :
    ∃ now0 q0 a0 d0 t x, Ev.query now0 q0 a0 d0 ∈ evs ∧ Ecs.Matches q0 d0 q ∧
      (Ecs.step cfg (Ecs.run cfg Store.empty evs) now q a dep).resp.answer =
        (Ecs.rmHop a0 q.qtype q.do_).answer.map (setTTL t) ∧
      (Ecs.step cfg (Ecs.run cfg Store.empty evs) now q a dep).resp.ns =
        (Ecs.rmHop a0 q.qtype q.do_).ns.map (setTTL t) ∧
      (Ecs.step cfg (Ecs.run cfg Store.empty evs) now q a dep).resp.extra =
        (Ecs.rmHop a0 q.qtype q.do_).extra.map (setTTL t) ∧
      (∀ r ∈ (Ecs.rmHop a0 q.qtype q.do_).answer, r.typ ≠ typOPT → t ≤ leftRounded (max r.ttl x) (now - now0)) ∧
      (∀ r ∈ (Ecs.rmHop a0 q.qtype q.do_).ns ++ (Ecs.rmHop a0 q.qtype q.do_).extra, r.typ ≠ typOPT →
        t ≤ leftRounded r.ttl (now - now0) ∧ t ≤ r.ttl) ∧
      ((cfg.override = false ∨ a0.rcode = rcServFail) → x = 0) := by
  obtain ⟨now0, q0, a0, d0, life, hmem, hm, _, _, hp, _, hresp⟩ := ecs_hit_provenance cfg evs now q a dep hhit
  have hst0 : Ecs.stored cfg q0 a0 = prepStore cfg q.qtype (Ecs.rmHop a0 q.qtype q.do_) := by
    unfold Ecs.stored; rw [hm.2.1, hm.2.2.2.1]
  rw [hst0] at hp hresp
  obtain ⟨x, hst, hx⟩ := prepStore_stored_answer cfg q.qtype _ life hp
  obtain ⟨t, ha, hns, hex, hb, _⟩ := ecs_ttl_bound (prepStore cfg q.qtype (Ecs.rmHop a0 q.qtype q.do_)).1 (now - now0) q
  rw [← hresp] at ha hns hex
  refine ⟨now0, q0, a0, d0, t, x, hmem, hm, ?_, ?_, ?_, ?_, ?_, hx⟩
  · rw [ha, hst]; exact map_setTTL_raise t x _
  · rw [hns, hst]
  · rw [hex, hst]
  · intro r hr hn'
    have hmem' : raiseTTL x r ∈ allRRs (prepStore cfg q.qtype (Ecs.rmHop a0 q.qtype q.do_)).1 := by
      rw [hst]; unfold allRRs
      exact List.mem_append_left _ (List.mem_append_left _ (List.mem_map_of_mem hr))
    exact (hb _ hmem' hn').1
  · intro r hr hn'
    have hmem' : r ∈ allRRs (prepStore cfg q.qtype (Ecs.rmHop a0 q.qtype q.do_)).1 := by
      rw [hst]; unfold allRRs
      rcases List.mem_append.mp hr with h1 | h1
      · exact List.mem_append_left _ (List.mem_append_right _ h1)
      · exact List.mem_append_right _ h1
    exact hb _ hmem' hn'

/-- Non-vacuity: with `exUp`, a second client at another location is served the uniform answer from
the cache, while for the tailored type it is not (a client at the same location is); a client without EDNS shares the entry of a client
with EDNS and DO clear (the upstream saw DO for the former only). -/
example : (Ecs.step ⟨0, false⟩ (Ecs.runUp ⟨0, false⟩ exUp Store.empty [.inl (0, exReq)]) 5
    { exReq with subnet := 3 } (Ecs.answerFor exUp { exReq with subnet := 3 }) (Ecs.depFor exUp { exReq with subnet := 3 })).hit = true := by
  decide +kernel
example : Ecs.depFor exUp { exReq with qtype := 28 } = true ∧ Ecs.depFor exUp exReq = false ∧
    (Ecs.answerFor exUp { exReq with qtype := 28 }).answer ≠ (Ecs.answerFor exUp { exReq with qtype := 28, subnet := 3 }).answer := by
  decide
example : (Ecs.step ⟨0, false⟩ (Ecs.runUp ⟨0, false⟩ exUp Store.empty [.inl (0, { exReq with do_ := false, edns := false })]) 5
    { exReq with do_ := false } (Ecs.answerFor exUp { exReq with do_ := false }) (Ecs.depFor exUp { exReq with do_ := false })).hit = true := by
  decide +kernel

#print axioms simple_ttl_bound
#print axioms ecs_ttl_bound
#print axioms simple_ttl_counterexample
#print axioms inv_empty
#print axioms inv_del
#print axioms inv_put
#print axioms Simple.inv_step
#print axioms Ecs.inv_step
#print axioms Simple.inv_run
#print axioms Ecs.inv_run
#print axioms served_sound_of_inv
#print axioms simple_nothing_after_expiry_only_cacheable
#print axioms ecs_nothing_after_expiry_only_cacheable
#print axioms Simple.key_eq_iff
#print axioms Ecs.keyNo_eq_iff
#print axioms Ecs.keyDep_eq_iff
#print axioms Simple.step_congr
#print axioms simple_key_separation
#print axioms simple_respkey_counterexample
#print axioms Ecs.step_congr
#print axioms ecs_key_separation
#print axioms Simple.invUp_step
#print axioms Simple.invUp_run
#print axioms prepStore_echo_fields
#print axioms prepStore_echo_indep
#print axioms simple_hit_equals_fresh
#print axioms Simple.invH_mono
#print axioms Simple.invH_run
#print axioms simple_hit_provenance
#print axioms prepStore_stored_answer
#print axioms map_setTTL_raise
#print axioms simple_served_ttl_end_to_end
#print axioms Ecs.invH_mono
#print axioms Ecs.invH_run
#print axioms ecs_hit_provenance
#print axioms Ecs.rmHop_echo
#print axioms Ecs.invUp_run
#print axioms Ecs.core_eq_of_matches
#print axioms Ecs.matches_of_key
#print axioms ecs_hit_equals_fresh
#print axioms ecs_served_ttl_end_to_end
#print axioms Ecs.core_eq_of_matches_located
#print axioms Ecs.invUpL_run
#print axioms ecs_hit_equals_fresh_located
#print axioms ecs_locationless_counterexample

/-! ## Round 4: the AA flag, faults of the next handler, production wiring -/

/-- An upstream that marks its (constant) answer authoritative. -/
def upAA : Key → Msg := fun _ => { exMsg with aa := true }

/-- **simple_aa_counterexample** (known finding `simple:hit-clears-aa`).  "Same flags" fails for AA
on the simple cache: the first client gets the upstream's AA = 1, the second, served from cache,
AA = 0.  (`simple_hit_equals_fresh` covers rcode, TC, AD, RA, RD, CD and the records.) -/
theorem simple_aa_counterexample :
    ¬ ∀ (cfg : Cfg) (up : Key → Msg) (evs : List (Nat × Req ⊕ Key)) (now : Nat) (q : Req),
      (Simple.step cfg (Simple.runUp cfg up Store.empty evs) now q (Simple.answerFor up q)).resp.aa =
      (Simple.step cfg Store.empty now q (Simple.answerFor up q)).resp.aa := by
  intro h
  exact absurd (h ⟨0, false⟩ upAA [.inl (0, exReq)] 5 exReq) (by decide +kernel)

/-- What the simple cache serves never has AA, whatever was stored. -/
theorem simple_hit_aa_false (cfg : Cfg) (s : Store) (now : Nat) (q : Req) (a : Msg)
    (h : (Simple.step cfg s now q a).hit = true) : (Simple.step cfg s now q a).resp.aa = false := by
  unfold Simple.step Simple.stepWith at h ⊢
  split
  · rfl
  · rename_i hn
    rw [hn] at h
    dsimp only at h
    split at h <;> simp at h

/-- **ecs_hit_keeps_aa.**  Under the hypotheses of `ecs_hit_equals_fresh` the ECS cache also
preserves the AA flag: served from cache or not, the response has the AA flag an empty cache gives. -/
theorem ecs_hit_keeps_aa (cfg : Cfg) (up : Ecs.Up) (hs : ScopeHonest up) (hd : DOOnlyAdds up)
    (evs : List (Nat × Req ⊕ Key)) (now : Nat) (q : Req) :
    (Ecs.step cfg (Ecs.runUp cfg up Store.empty evs) now q (Ecs.answerFor up q) (Ecs.depFor up q)).resp.aa =
    (Ecs.step cfg Store.empty now q (Ecs.answerFor up q) (Ecs.depFor up q)).resp.aa := by
  have hinv := Ecs.invUp_run cfg up Store.empty evs (by intro k e h; cases h)
  generalize Ecs.runUp cfg up Store.empty evs = s at *
  have hfresh : (Ecs.step cfg Store.empty now q (Ecs.answerFor up q) (Ecs.depFor up q)).resp =
      Ecs.setAD (prepStore cfg q.qtype (echo q (Ecs.core up q))).1 q := by
    unfold Ecs.step Ecs.lookup
    simp only [Store.live, Store.empty]
    split
    · rename_i h; split at h <;> cases h
    · split <;> rfl
  rw [hfresh]
  have key : ∀ k e, (k = Ecs.keyNo q ∨ (k = Ecs.keyDep q ∧ q.declined = false)) → s.live now k = some e →
      (Ecs.hit e.msg (now - e.at_) q).aa = (Ecs.setAD (prepStore cfg q.qtype (echo q (Ecs.core up q))).1 q).aa := by
    intro k e hk hl
    obtain ⟨hsk, _⟩ := live_some s now k e hl
    obtain ⟨q0, hkey, hmsg, _⟩ := hinv k e hsk
    have hm := Ecs.matches_of_key q0 q _ k hk hkey
    have hcore := Ecs.core_eq_of_matches up hs hd q0 q hm
    rw [hmsg, hcore, hm.2.1]
    obtain ⟨ans0, hs0, _⟩ := prepStore_echo_fields cfg q.qtype q0 (Ecs.core up q)
    obtain ⟨ans1, hs1, _⟩ := prepStore_echo_fields cfg q.qtype q (Ecs.core up q)
    rw [hs0, hs1]
    rfl
  unfold Ecs.step
  split
  · rename_i e hl
    unfold Ecs.lookup at hl
    split at hl
    · rename_i e' hl'
      cases hl
      exact key _ e (Or.inl rfl) hl'
    · split at hl
      · cases hl
      · rename_i hdd
        have hd' : q.declined = false := by cases hq : q.declined <;> simp_all
        exact key _ e (Or.inr ⟨rfl, hd'⟩) hl
  · split <;> rfl

/-- A history in which some requests meet a failing next handler (error with or without a written
message, no message, unreadable ECS data). -/
inductive EvF
  | ok (e : Ev)
  | fault (now : Nat) (q : Req)

/-- The history without the requests that met a fault. -/
def EvF.strip : List EvF → List Ev
  | [] => []
  | .ok e :: evs => e :: EvF.strip evs
  | .fault _ _ :: evs => EvF.strip evs

def Simple.runF (cfg : Cfg) : Store → List EvF → Store
  | s, [] => s
  | s, .ok (.query now q a _) :: evs => Simple.runF cfg (Simple.step cfg s now q a).store evs
  | s, .ok (.evict k) :: evs => Simple.runF cfg (s.del k) evs
  | s, .fault now q :: evs => Simple.runF cfg (Simple.stepFault simpleTTL s now q).1 evs

def Ecs.runF (cfg : Cfg) : Store → List EvF → Store
  | s, [] => s
  | s, .ok (.query now q a dep) :: evs => Ecs.runF cfg (Ecs.step cfg s now q a dep).store evs
  | s, .ok (.evict k) :: evs => Ecs.runF cfg (s.del k) evs
  | s, .fault now q :: evs => Ecs.runF cfg (Ecs.stepFault s now q).1 evs

theorem simple_fault_no_trace (f : Nat → Nat → Nat) (s : Store) (now : Nat) (q : Req) :
    (Simple.stepFault f s now q).1 = s := by
  unfold Simple.stepFault; split <;> rfl

theorem ecs_fault_no_trace (s : Store) (now : Nat) (q : Req) : (Ecs.stepFault s now q).1 = s := by
  unfold Ecs.stepFault; split <;> rfl

/-- While the next handler fails, a request is answered iff a normal request would have been
served from the cache, and then with exactly that answer; otherwise nothing is written. -/
theorem simple_fault_answer (cfg : Cfg) (s : Store) (now : Nat) (q : Req) (a : Msg) :
    (Simple.stepFault simpleTTL s now q).2 =
      if (Simple.step cfg s now q a).hit then some (Simple.step cfg s now q a).resp else none := by
  unfold Simple.stepFault Simple.step Simple.stepWith
  split
  · rfl
  · split <;> rfl

theorem ecs_fault_answer (cfg : Cfg) (s : Store) (now : Nat) (q : Req) (a : Msg) (dep : Bool) :
    (Ecs.stepFault s now q).2 =
      if (Ecs.step cfg s now q a dep).hit then some (Ecs.step cfg s now q a dep).resp else none := by
  unfold Ecs.stepFault Ecs.step
  split
  · rfl
  · split <;> rfl

/-- **simple_faults_transparent / ecs_faults_transparent.**  Requests that met a failing next
handler leave no trace: the store after any history is the store after the history without them, so
every history theorem above (provenance, expiry, cacheability, TTL bound, cached == fresh) holds
verbatim for histories with faults, with the faulted requests excluded from the possible fillers. -/
theorem simple_faults_transparent (cfg : Cfg) (s : Store) (evs : List EvF) :
    Simple.runF cfg s evs = Simple.run cfg s (EvF.strip evs) := by
  induction evs generalizing s with
  | nil => rfl
  | cons ev evs ih =>
    cases ev with
    | ok e => cases e <;> exact ih _
    | fault now q =>
      show Simple.runF cfg (Simple.stepFault simpleTTL s now q).1 evs = _
      rw [simple_fault_no_trace]; exact ih s

theorem ecs_faults_transparent (cfg : Cfg) (s : Store) (evs : List EvF) :
    Ecs.runF cfg s evs = Ecs.run cfg s (EvF.strip evs) := by
  induction evs generalizing s with
  | nil => rfl
  | cons ev evs ih =>
    cases ev with
    | ok e => cases e <;> exact ih _
    | fault now q =>
      show Ecs.runF cfg (Ecs.stepFault s now q).1 evs = _
      rw [ecs_fault_no_trace]; exact ih s

/-- Corollary: after a history with faults, whatever is served from cache was stored by a request
of the history that did NOT meet a fault (simple cache; the same rewriting works for every history
theorem). -/
theorem simple_hit_provenance_with_faults (cfg : Cfg) (evs : List EvF) (now : Nat) (q : Req) (a : Msg)
    (hhit : (Simple.step cfg (Simple.runF cfg Store.empty evs) now q a).hit = true) :
    (Simple.step cfg (Simple.run cfg Store.empty (EvF.strip evs)) now q a).hit = true ∧
    (Simple.step cfg (Simple.runF cfg Store.empty evs) now q a).resp =
      (Simple.step cfg (Simple.run cfg Store.empty (EvF.strip evs)) now q a).resp := by
  rw [simple_faults_transparent] at hhit ⊢
  exact ⟨hhit, rfl⟩

/-- Non-vacuity: a request that faults between two good ones changes nothing; one that faults
first does not fill the cache. -/
example : (Simple.step ⟨0, false⟩ (Simple.runF ⟨0, false⟩ Store.empty [.ok (.query 0 exReq exMsg false), .fault 1 exReq]) 5 exReq exMsg).hit = true := by
  decide +kernel
example : (Simple.step ⟨0, false⟩ (Simple.runF ⟨0, false⟩ Store.empty [.fault 1 exReq]) 5 exReq exMsg).hit = false := by
  decide +kernel
example : (Simple.stepFault simpleTTL exStore 5 exReq).2 ≠ none ∧ (Simple.stepFault simpleTTL Store.empty 5 exReq).2 = none := by
  decide +kernel

/-- The request information glue: a client that declines ECS gets the zero subnet whatever GeoIP
says, everybody else the subnet of the country of the ECS option's location if it has one, else of
the connection's, in the family of the ECS option if there is one, else of the connection. -/
theorem ecs_glue_declined (geo : Nat → Bool → Nat) (ri : RI) (h : ri.hasECS = true) (hb : ri.ecsBits = 0) :
    Ecs.declinedOf ri = true ∧ Ecs.subnetOf geo ri = 0 := by
  unfold Ecs.subnetOf Ecs.declinedOf; simp [h, hb]

theorem ecs_glue_located (geo : Nat → Bool → Nat) (ri : RI) (h : Ecs.declinedOf ri = false) :
    Ecs.subnetOf geo ri = geo (if ri.hasECS ∧ ri.ecsCtry ≠ 0 then ri.ecsCtry else ri.connCtry)
      (if ri.hasECS then ri.ecsFam6 else ri.remoteFam6) := by
  unfold Ecs.subnetOf Ecs.ctryOf Ecs.famOf; simp [h]

example : Ecs.declinedOf ⟨true, 0, false, true, 3, 2⟩ = true ∧ Ecs.ctryOf ⟨true, 24, false, true, 0, 2⟩ = 2 ∧
    Ecs.ctryOf ⟨true, 24, false, true, 3, 2⟩ = 3 ∧ Ecs.famOf ⟨true, 24, false, true, 3, 2⟩ = false ∧
    Ecs.famOf ⟨false, 0, false, true, 0, 2⟩ = true := by decide

#print axioms simple_aa_counterexample
#print axioms simple_hit_aa_false
#print axioms ecs_hit_keeps_aa
#print axioms simple_fault_no_trace
#print axioms ecs_fault_no_trace
#print axioms simple_fault_answer
#print axioms ecs_fault_answer
#print axioms simple_faults_transparent
#print axioms ecs_faults_transparent
#print axioms simple_hit_provenance_with_faults
#print axioms ecs_glue_declined
#print axioms ecs_glue_located

/-! ## Round 5: request header bits that are forwarded but not keyed (CD, AD)

Both caches hand the request to the next handler with its CD and AD bits unchanged, and neither key
contains them.  A validating upstream answers according to them (RFC 4035 3.2.2: with CD the
unvalidated data, without it validated data or SERVFAIL; RFC 6840 5.8: the AD bit only for requests
with AD or DO).  `UpH` is an upstream that sees the two bits. -/

abbrev Simple.UpH := Bool → Bool → Key → Msg

def Simple.answerForH (up : Simple.UpH) (q : Req) : Msg := echo q (up q.cd q.ad (Simple.keyOfReq q))

def Simple.runUpH (cfg : Cfg) (up : Simple.UpH) : Store → List (Nat × Req ⊕ Key) → Store
  | s, [] => s
  | s, .inl (now, q) :: evs => Simple.runUpH cfg up (Simple.step cfg s now q (Simple.answerForH up q)).store evs
  | s, .inr k :: evs => Simple.runUpH cfg up (s.del k) evs

abbrev Ecs.UpH := Bool → Bool → Ecs.Up

def Ecs.answerForH (up : Ecs.UpH) (q : Req) : Msg := Ecs.answerFor (up q.cd q.ad) q
def Ecs.depForH (up : Ecs.UpH) (q : Req) : Bool := Ecs.depFor (up q.cd q.ad) q

def Ecs.runUpH (cfg : Cfg) (up : Ecs.UpH) : Store → List (Nat × Req ⊕ Key) → Store
  | s, [] => s
  | s, .inl (now, q) :: evs =>
    Ecs.runUpH cfg up (Ecs.step cfg s now q (Ecs.answerForH up q) (Ecs.depForH up q)).store evs
  | s, .inr k :: evs => Ecs.runUpH cfg up (s.del k) evs

/-- Every request of the history carries the CD bit `cd` and the AD bit `ad`. -/
def HdrUniform (cd ad : Bool) : List (Nat × Req ⊕ Key) → Prop
  | [] => True
  | .inl (_, q) :: evs => q.cd = cd ∧ q.ad = ad ∧ HdrUniform cd ad evs
  | .inr _ :: evs => HdrUniform cd ad evs

theorem Simple.runUpH_uniform (cfg : Cfg) (up : Simple.UpH) (cd ad : Bool) (s : Store)
    (evs : List (Nat × Req ⊕ Key)) (h : HdrUniform cd ad evs) :
    Simple.runUpH cfg up s evs = Simple.runUp cfg (up cd ad) s evs := by
  induction evs generalizing s with
  | nil => rfl
  | cons ev evs ih =>
    cases ev with
    | inl p =>
      obtain ⟨now, q⟩ := p
      obtain ⟨h1, h2, h3⟩ := h
      have e : Simple.answerForH up q = Simple.answerFor (up cd ad) q := by
        unfold Simple.answerForH Simple.answerFor; rw [h1, h2]
      show Simple.runUpH cfg up (Simple.step cfg s now q (Simple.answerForH up q)).store evs = _
      rw [e]; exact ih _ h3
    | inr k => exact ih _ h

theorem Ecs.runUpH_uniform (cfg : Cfg) (up : Ecs.UpH) (cd ad : Bool) (s : Store)
    (evs : List (Nat × Req ⊕ Key)) (h : HdrUniform cd ad evs) :
    Ecs.runUpH cfg up s evs = Ecs.runUp cfg (up cd ad) s evs := by
  induction evs generalizing s with
  | nil => rfl
  | cons ev evs ih =>
    cases ev with
    | inl p =>
      obtain ⟨now, q⟩ := p
      obtain ⟨h1, h2, h3⟩ := h
      have e1 : Ecs.answerForH up q = Ecs.answerFor (up cd ad) q := by
        unfold Ecs.answerForH; rw [h1, h2]
      have e2 : Ecs.depForH up q = Ecs.depFor (up cd ad) q := by
        unfold Ecs.depForH; rw [h1, h2]
      show Ecs.runUpH cfg up (Ecs.step cfg s now q (Ecs.answerForH up q) (Ecs.depForH up q)).store evs = _
      rw [e1, e2]; exact ih _ h3
    | inr k => exact ih _ h

/-- **simple_hit_equals_fresh_same_bits.**  Against an upstream that also reads the CD and AD bits:
cached == fresh holds for every history whose requests carry the same two bits as `q` (any
names, types, classes, DO, times, evictions). -/
theorem simple_hit_equals_fresh_same_bits (cfg : Cfg) (up : Simple.UpH)
    (evs : List (Nat × Req ⊕ Key)) (now : Nat) (q : Req) (h : HdrUniform q.cd q.ad evs) :
    SameModTTL (Simple.step cfg (Simple.runUpH cfg up Store.empty evs) now q (Simple.answerForH up q)).resp
      (Simple.step cfg Store.empty now q (Simple.answerForH up q)).resp := by
  rw [Simple.runUpH_uniform cfg up q.cd q.ad _ evs h]
  exact simple_hit_equals_fresh cfg (up q.cd q.ad) evs now q

theorem ecs_hit_equals_fresh_same_bits (cfg : Cfg) (up : Ecs.UpH)
    (evs : List (Nat × Req ⊕ Key)) (now : Nat) (q : Req)
    (hs : ScopeHonest (up q.cd q.ad)) (hd : DOOnlyAdds (up q.cd q.ad)) (h : HdrUniform q.cd q.ad evs) :
    SameModTTL
      (Ecs.step cfg (Ecs.runUpH cfg up Store.empty evs) now q (Ecs.answerForH up q) (Ecs.depForH up q)).resp
      (Ecs.step cfg Store.empty now q (Ecs.answerForH up q) (Ecs.depForH up q)).resp := by
  rw [Ecs.runUpH_uniform cfg up q.cd q.ad _ evs h]
  exact ecs_hit_equals_fresh cfg (up q.cd q.ad) hs hd evs now q

/-- A validating upstream and a zone with a broken signature: SERVFAIL, or the data if the request
has CD. -/
def servfailMsg : Msg := { exMsg with rcode := 2, answer := [], extra := [] }
def upValidating : Simple.UpH := fun cd _ _ => if cd then exMsg else servfailMsg
def upValidatingE : Ecs.UpH := fun cd _ _ _ _ _ _ _ => (if cd then exMsg else servfailMsg, false)

/-- A validating upstream and a signed zone: AD only for requests with AD or DO. -/
def upADReq : Simple.UpH := fun _ ad k =>
  { exMsg with ad := ad || (match k with | .simple d _ _ _ => d | _ => false) }
def upADReqE : Ecs.UpH := fun _ ad _ _ _ _ _ _ => ({ exMsg with ad := ad }, false)

def reqBits (cd ad : Bool) : Req := { exReq with do_ := false, cd := cd, ad := ad }

/-- **simple_cd_counterexample** (known finding `simple:cd-not-in-key`).  The first client asks with
CD = 1 and gets the unvalidated data, the second asks the same question with CD = 0 two seconds
later: it is served that data from cache, a fresh answer is SERVFAIL. -/
theorem simple_cd_counterexample :
    ¬ ∀ (cfg : Cfg) (up : Simple.UpH) (evs : List (Nat × Req ⊕ Key)) (now : Nat) (q : Req),
      SameModTTL (Simple.step cfg (Simple.runUpH cfg up Store.empty evs) now q (Simple.answerForH up q)).resp
        (Simple.step cfg Store.empty now q (Simple.answerForH up q)).resp := by
  intro h
  exact absurd (h ⟨0, false⟩ upValidating [.inl (0, reqBits true false)] 1 (reqBits false false)).1
    (by decide +kernel)

/-- **simple_ad_request_counterexample** (known finding `simple:ad-request-not-in-key`): the answer
stored for a client without AD and DO is served without the AD flag to a client that set AD. -/
theorem simple_ad_request_counterexample :
    ¬ ∀ (cfg : Cfg) (up : Simple.UpH) (evs : List (Nat × Req ⊕ Key)) (now : Nat) (q : Req),
      SameModTTL (Simple.step cfg (Simple.runUpH cfg up Store.empty evs) now q (Simple.answerForH up q)).resp
        (Simple.step cfg Store.empty now q (Simple.answerForH up q)).resp := by
  intro h
  exact absurd (h ⟨0, false⟩ upADReq [.inl (0, reqBits false false)] 1 (reqBits false true)).2.2.1
    (by decide +kernel)

theorem upValidatingE_honest (cd ad : Bool) : ScopeHonest (upValidatingE cd ad) ∧ DOOnlyAdds (upValidatingE cd ad) :=
  ⟨fun _ _ _ _ _ _ _ _ => rfl, fun _ _ _ _ _ => ⟨rfl, rfl⟩⟩

theorem upADReqE_honest (cd ad : Bool) : ScopeHonest (upADReqE cd ad) ∧ DOOnlyAdds (upADReqE cd ad) :=
  ⟨fun _ _ _ _ _ _ _ _ => rfl, fun _ _ _ _ _ => ⟨rfl, rfl⟩⟩

/-- **ecs_cd_counterexample** (known finding `ecs:cd-not-in-key`): the same for the ECS-aware cache,
with an upstream that is scope-honest and DO-additive for each setting of the two bits. -/
theorem ecs_cd_counterexample :
    ¬ ∀ (cfg : Cfg) (up : Ecs.UpH), (∀ cd ad, ScopeHonest (up cd ad) ∧ DOOnlyAdds (up cd ad)) →
      ∀ (evs : List (Nat × Req ⊕ Key)) (now : Nat) (q : Req),
      SameModTTL
        (Ecs.step cfg (Ecs.runUpH cfg up Store.empty evs) now q (Ecs.answerForH up q) (Ecs.depForH up q)).resp
        (Ecs.step cfg Store.empty now q (Ecs.answerForH up q) (Ecs.depForH up q)).resp := by
  intro h
  exact absurd (h ⟨0, false⟩ upValidatingE upValidatingE_honest [.inl (0, reqBits true false)] 1 (reqBits false false)).1
    (by decide +kernel)

/-- **ecs_ad_request_counterexample** (known finding `ecs:ad-request-not-in-key`). -/
theorem ecs_ad_request_counterexample :
    ¬ ∀ (cfg : Cfg) (up : Ecs.UpH), (∀ cd ad, ScopeHonest (up cd ad) ∧ DOOnlyAdds (up cd ad)) →
      ∀ (evs : List (Nat × Req ⊕ Key)) (now : Nat) (q : Req),
      SameModTTL
        (Ecs.step cfg (Ecs.runUpH cfg up Store.empty evs) now q (Ecs.answerForH up q) (Ecs.depForH up q)).resp
        (Ecs.step cfg Store.empty now q (Ecs.answerForH up q) (Ecs.depForH up q)).resp := by
  intro h
  exact absurd (h ⟨0, false⟩ upADReqE upADReqE_honest [.inl (0, reqBits false false)] 1 (reqBits false true)).2.2.1
    (by decide +kernel)

/-- Non-vacuity: `HdrUniform` holds for a two-request history with an eviction in between; with equal
bits the second client of `upValidating` is served from cache. -/
example : HdrUniform false false [.inl (0, reqBits false false), .inr (Simple.keyOfReq exReq), .inl (1, { reqBits false false with qtype := 28 })] := by
  simp [HdrUniform, reqBits]
example : (Simple.step ⟨0, false⟩ (Simple.runUpH ⟨0, false⟩ upValidating Store.empty [.inl (0, reqBits true false)]) 1
    (reqBits true true) (Simple.answerForH upValidating (reqBits true true))).hit = true := by decide +kernel


/-- Every request of the history satisfies `P`. -/
def AllReq (P : Req → Prop) : List (Nat × Req ⊕ Key) → Prop
  | [] => True
  | .inl (_, q) :: evs => P q ∧ AllReq P evs
  | .inr _ :: evs => AllReq P evs

/-- Every entry under `k` holds what `set` made of the answer to a request `q0` with key `k` and
property `P`, asked with `q0`'s own CD and AD bits. -/
def InvUpP (cfg : Cfg) (up : Simple.UpH) (P : Req → Prop) (s : Store) : Prop :=
  ∀ k e, s k = some e → ∃ q0, P q0 ∧ Simple.keyOfReq q0 = k ∧
    e.msg = (prepStore cfg q0.qtype (echo q0 (up q0.cd q0.ad k))).1 ∧
    (prepStore cfg q0.qtype (echo q0 (up q0.cd q0.ad k))).2 ≠ none

theorem Simple.invUpP_run (cfg : Cfg) (up : Simple.UpH) (P : Req → Prop) (s : Store)
    (evs : List (Nat × Req ⊕ Key)) (hp : AllReq P evs) (h : InvUpP cfg up P s) :
    InvUpP cfg up P (Simple.runUpH cfg up s evs) := by
  induction evs generalizing s with
  | nil => exact h
  | cons ev evs ih =>
    cases ev with
    | inl p =>
      obtain ⟨now, q⟩ := p
      obtain ⟨hq, hrest⟩ := hp
      apply ih _ hrest
      show InvUpP cfg up P (Simple.step cfg s now q (Simple.answerForH up q)).store
      unfold Simple.step Simple.stepWith
      split
      · exact h
      · split
        · exact h
        · rename_i life hpst
          intro k' e he
          dsimp only at he
          by_cases hk : k' = Simple.keyOfReq q
          · subst hk
            rw [put_same] at he
            cases he
            refine ⟨q, hq, rfl, rfl, ?_⟩
            show (prepStore cfg q.qtype (Simple.answerForH up q)).2 ≠ none
            rw [hpst]; simp
          · rw [put_other s _ k' _ hk] at he; exact h k' e he
    | inr k =>
      apply ih _ hp
      intro k' e he
      by_cases hk : k' = k
      · subst hk; simp at he
      · rw [del_other s k k' hk] at he; exact h k' e he

/-- **simple_hit_equals_fresh_keyed_bits.**  Against an upstream that reads the forwarded CD and AD bits,
cached == fresh holds for `q` after every history in which the requests *for the same question and DO
bit as `q`* carry `q`'s CD and AD bits — whatever bits the other requests carry.  (Exactly the
condition the known findings `simple:cd-not-in-key` / `simple:ad-request-not-in-key` violate.) -/
theorem simple_hit_equals_fresh_keyed_bits (cfg : Cfg) (up : Simple.UpH)
    (evs : List (Nat × Req ⊕ Key)) (now : Nat) (q : Req)
    (hb : AllReq (fun q0 => Simple.keyOfReq q0 = Simple.keyOfReq q → q0.cd = q.cd ∧ q0.ad = q.ad) evs) :
    SameModTTL (Simple.step cfg (Simple.runUpH cfg up Store.empty evs) now q (Simple.answerForH up q)).resp
      (Simple.step cfg Store.empty now q (Simple.answerForH up q)).resp := by
  have hinv := Simple.invUpP_run cfg up _ Store.empty evs hb (by intro k e h; cases h)
  generalize Simple.runUpH cfg up Store.empty evs = s at *
  have hfresh : (Simple.step cfg Store.empty now q (Simple.answerForH up q)).resp =
      (prepStore cfg q.qtype (Simple.answerForH up q)).1 := by
    unfold Simple.step Simple.stepWith
    simp only [Store.live, Store.empty]
    split <;> rfl
  rw [hfresh]
  unfold Simple.step Simple.stepWith
  split
  · rename_i e hl
    obtain ⟨hk, _⟩ := live_some s now _ e hl
    obtain ⟨q0, hP, hk0, hm, hstored⟩ := hinv _ e hk
    obtain ⟨hcd, had⟩ := hP hk0
    rw [hcd, had] at hm hstored
    obtain ⟨up', hup'⟩ : ∃ u, u = up q.cd q.ad := ⟨_, rfl⟩
    rw [← hup'] at hm hstored
    have hqt : q0.qtype = q.qtype := by
      have := (Simple.key_eq_iff q0 q).mp hk0; exact this.2.1
    obtain ⟨ans0, hs0, hst0⟩ := prepStore_echo_fields cfg q0.qtype q0 (up' (Simple.keyOfReq q))
    obtain ⟨ans1, hs1, hst1⟩ := prepStore_echo_fields cfg q.qtype q (up' (Simple.keyOfReq q))
    have htc : (up' (Simple.keyOfReq q)).tc = false := by
      cases hp : (prepStore cfg q0.qtype (echo q0 (up' (Simple.keyOfReq q)))).2 with
      | none => exact absurd hp hstored
      | some life =>
        have := (prepStore_some cfg q0.qtype _ life hp).2.1
        exact (cacheable_sound q0.qtype _ this).1
    have hans : Simple.answerForH up q = echo q (up' (Simple.keyOfReq q)) := by
      unfold Simple.answerForH; rw [hup']
    rw [hm, hs0, hans, hs1]
    refine ⟨rfl, ?_, rfl, rfl, rfl, rfl, ?_, ?_, ?_⟩
    · show false = (up' (Simple.keyOfReq q)).tc
      rw [htc]
    · show strip (ans0.map _) = strip ans1
      rw [strip_map_setTTL, hst0, hst1]
    · show strip ((echo q0 (up' (Simple.keyOfReq q))).ns.map _) = strip (echo q (up' (Simple.keyOfReq q))).ns
      rw [strip_map_setTTL]; rfl
    · show strip (((echo q0 (up' (Simple.keyOfReq q))).extra.filter _).map _) = strip (echo q (up' (Simple.keyOfReq q))).extra
      rw [strip_map_setTTL, strip_filter_nonOPT]; rfl
  · split <;> exact ⟨rfl, rfl, rfl, rfl, rfl, rfl, rfl, rfl, rfl⟩

/-- Non-vacuity: a history with a CD = 1 request for ANOTHER type satisfies the hypothesis for a CD = 0
asker, and the asker is then served its own (SERVFAIL) answer from cache. -/
example : AllReq (fun q0 => Simple.keyOfReq q0 = Simple.keyOfReq (reqBits false false) → q0.cd = (reqBits false false).cd ∧ q0.ad = (reqBits false false).ad)
    [.inl (0, { reqBits true false with qtype := 28 }), .inl (0, reqBits false false)] := by
  refine ⟨fun h => ?_, fun _ => ⟨rfl, rfl⟩, trivial⟩
  exact absurd h (by decide)

#print axioms Simple.invUpP_run
#print axioms simple_hit_equals_fresh_keyed_bits

/-- `q0` asks the same question with the same DO bit and address family as `q` (what both ECS keys
have in common). -/
def Ecs.SameQuestion (q0 q : Req) : Prop :=
  q0.name.toLower = q.name.toLower ∧ q0.qtype = q.qtype ∧ q0.qclass = q.qclass ∧ q0.do_ = q.do_ ∧ q0.fam6 = q.fam6

def Ecs.InvUpP (cfg : Cfg) (up : Ecs.UpH) (P : Req → Prop) (s : Store) : Prop :=
  ∀ k e, s k = some e → ∃ q0, P q0 ∧ k = (if Ecs.depForH up q0 then Ecs.keyDep q0 else Ecs.keyNo q0) ∧
    e.msg = (prepStore cfg q0.qtype (echo q0 (Ecs.core (up q0.cd q0.ad) q0))).1 ∧
    (prepStore cfg q0.qtype (echo q0 (Ecs.core (up q0.cd q0.ad) q0))).2 ≠ none

theorem Ecs.invUpP_run (cfg : Cfg) (up : Ecs.UpH) (P : Req → Prop) (s : Store) (evs : List (Nat × Req ⊕ Key))
    (hp : AllReq P evs) (h : Ecs.InvUpP cfg up P s) : Ecs.InvUpP cfg up P (Ecs.runUpH cfg up s evs) := by
  induction evs generalizing s with
  | nil => exact h
  | cons ev evs ih =>
    cases ev with
    | inr k =>
      apply ih _ hp
      intro k' e he
      by_cases hk : k' = k
      · subst hk; simp at he
      · rw [del_other s k k' hk] at he; exact h k' e he
    | inl p =>
      obtain ⟨now, q⟩ := p
      obtain ⟨hq, hrest⟩ := hp
      apply ih _ hrest
      show Ecs.InvUpP cfg up P (Ecs.step cfg s now q (Ecs.answerForH up q) (Ecs.depForH up q)).store
      unfold Ecs.step
      split
      · exact h
      · split
        · exact h
        · rename_i life hpst
          intro k' e he
          dsimp only at he
          by_cases hk : k' = (if Ecs.depForH up q then Ecs.keyDep q else Ecs.keyNo q)
          · subst hk
            rw [put_same] at he
            cases he
            refine ⟨q, hq, rfl, rfl, ?_⟩
            show (prepStore cfg q.qtype (Ecs.rmHop (Ecs.answerForH up q) q.qtype q.do_)).2 ≠ none
            rw [hpst]; simp
          · rw [put_other s _ k' _ hk] at he; exact h k' e he

/-- **ecs_hit_equals_fresh_keyed_bits.**  The ECS-aware cache against an upstream that reads the forwarded
CD and AD bits (scope-honest and DO-additive for the asker's setting of the bits): cached == fresh
holds for `q` after every history in which the requests for the same question, DO bit and address
family carry `q`'s CD and AD bits — whatever the other requests carry. -/
theorem ecs_hit_equals_fresh_keyed_bits (cfg : Cfg) (up : Ecs.UpH)
    (evs : List (Nat × Req ⊕ Key)) (now : Nat) (q : Req)
    (hs : ScopeHonest (up q.cd q.ad)) (hd : DOOnlyAdds (up q.cd q.ad))
    (hb : AllReq (fun q0 => Ecs.SameQuestion q0 q → q0.cd = q.cd ∧ q0.ad = q.ad) evs) :
    SameModTTL
      (Ecs.step cfg (Ecs.runUpH cfg up Store.empty evs) now q (Ecs.answerForH up q) (Ecs.depForH up q)).resp
      (Ecs.step cfg Store.empty now q (Ecs.answerForH up q) (Ecs.depForH up q)).resp := by
  have hinv := Ecs.invUpP_run cfg up _ Store.empty evs hb (by intro k e h; cases h)
  generalize Ecs.runUpH cfg up Store.empty evs = s at *
  obtain ⟨up', hup'⟩ : ∃ u, u = up q.cd q.ad := ⟨_, rfl⟩
  have ha : Ecs.answerForH up q = Ecs.answerFor up' q := by unfold Ecs.answerForH; rw [hup']
  have hdp : Ecs.depForH up q = Ecs.depFor up' q := by unfold Ecs.depForH; rw [hup']
  rw [ha, hdp]
  rw [← hup'] at hs hd
  have hfresh : (Ecs.step cfg Store.empty now q (Ecs.answerFor up' q) (Ecs.depFor up' q)).resp =
      Ecs.setAD (prepStore cfg q.qtype (echo q (Ecs.core up' q))).1 q := by
    unfold Ecs.step Ecs.lookup
    simp only [Store.live, Store.empty]
    split
    · rename_i h; split at h <;> cases h
    · split <;> rfl
  rw [hfresh]
  have key : ∀ k e, (k = Ecs.keyNo q ∨ (k = Ecs.keyDep q ∧ q.declined = false)) → s.live now k = some e →
      SameModTTL (Ecs.hit e.msg (now - e.at_) q) (Ecs.setAD (prepStore cfg q.qtype (echo q (Ecs.core up' q))).1 q) := by
    intro k e hk hl
    obtain ⟨hsk, _⟩ := live_some s now k e hl
    obtain ⟨q0, hP, hkey, hmsg, _⟩ := hinv k e hsk
    have hm0 := Ecs.matches_of_key q0 q _ k hk hkey
    obtain ⟨hcd, had⟩ := hP ⟨hm0.1, hm0.2.1, hm0.2.2.1, hm0.2.2.2.1, hm0.2.2.2.2.1⟩
    have hu0 : up q0.cd q0.ad = up' := by rw [hcd, had, hup']
    have hdep0 : Ecs.depForH up q0 = Ecs.depFor up' q0 := by unfold Ecs.depForH; rw [hu0]
    rw [hu0] at hmsg
    rw [hdep0] at hm0
    have hcore := Ecs.core_eq_of_matches up' hs hd q0 q hm0
    rw [hmsg, hcore, hm0.2.1]
    obtain ⟨ans0, hs0, hst0⟩ := prepStore_echo_fields cfg q.qtype q0 (Ecs.core up' q)
    obtain ⟨ans1, hs1, hst1⟩ := prepStore_echo_fields cfg q.qtype q (Ecs.core up' q)
    rw [hs0, hs1]
    refine ⟨rfl, rfl, rfl, rfl, rfl, rfl, ?_, ?_, ?_⟩
    · show strip (ans0.map _) = strip ans1
      rw [strip_map_setTTL, hst0, hst1]
    · show strip ((echo q0 (Ecs.core up' q)).ns.map _) = strip (echo q (Ecs.core up' q)).ns
      rw [strip_map_setTTL]; rfl
    · show strip ((echo q0 (Ecs.core up' q)).extra.map _) = strip (echo q (Ecs.core up' q)).extra
      rw [strip_map_setTTL]; rfl
  unfold Ecs.step
  split
  · rename_i e hl
    unfold Ecs.lookup at hl
    split at hl
    · rename_i e' hl'
      cases hl
      exact key _ e (Or.inl rfl) hl'
    · split at hl
      · cases hl
      · rename_i hdd
        have hd' : q.declined = false := by cases hq : q.declined <;> simp_all
        exact key _ e (Or.inr ⟨rfl, hd'⟩) hl
  · split <;> exact ⟨rfl, rfl, rfl, rfl, rfl, rfl, rfl, rfl, rfl⟩


/-- Non-vacuity (ECS): the hypothesis holds with a CD = 1 request for another type in the history, the
upstream `upValidatingE` satisfies the two contracts, and the CD = 0 asker is served from cache. -/
example : AllReq (fun q0 => Ecs.SameQuestion q0 (reqBits false false) → q0.cd = (reqBits false false).cd ∧ q0.ad = (reqBits false false).ad)
    [.inl (0, { reqBits true false with qtype := 28 }), .inl (0, reqBits false false)] := by
  refine ⟨fun h => ?_, fun _ => ⟨rfl, rfl⟩, trivial⟩
  exact absurd h.2.1 (by decide)
example : (Ecs.step ⟨0, false⟩ (Ecs.runUpH ⟨0, false⟩ upValidatingE Store.empty
    [.inl (0, { reqBits true false with qtype := 28 }), .inl (0, reqBits false false)]) 1 (reqBits false false)
    (Ecs.answerForH upValidatingE (reqBits false false)) (Ecs.depForH upValidatingE (reqBits false false))).hit = true := by
  decide +kernel

#print axioms Ecs.invUpP_run
#print axioms ecs_hit_equals_fresh_keyed_bits
#print axioms Simple.runUpH_uniform
#print axioms Ecs.runUpH_uniform
#print axioms simple_hit_equals_fresh_same_bits
#print axioms ecs_hit_equals_fresh_same_bits
#print axioms simple_cd_counterexample
#print axioms simple_ad_request_counterexample
#print axioms upValidatingE_honest
#print axioms upADReqE_honest
#print axioms ecs_cd_counterexample
#print axioms ecs_ad_request_counterexample

end Agd.Cache
#print axioms Agd.Tie.TrC04.translation_complete
#print axioms Agd.Tie.TrC04.ts_true
#print axioms Agd.Tie.TrC04.roundDiv_tr
#print axioms Agd.Tie.TrC04.roundDiv_sec
#print axioms Agd.Tie.TrC04.respIsECSDependent_tr
#print axioms Agd.Tie.TrC04.ecs_isCacheable_tr
#print axioms Agd.Tie.TrC04.simple_isCacheable_same
#print axioms Agd.Tie.TrC04.dnsmsg_getTTLIfLower_tr
#print axioms Agd.Tie.TrC04.simple_getTTLIfLower_same
#print axioms Agd.Tie.TrC04.prepStore_life
#print axioms Agd.Tie.TrC04.lifeOf_cast
#print axioms Agd.Tie.TrC04.simple_set_skips
#print axioms Agd.Tie.TrC04.simple_expiry
#print axioms Agd.Tie.TrC04.simple_set_tr
#print axioms Agd.Tie.TrC04.ecs_set_skips
#print axioms Agd.Tie.TrC04.ecs_expiry
#print axioms Agd.Tie.TrC04.ecs_set_tr
#print axioms Agd.Tie.TrC04.ttl_val
#print axioms Agd.Tie.TrC04.ttl_zero
#print axioms Agd.Tie.TrC04.fromCacheItem_tr
#print axioms Agd.Tie.TrC04.fromCacheItem_no_panic
#print axioms Agd.Tie.TrC04.ecs_get_tr
#print axioms Agd.Tie.TrC04.isCacheable_only_complete
#print axioms Agd.Tie.TrC04.getTTLIfLower_le
#print axioms Agd.Tie.TrC04.itemFromCache_miss
#print axioms Agd.Tie.TrC04.itemFromCache_hit
#print axioms Agd.Tie.TrC04.itemFromCache_no_panic
#print axioms Agd.Tie.TrC04.simple_set_stores
#print axioms Agd.Tie.TrC04.servfail_not_overridden
#print axioms Agd.Tie.TrC04.simple_set_no_panic
#print axioms Agd.Tie.TrC04.ecs_set_stores
#print axioms Agd.Tie.TrC04.get_noecs_hit
#print axioms Agd.Tie.TrC04.get_declined_miss
#print axioms Agd.Tie.TrC04.get_ecs_lookup
#print axioms Agd.Tie.TrC04.get_no_panic
#print axioms Agd.Tie.TrC04.upstream_store_order
#print axioms Agd.Tie.TrC04.upstream_bad_ecs_not_stored
#print axioms Agd.Tie.TrC04.upstream_no_panic
#print axioms Agd.Tie.TrC04.cache_toInternal_tr
#print axioms Agd.Tie.TrC04.cache_toInternal_panic
#print axioms Agd.Tie.TrC04.cache_validate_ok
#print axioms Agd.Tie.TrC04.wiring_model
#print axioms Agd.Tie.TrC04.locFromReq_no_panic
#print axioms Agd.Tie.TrC04.locFromReq_country
