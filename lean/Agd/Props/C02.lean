import Agd.Lemmas.Filter
import Agd.Tie.C02
/-!
# C02 — the filtering verdict follows rule precedence and the requester's blocking mode

Property theorems only.  They quantify over every configuration (`Cfg`: any custom list, any number
of shared lists in any order, any service lists, any subset of the five request filters with any
contents), every host name and query type, every upstream, every blocking mode and TTL.  The meaning
of one rule (`domMatch`, `TypeSel.ok`) is the modelled grammar; urlfilter's parser/matcher is tied
to it only by the correspondence run.
-/
namespace Agd.Filter

/-! ## Clause 1: a DNS-rewrite rule wins outright; custom first, then the shared lists in order -/

/-- **rewrite_wins.** If the rewrites of all sources before `(id, rs)` — in the order custom,
then shared lists as configured — produce nothing and those of `(id, rs)` produce `v`, then `v` is
the verdict of the whole request filter, whatever allow/block rules, services and request filters
say. -/
theorem rewrite_wins (c : Cfg) (host : Host) (qt : QType) (pre post : List (ListId × List Rule))
    (id : ListId) (rs : List Rule)
    (hsplit : c.rewriteSources = pre ++ (id, rs) :: post)
    (hpre : ∀ p ∈ pre, processRewrites host qt (rewriteHits p.2 host) p.1 = .none)
    (hne : processRewrites host qt (rewriteHits rs host) id ≠ .none) :
    filterRequest c host qt = processRewrites host qt (rewriteHits rs host) id := by
  have h1 := firstRewrite_split host qt pre post id rs hpre hne
  have hrw : (processRewrites host qt (rewriteHits rs host) id).isRewrite = true := by
    rcases processRewrites_cases host qt (rewriteHits rs host) id with h | h
    · exact absurd h hne
    · exact h
  have h2 : ruleListVerdict c host qt = processRewrites host qt (rewriteHits rs host) id := by
    unfold ruleListVerdict
    rw [hsplit, h1]
    revert hrw
    cases processRewrites host qt (rewriteHits rs host) id <;> simp [Verdict.isRewrite]
  unfold filterRequest
  rw [h2]
  revert hrw
  cases processRewrites host qt (rewriteHits rs host) id <;> simp [Verdict.isRewrite]

/-- Hypotheses of `rewrite_wins` with a non-empty prefix: the custom list has no rewrite for the
name, shared list 7 (configured first) rewrites to itself (a no-op), shared list 2 decides. -/
example : let c : Cfg := { custom := some [.net ["a", "test"] true .any],
                           lists := [(7, [.rewrite ["a", "test"] (.cname ["a", "test"])]),
                                     (2, [.rewrite ["a", "test"] (.rcode 5)]), (5, [.rewrite ["test"] (.ip4 "1.1.1.1")])] }
    c.rewriteSources = [(ListId.custom, [.net ["a", "test"] true .any]),
                        (.shared 7, [.rewrite ["a", "test"] (.cname ["a", "test"])])] ++
      (.shared 2, [.rewrite ["a", "test"] (.rcode 5)]) :: [(.shared 5, [.rewrite ["test"] (.ip4 "1.1.1.1")])] ∧
    processRewrites ["a", "test"] 1 (rewriteHits [.rewrite ["a", "test"] (.cname ["a", "test"])] ["a", "test"]) (.shared 7) = .none ∧
    filterRequest c ["a", "test"] 1 = .modResp (.shared 2) 5 [] := by decide

/-- **custom_rewrite_first.** The profile's own rewrite is consulted before every shared list. -/
theorem custom_rewrite_first (c : Cfg) (host : Host) (qt : QType) (rs : List Rule)
    (hc : c.custom = some rs)
    (hne : processRewrites host qt (rewriteHits rs host) .custom ≠ .none) :
    filterRequest c host qt = processRewrites host qt (rewriteHits rs host) .custom := by
  refine rewrite_wins c host qt [] (c.lists.map fun p => (ListId.shared p.1, p.2)) .custom rs ?_ ?_ hne
  · simp [Cfg.rewriteSources, hc]
  · intro p hp; cases hp

example : filterRequest
    { custom := some [.rewrite ["a", "test"] (.ip4 "203.0.113.1")],
      lists := [(0, [.rewrite ["a", "test"] (.cname ["t", "test"]), .net ["a", "test"] true .any])],
      sb := some { hosts := [["a", "test"]], repl := ["r", "test"] } }
    ["x", "a", "test"] qtA = .modResp .custom 0 ["203.0.113.1"] := by decide

/-- **services_never_rewrite.** A rewrite verdict of the rule lists carries the identity of the
custom list or of a shared list, never of a blocked-service list, and when no custom/shared list
rewrites, the rule lists yield no rewrite at all. -/
theorem services_never_rewrite (c : Cfg) (host : Host) (qt : QType)
    (h : firstRewrite host qt c.rewriteSources = .none) :
    (ruleListVerdict c host qt).isRewrite = false := by
  unfold ruleListVerdict
  rw [h]
  exact toInternal_not_rewrite ..

/-! ## Clause 2: an allow rule from any source beats every block rule; a matching block blocks -/

/-- All rule sources of a request: custom, shared lists, blocked services. -/
def Cfg.allSources (c : Cfg) : List (ListId × List Rule) := c.rewriteSources ++ c.svcSources

/-- **allow_beats_block.** With no rewrite in play, one matching allow rule in any source (custom,
any shared list, any blocked-service list) makes the rule-list verdict an allow — however many block
or hosts rules match anywhere — and the final request verdict is never a block. -/
theorem allow_beats_block (c : Cfg) (host : Host) (qt : QType)
    (hrw : firstRewrite host qt c.rewriteSources = .none)
    (hallow : ∃ y ∈ allNets c.allSources host qt, y.2.1 = true) :
    (∃ l, ruleListVerdict c host qt = .allowed l) ∧ ∀ l, filterRequest c host qt ≠ .blocked l := by
  obtain ⟨r, hr, ha⟩ := basicFrom_allow (allNets c.allSources host qt) Option.none (Or.inr hallow)
  have hrl : ruleListVerdict c host qt = .allowed r.1 := by
    unfold ruleListVerdict combined toInternal basicRule
    rw [hrw]
    simp only [Cfg.allSources] at hr
    obtain ⟨id, al, n⟩ := r
    simp only at ha
    subst ha
    simp [hr]
  refine ⟨⟨_, hrl⟩, ?_⟩
  intro l
  unfold filterRequest
  rw [hrl]
  have hshape := reqFilterVerdicts_shape c host qt
  rcases firstSome_mem (reqFilterVerdicts c host qt) with h | h
  · rw [h]; cases r.1 <;> simp
  · rcases hshape _ h with h' | h'
    · rw [h']; cases r.1 <;> simp
    · revert h'
      cases firstSome (reqFilterVerdicts c host qt) <;> cases r.1 <;> simp [Verdict.isRewrite]

/-- **block_blocks.** With no rewrite and no matching allow rule in any source, a matching block
rule (network rule, or hosts-style rule for exactly this name) blocks, and no request filter is
consulted. -/
theorem block_blocks (c : Cfg) (host : Host) (qt : QType)
    (hrw : firstRewrite host qt c.rewriteSources = .none)
    (hnoallow : ∀ y ∈ allNets c.allSources host qt, y.2.1 = false)
    (hblock : allNets c.allSources host qt ≠ [] ∨ allHosts c.allSources host qt false ≠ [] ∨
      allHosts c.allSources host qt true ≠ []) :
    ∃ l, ruleListVerdict c host qt = .blocked l ∧ filterRequest c host qt = .blocked l := by
  have key : ∃ l, ruleListVerdict c host qt = .blocked l := by
    unfold ruleListVerdict combined
    rw [hrw]
    simp only
    show ∃ l, toInternal (allNets c.allSources host qt) (allHosts c.allSources host qt false)
      (allHosts c.allSources host qt true) qt = .blocked l
    by_cases hn : allNets c.allSources host qt = []
    · unfold toInternal basicRule
      rw [hn]
      simp only [basicFrom]
      rcases hblock with h | h | h
      · exact absurd hn h
      · cases h4 : allHosts c.allSources host qt false with
        | nil => exact absurd h4 h
        | cons a as =>
          cases h6 : allHosts c.allSources host qt true with
          | nil => exact ⟨a, rfl⟩
          | cons b bs =>
            by_cases hq : (qt == qtAAAA) = true
            · exact ⟨b, by simp [hq]⟩
            · exact ⟨a, by simp [hq]⟩
      · cases h6 : allHosts c.allSources host qt true with
        | nil => exact absurd h6 h
        | cons b bs =>
          cases h4 : allHosts c.allSources host qt false with
          | nil => exact ⟨b, rfl⟩
          | cons a as =>
            by_cases hq : (qt == qtAAAA) = true
            · exact ⟨b, by simp [hq]⟩
            · exact ⟨a, by simp [hq]⟩
    · obtain ⟨r, hr, hf⟩ := basicFrom_block (allNets c.allSources host qt) Option.none
        (by intro x hx; cases hx) hnoallow (Or.inr hn)
      obtain ⟨id, al, n⟩ := r
      simp only at hf
      subst hf
      exact ⟨id, by simp [toInternal, basicRule, hr]⟩
  obtain ⟨l, hl⟩ := key
  exact ⟨l, hl, by unfold filterRequest; rw [hl]⟩

example : let c : Cfg := { custom := some [.net ["a", "test"] false .any],
                           lists := [(3, [.hosts false ["x", "a", "test"]])],
                           svcs := [(1, [.net ["x", "a", "test"] true (.only 1)])] }
    filterRequest c ["x", "a", "test"] 1 = .allowed (.svc 1) ∧
    filterRequest c ["x", "a", "test"] 28 = .blocked .custom := by decide

/-! ## Clause 3: unless the deciding allow is the profile's own, the request filters apply in order -/

/-- **custom_allow_stops.** When the deciding allow rule is the custom list's, nothing else is
consulted. -/
theorem custom_allow_stops (c : Cfg) (host : Host) (qt : QType)
    (h : ruleListVerdict c host qt = .allowed .custom) :
    filterRequest c host qt = .allowed .custom := by
  unfold filterRequest; rw [h]

/-- **other_allow_continues.** When the rule lists allow through a shared or service list, or say
nothing, the verdict is that of the first request filter that has one, and the rule-list verdict
only if none has. -/
theorem other_allow_continues (c : Cfg) (host : Host) (qt : QType)
    (h : ruleListVerdict c host qt = .none ∨ ∃ l, l ≠ .custom ∧ ruleListVerdict c host qt = .allowed l) :
    filterRequest c host qt =
      (if firstSome (reqFilterVerdicts c host qt) = .none then ruleListVerdict c host qt
       else firstSome (reqFilterVerdicts c host qt)) := by
  unfold filterRequest
  rcases h with h | ⟨l, hl, h⟩
  · rw [h]; cases firstSome (reqFilterVerdicts c host qt) <;> simp
  · rw [h]
    cases l <;> first | exact absurd rfl hl | (cases firstSome (reqFilterVerdicts c host qt) <;> simp)

/-- **request_filters_in_order.** The request filters are consulted in the order dangerous domains,
adult, general safe search, YouTube safe search, newly registered; the first one with a verdict
decides (stated for all five enabled; a disabled one is simply absent from the list). -/
theorem request_filters_in_order (c : Cfg) (host : Host) (qt : QType)
    (f1 f2 f5 : HashFilter) (g y : List Rule)
    (h1 : c.sb = some f1) (h2 : c.adult = some f2) (h3 : c.genSS = some g) (h4 : c.ytSS = some y)
    (h5 : c.newReg = some f5) :
    reqFilterVerdicts c host qt =
      [hashVerdict .safeBrowsing f1 host qt, hashVerdict .adult f2 host qt, ssVerdict .genSS g host qt,
       ssVerdict .ytSS y host qt, hashVerdict .newReg f5 host qt] ∧
    ∀ (pre post : List Verdict) (v : Verdict), reqFilterVerdicts c host qt = pre ++ v :: post →
      (∀ x ∈ pre, x = .none) → v ≠ .none → firstSome (reqFilterVerdicts c host qt) = v := by
  refine ⟨by simp [reqFilterVerdicts, optV, h1, h2, h3, h4, h5], ?_⟩
  intro pre post v hs hp hv
  rw [hs]
  exact firstSome_split pre post v hp hv

example : let c : Cfg := { lists := [(0, [.net ["a", "test"] true .any])],
                           adult := some { hosts := [["a", "test"]], repl := ["ad", "test"] },
                           newReg := some { hosts := [["test"]], repl := ["nr", "test"] } }
    filterRequest c ["a", "test"] 1 = .modReq .adult ["ad", "test"] ∧
    filterRequest c ["a", "test"] 16 = .allowed (.shared 0) := by decide

/-! ## Clause 4: request verdict over response verdict; filtering off -/

/-- **request_over_response.** Whenever the request filter has a verdict, the answer is determined
by it alone: the right-hand side does not mention the response filter. -/
theorem request_over_response (e : Env) (host : Host) (qt : QType) (c : Cfg)
    (hf : selectFilter e.sw e.prof e.grp = some c) (hv : filterRequest c host qt ≠ .none) :
    serve e host qt =
      match filterRequest c host qt with
      | .modReq _ t => { e.upstream t qt with
                         ans := synthRR host qtCNAME e.ttl (".".intercalate t) :: (e.upstream t qt).ans }
      | .blocked _ => (blockedResp e.mode e.ttl host qt).getD blockedFallback
      | .allowed _ => e.upstream host qt
      | .modResp _ rc vals => rewriteMsg host qt e.ttl rc vals
      | .none => e.upstream host qt := by
  unfold serve serveWith
  simp only [hf]
  revert hv
  cases filterRequest c host qt <;> simp

/-- A request-level allow is kept although the response filter would block the upstream answer. -/
example : let c : Cfg := { custom := some [.net ["a", "test"] true .any, .net ["192", "0", "2", "1"] false .any] }
    let up : Host → QType → Msg := fun _ _ =>
      { rcode := 0, ans := [{ name := ["a", "test"], typ := 1, val := "192.0.2.1", ttl := 7, up := true }], soa := none }
    let e : Env := { sw := ⟨true, true, true⟩, prof := c, grp := {}, mode := .nxdomain, ttl := 10, upstream := up }
    filterResponse c [.a ["192", "0", "2", "1"]] = .blocked .custom ∧
    filterRequest c ["a", "test"] 1 = .allowed .custom ∧
    serve e ["a", "test"] 1 = up ["a", "test"] 1 := by decide

/-- **filtering_off_is_empty.** With filtering disabled for the profile or for the device, the
client gets the upstream answer unchanged. -/
theorem filtering_off_is_empty (e : Env) (host : Host) (qt : QType)
    (hp : e.sw.hasProfile = true) (hoff : e.sw.profOn = false ∨ e.sw.devOn = false) :
    serve e host qt = e.upstream host qt := by
  have : selectFilter e.sw e.prof e.grp = Option.none := by
    unfold selectFilter
    rcases hoff with h | h <;> simp [hp, h]
  unfold serve serveWith
  simp [this]

example : let e : Env := { sw := ⟨true, true, false⟩, prof := { custom := some [.net ["test"] false .any] },
                           grp := {}, mode := .nullIP, ttl := 10,
                           upstream := fun _ _ => { rcode := 0, ans := [], soa := none, upNs := 1 } }
    serve e ["a", "test"] 1 = { rcode := 0, ans := [], soa := none, upNs := 1 } := by decide

/-! ## Clause 5: shape of a blocked answer; no upstream data -/

/-- The query is blocked: by the request filter, or — the request filter being silent — by the
response filter on the upstream answer. -/
def Blocked (e : Env) (host : Host) (qt : QType) : Prop :=
  ∃ c, selectFilter e.sw e.prof e.grp = some c ∧
    ((∃ l, filterRequest c host qt = .blocked l) ∨
     (filterRequest c host qt = .none ∧
      ∃ l, filterResponse c ((e.upstream host qt).ans.map ansOf) = .blocked l))

theorem serve_blocked (e : Env) (host : Host) (qt : QType) (h : Blocked e host qt) :
    serve e host qt = (blockedResp e.mode e.ttl host qt).getD blockedFallback := by
  obtain ⟨c, hf, h⟩ := h
  unfold serve serveWith
  simp only [hf]
  rcases h with ⟨l, h⟩ | ⟨h, l, hl⟩
  · rw [h]
  · rw [h]; simp only; rw [hl]

/-- **blocked_shape.** A blocked query is answered in the shape of the requester's blocking mode,
every synthesised record and the SOA carrying the profile's TTL: null IP (`0.0.0.0` / `::`, NODATA
with SOA for other types), custom IP (the configured addresses of the family, NODATA when the family
has none or for other types), NXDOMAIN with SOA, REFUSED with SOA. -/
theorem blocked_shape (e : Env) (host : Host) (qt : QType) (h : Blocked e host qt)
    (hwf : e.mode.WF = true) :
    serve e host qt =
      match e.mode with
      | .nullIP =>
        if qt = qtA then { rcode := 0, ans := [synthRR host qtA e.ttl "0.0.0.0"], soa := none }
        else if qt = qtAAAA then { rcode := 0, ans := [synthRR host qtAAAA e.ttl "::"], soa := none }
        else { rcode := 0, ans := [], soa := some e.ttl }
      | .customIP v4 v6 =>
        if qt = qtA ∧ v4 ≠ [] then
          { rcode := 0, ans := v4.map (fun p => synthRR host qtA e.ttl p.2), soa := none }
        else if qt = qtAAAA ∧ v6 ≠ [] then
          { rcode := 0, ans := v6.map (fun p => synthRR host qtAAAA e.ttl p.2), soa := none }
        else { rcode := 0, ans := [], soa := some e.ttl }
      | .nxdomain => { rcode := 3, ans := [], soa := some e.ttl }
      | .refused => { rcode := 5, ans := [], soa := some e.ttl } := by
  rw [serve_blocked e host qt h]
  cases hm : e.mode with
  | nullIP =>
    simp only [blockedResp, nodata]
    by_cases h1 : qt = qtA
    · simp [h1]
    · by_cases h2 : qt = qtAAAA
      · subst h2; simp [qtA, qtAAAA]
      · simp [h1, h2]
  | customIP v4 v6 =>
    rw [hm] at hwf
    simp only [Mode.WF, Bool.and_eq_true] at hwf
    simp only [blockedResp, nodata]
    by_cases h1 : qt = qtA
    · subst h1
      by_cases hv : v4 = []
      · subst hv; simp [qtA, qtAAAA]
      · have : v4.isEmpty = false := by cases v4 <;> simp_all
        simp [this, hv, hwf.1]
    · by_cases h2 : qt = qtAAAA
      · subst h2
        by_cases hv : v6 = []
        · subst hv; simp [qtA, qtAAAA]
        · have : v6.isEmpty = false := by cases v6 <;> simp_all
          simp [this, hv, hwf.2, qtA, qtAAAA]
      · simp [h1, h2]
  | nxdomain => simp [blockedResp]
  | refused => simp [blockedResp]

example : let e : Env := { sw := ⟨false, false, false⟩, prof := {}, grp := { lists := [(0, [.net ["test"] false .any])] },
                           mode := .customIP [(true, "198.51.100.1")] [], ttl := 30,
                           upstream := fun _ _ => { rcode := 0, ans := [], soa := none } }
    e.mode.WF = true ∧ (serve e ["a", "test"] 1).ans = [synthRR ["a", "test"] 1 30 "198.51.100.1"] ∧
    serve e ["a", "test"] 28 = { rcode := 0, ans := [], soa := some 30 } := by decide

/-- Nothing in the message was obtained from upstream. -/
def NoUpstream (m : Msg) : Prop := (∀ r ∈ m.ans, r.up = false) ∧ m.upNs = 0

/-- **blocked_no_upstream.** The answer to a blocked query contains no record obtained from
upstream — for every blocking mode, including custom-IP lists with addresses of the wrong family
(where the blocked response cannot be built and the fixed code answers SERVFAIL). -/
theorem blocked_no_upstream (e : Env) (host : Host) (qt : QType) (h : Blocked e host qt) :
    NoUpstream (serve e host qt) := by
  rw [serve_blocked e host qt h]
  unfold NoUpstream
  cases hm : e.mode with
  | nullIP =>
    simp only [blockedResp, nodata]
    split
    · simp [synthRR]
    · split <;> simp [synthRR]
  | customIP v4 v6 =>
    simp only [blockedResp, nodata]
    split
    · split
      · refine ⟨?_, by simp⟩
        intro r hr
        simp only [Option.getD_some, List.mem_map] at hr
        obtain ⟨p, _, rfl⟩ := hr
        rfl
      · simp [blockedFallback]
    · split
      · split
        · refine ⟨?_, by simp⟩
          intro r hr
          simp only [Option.getD_some, List.mem_map] at hr
          obtain ⟨p, _, rfl⟩ := hr
          rfl
        · simp [blockedFallback]
      · simp
  | nxdomain => simp [blockedResp]
  | refused => simp [blockedResp]

/-- **rewrite_no_upstream.** A `$dnsrewrite` answer (IP values or rcode) is synthesised entirely,
with the profile's TTL. -/
theorem rewrite_no_upstream (e : Env) (host : Host) (qt : QType) (c : Cfg) (l : ListId) (rc : Nat)
    (vals : List String) (hf : selectFilter e.sw e.prof e.grp = some c)
    (hv : filterRequest c host qt = .modResp l rc vals) :
    NoUpstream (serve e host qt) ∧ ∀ r ∈ (serve e host qt).ans, r.ttl = e.ttl := by
  have : serve e host qt = rewriteMsg host qt e.ttl rc vals := by
    rw [request_over_response e host qt c hf (by rw [hv]; simp), hv]
  rw [this]
  simp [NoUpstream, rewriteMsg, synthRR]

/-- An environment in which a block rule matches and the custom-IP mode is ill-formed (an IPv6
address in the IPv4 list, which `backendpb`'s `UnmarshalBinary` lets through). -/
def leakEnv : Env :=
  { sw := ⟨true, true, true⟩, prof := { custom := some [.net ["a", "test"] false .any] }, grp := {},
    mode := .customIP [(false, "2001:db8::4")] [], ttl := 10,
    upstream := fun _ _ =>
      { rcode := 0, ans := [{ name := ["a", "test"], typ := 1, val := "192.0.2.1", ttl := 7777, up := true }],
        soa := none } }

/-- `Blocked` is satisfiable (request-level block; `leakEnv` has an ill-formed mode, which
`blocked_no_upstream` covers and `blocked_shape` excludes by `WF`). -/
example : Blocked leakEnv ["a", "test"] 1 ∧ leakEnv.mode.WF = false ∧
    serve leakEnv ["a", "test"] 1 = blockedFallback :=
  ⟨⟨leakEnv.prof, rfl, Or.inl ⟨.custom, by decide⟩⟩, by decide, by decide⟩

/-- **blocked_leaks_upstream_counterexample.** Before the fix (`serveUnfixed`: fall back to the
upstream reply when `NewBlockedResp` fails) the property was false: the blocked query
`a.test A` of `leakEnv` was answered with the upstream record. -/
theorem blocked_leaks_upstream_counterexample :
    ¬ (∀ (e : Env) (host : Host) (qt : QType), Blocked e host qt → NoUpstream (serveUnfixed e host qt)) := by
  intro h
  have hb : Blocked leakEnv ["a", "test"] 1 :=
    ⟨leakEnv.prof, rfl, Or.inl ⟨.custom, by decide⟩⟩
  have := (h leakEnv ["a", "test"] 1 hb).1
    { name := ["a", "test"], typ := 1, val := "192.0.2.1", ttl := 7777, up := true } (by decide)
  exact absurd this (by decide)

#print axioms rewrite_wins
#print axioms custom_rewrite_first
#print axioms services_never_rewrite
#print axioms allow_beats_block
#print axioms block_blocks
#print axioms custom_allow_stops
#print axioms other_allow_continues
#print axioms request_filters_in_order
#print axioms request_over_response
#print axioms filtering_off_is_empty
#print axioms serve_blocked
#print axioms blocked_shape
#print axioms blocked_no_upstream
#print axioms rewrite_no_upstream
#print axioms blocked_leaks_upstream_counterexample

end Agd.Filter
